(* C01, layer B: the spec tokenizer run on the string of a piece list.  For a piece list
   whose names and attributes are valid and whose content pieces are escaped text, the
   tokenizer succeeds and yields one token per tag piece and one TChars per maximal run of
   whitespace / text pieces. *)
From Coq Require Import Lia.
From HT Require Import Model.Str Model.Tree Model.Escape Model.Render Gen.Tables
     Spec.CharMap Spec.Tokenizer Spec.TreeElems Proofs.EscapeProofs.

Local Arguments html_escape : simpl never.
Local Arguments mem_str : simpl never.

(* ------------------------------------------------------------------ *)
(* the token stream of a piece list                                     *)
(* ------------------------------------------------------------------ *)
Definition low_attrs (a : attrs) : list (str * str) :=
  map (fun kv => (lower (fst kv), aval_text (snd kv))) a.

Definition tok_of_piece (p : piece) : token :=
  match p with
  | PWs s => TChars s
  | PTxt s => TChars s
  | PRaw s => TChars s
  | POpen n a _ => TStart (lower n) (low_attrs a) false
  | PSelf n a _ => TStart (lower n) (low_attrs a) true
  | PClose n _ => TEnd (lower n)
  end.
Definition toks_of_pieces (ps : list piece) : list token := map tok_of_piece ps.

(* adjacent TChars concatenated, empty ones dropped *)
Definition flush_chars (p : str) : list token :=
  match p with [] => [] | _ => [TChars p] end.
Fixpoint merge_from (p : str) (ts : list token) : list token :=
  match ts with
  | [] => flush_chars p
  | TChars s :: r => merge_from (p ++ s) r
  | t :: r => flush_chars p ++ t :: merge_from [] r
  end.
Definition merge_chars (ts : list token) : list token := merge_from [] ts.

Definition piece_ok (p : piece) : bool :=
  match p with
  | PWs s => ws_only s
  | POpen n a _ => valid_name n && valid_attrs a
  | PSelf n a _ => valid_name n && valid_attrs a
  | PClose n _ => valid_name n
  | PTxt _ => true
  | PRaw _ => false
  end.
Definition tokenizable (ps : list piece) : bool := forallb piece_ok ps.

(* ------------------------------------------------------------------ *)
(* unfolding lemmas (the matches on code points are decided bit by bit)  *)
(* ------------------------------------------------------------------ *)
Ltac split_pos p H :=
  try (destruct p as [p|p|]; try reflexivity; try (cbv in H; discriminate H)).

Lemma tokens_fuel_chars f c s :
  (c =? 60) = false ->
  tokens_fuel (S f) (c :: s) =
  (let (t, r) := span_text (c :: s) in
   match decode t with
   | Some d => option_map (cons (TChars d)) (tokens_fuel f r)
   | None => None
   end).
Proof.
  intros H. destruct c as [|p]; [reflexivity|].
  do 7 (split_pos p H).
Qed.

Lemma tokens_fuel_start f c r :
  (c =? 47) = false ->
  tokens_fuel (S f) (60 :: c :: r) =
  (let (n, r1) := span_name (c :: r) in
   match n with
   | c0 :: _ =>
     if is_alpha c0 then
       match attrs_fuel (S (length r1)) r1 with
       | Some (a, sc, r2) =>
         if nodup_keys a then option_map (cons (TStart (lower n) a sc)) (tokens_fuel f r2)
         else None
       | None => None
       end
     else None
   | [] => None
   end).
Proof.
  intros H. destruct c as [|p]; [reflexivity|].
  do 7 (split_pos p H).
Qed.

Lemma tokens_fuel_end f r :
  tokens_fuel (S f) (60 :: 47 :: r) =
  (let (n, r1) := span_name r in
   match n, skip_ws r1 with
   | c :: _, 62 :: r2 =>
     if is_alpha c then option_map (cons (TEnd (lower n))) (tokens_fuel f r2) else None
   | _, _ => None
   end).
Proof. reflexivity. Qed.

Lemma attrs_fuel_gt f r : attrs_fuel (S f) (62 :: r) = Some ([], false, r).
Proof. reflexivity. Qed.
Lemma attrs_fuel_sgt f r : attrs_fuel (S f) (47 :: 62 :: r) = Some ([], true, r).
Proof. reflexivity. Qed.

Lemma attrs_fuel_attr f c X :
  name_char c = true ->
  attrs_fuel (S f) (32 :: c :: X) =
  (let (k, r1) := span_name (c :: X) in
   match k, r1 with
   | _ :: _, 61 :: 34 :: r2 =>
     match until_quote r2 with
     | Some (raw, r3) =>
       match decode raw, attrs_fuel f r3 with
       | Some v, Some (rest, sc, r4) => Some ((lower k, v) :: rest, sc, r4)
       | _, _ => None
       end
     | None => None
     end
   | _, _ => None
   end).
Proof.
  intros H. destruct c as [|p]; [cbv in H; discriminate H|].
  do 7 (split_pos p H).
Qed.

(* ------------------------------------------------------------------ *)
(* character classes                                                    *)
(* ------------------------------------------------------------------ *)
Lemma is_alpha_not47 c : is_alpha c = true -> (c =? 47) = false.
Proof.
  intros H. destruct (c =? 47) eqn:E; [|reflexivity].
  apply N.eqb_eq in E. subst c. cbv in H. discriminate H.
Qed.

Lemma name_char_not_ws c : name_char c = true -> is_ws c = false.
Proof.
  unfold name_char. intros H. destruct (is_ws c); [discriminate H|reflexivity].
Qed.

Lemma is_ws_not c k : is_ws c = true -> is_ws k = false -> (c =? k) = false.
Proof.
  intros Hc Hk. destruct (c =? k) eqn:E; [|reflexivity].
  apply N.eqb_eq in E. subst. congruence.
Qed.

Lemma skip_ws_stop c r : is_ws c = false -> skip_ws (c :: r) = c :: r.
Proof. intros H. cbn [skip_ws]. rewrite H. reflexivity. Qed.

Lemma span_name_app n c r :
  forallb name_char n = true -> name_char c = false ->
  span_name (n ++ c :: r) = (n, c :: r).
Proof.
  intros Hn Hc. induction n as [|x n IH]; cbn [app span_name].
  - rewrite Hc. reflexivity.
  - cbn [forallb] in Hn. apply andb_true_iff in Hn as [Hx Hn].
    rewrite Hx, (IH Hn). reflexivity.
Qed.

Lemma until_quote_app v r : ~ In 34 v -> until_quote (v ++ 34 :: r) = Some (v, r).
Proof.
  intros H. induction v as [|c v IH]; cbn [app until_quote]; [reflexivity|].
  destruct (c =? 34) eqn:E.
  - apply N.eqb_eq in E. subst. exfalso. apply H. left. reflexivity.
  - rewrite IH; [reflexivity|]. intros Hin. apply H. right. exact Hin.
Qed.

Lemma span_text_app e R :
  ~ In 60 e -> span_text R = ([], R) -> span_text (e ++ R) = (e, R).
Proof.
  intros H HR. induction e as [|c e IH]; cbn [app]; [exact HR|].
  cbn [span_text]. destruct (c =? 60) eqn:E.
  - apply N.eqb_eq in E. subst. exfalso. apply H. left. reflexivity.
  - rewrite IH; [reflexivity|]. intros Hin. apply H. right. exact Hin.
Qed.

Lemma span_text_nil : span_text [] = ([], []).
Proof. reflexivity. Qed.
Lemma span_text_lt X : span_text (60 :: X) = ([], 60 :: X).
Proof. reflexivity. Qed.

(* ------------------------------------------------------------------ *)
(* chunks: encoded character data e that decodes to d, and after which   *)
(* the decoder is outside any reference                                  *)
(* ------------------------------------------------------------------ *)
Definition chunk (e d : str) : Prop :=
  (forall r, unesc 0 (e ++ r) = d ++ unesc 0 r)
  /\ (forall r, amp_ok refs (e ++ r) = amp_ok refs r)
  /\ ~ In 60 e
  /\ (d = [] -> e = []).

Lemma chunk_nil : chunk [] [].
Proof. repeat split; auto. Qed.

Lemma chunk_app e1 d1 e2 d2 : chunk e1 d1 -> chunk e2 d2 -> chunk (e1 ++ e2) (d1 ++ d2).
Proof.
  intros (U1 & A1 & L1 & N1) (U2 & A2 & L2 & N2). repeat split.
  - intros r. rewrite <- !app_assoc, U1, U2. reflexivity.
  - intros r. rewrite <- app_assoc, A1, A2. reflexivity.
  - intros Hin. apply in_app_or in Hin as [Hin|Hin]; auto.
  - intros Hd. apply app_eq_nil in Hd as [H1 H2]. rewrite (N1 H1), (N2 H2). reflexivity.
Qed.

Lemma chunk_decode e d : chunk e d -> decode e = Some d.
Proof.
  intros (U & A & _ & _). unfold decode, unescape.
  specialize (U []). specialize (A []). rewrite app_nil_r in U, A.
  rewrite A, U. cbn [amp_ok unesc]. rewrite app_nil_r. reflexivity.
Qed.

Lemma chunk_ws w : ws_only w = true -> chunk w w.
Proof.
  unfold ws_only. intros H. repeat split.
  - intros r. induction w as [|c w IH]; [reflexivity|].
    cbn [forallb] in H. apply andb_true_iff in H as [Hc Hw].
    cbn [app]. rewrite unesc_plain, (IH Hw); [reflexivity|].
    apply N.eqb_neq, is_ws_not; [exact Hc|reflexivity].
  - intros r. induction w as [|c w IH]; [reflexivity|].
    cbn [forallb] in H. apply andb_true_iff in H as [Hc Hw].
    cbn [app]. rewrite amp_ok_cons_other; [exact (IH Hw)|].
    apply N.eqb_neq, is_ws_not; [exact Hc|reflexivity].
  - intros Hin. rewrite forallb_forall in H. specialize (H _ Hin). cbv in H. discriminate H.
  - auto.
Qed.

Lemma chunk_esc s : chunk (html_escape false s) s.
Proof.
  rewrite escape_is_charmap. repeat split.
  - intros r. unfold spec_escape.
    induction s as [|c s IH]; cbn [flat_map]; [reflexivity|].
    rewrite <- app_assoc.
    unfold esc_text_char; case_char c;
      repeat match goal with E : (_ =? _) = true |- _ => apply N.eqb_eq in E; subst end;
      try (cbn; f_equal; exact IH).
    cbn [app]. rewrite unesc_plain; [f_equal; exact IH | apply N.eqb_neq; assumption].
  - intros r. unfold spec_escape.
    induction s as [|c s IH]; cbn [flat_map]; [reflexivity|].
    rewrite <- app_assoc.
    unfold esc_text_char; case_char c; cbn [app]; try exact IH.
    rewrite amp_ok_cons_other; [exact IH|]. apply N.eqb_neq; assumption.
  - apply (none_of_In _ _ (text_no_lt_gt s)). left. reflexivity.
  - intros ->. reflexivity.
Qed.

Lemma decode_attr v : decode (html_escape true v) = Some v.
Proof.
  rewrite escape_is_charmap. unfold decode.
  rewrite attr_amp_ok, unescape_escape. reflexivity.
Qed.

(* ------------------------------------------------------------------ *)
(* attributes                                                           *)
(* ------------------------------------------------------------------ *)
Definition attrs_plain (a : attrs) : bool :=
  forallb (fun kv => valid_attr_name (fst kv) && aval_is_plain (snd kv)) a.

Lemma length_attrs_str a : (length a <= length (attrs_str a))%nat.
Proof.
  induction a as [|kv a IH]; [apply le_n|].
  unfold attrs_str in *. cbn [flat_map length]. rewrite app_length.
  unfold attr_str at 1. cbn [app length]. lia.
Qed.

Lemma attrs_fuel_attrs a :
  attrs_plain a = true ->
  forall f tail sc rest,
    (length a < f)%nat ->
    (tail = 62 :: rest /\ sc = false) \/ (tail = 47 :: 62 :: rest /\ sc = true) ->
    attrs_fuel f (attrs_str a ++ tail) = Some (low_attrs a, sc, rest).
Proof.
  unfold attrs_plain.
  induction a as [|[k v] a IH]; intros Ha f tail sc rest Hf Ht.
  - destruct f as [|f]; [inversion Hf|]. cbn [attrs_str flat_map app low_attrs map].
    destruct Ht as [[-> ->]|[-> ->]]; reflexivity.
  - cbn [forallb fst snd] in Ha. apply andb_true_iff in Ha as [Hkv Ha].
    apply andb_true_iff in Hkv as [Hk Hv].
    destruct v as [v|v]; [|discriminate Hv].
    destruct k as [|c k]; [discriminate Hk|].
    cbn [valid_attr_name] in Hk. pose proof Hk as Hk'.
    cbn [forallb] in Hk'. apply andb_true_iff in Hk' as [Hc _].
    destruct f as [|f]; [inversion Hf|]. cbn [length] in Hf.
    unfold attrs_str. cbn [flat_map]. fold (attrs_str a).
    unfold attr_str. cbn [fst snd]. rewrite <- !app_assoc. cbn [app].
    rewrite (attrs_fuel_attr f c _ Hc).
    change (c :: k ++ 61 :: 34 :: html_escape true v ++ 34 :: attrs_str a ++ tail)
      with ((c :: k) ++ 61 :: 34 :: html_escape true v ++ 34 :: attrs_str a ++ tail).
    rewrite span_name_app; [|exact Hk|reflexivity].
    rewrite until_quote_app.
    + rewrite decode_attr, (IH Ha f tail sc rest); [reflexivity|lia|exact Ht].
    + rewrite escape_is_charmap.
      apply (none_of_In _ _ (attr_no_special v)). left. reflexivity.
Qed.

(* the character after a tag name is never a name character *)
Lemma attrs_tail_head a tail c0 X :
  tail = c0 :: X -> name_char c0 = false ->
  exists c1 Y, attrs_str a ++ tail = c1 :: Y /\ name_char c1 = false.
Proof.
  intros -> H0. destruct a as [|kv a].
  - exists c0, X. split; [reflexivity|exact H0].
  - exists 32. eexists. split; [reflexivity|reflexivity].
Qed.

(* ------------------------------------------------------------------ *)
(* one tag piece                                                        *)
(* ------------------------------------------------------------------ *)
Lemma valid_attrs_split a :
  valid_attrs a = true -> attrs_plain a = true /\ nodup_keys (low_attrs a) = true.
Proof. unfold valid_attrs. intros H. apply andb_true_iff in H. exact H. Qed.

Lemma tok_start f name a tail sc rest :
  valid_name name = true -> valid_attrs a = true ->
  (tail = 62 :: rest /\ sc = false) \/ (tail = 47 :: 62 :: rest /\ sc = true) ->
  tokens_fuel (S f) (60 :: name ++ attrs_str a ++ tail) =
  option_map (cons (TStart (lower name) (low_attrs a) sc)) (tokens_fuel f rest).
Proof.
  intros Hn Ha Ht. destruct name as [|c n]; [discriminate Hn|].
  cbn [valid_name] in Hn. apply andb_true_iff in Hn as [Hc Hn].
  apply valid_attrs_split in Ha as [Hp Hd].
  cbn [app]. rewrite tokens_fuel_start by (apply is_alpha_not47, Hc).
  assert (exists c1 Y, attrs_str a ++ tail = c1 :: Y /\ name_char c1 = false) as (c1 & Y & EY & Hc1).
  { destruct Ht as [[-> _]|[-> _]]; eapply attrs_tail_head; reflexivity. }
  change (c :: n ++ attrs_str a ++ tail) with ((c :: n) ++ attrs_str a ++ tail).
  rewrite EY, span_name_app by assumption. rewrite <- EY.
  rewrite Hc.
  rewrite (attrs_fuel_attrs a Hp _ tail sc rest).
  - rewrite Hd. reflexivity.
  - rewrite app_length. pose proof (length_attrs_str a). lia.
  - exact Ht.
Qed.

Lemma tok_open f name a b rest :
  valid_name name = true -> valid_attrs a = true ->
  tokens_fuel (S f) (piece_str (POpen name a b) ++ rest) =
  option_map (cons (TStart (lower name) (low_attrs a) false)) (tokens_fuel f rest).
Proof.
  intros Hn Ha. cbn [piece_str]. rewrite <- !app_assoc. cbn [app].
  apply tok_start; [exact Hn|exact Ha|]. left. split; reflexivity.
Qed.

Lemma tok_self f name a b rest :
  valid_name name = true -> valid_attrs a = true ->
  tokens_fuel (S f) (piece_str (PSelf name a b) ++ rest) =
  option_map (cons (TStart (lower name) (low_attrs a) true)) (tokens_fuel f rest).
Proof.
  intros Hn Ha. cbn [piece_str]. rewrite <- !app_assoc. cbn [app].
  apply tok_start; [exact Hn|exact Ha|]. right. split; reflexivity.
Qed.

Lemma tok_close f name b rest :
  valid_name name = true ->
  tokens_fuel (S f) (piece_str (PClose name b) ++ rest) =
  option_map (cons (TEnd (lower name))) (tokens_fuel f rest).
Proof.
  intros Hn. cbn [piece_str]. rewrite <- !app_assoc. cbn [app].
  rewrite tokens_fuel_end.
  destruct name as [|c n]; [discriminate Hn|].
  cbn [valid_name] in Hn. apply andb_true_iff in Hn as [Hc Hn].
  rewrite span_name_app; [|exact Hn|reflexivity].
  rewrite skip_ws_stop by reflexivity. rewrite Hc. reflexivity.
Qed.

(* ------------------------------------------------------------------ *)
(* a chunk of character data followed by a tag or by the end            *)
(* ------------------------------------------------------------------ *)
Lemma tokens_flush e d R f :
  chunk e d -> span_text R = ([], R) -> (length e < f)%nat ->
  exists f', (f <= f' + length e)%nat /\ (f' <= f)%nat /\
    tokens_fuel f (e ++ R) =
    match tokens_fuel f' R with Some ts => Some (flush_chars d ++ ts) | None => None end.
Proof.
  intros Hch HR Hf. destruct e as [|c e].
  - exists f. split; [cbn [length]; lia|]. split; [lia|].
    destruct Hch as (U & _ & _ & _). specialize (U []). cbn [app unesc] in U.
    rewrite app_nil_r in U. subst d. cbn [app flush_chars].
    destruct (tokens_fuel f R); reflexivity.
  - destruct f as [|f]; [inversion Hf|]. exists f.
    split; [cbn [length]; lia|]. split; [lia|].
    pose proof (chunk_decode _ _ Hch) as Hd.
    destruct Hch as (_ & _ & L & N).
    cbn [app]. rewrite tokens_fuel_chars.
    + change (c :: e ++ R) with ((c :: e) ++ R). rewrite (span_text_app _ _ L HR), Hd.
      destruct d as [|x d]; [specialize (N eq_refl); discriminate N|].
      cbn [flush_chars app]. destruct (tokens_fuel f R); reflexivity.
    + destruct (c =? 60) eqn:E; [|reflexivity].
      apply N.eqb_eq in E. subst. exfalso. apply L. left. reflexivity.
Qed.

Lemma piece_str_tag_lt p :
  match p with POpen _ _ _ | PSelf _ _ _ | PClose _ _ => True | _ => False end ->
  forall rest, exists X, piece_str p ++ rest = 60 :: X /\ (1 <= length (piece_str p))%nat.
Proof.
  destruct p; intros H rest; try contradiction; cbn [piece_str app length];
    (eexists; split; [reflexivity|lia]).
Qed.

(* ------------------------------------------------------------------ *)
(* the whole piece list                                                 *)
(* ------------------------------------------------------------------ *)
Lemma tokens_pieces ps :
  tokenizable ps = true ->
  forall e d f, chunk e d -> (length (e ++ pieces_str ps) < f)%nat ->
    tokens_fuel f (e ++ pieces_str ps) = Some (merge_from d (toks_of_pieces ps)).
Proof.
  unfold tokenizable, pieces_str, toks_of_pieces.
  induction ps as [|p ps IH]; intros Hok e d f Hch Hf.
  - cbn [flat_map map merge_from] in *.
    destruct (tokens_flush e d [] f Hch span_text_nil) as (f' & H1 & H2 & ->).
    { rewrite app_length in Hf. lia. }
    destruct f' as [|f']; [rewrite app_length in Hf; cbn [length] in Hf; lia|].
    cbn [tokens_fuel]. rewrite app_nil_r. reflexivity.
  - cbn [forallb] in Hok. apply andb_true_iff in Hok as [Hp Hok].
    cbn [flat_map map]. cbn [flat_map] in Hf.
    assert (Htag : forall tok,
               match p with POpen _ _ _ | PSelf _ _ _ | PClose _ _ => True | _ => False end ->
               (forall g rest, tokens_fuel (S g) (piece_str p ++ rest)
                               = option_map (cons tok) (tokens_fuel g rest)) ->
               tokens_fuel f (e ++ piece_str p ++ flat_map piece_str ps)
               = Some (flush_chars d ++ tok :: merge_from [] (map tok_of_piece ps))).
    { intros tok Hshape Hstep.
      destruct (piece_str_tag_lt p Hshape (flat_map piece_str ps)) as (X & EX & Hlen).
      destruct (tokens_flush e d (piece_str p ++ flat_map piece_str ps) f Hch) as (f' & H1 & H2 & ->).
      { rewrite EX. apply span_text_lt. }
      { rewrite app_length in Hf. lia. }
      rewrite !app_length in Hf.
      destruct f' as [|f']; [lia|].
      rewrite Hstep.
      pose proof (IH Hok [] [] f' chunk_nil) as IH'. cbn [app] in IH'.
      rewrite IH' by lia. reflexivity. }
    destruct p as [s|name a b|name a b|name b|s|s]; cbn [piece_ok] in Hp;
      cbn [tok_of_piece merge_from].
    + rewrite app_assoc. apply IH; [exact Hok| |rewrite <- app_assoc; exact Hf].
      apply chunk_app; [exact Hch|apply chunk_ws, Hp].
    + apply andb_true_iff in Hp as [Hn Ha].
      apply Htag; [exact I|]. intros g rest. apply tok_open; assumption.
    + apply andb_true_iff in Hp as [Hn Ha].
      apply Htag; [exact I|]. intros g rest. apply tok_self; assumption.
    + apply Htag; [exact I|]. intros g rest. apply tok_close; assumption.
    + rewrite app_assoc. apply IH; [exact Hok| |rewrite <- app_assoc; exact Hf].
      apply chunk_app; [exact Hch|apply chunk_esc].
    + discriminate Hp.
Qed.

Theorem tokenize_pieces ps :
  tokenizable ps = true ->
  tokenize (pieces_str ps) = Some (merge_chars (toks_of_pieces ps)).
Proof.
  intros H. unfold tokenize, merge_chars.
  apply (tokens_pieces ps H [] [] _ chunk_nil). cbn [app]. lia.
Qed.

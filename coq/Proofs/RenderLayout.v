(* C06 core: a validly nested tree renders as the layout of its documented line structure. *)
From Coq Require Import Arith Lia.
From HT Require Import Model.Str Model.Tree Model.Escape Model.Render Gen.Tables Spec.Layout
  Proofs.RenderInline.

Local Arguments mem_str : simpl never.
Local Arguments html_escape : simpl never.

(* ---------- facts about join / layout, independent of the tree ---------- *)

Lemma join_cons2 sep x y r : join sep (x :: y :: r) = x ++ sep ++ join sep (y :: r).
Proof. reflexivity. Qed.

Lemma indent_str_add (k m : nat) : indent_str (k + m) = indent_str k ++ indent_str m.
Proof. induction k as [|k IH]; [reflexivity|]. cbn [Nat.add indent_str app]. rewrite IH. reflexivity. Qed.

(* what follows a non-empty group of lines: a separator and the remaining lines, if any *)
Definition tail_str (i : nat) (eol : str) (T : list line) : str :=
  match T with [] => [] | _ :: _ => eol ++ layout i eol T end.

Lemma tail_str_cons i eol y T : tail_str i eol (y :: T) = eol ++ layout i eol (y :: T).
Proof. reflexivity. Qed.

Lemma layout_cons i eol x T : layout i eol (x :: T) = fmt i x ++ tail_str i eol T.
Proof.
  destruct T as [|y T]; unfold tail_str, layout; cbn [map]; [|rewrite join_cons2; reflexivity].
  cbn [join]. rewrite app_nil_r. reflexivity.
Qed.

Lemma layout_single i eol x : layout i eol [x] = fmt i x.
Proof. reflexivity. Qed.

Lemma layout_app i eol A B :
  A <> [] -> layout i eol (A ++ B) = layout i eol A ++ tail_str i eol B.
Proof.
  induction A as [|x A IH]; intros HA; [congruence|].
  destruct A as [|y A].
  - cbn [app]. rewrite layout_cons, layout_single. reflexivity.
  - change ((x :: y :: A) ++ B) with (x :: ((y :: A) ++ B)).
    rewrite (layout_cons i eol x ((y :: A) ++ B)), (layout_cons i eol x (y :: A)).
    change ((y :: A) ++ B) with (y :: (A ++ B)) at 1. rewrite !tail_str_cons.
    change (y :: (A ++ B)) with ((y :: A) ++ B). rewrite IH by discriminate.
    rewrite <- !app_assoc. reflexivity.
Qed.

Lemma tail_str_app i eol A B :
  A <> [] -> tail_str i eol (A ++ B) = eol ++ layout i eol A ++ tail_str i eol B.
Proof.
  intros HA. destruct A as [|y A]; [congruence|].
  change ((y :: A) ++ B) with (y :: (A ++ B)). rewrite tail_str_cons.
  change (y :: (A ++ B)) with ((y :: A) ++ B). rewrite layout_app by discriminate. reflexivity.
Qed.

Lemma fmt_zero i s : fmt i (O, s) = indent_str i ++ s.
Proof. unfold fmt. cbn [fst snd]. rewrite Nat.add_0_r. reflexivity. Qed.

Lemma fmt_shift1 i ln : fmt i (shift 1 ln) = fmt (S i) ln.
Proof.
  destruct ln as [k s]. unfold fmt, shift. cbn [fst snd]. f_equal. f_equal. lia.
Qed.

Lemma map_fmt_shift1 i ls : map (fmt i) (map (shift 1) ls) = map (fmt (S i)) ls.
Proof. rewrite map_map. apply map_ext. intros ln. apply fmt_shift1. Qed.

Lemma layout_shift1 i eol ls : layout i eol (map (shift 1) ls) = layout (S i) eol ls.
Proof. unfold layout. rewrite map_fmt_shift1. reflexivity. Qed.

Lemma fmt_add i k ln : fmt (i + k) ln = indent_str k ++ fmt i ln.
Proof.
  unfold fmt. rewrite app_assoc, <- indent_str_add. f_equal. f_equal. lia.
Qed.

(* rendering k levels deeper = prefixing every line with k indentation units *)
Lemma layout_indent_shift i k eol (ls : list line) :
  layout (i + k) eol ls = join eol (map (fun s => indent_str k ++ s) (map (fmt i) ls)).
Proof.
  unfold layout. f_equal. rewrite map_map. apply map_ext. intros ln. apply fmt_add.
Qed.

Lemma pieces_str_cons p ps : pieces_str (p :: ps) = piece_str p ++ pieces_str ps.
Proof. reflexivity. Qed.

Lemma pieces_str_nil : pieces_str [] = [].
Proof. reflexivity. Qed.

Section LayoutProofs.
  Context {M : Type}.
  Implicit Types (n c : node M) (l : list (node M)).

  Lemma lines_nonempty n : lines n <> [].
  Proof.
    destruct n as [s|s|s|m|name ws a kids|sh exp]; cbn [lines]; try discriminate.
    destruct (filter (fun c => negb (is_meta c)) kids) as [|x r]; [discriminate|].
    destruct (single_text (mem_str name no_escape_names) (x :: r)); [discriminate|].
    destruct ws; cbn [app]; discriminate.
  Qed.

  Lemma lines_inline name a kids :
    lines (TagN (M:=M) name false a kids) = [(O, flat true (TagN name false a kids))].
  Proof.
    cbn [lines].
    destruct (filter (fun c => negb (is_meta c)) kids) as [|x r]; [reflexivity|].
    destruct (single_text (mem_str name no_escape_names) (x :: r)); reflexivity.
  Qed.

  (* the text of the pending run: flat forms of the leading non-block children *)
  Fixpoint hd_text (esc : bool) (l : list (node M)) : str :=
    match l with
    | [] => []
    | c :: l' =>
      if is_meta c then hd_text esc l'
      else if is_block c then []
      else flat esc c ++ hd_text esc l'
    end.

  (* the lines from the first block child on *)
  Fixpoint tl_lines (esc : bool) (l : list (node M)) : list line :=
    match l with
    | [] => []
    | c :: l' =>
      if is_meta c then tl_lines esc l'
      else if is_block c then lines c ++ body lines esc None l'
      else tl_lines esc l'
    end.

  Lemma body_some esc l : forall s,
    body lines esc (Some s) l = (O, s ++ hd_text esc l) :: tl_lines esc l.
  Proof.
    induction l as [|c l IH]; intros s.
    - cbn [body flush hd_text tl_lines]. rewrite app_nil_r. reflexivity.
    - cbn [body hd_text tl_lines]. destruct (is_meta c); [apply IH|].
      destruct (is_block c).
      + cbn [flush app]. rewrite app_nil_r. reflexivity.
      + rewrite IH, <- app_assoc. reflexivity.
  Qed.

  Lemma body_none_meta esc m l : body lines esc None (Meta m :: l) = body lines esc None l.
  Proof. reflexivity. Qed.

  Lemma body_none_block esc name a kids l :
    body lines esc None (TagN name true a kids :: l)
    = lines (TagN name true a kids) ++ body lines esc None l.
  Proof. reflexivity. Qed.

  Lemma body_none_run esc c l :
    is_meta c = false -> is_block c = false ->
    body lines esc None (c :: l) = (O, flat esc c ++ hd_text esc l) :: tl_lines esc l.
  Proof.
    intros Hm Hb. cbn [body]. rewrite Hm, Hb. cbn [app]. apply body_some.
  Qed.

  Lemma hd_text_run esc c l :
    is_meta c = false -> is_block c = false ->
    hd_text esc (c :: l) = flat esc c ++ hd_text esc l.
  Proof. intros Hm Hb. cbn [hd_text]. rewrite Hm, Hb. reflexivity. Qed.

  Lemma tl_lines_run esc c l :
    is_meta c = false -> is_block c = false ->
    tl_lines esc (c :: l) = tl_lines esc l.
  Proof. intros Hm Hb. cbn [tl_lines]. rewrite Hm, Hb. reflexivity. Qed.

  Lemma hd_text_block esc name a kids l : hd_text esc (TagN name true a kids :: l) = [].
  Proof. reflexivity. Qed.

  Lemma tl_lines_block esc name a kids l :
    tl_lines esc (TagN name true a kids :: l)
    = lines (TagN name true a kids) ++ body lines esc None l.
  Proof. reflexivity. Qed.

  Lemma body_nonempty esc l :
    body lines esc None l = [] -> filter (fun c => negb (is_meta c)) l = [].
  Proof.
    induction l as [|c l IH]; intros H; [reflexivity|].
    cbn [filter]. destruct (is_meta c) eqn:Hm.
    - cbn [negb]. apply IH. cbn [body] in H. rewrite Hm in H. exact H.
    - exfalso. destruct (is_block c) eqn:Hb.
      + cbn [body] in H. rewrite Hm, Hb in H. cbn [flush app] in H.
        apply app_eq_nil in H as [H _]. exact (lines_nonempty c H).
      + rewrite body_none_run in H by assumption. discriminate H.
  Qed.

  Definition renders_layout (k : node M) : Prop :=
    is_tag k = true -> valid_nesting k = true ->
    forall i eol, exists ps, render_tag i eol k = Ok ps
                             /\ pieces_str ps = layout i eol (lines k).

  Lemma inline_tag_renders name a kids :
    valid_nesting (TagN (M:=M) name false a kids) = true ->
    forall i eol, exists ps, render_tag i eol (TagN name false a kids) = Ok ps
      /\ pieces_str ps = indent_str i ++ flat true (TagN name false a kids).
  Proof.
    intros H. apply render_inline_flat; [reflexivity|]. cbn [inline_only negb andb]. exact H.
  Qed.

  Ltac run_child_P1 E2 P2 :=
    let first := fresh in
    intros first; cbn [loop]; rewrite E2; eexists; (split; [reflexivity|]);
    rewrite body_none_run by reflexivity;
    destruct first; rewrite ?tail_str_cons, layout_cons, fmt_zero;
    cbn [app]; rewrite ?pieces_str_cons; cbn [piece_str]; rewrite P2;
    cbn [flat]; rewrite <- ?app_assoc; reflexivity.

  Ltac run_child_P2 E2 P2 :=
    cbn [loop]; rewrite E2; eexists; (split; [reflexivity|]);
    rewrite hd_text_run, tl_lines_run by reflexivity;
    cbn [app]; rewrite pieces_str_cons, P2;
    cbn [flat piece_str]; rewrite <- ?app_assoc; reflexivity.

  (* the sibling loop against the run / block grouping of the specification:
     first conjunct = the previous sibling enabled whitespace (or we are at the start),
     second conjunct = we are inside a run of non-block siblings *)
  Lemma loop_layout l :
    Forall renders_layout l -> forallb valid_nesting l = true ->
    forall i eol esc,
      (forall first, exists ps,
          loop render_tag i eol esc first true l = Ok ps
          /\ pieces_str ps = if first then layout i eol (body lines esc None l)
                             else tail_str i eol (body lines esc None l))
      /\ (exists ps,
          loop render_tag i eol esc false false l = Ok ps
          /\ pieces_str ps = hd_text esc l ++ tail_str i eol (tl_lines esc l)).
  Proof.
    induction 1 as [|k l Hk Hl IH]; intros Hv i eol esc.
    - split; [intros first|]; exists []; (split; [reflexivity|]);
        [destruct first; reflexivity | reflexivity].
    - cbn [forallb] in Hv. apply andb_true_iff in Hv as [Hkv Hlv].
      destruct (IH Hlv i eol esc) as [IH1 [p2 [E2 P2]]]. clear IH.
      destruct (IH1 false) as [p1 [E1 P1]].
      destruct k as [s|s|s|m|name ws a kids|[sh|] exp].
      + (* Text *)
        split.
        * destruct esc; run_child_P1 E2 P2.
        * destruct esc; run_child_P2 E2 P2.
      + (* Html *)
        split; [run_child_P1 E2 P2 | run_child_P2 E2 P2].
      + (* Repr *)
        split; [run_child_P1 E2 P2 | run_child_P2 E2 P2].
      + (* Meta *)
        split.
        * intros first. destruct (IH1 first) as [p [E P]]. cbn [loop]. rewrite E.
          exists p. split; [reflexivity|]. rewrite body_none_meta. exact P.
        * exists p2. split; [exact E2|exact P2].
      + destruct ws.
        * (* block tag *)
          assert (Hne : lines (TagN name true a kids) <> []) by apply lines_nonempty.
          destruct (Hk eq_refl Hkv i eol) as [pk [Ek Pk]].
          split.
          -- intros first. cbn [loop orb]. rewrite Ek, E1. eexists. split; [reflexivity|].
             rewrite body_none_block. destruct first; cbn [app].
             ++ rewrite pieces_str_app, Pk, P1, layout_app by exact Hne. reflexivity.
             ++ rewrite pieces_str_cons, pieces_str_app, Pk, P1, tail_str_app by exact Hne.
                reflexivity.
          -- cbn [loop orb]. rewrite Ek, E1. eexists. split; [reflexivity|].
             rewrite hd_text_block, tl_lines_block. cbn [app].
             rewrite pieces_str_cons, pieces_str_app, Pk, P1, tail_str_app by exact Hne.
             reflexivity.
        * (* inline tag *)
          split.
          -- intros first.
             destruct (inline_tag_renders name a kids Hkv i eol) as [pk [Ek Pk]].
             cbn [loop orb]. rewrite Ek, E2. eexists. split; [reflexivity|].
             rewrite body_none_run by reflexivity.
             destruct first; rewrite ?tail_str_cons, layout_cons, fmt_zero;
               cbn [app]; rewrite ?pieces_str_cons, pieces_str_app, Pk, P2; cbn [piece_str];
               rewrite (flat_tag_esc esc true), <- ?app_assoc; reflexivity.
          -- destruct (inline_tag_renders name a kids Hkv O []) as [pk [Ek Pk]].
             cbn [loop orb]. rewrite Ek, E2. eexists. split; [reflexivity|].
             rewrite hd_text_run, tl_lines_run by reflexivity.
             cbn [app]. rewrite pieces_str_app, Pk, P2. cbn [indent_str app].
             rewrite (flat_tag_esc esc true), <- ?app_assoc. reflexivity.
      + (* Custom (Some sh) *)
        split; [run_child_P1 E2 P2 | run_child_P2 E2 P2].
      + discriminate Hkv.
  Qed.

  (* the refinement: every validly nested tag renders as the layout of its lines *)
  Theorem render_layout n : renders_layout n.
  Proof.
    induction n as [s|s|s|m|name ws a kids IH|sh exp _] using node_ind'; intros Ht Hv i eol;
      try discriminate Ht.
    destruct ws.
    2:{ destruct (inline_tag_renders name a kids Hv i eol) as [ps [E P]].
        exists ps. split; [exact E|]. rewrite lines_inline, layout_single, fmt_zero. exact P. }
    cbn [valid_nesting] in Hv.
    cbn [render_tag lines].
    destruct (filter (fun c => negb (is_meta c)) kids) as [|x r] eqn:Ef.
    - destruct (mem_str name void_names) eqn:Hvoid; eexists; (split; [reflexivity|]);
        rewrite layout_single, fmt_zero; cbn [flat]; rewrite Ef, Hvoid;
        cbn [pieces_str flat_map piece_str]; unfold self_str, open_str, close_str;
        rewrite ?app_nil_r, <- ?app_assoc; reflexivity.
    - destruct (single_text (mem_str name no_escape_names) (x :: r)) as [p|] eqn:Es.
      + eexists. split; [reflexivity|].
        rewrite layout_single, fmt_zero. cbn [flat]. rewrite Ef.
        rewrite <- (flat_map_flat_filter _ kids), Ef.
        cbn [pieces_str flat_map piece_str]. unfold open_str, close_str.
        rewrite ?app_nil_r, <- ?app_assoc. do 4 f_equal.
        destruct x as [s|s|s|m|n2 w2 a2 k2|sh2 e2]; destruct r; try discriminate Es;
          cbn [single_text] in Es; injection Es as <-;
          destruct (mem_str name no_escape_names); cbn [negb flat flat_map piece_str app];
          rewrite ?app_nil_r; reflexivity.
      + set (esc := negb (mem_str name no_escape_names)).
        destruct (loop_layout kids IH Hv (S i) eol esc) as [L1 _].
        destruct (L1 true) as [ps [E P]]. rewrite E. eexists. split; [reflexivity|].
        assert (Hb : map (shift 1) (body lines esc None kids) <> []).
        { intros Hb. apply map_eq_nil in Hb. apply body_nonempty in Hb.
          rewrite Ef in Hb. discriminate Hb. }
        cbn [app].
        rewrite layout_cons, fmt_zero, tail_str_app by exact Hb.
        rewrite layout_shift1, tail_str_cons, layout_single, fmt_zero.
        rewrite !pieces_str_cons, pieces_str_app, P, !pieces_str_cons, pieces_str_nil.
        cbn [piece_str]. unfold open_str, close_str.
        rewrite ?app_nil_r, <- ?app_assoc. reflexivity.
  Qed.

  Theorem layout_tag n :
    is_tag n = true -> valid_nesting n = true ->
    forall i eol, tag_html i eol n = Ok (spec_tag_layout i eol n).
  Proof.
    intros Ht Hv i eol. destruct (render_layout n Ht Hv i eol) as [ps [E P]].
    unfold tag_html, spec_tag_layout. rewrite E. cbn [res_map]. rewrite P. reflexivity.
  Qed.

  Corollary layout_tag' n name ws a kids :
    n = TagN name ws a kids -> valid_nesting n = true ->
    forall i eol, tag_html i eol n = Ok (spec_tag_layout i eol n).
  Proof. intros -> Hv. apply layout_tag; [reflexivity|exact Hv]. Qed.

  Theorem layout_list l :
    forallb valid_nesting l = true ->
    forall i eol, list_html i eol true true l = Ok (spec_list_layout i eol l).
  Proof.
    intros Hv i eol.
    assert (HF : Forall renders_layout l).
    { apply Forall_forall. intros k _. apply render_layout. }
    destruct (loop_layout l HF Hv i eol true) as [L1 _].
    destruct (L1 true) as [ps [E P]].
    unfold list_html, render_list, spec_list_layout. rewrite E. cbn [res_map]. rewrite P.
    reflexivity.
  Qed.

  (* indentation: the rendering at indent i + k is the rendering at indent i with every
     line prefixed by k indentation units; the line contents do not depend on eol *)
  Corollary tag_indent_shift n :
    is_tag n = true -> valid_nesting n = true ->
    forall i k eol,
      tag_html i eol n = Ok (join eol (map (fmt i) (lines n)))
      /\ tag_html (i + k) eol n
         = Ok (join eol (map (fun s => indent_str k ++ s) (map (fmt i) (lines n)))).
  Proof.
    intros Ht Hv i k eol. split.
    - apply (layout_tag n Ht Hv).
    - rewrite (layout_tag n Ht Hv). unfold spec_tag_layout.
      rewrite layout_indent_shift. reflexivity.
  Qed.

  Corollary list_indent_shift l :
    forallb valid_nesting l = true ->
    forall i k eol,
      list_html i eol true true l = Ok (join eol (map (fmt i) (body lines true None l)))
      /\ list_html (i + k) eol true true l
         = Ok (join eol (map (fun s => indent_str k ++ s)
                             (map (fmt i) (body lines true None l)))).
  Proof.
    intros Hv i k eol. split.
    - apply (layout_list l Hv).
    - rewrite (layout_list l Hv). unfold spec_list_layout.
      rewrite layout_indent_shift. reflexivity.
  Qed.

  (* eol is only ever the separator between lines: one list of lines serves every eol *)
  Corollary layout_eol n :
    is_tag n = true -> valid_nesting n = true ->
    forall i, exists ls : list str, forall eol, tag_html i eol n = Ok (join eol ls).
  Proof.
    intros Ht Hv i. exists (map (fmt i) (lines n)). intros eol. apply (layout_tag n Ht Hv).
  Qed.
End LayoutProofs.

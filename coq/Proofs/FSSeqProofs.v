(* C12: the copy loop of save_html over SEVERAL dependencies.  A later copy_to neither
   disturbs what an earlier one put into its own target directory nor the sources, provided
   the target directory names are pairwise different (which is what dependency resolution
   guarantees: one object per name) -- and this is exactly what fails when two objects with
   one target directory name are both copied. *)
Require Import List NArith Bool Lia.
Import ListNotations.
From HT Require Import Model.Str Model.Tree Model.Paths Model.FS Spec.PathsSpec
     Proofs.PathsProofs Proofs.FSProofs.

(* ---- small facts about paths ----------------------------------------------------------- *)
Lemma app_self_nil : forall (a b : path), a = a ++ b -> b = [].
Proof.
  intros a b H. apply (f_equal (@length str)) in H. rewrite app_length in H.
  destruct b; [reflexivity|]. cbn [length] in H. lia.
Qed.

(* a prefix of D does not lie below D/x *)
Lemma prefix_not_under_child : forall (D p : path) (x : str),
  under p D = true -> under (D ++ [x]) p = false.
Proof.
  intros D p x H. destruct (under (D ++ [x]) p) eqn:E; [|reflexivity].
  apply under_some in H. destruct H as [s Hs].
  apply under_some in E. destruct E as [r Hr]. subst p.
  rewrite <- !app_assoc in Hs. apply app_self_nil in Hs. cbn [app] in Hs. discriminate.
Qed.

(* a strict ancestor of D/x is a prefix of D *)
Lemma ancestor_of_child : forall (D p : path) (x : str),
  strictly_under p (D ++ [x]) = true -> under p D = true.
Proof.
  intros D p x H. apply strictly_under_some in H. destruct H as [c [r Hr]].
  revert p c Hr. induction r as [|c' r IH] using rev_ind; intros p c Hr.
  - apply app_inj_tail in Hr. destruct Hr as [Hr _].
    subst p. apply under_refl.
  - change (c :: r ++ [c']) with ((c :: r) ++ [c']) in Hr. rewrite app_assoc in Hr.
    apply app_inj_tail in Hr. destruct Hr as [Hr _]. subst D. apply under_app.
Qed.

(* D/a/... lies below D/b only if a = b *)
Lemma under_child_same : forall (D s : path) (a b : str),
  under (D ++ [b]) (D ++ a :: s) = true -> a = b.
Proof.
  intros D s a b H. apply under_some in H. destruct H as [r Hr].
  rewrite <- app_assoc in Hr. apply app_inv_head in Hr. cbn [app] in Hr. congruence.
Qed.

(* ---- one copy_to keeps the filesystem well-formed ------------------------------------- *)
Lemma copy_to_prefix_free : forall f src af listed tgt o f',
  disjoint src tgt = true -> prefix_free f ->
  (forall p, strictly_under p tgt = true -> is_file f p = false) ->
  copy_to f src af listed tgt = (Ok o, f') -> prefix_free f'.
Proof.
  intros f src af listed tgt o f' Hdis Hpf Hanc Hc p q Hp Hq.
  pose proof (copy_to_spec _ _ _ _ _ _ _ Hdis Hpf Hc) as Hs.
  unfold is_file in *. rewrite Hs in Hp. rewrite Hs. unfold spec_lookup in *.
  apply strictly_under_some in Hq. destruct Hq as [c [r' Eq]]. subst q.
  destruct (strip_dir tgt p) as [r|] eqn:Ep.
  - apply strip_dir_some in Ep. subst p. rewrite <- app_assoc. rewrite strip_dir_app.
    destruct (covered (src_files f src af listed) r); [|discriminate].
    destruct (covered (src_files f src af listed) (r ++ c :: r')); [|reflexivity].
    destruct (lookup f (src ++ r)) as [b|] eqn:Eb; [|discriminate].
    assert (Hf : is_file f (src ++ r) = true) by (unfold is_file; rewrite Eb; reflexivity).
    pose proof (Hpf (src ++ r) ((src ++ r) ++ c :: r') Hf (strictly_under_app _ c r')) as Hn.
    unfold is_file in Hn. rewrite <- app_assoc in Hn. exact Hn.
  - destruct (strip_dir tgt (p ++ c :: r')) as [r|] eqn:Eq.
    + exfalso. apply strip_dir_some in Eq.
      destruct (app_eq_comparable p tgt (c :: r') r Eq) as [[z Ez]|[z Ez]].
      * (* p is an ancestor of the target directory, or the target itself *)
        destruct z as [|cz z].
        -- rewrite app_nil_r in Ez. subst tgt. rewrite <- (app_nil_r p) in Ep at 2.
           rewrite strip_dir_app in Ep. discriminate.
        -- assert (Ha : strictly_under p tgt = true) by (subst tgt; apply strictly_under_app).
           specialize (Hanc p Ha). unfold is_file in Hanc.
           destruct (lookup f p); discriminate.
      * subst p. rewrite strip_dir_app in Ep. discriminate.
    + assert (Hf : is_file f p = true).
      { unfold is_file. destruct (lookup f p); [reflexivity|discriminate]. }
      pose proof (Hpf p (p ++ c :: r') Hf (strictly_under_app _ c r')) as Hn.
      unfold is_file in Hn. exact Hn.
Qed.

(* ---- the dependencies of a document, as save_html sees them --------------------------- *)
Definition srcp (d : pdep) (iv : bool) : path := path_of_str (fst (source_path_map d None iv)).
Definition nv (d : pdep) (iv : bool) : str := name_ver (d_name d) (d_version d) iv.
Definition tgtp (d : pdep) (dest : str) (iv : bool) : path := path_of_str dest ++ [nv d iv].
Definition listedp (d : pdep) : list path := map path_of_str (d_scripts d ++ d_styles d).

Definition no_copy (d : pdep) : Prop :=
  d_source d = SrcNone \/ exists h, d_source d = SrcUrl h.
Definition local_ok (d : pdep) (iv : bool) : Prop :=
  (exists pkg sub, d_source d = SrcLocal pkg sub) /\ plain_seg (d_name d) = true /\
  forallb seg_char (d_version d) = true /\ fst (source_path_map d None iv) <> [].

Lemma copy_to_dep_local_ok : forall f d dest iv, local_ok d iv ->
  copy_to_dep f d dest iv = copy_to f (srcp d iv) (d_all_files d) (listedp d) (tgtp d dest iv).
Proof.
  intros f [name version src scripts styles af] dest iv [[pkg [sub Hs]] [Hn [Hv Hne]]].
  cbn [d_source d_name d_version] in *. subst src.
  unfold srcp, listedp, tgtp, nv. cbn [d_name d_version d_scripts d_styles d_all_files].
  apply copy_to_dep_local; assumption.
Qed.

Lemma local_not_no_copy : forall d iv, local_ok d iv -> no_copy d -> False.
Proof.
  intros d iv [[pkg [sub Hs]] _] [H|[h H]]; rewrite Hs in H; discriminate.
Qed.

(* the hypotheses that travel along the loop *)
Definition anc_free (f : fs) (dest : str) : Prop :=
  forall p, under p (path_of_str dest) = true -> is_file f p = false.
Definition src_tgt_disjoint (deps : list pdep) (dest : str) (iv : bool) : Prop :=
  forall d1 d2, In d1 deps -> In d2 deps -> local_ok d1 iv -> local_ok d2 iv ->
    disjoint (srcp d1 iv) (tgtp d2 dest iv) = true.

(* one step of the loop *)
Lemma copy_step_facts : forall f d dest iv o f1,
  local_ok d iv -> prefix_free f -> anc_free f dest ->
  disjoint (srcp d iv) (tgtp d dest iv) = true ->
  copy_to_dep f d dest iv = (Ok o, f1) ->
  prefix_free f1 /\ anc_free f1 dest /\
  (forall q, under (tgtp d dest iv) q = false -> lookup f1 q = lookup f q).
Proof.
  intros f d dest iv o f1 Hl Hpf Ha Hdis Hc. rewrite copy_to_dep_local_ok in Hc by assumption.
  assert (Hout : forall q, under (tgtp d dest iv) q = false -> lookup f1 q = lookup f q).
  { intros q Hq. eapply outside_untouched; eassumption. }
  split; [|split; [|exact Hout]].
  - eapply copy_to_prefix_free; try eassumption.
    intros p Hp. apply Ha. unfold tgtp in Hp. eapply ancestor_of_child. eassumption.
  - intros p Hp. unfold is_file. rewrite Hout; [apply Ha; assumption|].
    unfold tgtp. apply prefix_not_under_child. assumption.
Qed.

(* whatever lies in no target directory of the remaining dependencies stays as it is *)
Lemma copy_deps_outside : forall deps f dest iv o f',
  Forall (fun d => no_copy d \/ local_ok d iv) deps ->
  prefix_free f -> anc_free f dest -> src_tgt_disjoint deps dest iv ->
  copy_deps f deps dest iv = (Ok o, f') ->
  prefix_free f' /\
  forall q, (forall d, In d deps -> local_ok d iv -> under (tgtp d dest iv) q = false) ->
       lookup f' q = lookup f q.
Proof.
  induction deps as [|d deps IH]; intros f dest iv o f' Hall Hpf Ha Hdis Hc.
  - cbn [copy_deps] in Hc. injection Hc as _ Hc. subst f'. split; [assumption|reflexivity].
  - inversion Hall as [|? ? Hd Hds]; subst. cbn [copy_deps] in Hc.
    assert (Hdis' : src_tgt_disjoint deps dest iv).
    { intros d1 d2 H1 H2. apply Hdis; right; assumption. }
    destruct Hd as [Hd|Hd].
    + rewrite copy_to_dep_nothing in Hc by assumption.
      destruct (IH f dest iv o f' Hds Hpf Ha Hdis' Hc) as [Hp' Hq']. split; [assumption|].
      intros q Hq. apply Hq'. intros d' Hin. apply Hq. right. assumption.
    + destruct (copy_to_dep f d dest iv) as [[o1|e1] f1] eqn:E1; [|discriminate].
      assert (Hdd : disjoint (srcp d iv) (tgtp d dest iv) = true).
      { apply Hdis; try assumption; left; reflexivity. }
      destruct (copy_step_facts f d dest iv o1 f1 Hd Hpf Ha Hdd E1) as [Hp1 [Ha1 Ho1]].
      destruct (IH f1 dest iv o f' Hds Hp1 Ha1 Hdis' Hc) as [Hp' Hq']. split; [assumption|].
      intros q Hq. rewrite Hq'.
      * apply Ho1. apply Hq; [left; reflexivity|assumption].
      * intros d' Hin. apply Hq. right. assumption.
Qed.

(* what a dependency's target directory must hold, relative to the filesystem f before *)
Definition dep_copied (f f' : fs) (d : pdep) (dest : str) (iv : bool) : Prop :=
  (d_all_files d = false -> forall x r, In x (listedp d) ->
     lookup f' (tgtp d dest iv ++ x ++ r) = lookup f (srcp d iv ++ x ++ r)) /\
  (d_all_files d = true -> forall c r b, lookup f (srcp d iv ++ c :: r) = Some b ->
     lookup f' (tgtp d dest iv ++ c :: r) = Some b).

Lemma under_other_target : forall d d' dest iv s,
  nv d iv <> nv d' iv ->
  under (tgtp d' dest iv) (tgtp d dest iv ++ s) = false.
Proof.
  intros d d' dest iv s Hne. unfold tgtp.
  destruct (under (path_of_str dest ++ [nv d' iv]) ((path_of_str dest ++ [nv d iv]) ++ s)) eqn:E;
    [|reflexivity].
  rewrite <- app_assoc in E. cbn [app] in E. apply under_child_same in E. contradiction.
Qed.

Lemma copy_deps_all_copied : forall deps f dest iv o f',
  Forall (fun d => no_copy d \/ local_ok d iv) deps ->
  NoDup (map (fun d => nv d iv) deps) ->
  prefix_free f -> anc_free f dest -> src_tgt_disjoint deps dest iv ->
  copy_deps f deps dest iv = (Ok o, f') ->
  forall d, In d deps -> local_ok d iv -> dep_copied f f' d dest iv.
Proof.
  induction deps as [|d0 deps IH]; intros f dest iv o f' Hall Hnd Hpf Ha Hdis Hc d Hin Hl;
    [contradiction|].
  inversion Hall as [|? ? Hd0 Hds]; subst. inversion Hnd as [|? ? Hnotin Hnd']; subst.
  cbn [copy_deps] in Hc.
  assert (Hdis' : src_tgt_disjoint deps dest iv).
  { intros d1 d2 H1 H2. apply Hdis; right; assumption. }
  destruct Hd0 as [Hd0|Hd0].
  - rewrite copy_to_dep_nothing in Hc by assumption.
    destruct Hin as [E|Hin].
    + subst d0. exfalso. exact (local_not_no_copy d iv Hl Hd0).
    + eapply IH; eassumption.
  - destruct (copy_to_dep f d0 dest iv) as [[o1|e1] f1] eqn:E1; [|discriminate].
    assert (Hdd : disjoint (srcp d0 iv) (tgtp d0 dest iv) = true).
    { apply Hdis; try assumption; left; reflexivity. }
    destruct (copy_step_facts f d0 dest iv o1 f1 Hd0 Hpf Ha Hdd E1) as [Hp1 [Ha1 Ho1]].
    destruct Hin as [E|Hin].
    + (* the dependency copied now: the later copies leave its directory alone *)
      subst d0.
      destruct (copy_deps_outside deps f1 dest iv o f' Hds Hp1 Ha1 Hdis' Hc) as [_ Hout].
      assert (Hkeep : forall s, lookup f' (tgtp d dest iv ++ s) = lookup f1 (tgtp d dest iv ++ s)).
      { intros s. apply Hout. intros d' Hin' Hl'. apply under_other_target.
        intros En. apply Hnotin. rewrite En. apply in_map_iff. exists d'. split; [reflexivity|assumption]. }
      rewrite copy_to_dep_local_ok in E1 by assumption.
      split.
      * intros Haf x r Hx. rewrite Hkeep. rewrite Haf in E1.
        eapply (copied_identical_listed f (srcp d iv) (listedp d) (tgtp d dest iv)); eassumption.
      * intros Haf c r b Hb. rewrite Hkeep. rewrite Haf in E1.
        eapply (copied_identical_all f (srcp d iv) (listedp d) (tgtp d dest iv)); eassumption.
    + (* a later dependency: its source is as it was before this copy *)
      assert (Hsrc : forall s, lookup f1 (srcp d iv ++ s) = lookup f (srcp d iv ++ s)).
      { intros s. apply Ho1. unfold under. rewrite disjoint_not_under; [reflexivity|].
        apply Hdis; try assumption; [right; assumption|left; reflexivity]. }
      destruct (IH f1 dest iv o f' Hds Hnd' Hp1 Ha1 Hdis' Hc d Hin Hl) as [H1 H2].
      split.
      * intros Haf x r Hx. rewrite (H1 Haf x r Hx). apply Hsrc.
      * intros Haf c r b Hb. apply (H2 Haf). rewrite Hsrc. assumption.
Qed.

(* What goes wrong otherwise (the reason dependency resolution matters to C12): two objects
   with the same target directory name, the second copied after the first, and a file only
   the first one lists is gone although the first one's URLs are in the document. *)
Definition two_fs : fs :=
  [([[115; 49]; [103; 46; 106; 115]], [1]);        (* /s1/g.js  *)
   ([[115; 50]; [104; 46; 106; 115]], [2])].       (* /s2/h.js  *)
Definition two_d1 : pdep :=
  mk_pdep [103] [50] (SrcLocal None [47; 115; 49]) [[103; 46; 106; 115]] [] false.
Definition two_d2 : pdep :=
  mk_pdep [103] [49] (SrcLocal None [47; 115; 50]) [[104; 46; 106; 115]] [] false.

Lemma same_name_later_copy_wipes : exists f',
  copy_deps two_fs [two_d1; two_d2] [47; 111] false = (Ok tt, f') /\
  nv two_d1 false = nv two_d2 false /\
  lookup f' (tgtp two_d1 [47; 111] false ++ [[103; 46; 106; 115]]) = None /\
  (exists f1, copy_deps two_fs [two_d1] [47; 111] false = (Ok tt, f1) /\
     lookup f1 (tgtp two_d1 [47; 111] false ++ [[103; 46; 106; 115]]) = Some [1]).
Proof.
  eexists. split; [vm_compute; reflexivity|]. split; [reflexivity|]. split; [vm_compute; reflexivity|].
  eexists. split; vm_compute; reflexivity.
Qed.

(* decidable form of anc_free, for concrete filesystems *)
Definition anc_free_b (f : fs) (dest : str) : bool :=
  forallb (fun e => negb (under (fst e) (path_of_str dest))) f.
Lemma anc_free_b_sound : forall f dest, anc_free_b f dest = true -> anc_free f dest.
Proof.
  intros f dest H p Hp. unfold is_file. destruct (lookup f p) as [b|] eqn:E; [|reflexivity].
  apply lookup_In in E. unfold anc_free_b in H. rewrite forallb_forall in H.
  specialize (H _ E). cbn [fst] in H. rewrite Hp in H. discriminate.
Qed.

Lemma destdir_path : forall dir libdir, libdir_ok libdir = true ->
  path_of_str (destdir_of dir libdir) = path_of_str dir ++ libsegs libdir.
Proof.
  intros dir libdir Hl. unfold destdir_of, libsegs, libdir_ok in *.
  destruct (truthy libdir) as [l|].
  - apply andb_true_iff in Hl. destruct Hl as [Hl Hl3]. apply andb_true_iff in Hl.
    destruct Hl as [Hl1 Hl2]. apply negb_true_iff in Hl1.
    rewrite path_of_str_pjoin by assumption. f_equal.
    unfold path_of_str. apply filter_keep_all. eapply forallb_impl; [|eassumption].
    intros s Hs. apply plain_seg_facts in Hs. tauto.
  - symmetry. apply app_nil_r.
Qed.

(* the main sentence of C12 for a document with several dependencies: after the whole copy
   loop, the file that ANY listed URL of ANY of them resolves to holds its source bytes *)
Lemma every_url_names_copied_file :
  forall deps f dir libdir iv o f' name version pkg sub scripts styles af fsegs b,
  let d := mk_pdep name version (SrcLocal pkg sub) scripts styles af in
  Forall (fun d => no_copy d \/ local_ok d iv) deps ->
  NoDup (map (fun d => nv d iv) deps) ->
  prefix_free f -> anc_free f (destdir_of dir libdir) ->
  src_tgt_disjoint deps (destdir_of dir libdir) iv ->
  save_html_copy f dir libdir iv deps = (Ok o, f') ->
  In d deps -> local_ok d iv -> libdir_ok libdir = true ->
  fsegs <> [] -> forallb file_seg fsegs = true ->
  In (join [47] fsegs) (scripts ++ styles) ->
  lookup f (srcp d iv ++ fsegs) = Some b ->
  lookup f' (resolve_url dir (url_of d libdir iv (join [47] fsegs))) = Some b.
Proof.
  intros deps f dir libdir iv o f' name version pkg sub scripts styles af fsegs b d
         Hall Hnd Hpf Ha Hdis Hc Hin Hl Hlib Hne Hfs Hinf Hb.
  unfold save_html_copy in Hc.
  destruct (copy_deps_all_copied deps f _ iv o f' Hall Hnd Hpf Ha Hdis Hc d Hin Hl) as [H1 H2].
  destruct Hl as [_ [Hn [Hv _]]]. unfold d in Hn, Hv. cbn [d_name d_version] in Hn, Hv.
  unfold d at 1. rewrite agree by assumption.
  rewrite (target_path name version pkg sub scripts styles af dir libdir iv fsegs) by assumption.
  replace (path_of_str dir ++ libsegs libdir ++ [name_ver name version iv] ++ fsegs)
    with (tgtp d (destdir_of dir libdir) iv ++ fsegs).
  2:{ unfold tgtp, nv, d. cbn [d_name d_version]. rewrite destdir_path by assumption.
      rewrite <- !app_assoc. reflexivity. }
  destruct af.
  - destruct fsegs as [|c r]; [congruence|]. apply H2; [reflexivity|assumption].
  - rewrite <- (app_nil_r fsegs) at 1. rewrite H1; [rewrite app_nil_r; assumption|reflexivity|].
    unfold listedp, d. cbn [d_scripts d_styles].
    apply in_map_iff. exists (join [47] fsegs). split; [|assumption].
    apply agree_file_path; assumption.
Qed.

(* C10: proofs about Model/Deps.v against Spec/ResolveSpec.v. *)
From Coq Require Import Lia.
From HT Require Import Model.Str Model.Tree Model.Deps Spec.ResolveSpec.

(* ==================================================================================== *)
(* strings                                                                              *)
(* ==================================================================================== *)
Lemma str_eqb_eq : forall a b, str_eqb a b = true <-> a = b.
Proof.
  induction a as [|x a IH]; destruct b as [|y b]; cbn; split; intros H;
    try reflexivity; try discriminate.
  - apply andb_true_iff in H. destruct H as [H1 H2].
    apply N.eqb_eq in H1. apply IH in H2. subst. reflexivity.
  - inversion H; subst. rewrite N.eqb_refl. cbn. apply IH. reflexivity.
Qed.

Lemma str_eqb_refl : forall a, str_eqb a a = true.
Proof. intros a. apply str_eqb_eq. reflexivity. Qed.

Lemma str_eqb_neq : forall a b, str_eqb a b = false <-> a <> b.
Proof.
  intros a b. split.
  - intros H E. apply str_eqb_eq in E. congruence.
  - intros H. destruct (str_eqb a b) eqn:E; [|reflexivity].
    apply str_eqb_eq in E. contradiction.
Qed.

Lemma str_eqb_sym : forall a b, str_eqb a b = str_eqb b a.
Proof.
  intros a b. destruct (str_eqb a b) eqn:E.
  - apply str_eqb_eq in E. subst. symmetry. apply str_eqb_refl.
  - apply str_eqb_neq in E. symmetry. apply str_eqb_neq. congruence.
Qed.

Lemma mem_str_In : forall s l, mem_str s l = true <-> In s l.
Proof.
  intros s l. unfold mem_str. rewrite existsb_exists. split.
  - intros [x [Hin He]]. apply str_eqb_eq in He. subst. exact Hin.
  - intros Hin. exists s. split; [exact Hin | apply str_eqb_refl].
Qed.

Lemma mem_str_not_In : forall s l, mem_str s l = false <-> ~ In s l.
Proof.
  intros s l. split.
  - intros H Hin. apply mem_str_In in Hin. congruence.
  - intros H. destruct (mem_str s l) eqn:E; [|reflexivity].
    apply mem_str_In in E. contradiction.
Qed.

(* ==================================================================================== *)
(* versions                                                                             *)
(* ==================================================================================== *)
Lemma lex_cmp_refl : forall a, lex_cmp a a = Eq.
Proof. induction a as [|x a IH]; cbn; [reflexivity|]. rewrite N.compare_refl. exact IH. Qed.

Lemma lex_cmp_eq : forall a b, lex_cmp a b = Eq -> a = b.
Proof.
  induction a as [|x a IH]; destruct b as [|y b]; cbn; intros H;
    try reflexivity; try discriminate.
  destruct (x ?= y) eqn:E; try discriminate.
  apply N.compare_eq in E. apply IH in H. subst. reflexivity.
Qed.

Lemma lex_cmp_antisym : forall a b, lex_cmp b a = CompOpp (lex_cmp a b).
Proof.
  induction a as [|x a IH]; destruct b as [|y b]; cbn; try reflexivity.
  rewrite (N.compare_antisym x y).
  destruct (x ?= y); cbn; [apply IH | reflexivity | reflexivity].
Qed.

Lemma lex_cmp_lt_trans : forall a b c,
  lex_cmp a b = Lt -> lex_cmp b c = Lt -> lex_cmp a c = Lt.
Proof.
  induction a as [|x a IH]; destruct b as [|y b]; destruct c as [|z c]; cbn;
    intros H1 H2; try reflexivity; try discriminate.
  destruct (x ?= y) eqn:Exy; try discriminate;
    destruct (y ?= z) eqn:Eyz; try discriminate.
  - apply N.compare_eq in Exy. apply N.compare_eq in Eyz. subst.
    rewrite N.compare_refl. eapply IH; eassumption.
  - apply N.compare_eq in Exy. subst. rewrite Eyz. reflexivity.
  - apply N.compare_eq in Eyz. subst. rewrite Exy. reflexivity.
  - rewrite N.compare_lt_iff in Exy, Eyz.
    assert (Hxz : (x ?= z) = Lt) by (rewrite N.compare_lt_iff; lia).
    rewrite Hxz. reflexivity.
Qed.

Lemma lex_cmp_gt_lt : forall a b, lex_cmp a b = Gt <-> lex_cmp b a = Lt.
Proof.
  intros a b. rewrite (lex_cmp_antisym a b).
  destruct (lex_cmp a b); cbn; split; intros H; try reflexivity; discriminate.
Qed.

Lemma ver_cmp_refl : forall a, ver_cmp a a = Eq.
Proof. intros a. apply lex_cmp_refl. Qed.

Lemma ver_cmp_antisym : forall a b, ver_cmp b a = CompOpp (ver_cmp a b).
Proof. intros a b. apply lex_cmp_antisym. Qed.

Lemma ver_cmp_eq_iff : forall a b, ver_cmp a b = Eq <-> strip0 a = strip0 b.
Proof.
  intros a b. unfold ver_cmp. split.
  - apply lex_cmp_eq.
  - intros H. rewrite H. apply lex_cmp_refl.
Qed.

Lemma ver_cmp_lt_trans : forall a b c,
  ver_cmp a b = Lt -> ver_cmp b c = Lt -> ver_cmp a c = Lt.
Proof. intros a b c. apply lex_cmp_lt_trans. Qed.

(* a <= b := ver_cmp a b <> Gt is transitive *)
Lemma ver_cmp_le_trans : forall a b c,
  ver_cmp a b <> Gt -> ver_cmp b c <> Gt -> ver_cmp a c <> Gt.
Proof.
  intros a b c H1 H2.
  destruct (ver_cmp a b) eqn:E1; [| |congruence];
    destruct (ver_cmp b c) eqn:E2; try congruence.
  - apply ver_cmp_eq_iff in E1. apply ver_cmp_eq_iff in E2.
    assert (E : ver_cmp a c = Eq) by (apply ver_cmp_eq_iff; congruence).
    rewrite E. discriminate.
  - apply ver_cmp_eq_iff in E1. unfold ver_cmp in *. rewrite E1, E2. discriminate.
  - apply ver_cmp_eq_iff in E2. unfold ver_cmp in *. rewrite <- E2, E1. discriminate.
  - rewrite (ver_cmp_lt_trans a b c E1 E2). discriminate.
Qed.

Lemma strip0_zeros : forall n, strip0 (repeat 0%N n) = [].
Proof. induction n as [|n IH]; cbn; [reflexivity|]. rewrite IH. reflexivity. Qed.

Lemma strip0_app_zeros : forall a n, strip0 (a ++ repeat 0%N n) = strip0 a.
Proof.
  induction a as [|x a IH]; intros n; cbn.
  - apply strip0_zeros.
  - rewrite IH. reflexivity.
Qed.

Lemma ver_cmp_pad : forall a n, ver_cmp (a ++ repeat 0%N n) a = Eq.
Proof. intros a n. apply ver_cmp_eq_iff. apply strip0_app_zeros. Qed.

Lemma ver_gtb_lt : forall a b, ver_gtb a b = true <-> ver_cmp b a = Lt.
Proof.
  intros a b. unfold ver_gtb. rewrite (ver_cmp_antisym a b).
  destruct (ver_cmp a b); cbn; split; intros H; try reflexivity; discriminate.
Qed.

Lemma ver_gtb_swo : strict_weak_order ver_gtb.
Proof.
  repeat split.
  - intros a. unfold ver_gtb. rewrite ver_cmp_refl. reflexivity.
  - intros a b c H1 H2. apply ver_gtb_lt in H1. apply ver_gtb_lt in H2.
    apply ver_gtb_lt. eapply ver_cmp_lt_trans; eassumption.
  - intros a b c H. apply ver_gtb_lt in H.
    destruct (ver_cmp b a) eqn:E.
    + right. apply ver_gtb_lt. apply ver_cmp_eq_iff in E.
      unfold ver_cmp in *. rewrite E. exact H.
    + left. apply ver_gtb_lt. exact E.
    + right. apply ver_gtb_lt.
      assert (E' : ver_cmp a b = Lt).
      { rewrite (ver_cmp_antisym b a), E. reflexivity. }
      eapply ver_cmp_lt_trans; eassumption.
Qed.

(* ==================================================================================== *)
(* collection                                                                            *)
(* ==================================================================================== *)
Lemma collect_app : forall l1 l2, collect (l1 ++ l2) = collect l1 ++ collect l2.
Proof.
  induction l1 as [|x l1 IH]; intros l2; cbn; [reflexivity|].
  rewrite IH. apply app_assoc.
Qed.

Lemma child_deps_tag : forall name ws a kids,
  child_deps (TagN name ws a kids) = collect kids.
Proof.
  intros name ws a kids. cbn. induction kids as [|k kids IH]; cbn; [reflexivity|].
  rewrite IH. reflexivity.
Qed.

Lemma collect_tag : forall name ws a kids, collect [TagN name ws a kids] = collect kids.
Proof. intros. cbn [collect]. rewrite child_deps_tag. apply app_nil_r. Qed.

Lemma child_deps_metas : forall n, child_deps n = metas_of n.
Proof.
  induction n as [s|s|s|m|name ws a kids IH|sh exp IH] using node_ind';
    try (cbn; reflexivity).
  all: rewrite child_deps_tag; cbn [metas_of];
    induction IH as [|k kids Hk _ IHk]; cbn; [reflexivity|];
    rewrite Hk, IHk; reflexivity.
Qed.

Lemma collect_preorder : forall l, collect l = preorder l.
Proof.
  induction l as [|x l IH]; cbn; [reflexivity|].
  rewrite child_deps_metas, IH. reflexivity.
Qed.

(* ==================================================================================== *)
(* first_occ                                                                             *)
(* ==================================================================================== *)
Lemma first_occ_In : forall l x, In x (first_occ l) <-> In x l.
Proof.
  induction l as [|y l IH]; intros x; cbn; [tauto|].
  rewrite filter_In, IH. split.
  - intros [H|[H _]]; auto.
  - intros [H|H]; [left; exact H|].
    destruct (str_eqb y x) eqn:E.
    + left. apply str_eqb_eq in E. exact E.
    + right. split; [exact H|reflexivity].
Qed.

Lemma first_occ_NoDup : forall l, NoDup (first_occ l).
Proof.
  induction l as [|y l IH]; cbn; constructor.
  - rewrite filter_In. intros [_ H]. rewrite str_eqb_refl in H. discriminate.
  - apply NoDup_filter. exact IH.
Qed.

Lemma first_occ_snoc : forall l n,
  first_occ (l ++ [n]) = if mem_str n l then first_occ l else first_occ l ++ [n].
Proof.
  induction l as [|x l IH]; intros n; [reflexivity|].
  cbn [app first_occ]. rewrite IH.
  unfold mem_str. cbn [existsb]. fold (mem_str n l).
  rewrite (str_eqb_sym n x).
  destruct (str_eqb x n) eqn:E; destruct (mem_str n l) eqn:M; cbn [orb]; try reflexivity.
  - rewrite filter_app. cbn [filter]. rewrite E. cbn. rewrite app_nil_r. reflexivity.
  - rewrite filter_app. cbn [filter]. rewrite E. cbn. reflexivity.
Qed.

Lemma first_occ_id : forall l, NoDup l -> first_occ l = l.
Proof.
  induction l as [|x l IH]; intros H; cbn; [reflexivity|].
  inversion H as [|x' l' Hx Hl]; subst. rewrite (IH Hl). f_equal.
  clear IH H Hl. induction l as [|y l IHl]; cbn; [reflexivity|].
  destruct (str_eqb x y) eqn:E.
  - apply str_eqb_eq in E. subst. exfalso. apply Hx. left. reflexivity.
  - cbn. f_equal. apply IHl. intros Hin. apply Hx. right. exact Hin.
Qed.

(* ==================================================================================== *)
(* the dict                                                                              *)
(* ==================================================================================== *)
Lemma dict_get_none : forall k m, ~ In k (map fst m) -> dict_get k m = None.
Proof.
  induction m as [|[k' v] m IH]; cbn; intros H; [reflexivity|].
  destruct (str_eqb k' k) eqn:E.
  - apply str_eqb_eq in E. subst. exfalso. apply H. left. reflexivity.
  - apply IH. intros Hin. apply H. right. exact Hin.
Qed.

Lemma dict_get_some_in : forall k m v, dict_get k m = Some v -> In (k, v) m.
Proof.
  induction m as [|[k' v'] m IH]; cbn; intros v H; [discriminate|].
  destruct (str_eqb k' k) eqn:E.
  - apply str_eqb_eq in E. inversion H; subst. left. reflexivity.
  - right. apply IH. exact H.
Qed.

Lemma dict_get_in : forall k m v,
  NoDup (map fst m) -> In (k, v) m -> dict_get k m = Some v.
Proof.
  induction m as [|[k' v'] m IH]; cbn; intros v Hnd Hin; [contradiction|].
  inversion Hnd as [|x l Hx Hl]; subst.
  destruct Hin as [Hin|Hin].
  - inversion Hin; subst. rewrite str_eqb_refl. reflexivity.
  - destruct (str_eqb k' k) eqn:E.
    + apply str_eqb_eq in E. subst. exfalso. apply Hx.
      apply (in_map fst) in Hin. exact Hin.
    + apply IH; assumption.
Qed.

Lemma dict_set_fresh : forall k v m, ~ In k (map fst m) -> dict_set k v m = m ++ [(k, v)].
Proof.
  induction m as [|[k' v'] m IH]; cbn; intros H; [reflexivity|].
  destruct (str_eqb k' k) eqn:E.
  - apply str_eqb_eq in E. subst. exfalso. apply H. left. reflexivity.
  - f_equal. apply IH. intros Hin. apply H. right. exact Hin.
Qed.

Lemma dict_set_keys : forall k v m,
  map fst (dict_set k v m) = if mem_str k (map fst m) then map fst m else map fst m ++ [k].
Proof.
  induction m as [|[k' v'] m IH]; [reflexivity|].
  cbn [dict_set map fst]. unfold mem_str. cbn [existsb]. fold (mem_str k (map fst m)).
  rewrite (str_eqb_sym k k').
  destruct (str_eqb k' k) eqn:E; cbn [orb map fst]; [reflexivity|].
  rewrite IH. destruct (mem_str k (map fst m)); reflexivity.
Qed.

Lemma dict_set_in : forall k v m k' v',
  NoDup (map fst m) -> In (k', v') (dict_set k v m) ->
  (k' = k /\ v' = v) \/ (k' <> k /\ In (k', v') m).
Proof.
  induction m as [|[k0 v0] m IH]; cbn; intros k' v' Hnd Hin.
  - destruct Hin as [Hin|[]]. inversion Hin; subst. left. split; reflexivity.
  - inversion Hnd as [|x l Hx Hl]; subst.
    destruct (str_eqb k0 k) eqn:E.
    + apply str_eqb_eq in E. subst k0. destruct Hin as [Hin|Hin].
      * inversion Hin; subst. left. split; reflexivity.
      * right. split; [|right; exact Hin].
        intros Ek. subst k'. apply Hx. apply (in_map fst) in Hin. exact Hin.
    + apply str_eqb_neq in E. destruct Hin as [Hin|Hin].
      * inversion Hin; subst. right. split; [exact E|left; reflexivity].
      * destruct (IH k' v' Hl Hin) as [H|[H1 H2]]; [left; exact H|].
        right. split; [exact H1|right; exact H2].
Qed.

(* ==================================================================================== *)
(* resolution, for any strict weak order                                                 *)
(* ==================================================================================== *)
Section ResolveProofs.
  Variable gtb : list N -> list N -> bool.
  Hypothesis gt_irrefl : forall a, gtb a a = false.
  Hypothesis gt_trans : forall a b c, gtb a b = true -> gtb b c = true -> gtb a c = true.
  Hypothesis gt_cotrans : forall a b c, gtb a c = true -> gtb a b = true \/ gtb b c = true.

  Lemma gt_asym : forall a b, gtb a b = true -> gtb b a = false.
  Proof.
    intros a b H. destruct (gtb b a) eqn:E; [|reflexivity].
    rewrite <- (gt_irrefl a). symmetry. eapply gt_trans; eassumption.
  Qed.

  (* the representative is maximal among all elements of its name *)
  Lemma is_rep_max : forall l d e,
    is_rep gtb l d -> In e l -> dname e = dname d -> gtb (dver e) (dver d) = false.
  Proof.
    intros l d e [l1 [l2 [Hl [H1 H2]]]] Hin Hn. subst l.
    apply in_app_or in Hin. destruct Hin as [Hin|[Hin|Hin]].
    - apply gt_asym. apply H1; assumption.
    - subst e. apply gt_irrefl.
    - apply H2; assumption.
  Qed.

  Lemma is_rep_in : forall l d, is_rep gtb l d -> In d l.
  Proof.
    intros l d [l1 [l2 [Hl _]]]. subst l. apply in_or_app. right. left. reflexivity.
  Qed.

  Lemma is_rep_snoc_keep : forall l d v,
    is_rep gtb l v -> (dname d = dname v -> gtb (dver d) (dver v) = false) ->
    is_rep gtb (l ++ [d]) v.
  Proof.
    intros l d v [l1 [l2 [Hl [H1 H2]]]] Hd. subst l.
    exists l1, (l2 ++ [d]). split; [rewrite <- app_assoc; reflexivity|].
    split; [exact H1|].
    intros e Hin Hn. apply in_app_or in Hin. destruct Hin as [Hin|[Hin|[]]].
    - apply H2; assumption.
    - subst e. apply Hd. exact Hn.
  Qed.

  Lemma is_rep_snoc_new : forall l d,
    (forall e, In e l -> dname e = dname d -> gtb (dver d) (dver e) = true) ->
    is_rep gtb (l ++ [d]) d.
  Proof.
    intros l d H. exists l, []. split; [reflexivity|]. split; [exact H|].
    intros e [].
  Qed.

  (* the state of the loop of _resolve_dependencies after the prefix l *)
  Definition inv (l : list dep) (m : dict) : Prop :=
    map fst m = first_occ (map dname l) /\
    (forall k v, In (k, v) m -> k = dname v /\ is_rep gtb l v).

  Lemma inv_step : forall l m d, inv l m -> inv (l ++ [d]) (resolve_step gtb m d).
  Proof.
    intros l m d [Hk Hv].
    assert (Hnd : NoDup (map fst m)) by (rewrite Hk; apply first_occ_NoDup).
    assert (Hkeys : forall v, map fst (dict_set (dname d) v m) =
                              first_occ (map dname (l ++ [d]))).
    { intros v. rewrite dict_set_keys, map_app. cbn [map]. rewrite first_occ_snoc.
      rewrite Hk.
      destruct (mem_str (dname d) (map dname l)) eqn:M.
      - apply mem_str_In in M. apply (proj2 (first_occ_In _ _)) in M.
        apply (proj2 (mem_str_In _ _)) in M. rewrite M. reflexivity.
      - destruct (mem_str (dname d) (first_occ (map dname l))) eqn:M'; [|reflexivity].
        apply mem_str_In in M'. apply (proj1 (first_occ_In _ _)) in M'.
        apply (proj2 (mem_str_In _ _)) in M'. congruence. }
    (* entries other than the one for dname d stay representatives *)
    assert (Hother : forall k v, In (k, v) m -> k <> dname d ->
                                 k = dname v /\ is_rep gtb (l ++ [d]) v).
    { intros k v Hin Hne. destruct (Hv k v Hin) as [Hkv Hr]. split; [exact Hkv|].
      apply is_rep_snoc_keep; [exact Hr|]. intros E. congruence. }
    unfold resolve_step. destruct (dict_get (dname d) m) as [e|] eqn:G.
    - apply dict_get_some_in in G. destruct (Hv _ _ G) as [He Hre].
      destruct (gtb (dver d) (dver e)) eqn:C.
      + split; [apply Hkeys|].
        intros k v Hin. apply dict_set_in in Hin; [|exact Hnd].
        destruct Hin as [[Ek Ev]|[Hne Hin]]; [|apply Hother; assumption].
        subst k v. split; [reflexivity|]. apply is_rep_snoc_new.
        intros e' Hin' Hn'.
        assert (Hle : gtb (dver e') (dver e) = false).
        { eapply is_rep_max; [exact Hre|exact Hin'|congruence]. }
        destruct (gt_cotrans _ (dver e') _ C) as [H|H]; [exact H|congruence].
      + split.
        * rewrite map_app. cbn [map]. rewrite first_occ_snoc.
          assert (M : mem_str (dname d) (map dname l) = true).
          { apply mem_str_In. apply (proj1 (first_occ_In _ _)). rewrite <- Hk.
            apply (in_map fst) in G. exact G. }
          rewrite M. exact Hk.
        * intros k v Hin.
          destruct (str_eqb k (dname d)) eqn:E.
          -- apply str_eqb_eq in E. subst k.
             assert (Ev : v = e).
             { pose proof (dict_get_in _ _ _ Hnd Hin) as A.
               pose proof (dict_get_in _ _ _ Hnd G) as B. congruence. }
             subst v. split; [exact He|].
             apply is_rep_snoc_keep; [exact Hre|]. intros _. exact C.
          -- apply str_eqb_neq in E. apply Hother; assumption.
    - assert (Hfresh : ~ In (dname d) (map fst m)).
      { intros Hin. apply in_map_iff in Hin. destruct Hin as [[k v] [Ek Hin]].
        cbn in Ek. subst k. rewrite (dict_get_in _ _ _ Hnd Hin) in G. discriminate. }
      split; [apply Hkeys|].
      intros k v Hin. apply dict_set_in in Hin; [|exact Hnd].
      destruct Hin as [[Ek Ev]|[Hne Hin]]; [|apply Hother; assumption].
      subst k v. split; [reflexivity|]. apply is_rep_snoc_new.
      intros e' Hin' Hn'. exfalso. apply Hfresh. rewrite Hk.
      apply (proj2 (first_occ_In _ _)). rewrite <- Hn'. apply in_map. exact Hin'.
  Qed.

  Lemma inv_fold : forall l, inv l (fold_left (resolve_step gtb) l []).
  Proof.
    induction l as [|d l IH] using rev_ind.
    - split; [reflexivity|]. intros k v [].
    - rewrite fold_left_app. cbn [fold_left]. apply inv_step. exact IH.
  Qed.

  Lemma resolve_names : forall l,
    map dname (resolve_by gtb l) = first_occ (map dname l).
  Proof.
    intros l. destruct (inv_fold l) as [Hk Hv]. unfold resolve_by.
    rewrite <- Hk. rewrite map_map.
    apply map_ext_in. intros [k v] Hin. cbn. destruct (Hv k v Hin) as [E _]. symmetry. exact E.
  Qed.

  Lemma resolve_is_rep : forall l d, In d (resolve_by gtb l) -> is_rep gtb l d.
  Proof.
    intros l d Hin. destruct (inv_fold l) as [_ Hv]. unfold resolve_by in Hin.
    apply in_map_iff in Hin. destruct Hin as [[k v] [E Hin]]. cbn in E. subst v.
    apply (Hv k d Hin).
  Qed.

  Lemma resolve_unique_names : forall l, NoDup (map dname (resolve_by gtb l)).
  Proof. intros l. rewrite resolve_names. apply first_occ_NoDup. Qed.

  Lemma resolve_complete : forall l d,
    In d l -> exists r, In r (resolve_by gtb l) /\ dname r = dname d.
  Proof.
    intros l d Hin.
    assert (H : In (dname d) (map dname (resolve_by gtb l))).
    { rewrite resolve_names. apply (proj2 (first_occ_In _ _)). apply in_map. exact Hin. }
    apply in_map_iff in H. destruct H as [r [E Hr]]. exists r. split; assumption.
  Qed.

  (* a list without repeated names is returned unchanged *)
  Lemma fold_nodup : forall l, NoDup (map dname l) ->
    fold_left (resolve_step gtb) l [] = map (fun d => (dname d, d)) l.
  Proof.
    induction l as [|d l IH] using rev_ind; intros Hnd; [reflexivity|].
    rewrite map_app in Hnd. cbn [map] in Hnd.
    pose proof (NoDup_remove_1 _ _ _ Hnd) as H1. pose proof (NoDup_remove_2 _ _ _ Hnd) as H2.
    rewrite app_nil_r in H1, H2.
    rewrite fold_left_app. cbn [fold_left]. rewrite (IH H1).
    assert (Hfresh : ~ In (dname d) (map fst (map (fun d0 : dep => (dname d0, d0)) l))).
    { rewrite map_map. cbn. exact H2. }
    unfold resolve_step. rewrite (dict_get_none _ _ Hfresh).
    rewrite (dict_set_fresh _ _ _ Hfresh). rewrite map_app. reflexivity.
  Qed.

  Lemma resolve_nodup_id : forall l, NoDup (map dname l) -> resolve_by gtb l = l.
  Proof.
    intros l H. unfold resolve_by. rewrite (fold_nodup l H). rewrite map_map. cbn.
    apply map_id.
  Qed.

  Lemma resolve_idempotent : forall l, resolve_by gtb (resolve_by gtb l) = resolve_by gtb l.
  Proof. intros l. apply resolve_nodup_id. apply resolve_unique_names. Qed.

  (* ---- the executable specification ------------------------------------------------ *)
  Lemma max_first_in : forall l m, max_first gtb l = Some m -> In m l.
  Proof.
    induction l as [|d l IH]; cbn; intros m H; [discriminate|].
    destruct (max_first gtb l) as [m'|] eqn:E.
    - destruct (gtb (dver m') (dver d)); inversion H; subst.
      + right. apply IH. reflexivity.
      + left. reflexivity.
    - inversion H; subst. left. reflexivity.
  Qed.

  Lemma max_first_split : forall a d b,
    (forall e, In e a -> gtb (dver d) (dver e) = true) ->
    (forall e, In e b -> gtb (dver e) (dver d) = false) ->
    max_first gtb (a ++ d :: b) = Some d.
  Proof.
    induction a as [|x a IH]; intros d b Ha Hb.
    - cbn. destruct (max_first gtb b) as [m|] eqn:E; [|reflexivity].
      rewrite (Hb m (max_first_in _ _ E)). reflexivity.
    - cbn [app max_first]. rewrite (IH d b).
      + rewrite (Ha x (or_introl eq_refl)). reflexivity.
      + intros e He. apply Ha. right. exact He.
      + exact Hb.
  Qed.

  Lemma is_rep_max_first : forall l d,
    is_rep gtb l d -> max_first gtb (named (dname d) l) = Some d.
  Proof.
    intros l d [l1 [l2 [Hl [H1 H2]]]]. subst l. unfold named.
    rewrite filter_app. cbn [filter]. rewrite str_eqb_refl.
    apply max_first_split.
    - intros e He. apply filter_In in He. destruct He as [He Hn].
      apply str_eqb_eq in Hn. apply H1; assumption.
    - intros e He. apply filter_In in He. destruct He as [He Hn].
      apply str_eqb_eq in Hn. apply H2; assumption.
  Qed.

  Lemma resolve_is_spec : forall l, resolve_by gtb l = spec_resolve_by gtb l.
  Proof.
    intros l. unfold spec_resolve_by. rewrite <- resolve_names.
    assert (H : forall d, In d (resolve_by gtb l) ->
                          max_first gtb (named (dname d) l) = Some d).
    { intros d Hin. apply is_rep_max_first. apply resolve_is_rep. exact Hin. }
    induction (resolve_by gtb l) as [|d r IH]; [reflexivity|].
    cbn [map flat_map]. rewrite (H d (or_introl eq_refl)). cbn. f_equal.
    apply IH. intros d' Hin. apply H. right. exact Hin.
  Qed.
End ResolveProofs.

(* ==================================================================================== *)
(* validation                                                                            *)
(* ==================================================================================== *)
Lemma validate_keys_ok : forall keys req,
  validate_keys keys req = Ok tt <-> (forall a, In a req -> In a keys).
Proof.
  induction req as [|a req IH]; cbn.
  - split; [intros _ a []|reflexivity].
  - destruct (mem_str a keys) eqn:M.
    + apply mem_str_In in M. rewrite IH. split.
      * intros H x [Hx|Hx]; [subst; exact M|apply H; exact Hx].
      * intros H x Hx. apply H. right. exact Hx.
    + apply mem_str_not_In in M. split; [discriminate|].
      intros H. exfalso. apply M. apply H. left. reflexivity.
Qed.

Lemma validate_keys_res : forall keys req,
  validate_keys keys req = Ok tt \/ validate_keys keys req = Err KeyError.
Proof.
  induction req as [|a req IH]; cbn; [left; reflexivity|].
  destruct (mem_str a keys); [exact IH|right; reflexivity].
Qed.

Lemma validate_dict_ok : forall d req,
  (exists k, validate_dict d req = Ok k) <-> item_ok req d.
Proof.
  intros [keys|] req; cbn.
  - rewrite <- validate_keys_ok.
    destruct (validate_keys_res keys req) as [E|E]; rewrite E; split; intros H.
    + reflexivity.
    + exists keys. reflexivity.
    + destruct H as [k H]. discriminate.
    + discriminate.
  - split; [intros [k H]; discriminate|intros []].
Qed.

Lemma validate_dicts_ok : forall ld req,
  (exists ks, validate_dicts ld req = Ok ks) <-> Forall (item_ok req) ld.
Proof.
  induction ld as [|d ld IH]; intros req; cbn.
  - split; [intros _; constructor|intros _; exists []; reflexivity].
  - split.
    + intros [ks H]. destruct (validate_dict d req) as [k|e] eqn:E; [|discriminate].
      destruct (validate_dicts ld req) as [ks'|e] eqn:E'; [|discriminate].
      constructor.
      * apply validate_dict_ok. exists k. exact E.
      * apply IH. exists ks'. exact E'.
    + intros H. inversion H as [|x l Hd Hl]; subst.
      apply validate_dict_ok in Hd. destruct Hd as [k Hd].
      apply IH in Hl. destruct Hl as [ks Hl]. rewrite Hd, Hl. exists (k :: ks). reflexivity.
Qed.

Lemma validate_arg_ok : forall a req,
  (exists ks, validate_arg a req = Ok ks) <-> arg_ok req a.
Proof.
  intros [|k|l|] req; unfold validate_arg; cbn [normalise arg_ok].
  - cbn. split; [intros _; exact I|intros _; exists []; reflexivity].
  - rewrite validate_dicts_ok. split.
    + intros H. inversion H; subst. assumption.
    + intros H. constructor; [exact H|constructor].
  - apply validate_dicts_ok.
  - split; [intros [ks H]; discriminate|intros []].
Qed.

Lemma check_source_ok : forall s,
  (exists r, check_source s = Ok r) <-> source_ok s.
Proof.
  intros [| |keys]; cbn.
  - split; [intros _; exact I|intros _; exists None; reflexivity].
  - split; [intros [r H]; discriminate|intros []].
  - destruct (mem_str k_href keys) eqn:M1; cbn.
    + apply mem_str_In in M1. split; [intros _; left; exact M1|intros _; eexists; reflexivity].
    + destruct (mem_str k_subdir keys) eqn:M2.
      * apply mem_str_In in M2. split; [intros _; right; exact M2|intros _; eexists; reflexivity].
      * apply mem_str_not_In in M1. apply mem_str_not_In in M2.
        split; [intros [r H]; discriminate|intros [H|H]; contradiction].
Qed.

Lemma mk_dep_ok : forall a, (exists o, mk_dep a = Ok o) <-> well_formed a.
Proof.
  intros a. unfold mk_dep, well_formed.
  rewrite <- check_source_ok, <- !validate_arg_ok.
  destruct (check_source (a_source a)) as [src|e1].
  2:{ split; [intros [o H]; discriminate|intros [[r H] _]; discriminate]. }
  destruct (validate_arg (a_script a) [k_src]) as [sc|e2].
  2:{ split; [intros [o H]; discriminate|intros [_ [[r H] _]]; discriminate]. }
  destruct (validate_arg (a_stylesheet a) [k_href]) as [st|e3].
  2:{ split; [intros [o H]; discriminate|intros [_ [_ [[r H] _]]]; discriminate]. }
  destruct (validate_arg (a_meta a) [k_name; k_content]) as [me|e4].
  2:{ split; [intros [o H]; discriminate|intros [_ [_ [_ [r H]]]]; discriminate]. }
  split; [|intros _; eexists; reflexivity].
  intros _. repeat split; eexists; reflexivity.
Qed.

(* error kinds: the model raises exactly what the specification function says *)
Lemma validate_keys_err : forall keys req,
  validate_keys keys req =
  if forallb (fun a => mem_str a keys) req then Ok tt else Err KeyError.
Proof.
  induction req as [|a req IH]; cbn; [reflexivity|].
  destruct (mem_str a keys); cbn; [exact IH|reflexivity].
Qed.

Definition res_err {T} (r : res T) : option err :=
  match r with Ok _ => None | Err e => Some e end.

Lemma validate_dict_err : forall d req, res_err (validate_dict d req) = item_err req d.
Proof.
  intros [keys|] req; cbn; [|reflexivity].
  rewrite validate_keys_err. destruct (forallb _ req); reflexivity.
Qed.

Lemma validate_dicts_err : forall ld req,
  res_err (validate_dicts ld req) = first_some (map (item_err req) ld).
Proof.
  induction ld as [|d ld IH]; intros req; cbn; [reflexivity|].
  rewrite <- validate_dict_err, <- IH.
  destruct (validate_dict d req); cbn; [|reflexivity].
  destruct (validate_dicts ld req); reflexivity.
Qed.

Lemma validate_arg_err : forall a req, res_err (validate_arg a req) = arg_err req a.
Proof.
  intros [|k|l|] req; unfold validate_arg; cbn [normalise arg_err]; try reflexivity.
  - rewrite validate_dicts_err. cbn [map first_some].
    destruct (item_err req (IDict k)); reflexivity.
  - apply validate_dicts_err.
Qed.

Lemma check_source_err : forall s, res_err (check_source s) = source_err s.
Proof.
  intros [| |keys]; cbn; try reflexivity.
  destruct (mem_str k_href keys || mem_str k_subdir keys); reflexivity.
Qed.

Lemma mk_dep_err : forall a, res_err (mk_dep a) = spec_error a.
Proof.
  intros a. unfold mk_dep, spec_error. cbn [first_some].
  rewrite <- check_source_err, <- !validate_arg_err.
  destruct (check_source (a_source a)); cbn; [|reflexivity].
  destruct (validate_arg (a_script a) [k_src]); cbn; [|reflexivity].
  destruct (validate_arg (a_stylesheet a) [k_href]); cbn; [|reflexivity].
  destruct (validate_arg (a_meta a) [k_name; k_content]); reflexivity.
Qed.

Lemma single_eq_list : forall a k,
  mk_dep (set_script a (ADict k)) = mk_dep (set_script a (AIter [IDict k])) /\
  mk_dep (set_stylesheet a (ADict k)) = mk_dep (set_stylesheet a (AIter [IDict k])) /\
  mk_dep (set_meta a (ADict k)) = mk_dep (set_meta a (AIter [IDict k])).
Proof. intros a k. repeat split. Qed.

(* ==================================================================================== *)
(* instantiation with the version order                                                  *)
(* ==================================================================================== *)
Definition vI := proj1 ver_gtb_swo.
Definition vT := proj1 (proj2 ver_gtb_swo).
Definition vC := proj2 (proj2 ver_gtb_swo).

Lemma ver_gtb_false : forall a b, ver_gtb a b = false <-> ver_cmp a b <> Gt.
Proof.
  intros a b. unfold ver_gtb. destruct (ver_cmp a b); split; intros H;
    try reflexivity; try discriminate. congruence.
Qed.

Lemma ver_resolve_names : forall l, map dname (resolve l) = first_occ (map dname l).
Proof. exact (resolve_names ver_gtb vI vT vC). Qed.

Lemma ver_resolve_unique : forall l, NoDup (map dname (resolve l)).
Proof. exact (resolve_unique_names ver_gtb vI vT vC). Qed.

Lemma ver_resolve_complete : forall l d,
  In d l -> exists r, In r (resolve l) /\ dname r = dname d.
Proof. exact (resolve_complete ver_gtb vI vT vC). Qed.

Lemma ver_resolve_idempotent : forall l, resolve (resolve l) = resolve l.
Proof. exact (resolve_idempotent ver_gtb vI vT vC). Qed.

Lemma ver_resolve_is_spec : forall l, resolve l = spec_resolve l.
Proof. exact (resolve_is_spec ver_gtb vI vT vC). Qed.

Lemma ver_max_earliest : forall l d, In d (resolve l) ->
  In d l /\
  (forall e, In e l -> dname e = dname d -> ver_cmp (dver e) (dver d) <> Gt) /\
  (exists l1 l2, l = l1 ++ d :: l2 /\
     (forall e, In e l1 -> dname e = dname d -> ver_cmp (dver e) (dver d) = Lt) /\
     (forall e, In e l2 -> dname e = dname d -> ver_cmp (dver e) (dver d) <> Gt)).
Proof.
  intros l d Hin. pose proof (resolve_is_rep ver_gtb vI vT vC l d Hin) as Hr.
  split; [apply (is_rep_in ver_gtb l d Hr)|]. split.
  - intros e He Hn. apply ver_gtb_false. apply (is_rep_max ver_gtb vI vT l d e Hr He Hn).
  - destruct Hr as [l1 [l2 [Hl [H1 H2]]]]. exists l1, l2. split; [exact Hl|]. split.
    + intros e He Hn. apply ver_gtb_lt. apply H1; assumption.
    + intros e He Hn. apply ver_gtb_false. apply H2; assumption.
Qed.

Lemma get_dependencies_spec : forall dedup l,
  get_dependencies dedup l = spec_get_dependencies dedup l.
Proof.
  intros [|] l; unfold get_dependencies, spec_get_dependencies, finish;
    rewrite collect_preorder; [apply ver_resolve_is_spec|reflexivity].
Qed.

Lemma position_independent : forall dedup l1 l2,
  preorder l1 = preorder l2 -> get_dependencies dedup l1 = get_dependencies dedup l2.
Proof.
  intros dedup l1 l2 H. unfold get_dependencies. rewrite !collect_preorder, H. reflexivity.
Qed.

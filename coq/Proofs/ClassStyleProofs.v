(* Proofs for C16: whitespace splitting, the dict primitives, the class/style helpers as
   token-list / declaration algebra, css(). *)
From Coq Require Import Lia.
From HT Require Import Model.Str Model.Tree Model.Escape Model.ClassStyle Gen.Tables
     Spec.CharMap Spec.ClassStyleSpec Proofs.EscapeProofs.

(* ------------------------------------------------------------------------------- *)
(* string equality                                                                  *)
(* ------------------------------------------------------------------------------- *)
Lemma cs_str_eqb_refl a : str_eqb a a = true.
Proof. induction a as [|x a IH]; simpl; [reflexivity|]. rewrite N.eqb_refl, IH. reflexivity. Qed.

Lemma cs_str_eqb_eq a b : str_eqb a b = true <-> a = b.
Proof.
  revert b. induction a as [|x a IH]; intros [|y b]; simpl; split; intros H;
    try reflexivity; try discriminate.
  - apply andb_true_iff in H. destruct H as [H1 H2].
    apply N.eqb_eq in H1. apply IH in H2. subst. reflexivity.
  - inversion H; subst. rewrite N.eqb_refl. simpl. apply cs_str_eqb_refl.
Qed.

Lemma cs_str_eqb_neq a b : str_eqb a b = false <-> a <> b.
Proof.
  split; intros H.
  - intros E. apply cs_str_eqb_eq in E. congruence.
  - destruct (str_eqb a b) eqn:E; [|reflexivity]. apply cs_str_eqb_eq in E. contradiction.
Qed.

Lemma cs_str_eqb_sym a b : str_eqb a b = str_eqb b a.
Proof.
  destruct (str_eqb a b) eqn:E.
  - apply cs_str_eqb_eq in E. subst. symmetry. apply cs_str_eqb_refl.
  - symmetry. apply cs_str_eqb_neq. apply cs_str_eqb_neq in E. congruence.
Qed.

(* ------------------------------------------------------------------------------- *)
(* split_ws                                                                         *)
(* ------------------------------------------------------------------------------- *)
Lemma nonempty_true s : nonempty s = true <-> s <> [].
Proof. destruct s; simpl; split; congruence. Qed.

Lemma split_acc_mid cur a w b :
  is_ws w = true -> split_acc cur (a ++ w :: b) = split_acc cur a ++ split_acc [] b.
Proof.
  intros Hw. revert cur. induction a as [|c a IH]; intros cur; simpl.
  - rewrite Hw. destruct (nonempty cur); reflexivity.
  - destruct (is_ws c).
    + destruct (nonempty cur); simpl; rewrite IH; reflexivity.
    + apply IH.
Qed.

Lemma split_acc_free cur t s :
  ws_free t -> split_acc cur (t ++ s) = split_acc (cur ++ t) s.
Proof.
  intros Ht. revert cur. induction Ht as [|x t Hx Ht IH]; intros cur; simpl.
  - rewrite app_nil_r. reflexivity.
  - rewrite Hx. rewrite IH. rewrite <- app_assoc. reflexivity.
Qed.

Lemma split_ws_nil : split_ws [] = [].
Proof. reflexivity. Qed.

Lemma split_ws_ws_cons c s : is_ws c = true -> split_ws (c :: s) = split_ws s.
Proof. intros H. unfold split_ws. simpl. rewrite H. reflexivity. Qed.

Lemma split_ws_token_then t s :
  token t -> (s = [] \/ exists w s', s = w :: s' /\ is_ws w = true) ->
  split_ws (t ++ s) = t :: split_ws s.
Proof.
  intros [Hne Hf] Hs. unfold split_ws. rewrite split_acc_free by exact Hf. simpl.
  destruct Hs as [-> | (w & s' & -> & Hw)]; simpl.
  - apply nonempty_true in Hne. rewrite Hne. reflexivity.
  - rewrite Hw. apply nonempty_true in Hne. rewrite Hne. reflexivity.
Qed.

Lemma split_ws_token c : token c -> split_ws c = [c].
Proof.
  intros H. rewrite <- (app_nil_r c) at 1. rewrite split_ws_token_then; auto.
Qed.

Lemma split_ws_app_sp a b : split_ws (a ++ [32] ++ b) = split_ws a ++ split_ws b.
Proof. unfold split_ws. simpl. apply split_acc_mid. reflexivity. Qed.

Lemma split_acc_tokens cur s : ws_free cur -> Forall token (split_acc cur s).
Proof.
  revert cur. induction s as [|c s IH]; intros cur Hc; simpl.
  - destruct (nonempty cur) eqn:E; constructor; [|constructor].
    split; [apply nonempty_true; exact E | exact Hc].
  - destruct (is_ws c) eqn:W.
    + destruct (nonempty cur) eqn:E.
      * constructor; [split; [apply nonempty_true; exact E | exact Hc]|].
        apply IH. constructor.
      * apply IH. constructor.
    + apply IH. apply Forall_app. split; [exact Hc|]. constructor; [exact W|constructor].
Qed.

Lemma split_ws_tokens s : Forall token (split_ws s).
Proof. apply split_acc_tokens. constructor. Qed.

Lemma split_ws_join toks : Forall token toks -> split_ws (join [32] toks) = toks.
Proof.
  induction 1 as [|x l Hx Hl IH]; [reflexivity|].
  destruct l as [|y l].
  - simpl. apply split_ws_token. exact Hx.
  - change (join [32] (x :: y :: l)) with (x ++ [32] ++ join [32] (y :: l)).
    rewrite split_ws_app_sp, IH, split_ws_token by exact Hx. reflexivity.
Qed.

Lemma filter_tokens (f : str -> bool) l : Forall token l -> Forall token (filter f l).
Proof.
  intros H. apply Forall_forall. intros x Hx. apply filter_In in Hx.
  rewrite Forall_forall in H. apply H. tauto.
Qed.

(* ------------------------------------------------------------------------------- *)
(* strip                                                                            *)
(* ------------------------------------------------------------------------------- *)
Lemma lstrip_free s : ws_free s -> lstrip s = s.
Proof. intros H. destruct H as [|x s Hx Hs]; simpl; [reflexivity|]. rewrite Hx. reflexivity. Qed.

Lemma strip_free s : ws_free s -> strip s = s.
Proof.
  intros H. unfold strip, rstrip. rewrite (lstrip_free s H).
  rewrite lstrip_free by (apply Forall_rev; exact H). apply rev_involutive.
Qed.

Lemma token_b_spec s : token_b s = true <-> token s.
Proof.
  unfold token_b, token, ws_free. rewrite andb_true_iff, nonempty_true, forallb_forall, Forall_forall.
  split; intros [H1 H2]; split; auto; intros x Hx; specialize (H2 x Hx).
  - destruct (is_ws x); [discriminate|reflexivity].
  - rewrite H2. reflexivity.
Qed.

(* ------------------------------------------------------------------------------- *)
(* ends_with_char                                                                   *)
(* ------------------------------------------------------------------------------- *)
Lemma ends_with_snoc c a : ends_with_char c (a ++ [c]) = true.
Proof.
  induction a as [|x a IH]; simpl; [apply N.eqb_refl|].
  destruct (a ++ [c]) eqn:E; [destruct a; discriminate|]. exact IH.
Qed.

(* ------------------------------------------------------------------------------- *)
(* dict primitives                                                                  *)
(* ------------------------------------------------------------------------------- *)
Lemma attr_get_set_same k v a : attr_get k (attr_set k v a) = Some v.
Proof.
  induction a as [|[k' v'] a IH]; simpl.
  - rewrite cs_str_eqb_refl. reflexivity.
  - destruct (str_eqb k' k) eqn:E; simpl; rewrite E; [reflexivity|exact IH].
Qed.

Lemma attr_get_set_other k k2 v a : k2 <> k -> attr_get k2 (attr_set k v a) = attr_get k2 a.
Proof.
  intros Hne. induction a as [|[k' v'] a IH]; simpl.
  - destruct (str_eqb k k2) eqn:E; [|reflexivity].
    apply cs_str_eqb_eq in E. congruence.
  - destruct (str_eqb k' k) eqn:E; simpl.
    + destruct (str_eqb k' k2) eqn:E2; [|reflexivity].
      apply cs_str_eqb_eq in E. apply cs_str_eqb_eq in E2. congruence.
    + rewrite IH. reflexivity.
Qed.

Lemma attr_set_same_value k v a : attr_get k a = Some v -> attr_set k v a = a.
Proof.
  induction a as [|[k' v'] a IH]; simpl; [discriminate|].
  destruct (str_eqb k' k) eqn:E; intros H.
  - inversion H; subst. reflexivity.
  - rewrite IH by exact H. reflexivity.
Qed.

Lemma attr_get_remove_same k a : attr_get k (attr_remove k a) = None.
Proof.
  induction a as [|[k' v'] a IH]; simpl; [reflexivity|].
  destruct (str_eqb k' k) eqn:E; simpl; [exact IH|]. rewrite E. exact IH.
Qed.

Lemma attr_get_remove_other k k2 a : k2 <> k -> attr_get k2 (attr_remove k a) = attr_get k2 a.
Proof.
  intros Hne. induction a as [|[k' v'] a IH]; simpl; [reflexivity|].
  destruct (str_eqb k' k) eqn:E; simpl.
  - destruct (str_eqb k' k2) eqn:E2; [|exact IH].
    apply cs_str_eqb_eq in E. apply cs_str_eqb_eq in E2. congruence.
  - rewrite IH. reflexivity.
Qed.

(* keys stay distinct, and existing keys keep their positions *)
Lemma keys_attr_set k v a :
  map fst (attr_set k v a) = if mem_str k (map fst a) then map fst a else map fst a ++ [k].
Proof.
  unfold mem_str. induction a as [|[k' v'] a IH]; simpl; [reflexivity|].
  rewrite (cs_str_eqb_sym k k'). destruct (str_eqb k' k) eqn:E; simpl; [reflexivity|].
  rewrite IH. destruct (existsb (str_eqb k) (map fst a)); reflexivity.
Qed.

Lemma mem_str_In k l : mem_str k l = true <-> In k l.
Proof.
  unfold mem_str. rewrite existsb_exists. split.
  - intros (x & Hx & E). apply cs_str_eqb_eq in E. subst. exact Hx.
  - intros H. exists k. split; [exact H|apply cs_str_eqb_refl].
Qed.

Lemma cs_nodup_snoc (l : list str) k : NoDup l -> ~ In k l -> NoDup (l ++ [k]).
Proof.
  induction l as [|x l IH]; simpl; intros H Hn.
  - constructor; [intros []|constructor].
  - inversion H as [|? ? Hx Hl]; subst. constructor.
    + intros Hin. apply in_app_or in Hin. destruct Hin as [Hin|[E|[]]]; [contradiction|].
      apply Hn. left. symmetry. exact E.
    + apply IH; [exact Hl|]. intros Hin. apply Hn. right. exact Hin.
Qed.

Lemma nodup_attr_set k v a : NoDup (map fst a) -> NoDup (map fst (attr_set k v a)).
Proof.
  intros H. rewrite keys_attr_set. destruct (mem_str k (map fst a)) eqn:E; [exact H|].
  apply cs_nodup_snoc; [exact H|].
  intros Hin. apply mem_str_In in Hin. congruence.
Qed.

Lemma nodup_attr_remove k a : NoDup (map fst a) -> NoDup (map fst (attr_remove k a)).
Proof.
  induction a as [|[k' v'] a IH]; simpl; intros H; [constructor|].
  inversion H as [|? ? Hn Hd]; subst.
  destruct (str_eqb k' k); simpl; [apply IH; exact Hd|].
  constructor; [|apply IH; exact Hd].
  intros Hin. apply Hn. apply in_map_iff in Hin. destruct Hin as ([k2 v2] & E & Hin).
  apply filter_In in Hin. apply in_map_iff. exists (k2, v2). tauto.
Qed.

(* ------------------------------------------------------------------------------- *)
(* TagAttrDict.update as the helpers call it                                        *)
(* ------------------------------------------------------------------------------- *)
Lemma update_one k v st : norm_attr_name k = k -> attrs_update st [[(k, Some v)]] = attr_set k v st.
Proof. intros Hk. unfold attrs_update. simpl. rewrite Hk. reflexivity. Qed.

Lemma update_two k a b st :
  norm_attr_name k = k ->
  attrs_update st [[(k, a)]; [(k, b)]] =
  match a, b with
  | None, None => st
  | Some x, None => attr_set k x st
  | None, Some y => attr_set k y st
  | Some x, Some y => attr_set k (join_sp x y) st
  end.
Proof.
  intros Hk. unfold attrs_update. simpl.
  destruct a as [x|], b as [y|]; simpl; rewrite ?Hk; simpl; rewrite ?cs_str_eqb_refl; reflexivity.
Qed.

Lemma norm_class : norm_attr_name k_class = k_class.
Proof. reflexivity. Qed.
Lemma norm_style : norm_attr_name k_style = k_style.
Proof. reflexivity. Qed.
Lemma class_neq_style : k_class <> k_style.
Proof. discriminate. Qed.

(* the value add_class / add_style leave in the attribute *)
Definition merged (old : option aval) (v : aval) (prepend : bool) : aval :=
  match old with
  | None => v
  | Some o => if prepend then join_sp v o else join_sp o v
  end.

Lemma add_class_eq st c p :
  add_class st c p = attr_set k_class (merged (attr_get k_class st) c p) st.
Proof.
  unfold add_class, merged. destruct p; rewrite (update_two _ _ _ _ norm_class);
    destruct (attr_get k_class st); reflexivity.
Qed.

Lemma add_style_eq st v p :
  ends_with_char 59 (aval_str v) = true ->
  add_style st (Some v) p = Ok (attr_set k_style (merged (attr_get k_style st) v p) st).
Proof.
  intros H. unfold add_style, merged. rewrite H. simpl.
  destruct p; rewrite (update_two _ _ _ _ norm_style); destruct (attr_get k_style st); reflexivity.
Qed.

Lemma add_style_none st p : add_style st None p = Ok st.
Proof.
  unfold add_style. simpl.
  destruct p; rewrite (update_two _ _ _ _ norm_style);
    destruct (attr_get k_style st) eqn:E; try reflexivity;
    rewrite (attr_set_same_value _ _ _ E); reflexivity.
Qed.

Lemma add_style_guard st v p :
  ends_with_char 59 (aval_str v) = false -> add_style st (Some v) p = Err ValueError.
Proof. intros H. unfold add_style. rewrite H. reflexivity. Qed.

(* ------------------------------------------------------------------------------- *)
(* + on str | HTML                                                                  *)
(* ------------------------------------------------------------------------------- *)
Lemma esc_space : esc [32] = [32].
Proof. reflexivity. Qed.

Lemma esc_app a b : esc (a ++ b) = esc a ++ esc b.
Proof. apply escape_app. Qed.

Lemma join_sp_plain a b : join_sp (AStr a) (AStr b) = AStr (a ++ [32] ++ b).
Proof. unfold join_sp. simpl. rewrite <- app_assoc. reflexivity. Qed.

Lemma join_sp_html_plain a b : join_sp (AHtml a) (AStr b) = AHtml (a ++ [32] ++ esc b).
Proof. unfold join_sp. simpl py_add. rewrite esc_space, <- app_assoc. reflexivity. Qed.

Lemma join_sp_plain_html a b : join_sp (AStr a) (AHtml b) = AHtml (esc a ++ [32] ++ b).
Proof. unfold join_sp. simpl py_add. rewrite esc_app, esc_space, <- app_assoc. reflexivity. Qed.

Lemma join_sp_html_html a b : join_sp (AHtml a) (AHtml b) = AHtml (a ++ [32] ++ b).
Proof. unfold join_sp. simpl py_add. rewrite esc_space, <- app_assoc. reflexivity. Qed.

(* escaping maps whitespace-free tokens to whitespace-free tokens (either table) *)
Lemma esc_char_free (b : bool) x : is_ws x = false -> ws_free ((if b then esc_attr_char else esc_text_char) x).
Proof.
  intros Hx. destruct b; unfold esc_attr_char, esc_text_char;
    repeat match goal with |- context [if ?c then _ else _] => destruct c end;
    repeat (constructor; try reflexivity); exact Hx.
Qed.

Lemma spec_escape_free b s : ws_free s -> ws_free (spec_escape b s).
Proof.
  unfold spec_escape. induction 1 as [|x s Hx Hs IH]; simpl; [constructor|].
  apply Forall_app. split; [apply esc_char_free; exact Hx|exact IH].
Qed.

Lemma esc_char_nonempty (b : bool) x : (if b then esc_attr_char else esc_text_char) x <> [].
Proof.
  destruct b; unfold esc_attr_char, esc_text_char;
    repeat match goal with |- context [if ?c then _ else _] => destruct c end; discriminate.
Qed.

Lemma spec_escape_nonempty (b : bool) s : s <> [] -> spec_escape b s <> [].
Proof.
  intros Hne. destruct s as [|x s]; [congruence|]. unfold spec_escape.
  change (flat_map (if b then esc_attr_char else esc_text_char) (x :: s))
    with ((if b then esc_attr_char else esc_text_char) x ++ flat_map (if b then esc_attr_char else esc_text_char) s).
  intros H. apply app_eq_nil in H. destruct H as [H _]. exact (esc_char_nonempty b x H).
Qed.

Lemma esc_token c : token c -> token (esc c).
Proof.
  intros [Hne Hf]. unfold esc. rewrite escape_is_charmap. split.
  - apply spec_escape_nonempty. exact Hne.
  - apply spec_escape_free. exact Hf.
Qed.

(* ------------------------------------------------------------------------------- *)
(* class helpers on tokens                                                          *)
(* ------------------------------------------------------------------------------- *)
Lemma class_tokens_set v st : class_tokens (attr_set k_class v st) = split_ws (aval_str v).
Proof. unfold class_tokens. rewrite attr_get_set_same. reflexivity. Qed.

Lemma has_class_spec st c : has_class st c = spec_has (class_tokens st) c.
Proof.
  unfold has_class, class_tokens, spec_has, mem_str, truthy.
  destruct (attr_get k_class st) as [v|]; [|reflexivity].
  destruct (aval_str v); reflexivity.
Qed.

(* any plain argument, plain or absent class value: the argument's tokens go in front of /
   behind the old ones *)
Lemma add_tokens_general st c p :
  plain_class st ->
  class_tokens (add_class st (AStr c) p) =
  if p then split_ws c ++ class_tokens st else class_tokens st ++ split_ws c.
Proof.
  intros Hp. rewrite add_class_eq, class_tokens_set. unfold class_tokens, merged.
  destruct (attr_get k_class st) as [[o|h]|] eqn:E.
  - destruct p; rewrite join_sp_plain; simpl aval_str; apply split_ws_app_sp.
  - exfalso. apply (Hp h). exact E.
  - destruct p; simpl; [rewrite app_nil_r|]; reflexivity.
Qed.

Lemma add_tokens st c p :
  token c -> plain_class st ->
  class_tokens (add_class st (AStr c) p) = spec_add (class_tokens st) c p.
Proof.
  intros Hc Hp. rewrite add_tokens_general by exact Hp. rewrite (split_ws_token c Hc).
  destruct p; reflexivity.
Qed.

Lemma add_tokens_html st c p h :
  token c -> attr_get k_class st = Some (AHtml h) ->
  class_tokens (add_class st (AStr c) p) = spec_add (class_tokens st) (esc c) p.
Proof.
  intros Hc E. rewrite add_class_eq, class_tokens_set. unfold class_tokens, merged. rewrite E.
  destruct p; [rewrite join_sp_plain_html|rewrite join_sp_html_plain]; cbn [aval_str];
    rewrite split_ws_app_sp, (split_ws_token _ (esc_token c Hc)); reflexivity.
Qed.

Lemma spec_has_add toks c p : spec_has (spec_add toks c p) c = true.
Proof.
  unfold spec_has, spec_add. destruct p; simpl.
  - rewrite cs_str_eqb_refl. reflexivity.
  - rewrite existsb_app. simpl. rewrite cs_str_eqb_refl. apply orb_true_iff. right. reflexivity.
Qed.

Lemma add_has st c p : token c -> plain_class st -> has_class (add_class st (AStr c) p) c = true.
Proof. intros Hc Hp. rewrite has_class_spec, add_tokens by assumption. apply spec_has_add. Qed.

Lemma add_has_html st c p h :
  token c -> attr_get k_class st = Some (AHtml h) -> esc c = c ->
  has_class (add_class st (AStr c) p) c = true.
Proof.
  intros Hc E He. rewrite has_class_spec, (add_tokens_html st c p h Hc E), He. apply spec_has_add.
Qed.

Lemma add_class_frame st c p k :
  k <> k_class -> attr_get k (add_class st c p) = attr_get k st.
Proof. intros Hk. rewrite add_class_eq. apply attr_get_set_other. exact Hk. Qed.

Lemma add_class_plain_value st c p :
  add_class st (AStr c) p =
  attr_set k_class
    (match attr_get k_class st with
     | None => AStr c
     | Some (AStr o) => AStr (if p then c ++ [32] ++ o else o ++ [32] ++ c)
     | Some (AHtml h) => AHtml (if p then esc c ++ [32] ++ h else h ++ [32] ++ esc c)
     end) st.
Proof.
  rewrite add_class_eq. unfold merged. destruct (attr_get k_class st) as [[o|h]|]; [| |reflexivity];
    destruct p; rewrite ?join_sp_plain, ?join_sp_plain_html, ?join_sp_html_plain; reflexivity.
Qed.

Lemma plain_add st c p : plain_class st -> plain_class (add_class st (AStr c) p).
Proof.
  intros Hp h. rewrite add_class_plain_value, attr_get_set_same.
  destruct (attr_get k_class st) as [[o|h']|] eqn:E; try discriminate.
  exfalso. apply (Hp h'). exact E.
Qed.

(* remove_class *)
Definition cls_value (st : attrs) : str :=
  match attr_get k_class st with Some v => aval_str v | None => [] end.

Lemma class_tokens_cls st : class_tokens st = split_ws (cls_value st).
Proof. unfold class_tokens, cls_value. destruct (attr_get k_class st); reflexivity. Qed.

(* complete description of remove_class *)
Lemma remove_class_eq st c :
  remove_class st c =
  Ok (if negb (nonempty c) || negb (nonempty (cls_value st)) then st
      else match spec_remove (class_tokens st) (strip c) with
           | [] => attr_remove k_class st
           | t :: ts => attr_set k_class (AStr (join [32] (t :: ts))) st
           end).
Proof.
  unfold remove_class, cls_value, class_tokens, spec_remove, truthy.
  destruct (nonempty c); simpl; [|reflexivity].
  destruct (attr_get k_class st) as [v|] eqn:E; simpl; [|reflexivity].
  destruct (nonempty (aval_str v)) eqn:T; simpl; rewrite ?T; simpl; [|reflexivity].
  destruct (filter _ (split_ws (aval_str v))) as [|t ts].
  - unfold attr_pop. rewrite E. reflexivity.
  - rewrite (update_one _ _ _ norm_class). reflexivity.
Qed.

Lemma remove_total st c : exists st', remove_class st c = Ok st'.
Proof. rewrite remove_class_eq. eexists. reflexivity. Qed.

Lemma spec_remove_tokens toks c : Forall token toks -> Forall token (spec_remove toks c).
Proof. apply filter_tokens. Qed.

Lemma spec_remove_nonempty_arg toks : Forall token toks -> spec_remove toks [] = toks.
Proof.
  induction 1 as [|t l Ht Hl IH]; [reflexivity|].
  change (spec_remove (t :: l) []) with
    (if negb (str_eqb t []) then t :: spec_remove l [] else spec_remove l []).
  rewrite IH. destruct t as [|x t]; [destruct Ht; congruence|]. reflexivity.
Qed.

Lemma strip_nil_of_nil c : nonempty c = false -> strip c = [].
Proof. destruct c; [reflexivity|discriminate]. Qed.

Lemma class_tokens_are_tokens st : Forall token (class_tokens st).
Proof. rewrite class_tokens_cls. apply split_ws_tokens. Qed.

Lemma remove_tokens st c st' :
  remove_class st c = Ok st' -> class_tokens st' = spec_remove (class_tokens st) (strip c).
Proof.
  rewrite remove_class_eq. intros H. injection H as <-.
  destruct (nonempty c) eqn:Nc; simpl.
  - destruct (nonempty (cls_value st)) eqn:Nv; simpl.
    + pose proof (spec_remove_tokens _ (strip c) (class_tokens_are_tokens st)) as Ht.
      destruct (spec_remove (class_tokens st) (strip c)) as [|t ts].
      * unfold class_tokens. rewrite attr_get_remove_same. reflexivity.
      * rewrite class_tokens_set. exact (split_ws_join (t :: ts) Ht).
    + rewrite class_tokens_cls. destruct (cls_value st); [reflexivity|discriminate].
  - rewrite (strip_nil_of_nil c Nc). symmetry. apply spec_remove_nonempty_arg.
    apply class_tokens_are_tokens.
Qed.

Lemma remove_frame st c st' k :
  remove_class st c = Ok st' -> k <> k_class -> attr_get k st' = attr_get k st.
Proof.
  rewrite remove_class_eq. intros H Hk. injection H as <-.
  destruct (negb (nonempty c) || negb (nonempty (cls_value st))); [reflexivity|].
  destruct (spec_remove (class_tokens st) (strip c)).
  - apply attr_get_remove_other. exact Hk.
  - apply attr_get_set_other. exact Hk.
Qed.

(* when is the attribute dropped, and what is stored otherwise *)
Lemma remove_attr st c st' v :
  remove_class st c = Ok st' -> c <> [] -> attr_get k_class st = Some v -> aval_str v <> [] ->
  match spec_remove (class_tokens st) (strip c) with
  | [] => attr_get k_class st' = None
  | t :: ts => attr_get k_class st' = Some (AStr (join [32] (t :: ts)))
  end.
Proof.
  rewrite remove_class_eq. intros H Hc E Hv. injection H as <-.
  apply nonempty_true in Hc. rewrite Hc. unfold cls_value. rewrite E.
  apply nonempty_true in Hv. rewrite Hv. simpl.
  destruct (spec_remove (class_tokens st) (strip c)).
  - apply attr_get_remove_same.
  - apply attr_get_set_same.
Qed.

Lemma remove_noop st c :
  (c = [] \/ attr_get k_class st = None \/ exists v, attr_get k_class st = Some v /\ aval_str v = []) ->
  remove_class st c = Ok st.
Proof.
  intros H. rewrite remove_class_eq. unfold cls_value.
  destruct H as [-> | [E | (v & E & Hv)]]; [reflexivity | |]; rewrite E; [|rewrite Hv];
    simpl; rewrite orb_true_r; reflexivity.
Qed.

Lemma spec_has_remove_other toks c d : d <> c -> spec_has (spec_remove toks c) d = spec_has toks d.
Proof.
  intros Hd. unfold spec_has, spec_remove. induction toks as [|t toks IH]; [reflexivity|]. simpl.
  destruct (str_eqb t c) eqn:E; simpl; rewrite IH; [|reflexivity].
  apply cs_str_eqb_eq in E. subst t.
  apply cs_str_eqb_neq in Hd. rewrite Hd. reflexivity.
Qed.

Lemma spec_has_remove_same toks c : spec_has (spec_remove toks c) c = false.
Proof.
  unfold spec_has, spec_remove. induction toks as [|t toks IH]; [reflexivity|]. simpl.
  destruct (str_eqb t c) eqn:E; simpl; [exact IH|].
  rewrite cs_str_eqb_sym, E. exact IH.
Qed.

Lemma plain_remove st c st' : remove_class st c = Ok st' -> plain_class st -> plain_class st'.
Proof.
  rewrite remove_class_eq. intros H Hp. injection H as <-.
  destruct (negb (nonempty c) || negb (nonempty (cls_value st))); [exact Hp|].
  destruct (spec_remove (class_tokens st) (strip c)); intros h.
  - rewrite attr_get_remove_same. discriminate.
  - rewrite attr_get_set_same. discriminate.
Qed.

(* add_style does not touch the class attribute *)
Lemma add_style_class st s p st' :
  add_style st s p = Ok st' -> attr_get k_class st' = attr_get k_class st.
Proof.
  destruct s as [v|].
  - destruct (ends_with_char 59 (aval_str v)) eqn:E.
    + rewrite (add_style_eq _ _ _ E). intros H. inversion H; subst.
      apply attr_get_set_other. exact class_neq_style.
    + rewrite (add_style_guard _ _ _ E). discriminate.
  - rewrite add_style_none. intros H. inversion H; subst. reflexivity.
Qed.

Lemma add_style_frame st s p st' k :
  add_style st s p = Ok st' -> k <> k_style -> attr_get k st' = attr_get k st.
Proof.
  intros H Hk. destruct s as [v|].
  - destruct (ends_with_char 59 (aval_str v)) eqn:E.
    + rewrite (add_style_eq _ _ _ E) in H. inversion H; subst.
      apply attr_get_set_other. exact Hk.
    + rewrite (add_style_guard _ _ _ E) in H. discriminate.
  - rewrite add_style_none in H. inversion H; subst. reflexivity.
Qed.

(* ------------------------------------------------------------------------------- *)
(* histories                                                                        *)
(* ------------------------------------------------------------------------------- *)
Lemma step_tokens st o :
  plain_class st -> op_ok o ->
  plain_class (step st o) /\ class_tokens (step st o) = spec_step (class_tokens st) (abs_op o).
Proof.
  intros Hp Ho. destruct o as [c p|c|s p]; simpl.
  - destruct Ho as (s & -> & Hs). split; [apply plain_add; exact Hp|apply add_tokens; assumption].
  - destruct (remove_total st c) as (st' & E). rewrite E. split.
    + exact (plain_remove _ _ _ E Hp).
    + exact (remove_tokens _ _ _ E).
  - destruct (add_style st s p) as [st'|e] eqn:E; [|split; [exact Hp|reflexivity]].
    pose proof (add_style_class _ _ _ _ E) as Hc. split.
    + intros h. rewrite Hc. apply Hp.
    + unfold class_tokens. rewrite Hc. reflexivity.
Qed.

Lemma history_tokens ops : forall st,
  plain_class st -> Forall op_ok ops ->
  class_tokens (run_ops st ops) = spec_run (class_tokens st) (map abs_op ops).
Proof.
  induction ops as [|o ops IH]; intros st Hp Hok; [reflexivity|].
  inversion Hok as [|? ? Ho Hrest]; subst.
  destruct (step_tokens st o Hp Ho) as [Hp' Ht].
  unfold run_ops, spec_run in *. simpl. rewrite IH by assumption. rewrite Ht. reflexivity.
Qed.

Lemma step_nodup st o : NoDup (map fst st) -> NoDup (map fst (step st o)).
Proof.
  intros H. destruct o as [c p|c|s p]; simpl.
  - rewrite add_class_eq. apply nodup_attr_set. exact H.
  - rewrite remove_class_eq.
    destruct (negb (nonempty c) || negb (nonempty (cls_value st))); [exact H|].
    destruct (spec_remove (class_tokens st) (strip c)).
    + apply nodup_attr_remove. exact H.
    + apply nodup_attr_set. exact H.
  - destruct s as [v|].
    + destruct (ends_with_char 59 (aval_str v)) eqn:E.
      * rewrite (add_style_eq _ _ _ E). apply nodup_attr_set. exact H.
      * rewrite (add_style_guard _ _ _ E). exact H.
    + rewrite add_style_none. exact H.
Qed.

Lemma history_nodup ops : forall st, NoDup (map fst st) -> NoDup (map fst (run_ops st ops)).
Proof.
  induction ops as [|o ops IH]; intros st H; [exact H|].
  unfold run_ops in *. simpl. apply IH. apply step_nodup. exact H.
Qed.

(* ------------------------------------------------------------------------------- *)
(* add_style on plain strings                                                       *)
(* ------------------------------------------------------------------------------- *)
Lemma merged_plain old d p :
  merged (option_map AStr old) (AStr d) p = AStr (spec_add_decl old d p).
Proof.
  unfold merged, spec_add_decl. destruct old as [o|]; [|reflexivity].
  destruct p; simpl option_map; cbv iota; rewrite join_sp_plain; reflexivity.
Qed.

Lemma add_style_plain st d p old :
  ends_with_char 59 d = true ->
  attr_get k_style st = option_map AStr old ->
  add_style st (Some (AStr d)) p = Ok (attr_set k_style (AStr (spec_add_decl old d p)) st).
Proof.
  intros Hd E. rewrite add_style_eq by exact Hd. rewrite E, merged_plain. reflexivity.
Qed.

(* ------------------------------------------------------------------------------- *)
(* css()                                                                            *)
(* ------------------------------------------------------------------------------- *)
Lemma norm_key_char c :
  replace1 95 [45] (lower (if is_upper c then [45; c] else [c])) = spec_key_char c.
Proof.
  unfold spec_key_char, is_upper. destruct ((65 <=? c) && (c <=? 90)) eqn:U.
  - unfold replace1, lower, lower_char. cbn [map flat_map app]. rewrite U.
    change ((65 <=? 45) && (45 <=? 90)) with false. cbv iota.
    change (45 =? 95) with false. cbv iota.
    destruct (c + 32 =? 95) eqn:E; [|reflexivity].
    apply N.eqb_eq in E. apply andb_true_iff in U. destruct U as [U1 U2].
    apply N.leb_le in U1. lia.
  - unfold replace1, lower, lower_char. cbn [map flat_map app]. rewrite U.
    destruct (c =? 95); reflexivity.
Qed.

Lemma norm_key_spec k : norm_key k = spec_key k.
Proof.
  unfold norm_key, spec_key, hyphen_caps, lower, replace1.
  induction k as [|c k IH]; [reflexivity|].
  cbn [flat_map]. rewrite map_app, flat_map_app. rewrite IH.
  f_equal. apply norm_key_char.
Qed.

Lemma css_value_spec v :
  css_value v = match spec_value v with Some s => Ok s | None => Err TypeError end.
Proof. destruct v as [s|l]; simpl; [reflexivity|]. destruct (all_some l); reflexivity. Qed.

Lemma css_loop_spec sep kw : forall acc,
  css_loop sep acc kw =
  match spec_decls sep (present kw) with
  | Some ds => Ok (acc ++ concat ds)
  | None => Err TypeError
  end.
Proof.
  induction kw as [|[k [v|]] kw IH]; intros acc.
  - simpl. rewrite app_nil_r. reflexivity.
  - change (present ((k, Some v) :: kw)) with ((k, v) :: present kw).
    cbn [css_loop spec_decls]. rewrite css_value_spec.
    destruct (spec_value v) as [s|]; [|reflexivity].
    rewrite IH. destruct (spec_decls sep (present kw)) as [ds|]; [|reflexivity].
    cbn [concat]. rewrite norm_key_spec. rewrite <- !app_assoc. reflexivity.
  - change (present ((k, None) :: kw)) with (present kw). cbn [css_loop]. apply IH.
Qed.

Lemma spec_decls_nonempty sep args ds :
  spec_decls sep args = Some ds -> Forall (fun d => d <> []) ds.
Proof.
  revert ds. induction args as [|[k v] args IH]; intros ds; simpl.
  - intros H. injection H as <-. constructor.
  - destruct (spec_value v) as [s|]; [|discriminate].
    destruct (spec_decls sep args) as [ds'|]; [|discriminate].
    intros H. injection H as <-. constructor; [|apply IH; reflexivity].
    intros E. apply app_eq_nil in E. destruct E as [_ E]. discriminate.
Qed.

Lemma css_spec sep kw : css (Some sep) kw = spec_css sep kw.
Proof.
  unfold css, spec_css. rewrite css_loop_spec.
  destruct (spec_decls sep (present kw)) as [[|d ds]|] eqn:E; try reflexivity.
  apply spec_decls_nonempty in E. inversion E as [|? ? Hd _]; subst.
  simpl. destruct d; [congruence|reflexivity].
Qed.

Lemma css_badsep kw : css None kw = Err TypeError.
Proof. reflexivity. Qed.

Lemma spec_decls_length sep args ds : spec_decls sep args = Some ds -> length ds = length args.
Proof.
  revert ds. induction args as [|[k v] args IH]; intros ds; simpl.
  - intros H. injection H as <-. reflexivity.
  - destruct (spec_value v); [|discriminate].
    destruct (spec_decls sep args) as [ds'|]; [|discriminate].
    intros H. injection H as <-. simpl. rewrite (IH ds'); reflexivity.
Qed.

Lemma css_none_iff sep kw : css (Some sep) kw = Ok None <-> present kw = [].
Proof.
  rewrite css_spec. unfold spec_css. split.
  - destruct (spec_decls sep (present kw)) as [[|d ds]|] eqn:E; try discriminate.
    intros _. apply spec_decls_length in E. destruct (present kw); [reflexivity|discriminate].
  - intros ->. reflexivity.
Qed.

(* with the default separator every declaration, hence a non-empty output, ends in ; *)
Lemma css_loop_semicolon kw : forall acc r,
  css_loop [] acc kw = Ok r -> r = acc \/ ends_with_char 59 r = true.
Proof.
  induction kw as [|[k [v|]] kw IH]; intros acc r; cbn [css_loop].
  - intros H. injection H as <-. left. reflexivity.
  - destruct (css_value v) as [s|e]; [|discriminate].
    intros H. apply IH in H. right. destruct H as [-> | H]; [|exact H].
    rewrite app_nil_r. rewrite !app_assoc. apply ends_with_snoc.
  - apply IH.
Qed.

Lemma css_semicolon kw r : css (Some []) kw = Ok (Some r) -> ends_with_char 59 r = true.
Proof.
  unfold css. destruct (css_loop [] [] kw) as [r'|e] eqn:E; [|discriminate].
  apply css_loop_semicolon in E. destruct (nonempty r') eqn:N; [|discriminate].
  intros H. injection H as <-. destruct E as [-> | E]; [discriminate|exact E].
Qed.

Lemma css_accepted kw r st p :
  css (Some []) kw = Ok r -> exists st', add_style st (option_map AStr r) p = Ok st'.
Proof.
  intros H. destruct r as [s|]; simpl.
  - apply css_semicolon in H. rewrite add_style_eq by exact H. eexists. reflexivity.
  - rewrite add_style_none. eexists. reflexivity.
Qed.

(* ------------------------------------------------------------------------------- *)
(* statements for whitespace-free tokens (strip c = c)                              *)
(* ------------------------------------------------------------------------------- *)
Lemma strip_token c : token c -> strip c = c.
Proof. intros [_ H]. apply strip_free. exact H. Qed.

Lemma remove_token st c :
  token c ->
  exists st', remove_class st c = Ok st' /\
              class_tokens st' = spec_remove (class_tokens st) c /\
              forall k, k <> k_class -> attr_get k st' = attr_get k st.
Proof.
  intros Hc. destruct (remove_total st c) as (st' & E). exists st'. split; [exact E|]. split.
  - rewrite (remove_tokens _ _ _ E), (strip_token c Hc). reflexivity.
  - intros k Hk. exact (remove_frame _ _ _ _ E Hk).
Qed.

Lemma remove_attr_token st c st' v :
  token c -> remove_class st c = Ok st' -> attr_get k_class st = Some v -> aval_str v <> [] ->
  (attr_get k_class st' = None <-> spec_remove (class_tokens st) c = []) /\
  (forall t ts, spec_remove (class_tokens st) c = t :: ts ->
                attr_get k_class st' = Some (AStr (join [32] (t :: ts)))).
Proof.
  intros Hc E Ev Hv. pose proof (remove_attr st c st' v E (proj1 Hc) Ev Hv) as H.
  rewrite (strip_token c Hc) in H.
  destruct (spec_remove (class_tokens st) c) as [|t ts].
  - split; [tauto|]. intros t ts Ht. discriminate.
  - split.
    + split; intros H'; [rewrite H in H'|]; discriminate.
    + intros t' ts' Ht. injection Ht as <- <-. exact H.
Qed.

Lemma remove_other_tokens st c d st' :
  remove_class st c = Ok st' -> d <> strip c -> has_class st' d = has_class st d.
Proof.
  intros E Hd. rewrite !has_class_spec, (remove_tokens _ _ _ E). apply spec_has_remove_other. exact Hd.
Qed.

Lemma remove_then_has st c st' : remove_class st c = Ok st' -> has_class st' (strip c) = false.
Proof. intros E. rewrite has_class_spec, (remove_tokens _ _ _ E). apply spec_has_remove_same. Qed.

Lemma style_guard st v p :
  ends_with_char 59 (aval_str v) = false ->
  add_style st (Some v) p = Err ValueError /\ step st (OAddStyle (Some v) p) = st.
Proof. intros H. simpl. rewrite (add_style_guard _ _ _ H). split; reflexivity. Qed.

Lemma history_has ops st c :
  plain_class st -> Forall op_ok ops ->
  has_class (run_ops st ops) c = spec_has (spec_run (class_tokens st) (map abs_op ops)) c.
Proof. intros Hp Ho. rewrite has_class_spec, history_tokens by assumption. reflexivity. Qed.

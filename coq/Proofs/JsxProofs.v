(* Proofs for C20 (Model/Jsx.v against Spec/JsAst.v). *)
From Coq Require Import Lia.
From HT Require Import Model.Str Model.Tree Model.Attrs Model.Render Model.Jsx Spec.JsAst Gen.Tables.

(* ---- strings -------------------------------------------------------------------------- *)
Lemma jx_str_eqb_refl a : str_eqb a a = true.
Proof. induction a as [|x a IH]; simpl; [reflexivity|]. rewrite N.eqb_refl. exact IH. Qed.

Lemma jx_str_eqb_eq a b : str_eqb a b = true <-> a = b.
Proof.
  split.
  - revert b. induction a as [|x a IH]; intros [|y b] H; simpl in H; try discriminate; [reflexivity|].
    apply andb_true_iff in H. destruct H as [H1 H2]. apply N.eqb_eq in H1. subst.
    f_equal. apply IH. exact H2.
  - intros ->. apply jx_str_eqb_refl.
Qed.

Lemma jx_str_eqb_neq a b : str_eqb a b = false <-> a <> b.
Proof.
  split.
  - intros H E. apply jx_str_eqb_eq in E. congruence.
  - intros H. destruct (str_eqb a b) eqn:E; [|reflexivity]. apply jx_str_eqb_eq in E. contradiction.
Qed.

Lemma jx_mem_str_In s l : mem_str s l = true <-> In s l.
Proof.
  unfold mem_str. rewrite existsb_exists. split.
  - intros [x [Hx E]]. apply jx_str_eqb_eq in E. subst. exact Hx.
  - intros H. exists s. split; [exact H|apply jx_str_eqb_refl].
Qed.

(* ---- mutual induction over values and nodes -------------------------------------------- *)
Section JInd.
  Variable P : jval -> Prop.
  Variable Q : jnode -> Prop.
  Hypothesis PNone : P JNone.
  Hypothesis PBool : forall b, P (JBool b).
  Hypothesis PNum : forall s, P (JNum s).
  Hypothesis PStr : forall s, P (JStr s).
  Hypothesis PJsx : forall s, P (JJsx s).
  Hypothesis PList : forall l, Forall P l -> P (JList l).
  Hypothesis PDict : forall kv, Forall (fun p => P (snd p)) kv -> P (JDict kv).
  Hypothesis PNode : forall n, Q n -> P (JNode n).
  Hypothesis POther : forall s, P (JOther s).
  Hypothesis QText : forall s, Q (JText s).
  Hypothesis QMeta : forall i s, Q (JMeta i s).
  Hypothesis QTag : forall nm at_ kids,
      Forall (fun p => P (snd p)) at_ -> Forall Q kids -> Q (JTag nm at_ kids).
  Hypothesis QComp : forall nm ps kids,
      Forall (fun p => P (snd p)) ps -> Forall Q kids -> Q (JComp nm ps kids).
  Hypothesis QTagifiable : forall s e, Q e -> Q (JTagifiable s e).
  Hypothesis QOpaque : forall s, Q (JOpaque s).

  Fixpoint jval_ind' (v : jval) : P v :=
    match v with
    | JNone => PNone
    | JBool b => PBool b
    | JNum s => PNum s
    | JStr s => PStr s
    | JJsx s => PJsx s
    | JList l =>
      PList l ((fix go (l : list jval) : Forall P l :=
                  match l with
                  | [] => Forall_nil P
                  | x :: l' => Forall_cons x (jval_ind' x) (go l')
                  end) l)
    | JDict kv =>
      PDict kv ((fix go (l : list (str * jval)) : Forall (fun p => P (snd p)) l :=
                   match l with
                   | [] => Forall_nil _
                   | (k, x) :: l' => Forall_cons (k, x) (jval_ind' x) (go l')
                   end) kv)
    | JNode n => PNode n (jnode_ind' n)
    | JOther s => POther s
    end
  with jnode_ind' (n : jnode) : Q n :=
    match n with
    | JText s => QText s
    | JMeta i s => QMeta i s
    | JTag nm at_ kids =>
      QTag nm at_ kids
           ((fix go (l : list (str * jval)) : Forall (fun p => P (snd p)) l :=
               match l with
               | [] => Forall_nil _
               | (k, x) :: l' => Forall_cons (k, x) (jval_ind' x) (go l')
               end) at_)
           ((fix go (l : list jnode) : Forall Q l :=
               match l with
               | [] => Forall_nil Q
               | x :: l' => Forall_cons x (jnode_ind' x) (go l')
               end) kids)
    | JComp nm ps kids =>
      QComp nm ps kids
           ((fix go (l : list (str * jval)) : Forall (fun p => P (snd p)) l :=
               match l with
               | [] => Forall_nil _
               | (k, x) :: l' => Forall_cons (k, x) (jval_ind' x) (go l')
               end) ps)
           ((fix go (l : list jnode) : Forall Q l :=
               match l with
               | [] => Forall_nil Q
               | x :: l' => Forall_cons x (jnode_ind' x) (go l')
               end) kids)
    | JTagifiable s e => QTagifiable s e (jnode_ind' e)
    | JOpaque s => QOpaque s
    end.

  Lemma jmut_ind : (forall v, P v) /\ (forall n, Q n).
  Proof. split; [exact jval_ind'|exact jnode_ind']. Qed.
End JInd.

(* ---- the walk -------------------------------------------------------------------------- *)
(* what the walk does below the object fn returned *)
Definition walk_prop (kv : str * jval) : (str * jval) * list N :=
  let (k, v) := kv in
  match v with
  | JNode n' => let r := walk n' in ((k, JNode (fst r)), snd r)
  | _ => ((k, v), [])
  end.

Definition descend (x : jnode) : jnode * list N :=
  match x with
  | JTag nm at_ kids =>
    let rk := map walk kids in (JTag nm at_ (map fst rk), flat_map snd rk)
  | JComp nm ps kids =>
    let rp := map walk_prop ps in
    let rk := map walk kids in
    (JComp nm (map fst rp) (map fst rk), flat_map snd rp ++ flat_map snd rk)
  | _ => (x, meta_of x)
  end.

Lemma walk_unfold n :
  walk n = descend (match n with JTagifiable _ e => e | _ => n end).
Proof. destruct n; reflexivity. Qed.

Lemma walk_not_tagifiable n : not_tagifiable n = true -> walk n = descend n.
Proof. intros H. rewrite walk_unfold. destruct n; try reflexivity. discriminate. Qed.

Lemma flat_map_snd_map {A B} (f : A -> B * list N) l :
  flat_map snd (map f l) = flat_map (fun x => snd (f x)) l.
Proof. induction l as [|x l IH]; simpl; [reflexivity|]. rewrite IH. reflexivity. Qed.

Lemma flat_map_ext_Forall {A B} (f g : A -> list B) l :
  Forall (fun x => f x = g x) l -> flat_map f l = flat_map g l.
Proof. induction 1 as [|x l H _ IH]; simpl; [reflexivity|]. rewrite H, IH. reflexivity. Qed.

Lemma map_ext_Forall {A B} (f g : A -> B) l :
  Forall (fun x => f x = g x) l -> map f l = map g l.
Proof. induction 1 as [|x l H _ IH]; simpl; [reflexivity|]. rewrite H, IH. reflexivity. Qed.

Lemma Forall_forallb_imp {A} (b : A -> bool) (R S : A -> Prop) l :
  forallb b l = true -> Forall R l -> (forall x, b x = true -> R x -> S x) -> Forall S l.
Proof.
  intros Hb HR HS. induction HR as [|x l Hx _ IH]; [constructor|].
  simpl in Hb. apply andb_true_iff in Hb. destruct Hb as [Hb1 Hb2].
  constructor; [apply HS; assumption|apply IH; exact Hb2].
Qed.

(* the walk, read declaratively: the copy is the expansion, the collected list is the
   pre-order list of metadata nodes *)
Definition walk_ok (n : jnode) : Prop :=
  direct_ok n = true -> walk n = (expand n, metas_ref n).

Lemma walk_expand_metas : forall n, walk_ok n.
Proof.
  apply (jnode_ind' (fun v => match v with JNode n => walk_ok n | _ => True end) walk_ok);
    try (intros; exact I); unfold walk_ok.
  - intros n H. exact H.
  - intros s _. reflexivity.
  - intros i s _. reflexivity.
  - (* JTag *)
    intros nm at_ kids _ Hk Hd. simpl in Hd.
    rewrite walk_unfold. simpl.
    assert (HF : Forall (fun c => walk c = (expand c, metas_ref c)) kids).
    { eapply Forall_forallb_imp; [exact Hd|exact Hk|]. intros x Hx Hw. apply Hw. exact Hx. }
    rewrite flat_map_snd_map.
    rewrite map_map.
    f_equal.
    + f_equal. apply map_ext_Forall. eapply Forall_impl; [|exact HF]. intros c Hc. simpl in Hc. rewrite Hc. reflexivity.
    + apply flat_map_ext_Forall. eapply Forall_impl; [|exact HF]. intros c Hc. simpl in Hc. rewrite Hc. reflexivity.
  - (* JComp *)
    intros nm ps kids Hp Hk Hd. simpl in Hd. apply andb_true_iff in Hd. destruct Hd as [Hdp Hdk].
    rewrite walk_unfold. simpl.
    assert (HFk : Forall (fun c => walk c = (expand c, metas_ref c)) kids).
    { eapply Forall_forallb_imp; [exact Hdk|exact Hk|]. intros x Hx Hw. apply Hw. exact Hx. }
    assert (HFp : Forall (fun kv => walk_prop kv = (expand_prop (fun c => expand c) kv, metas_prop (fun c => metas_ref c) kv)) ps).
    { eapply Forall_forallb_imp; [exact Hdp|exact Hp|]. intros [k v] Hx Hw. simpl in Hx, Hw.
      unfold walk_prop, expand_prop, metas_prop. destruct v; try reflexivity.
      simpl. rewrite (Hw Hx). reflexivity. }
    fold walk_prop.
    rewrite !flat_map_snd_map, !map_map.
    f_equal.
    + f_equal.
      * apply map_ext_Forall. eapply Forall_impl; [|exact HFp]. intros c Hc. simpl in Hc. rewrite Hc. reflexivity.
      * apply map_ext_Forall. eapply Forall_impl; [|exact HFk]. intros c Hc. simpl in Hc. rewrite Hc. reflexivity.
    + f_equal.
      * apply flat_map_ext_Forall. eapply Forall_impl; [|exact HFp]. intros c Hc. simpl in Hc. rewrite Hc. reflexivity.
      * apply flat_map_ext_Forall. eapply Forall_impl; [|exact HFk]. intros c Hc. simpl in Hc. rewrite Hc. reflexivity.
  - (* JTagifiable *)
    intros s e IH Hd. simpl in Hd. apply andb_true_iff in Hd. destruct Hd as [Hnt Hde].
    rewrite walk_unfold. rewrite <- (walk_not_tagifiable e Hnt). simpl. apply IH. exact Hde.
  - intros s _. reflexivity.
Qed.

Lemma walk_copy n : direct_ok n = true -> fst (walk n) = expand n.
Proof. intros H. rewrite (walk_expand_metas n H). reflexivity. Qed.

Lemma walk_metas n : direct_ok n = true -> snd (walk n) = metas_ref n.
Proof. intros H. rewrite (walk_expand_metas n H). reflexivity. Qed.

Lemma flat_map_map' {A B C} (f : A -> B) (g : B -> list C) l :
  flat_map g (map f l) = flat_map (fun x => g (f x)) l.
Proof. induction l as [|x l IH]; simpl; [reflexivity|]. rewrite IH. reflexivity. Qed.

(* expansion keeps the metadata, in order *)
Lemma metas_expand : forall n, metas_ref (expand n) = metas_ref n.
Proof.
  apply (jnode_ind' (fun v => match v with JNode n => metas_ref (expand n) = metas_ref n | _ => True end)
                    (fun n => metas_ref (expand n) = metas_ref n)); try (intros; exact I); try reflexivity.
  - intros n H. exact H.
  - intros nm at_ kids _ Hk. simpl. rewrite flat_map_map'.
    apply flat_map_ext_Forall. exact Hk.
  - intros nm ps kids Hp Hk. simpl. rewrite !flat_map_map'. f_equal.
    + apply flat_map_ext_Forall. eapply Forall_impl; [|exact Hp]. intros [k v] H.
      unfold metas_prop, expand_prop. destruct v; try reflexivity. simpl in *. exact H.
    + apply flat_map_ext_Forall. exact Hk.
  - intros s e IH. simpl. exact IH.
Qed.

Lemma forallb_map' {A B} (f : A -> B) (b : B -> bool) l :
  forallb b (map f l) = forallb (fun x => b (f x)) l.
Proof. induction l as [|x l IH]; simpl; [reflexivity|]. rewrite IH. reflexivity. Qed.

Lemma forallb_true_Forall {A} (b : A -> bool) l : Forall (fun x => b x = true) l -> forallb b l = true.
Proof. induction 1 as [|x l H _ IH]; simpl; [reflexivity|]. rewrite H, IH. reflexivity. Qed.

(* the expansion has no tagifiable object left at a walked position *)
Lemma expand_fully : forall n, fully_tagified (expand n) = true.
Proof.
  apply (jnode_ind' (fun v => match v with JNode n => fully_tagified (expand n) = true | _ => True end)
                    (fun n => fully_tagified (expand n) = true)); try (intros; exact I); try reflexivity.
  - intros n H. exact H.
  - intros nm at_ kids _ Hk. simpl. rewrite forallb_map'. apply forallb_true_Forall. exact Hk.
  - intros nm ps kids Hp Hk. simpl. rewrite !forallb_map'. apply andb_true_iff. split.
    + apply forallb_true_Forall. eapply Forall_impl; [|exact Hp]. intros [k v] H.
      unfold expand_prop. destruct v; try reflexivity. simpl in *. exact H.
    + apply forallb_true_Forall. exact Hk.
  - intros s e IH. simpl. exact IH.
Qed.

(* expansion changes nothing when there is nothing to expand *)
Lemma expand_id : forall n, fully_tagified n = true -> expand n = n.
Proof.
  apply (jnode_ind' (fun v => match v with JNode n => fully_tagified n = true -> expand n = n | _ => True end)
                    (fun n => fully_tagified n = true -> expand n = n)); try (intros; exact I); try reflexivity.
  - intros n H. exact H.
  - intros nm at_ kids _ Hk Hf. simpl in *. f_equal.
    rewrite <- (map_id kids) at 2. apply map_ext_Forall.
    eapply Forall_forallb_imp; [exact Hf|exact Hk|]. intros x Hx Hi. apply Hi. exact Hx.
  - intros nm ps kids Hp Hk Hf. simpl in *. apply andb_true_iff in Hf. destruct Hf as [Hfp Hfk]. f_equal.
    + rewrite <- (map_id ps) at 2. apply map_ext_Forall.
      eapply Forall_forallb_imp; [exact Hfp|exact Hp|]. intros [k v] Hx Hi. unfold expand_prop.
      destruct v; try reflexivity. simpl in *. rewrite (Hi Hx). reflexivity.
    + rewrite <- (map_id kids) at 2. apply map_ext_Forall.
      eapply Forall_forallb_imp; [exact Hfk|exact Hk|]. intros x Hx Hi. apply Hi. exact Hx.
  - intros s e _ Hf. discriminate.
Qed.

(* ---- rendering mirrors the AST ---------------------------------------------------------- *)
Lemma py_quote_js_quote s : py_quote s = js_quote s.
Proof. reflexivity. Qed.

Lemma render_node_comp i eol name at_ kids :
  render_node i eol (JComp name at_ kids) =
  match mapM (ser_prop serialize_val) at_ with
  | Err e => Err e
  | Ok items =>
    match mapM (fun c => render_node (S i) eol c) kids with
    | Err e => Err e
    | Ok cs => Ok (assemble i eol name items cs)
    end
  end.
Proof. reflexivity. Qed.

Lemma render_node_tag i eol name at_ kids :
  render_node i eol (JTag name at_ kids) =
  match mapM (ser_prop serialize_val) at_ with
  | Err e => Err e
  | Ok items =>
    match mapM (fun c => render_node (S i) eol c) kids with
    | Err e => Err e
    | Ok cs => Ok (assemble i eol ([39] ++ name ++ [39]) items cs)
    end
  end.
Proof. reflexivity. Qed.

Lemma serialize_val_list l :
  serialize_val (JList l) =
  match mapM serialize_val l with
  | Err e => Err e
  | Ok xs => Ok ([91] ++ join s_comma_sp xs ++ [93])
  end.
Proof. reflexivity. Qed.

Definition ser_entry (p : str * jval) : res (str * str) :=
  let (k, x) := p in match serialize_val x with Err e => Err e | Ok s => Ok (k, s) end.

Lemma serialize_val_dict kv :
  serialize_val (JDict kv) =
  match mapM ser_entry kv with
  | Err e => Err e
  | Ok items => Ok (obj_str items)
  end.
Proof. reflexivity. Qed.

Lemma to_js_comp name at_ kids :
  to_js (JComp name at_ kids) =
  match omap (prop_to_js val_to_js) at_, omap (fun c => to_js c) kids with
  | Some ps, Some ks => Some (JsCreate name ps ks)
  | _, _ => None
  end.
Proof. reflexivity. Qed.

Lemma to_js_tag name at_ kids :
  to_js (JTag name at_ kids) =
  match omap (prop_to_js val_to_js) at_, omap (fun c => to_js c) kids with
  | Some ps, Some ks => Some (JsCreate ([39] ++ name ++ [39]) ps ks)
  | _, _ => None
  end.
Proof. reflexivity. Qed.

Definition js_entry (p : str * jval) : option (str * js) :=
  let (k, x) := p in match val_to_js x with Some j => Some (k, j) | None => None end.

Lemma val_to_js_dict kv :
  val_to_js (JDict kv) = match omap js_entry kv with Some o => Some (JsObj o) | None => None end.
Proof. reflexivity. Qed.

Lemma val_to_js_list l :
  val_to_js (JList l) = match omap (fun x => val_to_js x) l with Some js => Some (JsArr js) | None => None end.
Proof. reflexivity. Qed.

(* a loop that may fail against a partial map *)
Lemma mapM_omap {A B C} (f : A -> res B) (g : A -> option C) (h : C -> B) l :
  Forall (fun x => match g x with
                   | Some y => f x = Ok (h y)
                   | None => exists e, f x = Err e
                   end) l ->
  match omap g l with
  | Some ys => mapM f l = Ok (map h ys)
  | None => exists e, mapM f l = Err e
  end.
Proof.
  induction 1 as [|x l Hx _ IH]; simpl; [reflexivity|].
  destruct (g x) as [y|].
  - rewrite Hx. destruct (omap g l) as [ys|].
    + rewrite IH. reflexivity.
    + destruct IH as [e He]. rewrite He. exists e. reflexivity.
  - destruct Hx as [e He]. rewrite He. exists e. reflexivity.
Qed.

(* the two accumulation loops *)
Definition fmt_item (it : str * str) : str := [34] ++ fst it ++ s_qcolon_sp ++ snd it.

(* both sides to right-nested appends of atoms *)
Ltac lnorm :=
  unfold fmt_item, print_entry, s_comma_sp, s_qcolon_sp;
  cbn [app fst snd map flat_map];
  repeat (rewrite <- app_assoc; cbn [app fst snd]).

Lemma props_loop_false items : forall res,
  props_loop items false res = res ++ flat_map (fun it => s_comma_sp ++ fmt_item it) items.
Proof.
  induction items as [|[k v] items IH]; intros res; cbn [props_loop flat_map].
  - rewrite app_nil_r. reflexivity.
  - rewrite IH. lnorm. reflexivity.
Qed.

Lemma join_cons_flat (sep x : str) xs :
  join sep (x :: xs) = x ++ flat_map (fun y => sep ++ y) xs.
Proof.
  revert x. induction xs as [|y xs IH]; intros x.
  - simpl. rewrite app_nil_r. reflexivity.
  - change (join sep (x :: y :: xs)) with (x ++ sep ++ join sep (y :: xs)).
    rewrite IH. cbn [flat_map]. rewrite <- app_assoc. reflexivity.
Qed.

Lemma props_loop_true items res :
  props_loop items true res = res ++ join s_comma_sp (map fmt_item items).
Proof.
  destruct items as [|[k v] items].
  - simpl. rewrite app_nil_r. reflexivity.
  - cbn [props_loop map]. rewrite props_loop_false. rewrite join_cons_flat.
    rewrite flat_map_map'. lnorm. reflexivity.
Qed.

Definition kid_piece (eol c : str) : str :=
  match c with [] => [] | _ :: _ => [44] ++ eol ++ c end.

Lemma kids_loop_flat eol cs : forall res,
  kids_loop eol cs res = res ++ flat_map (kid_piece eol) cs.
Proof.
  induction cs as [|c cs IH]; intros res; cbn [kids_loop flat_map].
  - rewrite app_nil_r. reflexivity.
  - rewrite IH. destruct c; cbn [kid_piece].
    + reflexivity.
    + lnorm. reflexivity.
Qed.

Lemma is_nil_map {A B} (f : A -> B) l : is_nil (map f l) = is_nil l.
Proof. destruct l; reflexivity. Qed.

Definition pr_entry (p : str * js) : str * str := (fst p, print_js 0 [10] (snd p)).

(* the layout: assembling the printed parts is printing the assembled expression *)
Lemma assemble_print i eol nm ps ks :
  assemble i eol nm (map pr_entry ps) (map (print_js (S i) eol) ks) =
  print_js i eol (JsCreate nm ps ks).
Proof.
  unfold assemble. rewrite !is_nil_map.
  assert (HP : forall ps, join s_comma_sp (map fmt_item (map pr_entry ps)) =
          join s_comma_sp (map (fun p : str * js => let (k, v) := p in print_entry k (print_js 0 [10] v)) ps)).
  { intros l. rewrite map_map. f_equal. apply map_ext. intros [k v]. reflexivity. }
  assert (HK : forall ks, flat_map (kid_piece eol) (map (print_js (S i) eol) ks) =
          flat_map (fun k => match print_js (S i) eol k with [] => [] | c :: s => [44] ++ eol ++ c :: s end) ks).
  { intros l. rewrite flat_map_map'. apply flat_map_ext. intros k. unfold kid_piece.
    destruct (print_js (S i) eol k); reflexivity. }
  destruct ps as [|p ps]; destruct ks as [|k ks]; cbn [is_nil andb print_js].
  - reflexivity.
  - rewrite kids_loop_flat, props_loop_true, HK. cbn [map join].
    repeat (rewrite <- app_assoc; cbn [app]). reflexivity.
  - rewrite props_loop_true, HP.
    repeat (rewrite <- app_assoc; cbn [app]). reflexivity.
  - rewrite kids_loop_flat, props_loop_true, HP, HK.
    repeat (rewrite <- app_assoc; cbn [app]). reflexivity.
Qed.

Definition mirror_val (v : jval) : Prop :=
  match val_to_js v with
  | Some j => serialize_val v = Ok (print_js 0 [10] j)
  | None => exists e, serialize_val v = Err e
  end.

Definition mirror_node (n : jnode) : Prop :=
  forall i eol,
  match to_js n with
  | Some j => render_node i eol n = Ok (print_js i eol j)
  | None => exists e, render_node i eol n = Err e
  end.

Lemma obj_str_print (o : list (str * js)) :
  obj_str (map pr_entry o) = print_js 0 [10] (JsObj o).
Proof.
  unfold obj_str. cbn [print_js indent_str app]. rewrite map_map.
  f_equal. f_equal. f_equal. apply map_ext. intros [k v]. reflexivity.
Qed.

Lemma mirror_style v :
  mirror_val v ->
  match style_to_js val_to_js v with
  | Some j => serialize_style serialize_val v = Ok (print_js 0 [10] j)
  | None => exists e, serialize_style serialize_val v = Err e
  end.
Proof.
  intros Hv.
  assert (Hcss : forall s,
    match (match css_parse s with
           | Ok d => Some (JsObj (map (fun kv => (fst kv, JsStr (snd kv))) d))
           | Err _ => None end) with
    | Some j => match css_parse s with
                | Err e => Err e
                | Ok d => Ok (obj_str (map (fun kv => (fst kv, py_quote (snd kv))) d))
                end = Ok (print_js 0 [10] j)
    | None => exists e, match css_parse s with
                | Err e => Err e
                | Ok d => Ok (obj_str (map (fun kv => (fst kv, py_quote (snd kv))) d))
                end = Err e
    end).
  { intros s. destruct (css_parse s) as [d|e].
    - rewrite <- obj_str_print. rewrite map_map. reflexivity.
    - exists e. reflexivity. }
  destruct v; cbn [style_to_js serialize_style]; try (exists TypeError; reflexivity).
  - reflexivity.
  - apply Hcss.
  - apply Hcss.
  - exact Hv.
  - destruct n; try (exists TypeError; reflexivity). apply Hcss.
Qed.

Lemma mirror_prop kv :
  mirror_val (snd kv) ->
  match prop_to_js val_to_js kv with
  | Some p => ser_prop serialize_val kv = Ok (pr_entry p)
  | None => exists e, ser_prop serialize_val kv = Err e
  end.
Proof.
  destruct kv as [k v]. intros Hv. cbn [snd] in Hv. unfold prop_to_js, ser_prop.
  destruct (str_eqb k s_style).
  - pose proof (mirror_style v Hv) as H.
    destruct (style_to_js val_to_js v) as [j|].
    + rewrite H. reflexivity.
    + destruct H as [e He]. rewrite He. exists e. reflexivity.
  - unfold mirror_val in Hv. destruct (val_to_js v) as [j|].
    + rewrite Hv. reflexivity.
    + destruct Hv as [e He]. rewrite He. exists e. reflexivity.
Qed.

Lemma mirror_elem i eol nm at_ kids :
  Forall (fun p => mirror_val (snd p)) at_ -> Forall mirror_node kids ->
  match (match omap (prop_to_js val_to_js) at_, omap (fun c => to_js c) kids with
         | Some ps, Some ks => Some (JsCreate nm ps ks)
         | _, _ => None
         end) with
  | Some j =>
    match mapM (ser_prop serialize_val) at_ with
    | Err e => Err e
    | Ok items =>
      match mapM (fun c => render_node (S i) eol c) kids with
      | Err e => Err e
      | Ok cs => Ok (assemble i eol nm items cs)
      end
    end = Ok (print_js i eol j)
  | None => exists e,
    match mapM (ser_prop serialize_val) at_ with
    | Err e => Err e
    | Ok items =>
      match mapM (fun c => render_node (S i) eol c) kids with
      | Err e => Err e
      | Ok cs => Ok (assemble i eol nm items cs)
      end
    end = Err e
  end.
Proof.
  intros Ha Hk.
  pose proof (mapM_omap (ser_prop serialize_val) (prop_to_js val_to_js) pr_entry at_) as HA.
  pose proof (mapM_omap (fun c => render_node (S i) eol c) (fun c => to_js c) (print_js (S i) eol) kids) as HK.
  assert (HA' := HA (Forall_impl _ mirror_prop Ha)). clear HA.
  assert (HK' : match omap (fun c => to_js c) kids with
                | Some ys => mapM (fun c => render_node (S i) eol c) kids = Ok (map (print_js (S i) eol) ys)
                | None => exists e, mapM (fun c => render_node (S i) eol c) kids = Err e
                end).
  { apply HK. eapply Forall_impl; [|exact Hk]. intros c Hc. apply Hc. }
  clear HK.
  destruct (omap (prop_to_js val_to_js) at_) as [ps|].
  - rewrite HA'. destruct (omap (fun c => to_js c) kids) as [ks|].
    + rewrite HK'. rewrite assemble_print. reflexivity.
    + destruct HK' as [e He]. rewrite He. exists e. reflexivity.
  - destruct HA' as [e He]. rewrite He. exists e. reflexivity.
Qed.

Lemma mirror_all : (forall v, mirror_val v) /\ (forall n, mirror_node n).
Proof.
  apply jmut_ind; unfold mirror_val, mirror_node; try (intros; reflexivity).
  - (* list *)
    intros l Hl. rewrite val_to_js_list, serialize_val_list.
    pose proof (mapM_omap serialize_val (fun x => val_to_js x) (print_js 0 [10]) l Hl) as H.
    destruct (omap (fun x => val_to_js x) l) as [js|].
    + rewrite H. reflexivity.
    + destruct H as [e He]. rewrite He. exists e. reflexivity.
  - (* dict *)
    intros kv Hkv. rewrite val_to_js_dict, serialize_val_dict.
    assert (HF : Forall (fun x => match js_entry x with
                                  | Some y => ser_entry x = Ok (pr_entry y)
                                  | None => exists e, ser_entry x = Err e end) kv).
    { eapply Forall_impl; [|exact Hkv]. intros [k x] H. cbn [snd] in H. unfold js_entry, ser_entry.
      destruct (val_to_js x) as [j|].
      - rewrite H. reflexivity.
      - destruct H as [e He]. rewrite He. exists e. reflexivity. }
    pose proof (mapM_omap ser_entry js_entry pr_entry kv HF) as H.
    destruct (omap js_entry kv) as [o|].
    + rewrite H. rewrite obj_str_print. reflexivity.
    + destruct H as [e He]. rewrite He. exists e. reflexivity.
  - (* JNode *)
    intros n Hn. destruct n; try reflexivity.
    + apply (Hn 0%nat [10]).
    + apply (Hn 0%nat [10]).
  - (* JTag *)
    intros nm at_ kids Ha Hk i eol. rewrite to_js_tag, render_node_tag.
    apply mirror_elem; assumption.
  - (* JComp *)
    intros nm at_ kids Ha Hk i eol. rewrite to_js_comp, render_node_comp.
    apply mirror_elem; assumption.
  - intros s e _ i eol. exists TypeError. reflexivity.
  - intros s i eol. exists TypeError. reflexivity.
Qed.

(* what the mirror says about one component: each prop once under its stored name, in
   order, each child once, in order *)
Lemma omap_length {A B} (f : A -> option B) l ys : omap f l = Some ys -> length ys = length l.
Proof.
  revert ys. induction l as [|x l IH]; intros ys H; simpl in H.
  - inversion H. reflexivity.
  - destruct (f x); [|discriminate]. destruct (omap f l) as [ys'|]; [|discriminate].
    inversion H. simpl. f_equal. apply IH. reflexivity.
Qed.

Lemma omap_Forall2 {A B} (f : A -> option B) l ys :
  omap f l = Some ys -> Forall2 (fun x y => f x = Some y) l ys.
Proof.
  revert ys. induction l as [|x l IH]; intros ys H; simpl in H.
  - inversion H. constructor.
  - destruct (f x) eqn:E; [|discriminate]. destruct (omap f l) as [ys'|]; [|discriminate].
    inversion H. constructor; [exact E|]. apply IH. reflexivity.
Qed.

Lemma prop_to_js_key kv p : prop_to_js val_to_js kv = Some p -> fst p = fst kv.
Proof.
  destruct kv as [k v]. unfold prop_to_js.
  destruct (if str_eqb k s_style then style_to_js val_to_js v else val_to_js v); intros H; inversion H.
  reflexivity.
Qed.

Lemma prop_keys_F2 props ps :
  Forall2 (fun kv p => prop_to_js val_to_js kv = Some p) props ps -> map fst ps = map fst props.
Proof.
  induction 1 as [|kv p l l' Hp _ IH]; [reflexivity|]. simpl.
  rewrite (prop_to_js_key _ _ Hp), IH. reflexivity.
Qed.

Lemma to_js_comp_shape name props kids j :
  to_js (JComp name props kids) = Some j ->
  exists ps ks, j = JsCreate name ps ks /\
    map fst ps = map fst props /\
    Forall2 (fun kv p => prop_to_js val_to_js kv = Some p) props ps /\
    Forall2 (fun c k => to_js c = Some k) kids ks.
Proof.
  rewrite to_js_comp.
  destruct (omap (prop_to_js val_to_js) props) as [ps|] eqn:Ep; [|discriminate].
  destruct (omap (fun c => to_js c) kids) as [ks|] eqn:Ek; [|discriminate].
  intros H. inversion H. exists ps, ks. split; [reflexivity|].
  pose proof (omap_Forall2 _ _ _ Ep) as F2. split; [|split].
  - apply prop_keys_F2. exact F2.
  - exact F2.
  - exact (omap_Forall2 _ _ _ Ek).
Qed.

(* ---- string literals -------------------------------------------------------------------- *)
Definition plain_char (c : N) : bool := negb ((c =? 92) || (c =? 13) || (c =? 10)).

Lemma unquote_body_quote s :
  forallb plain_char s = true ->
  js_unquote_body (flat_map js_escape_char s ++ [34]) = Some s.
Proof.
  induction s as [|c s IH]; intros H.
  - reflexivity.
  - cbn [forallb] in H. apply andb_true_iff in H. destruct H as [Hc Hs].
    unfold plain_char in Hc. apply negb_true_iff in Hc.
    apply orb_false_iff in Hc. destruct Hc as [Hc H10]. apply orb_false_iff in Hc. destruct Hc as [H92 H13].
    cbn [flat_map]. unfold js_escape_char at 1.
    destruct (c =? 34) eqn:E34.
    + apply N.eqb_eq in E34. subst c.
      cbn [app js_unquote_body]. change (92 =? 34) with false. change (92 =? 92) with true.
      cbn [js_escape_denotes]. cbv beta iota.
      rewrite (IH Hs). reflexivity.
    + cbn [app js_unquote_body]. rewrite E34, H92, H10, H13. cbn [orb].
      rewrite (IH Hs). reflexivity.
Qed.

Lemma js_string_roundtrip s :
  forallb plain_char s = true -> js_unquote (js_quote s) = Some s.
Proof.
  intros H. unfold js_quote, js_unquote. cbn [app]. change (34 =? 34) with true. cbv iota.
  apply unquote_body_quote. exact H.
Qed.

(* ---- construction ----------------------------------------------------------------------- *)
Lemma jsx_new_none name allowed kw kids :
  jsx_new name allowed kw kids = None <->
  first_changes_under_upper (last_piece name) = true \/
  (allowed <> [] /\ exists k, In k (map fst kw) /\ ~ In k allowed).
Proof.
  unfold jsx_new. destruct (first_changes_under_upper (last_piece name)).
  - split; [intros _; left; reflexivity|reflexivity].
  - destruct (negb (is_nil allowed) && existsb (fun kv => negb (mem_str (fst kv) allowed)) kw) eqn:E.
    + split; [intros _|reflexivity]. right.
      apply andb_true_iff in E. destruct E as [E1 E2]. split.
      * intros ->. discriminate.
      * apply existsb_exists in E2. destruct E2 as [[k v] [Hin Hm]]. exists k. split.
        -- apply in_map_iff. exists (k, v). split; [reflexivity|exact Hin].
        -- cbn [fst] in Hm. apply negb_true_iff in Hm. intros Hk. apply jx_mem_str_In in Hk. congruence.
    + split; [discriminate|]. intros [H|[Hne [k [Hk Hnk]]]]; [discriminate|].
      exfalso. apply andb_false_iff in E. destruct E as [E|E].
      * destruct allowed; [contradiction|discriminate].
      * apply in_map_iff in Hk. destruct Hk as [[k' v] [Hk' Hin]]. cbn [fst] in Hk'. subst k'.
        assert (X : existsb (fun kv => negb (mem_str (fst kv) allowed)) kw = true).
        { apply existsb_exists. exists (k, v). split; [exact Hin|]. cbn [fst].
          apply negb_true_iff. destruct (mem_str k allowed) eqn:M; [|reflexivity].
          apply jx_mem_str_In in M. contradiction. }
        congruence.
Qed.

Lemma jsx_new_some name allowed kw kids c :
  jsx_new name allowed kw kids = Some c -> c = JComp name (jsx_props kw) kids.
Proof.
  unfold jsx_new. destruct (first_changes_under_upper (last_piece name)); [discriminate|].
  destruct (negb (is_nil allowed) && _); [discriminate|]. intros H. inversion H. reflexivity.
Qed.

(* dict primitives *)
Lemma jget_jset {V} k k' (v : V) m :
  jget k (jset k' v m) = if str_eqb k k' then Some v else jget k m.
Proof.
  induction m as [|[k2 v2] m IH]; simpl.
  - reflexivity.
  - destruct (str_eqb k' k2) eqn:E2; simpl.
    + apply jx_str_eqb_eq in E2. subst k2. destruct (str_eqb k k'); reflexivity.
    + destruct (str_eqb k k2) eqn:E.
      * apply jx_str_eqb_eq in E. subst k2.
        destruct (str_eqb k k') eqn:E3; [|reflexivity].
        apply jx_str_eqb_eq in E3. subst k'. rewrite jx_str_eqb_refl in E2. discriminate.
      * exact IH.
Qed.

Lemma jset_keys {V} k (v : V) m :
  map fst (jset k v m) = if mem_str k (map fst m) then map fst m else map fst m ++ [k].
Proof.
  induction m as [|[k2 v2] m IH]; simpl.
  - reflexivity.
  - destruct (str_eqb k k2) eqn:E; simpl.
    + reflexivity.
    + rewrite IH. unfold mem_str. destruct (existsb (str_eqb k) (map fst m)); reflexivity.
Qed.

(* first occurrences, in order *)
Definition first_occ (l : list str) : list str :=
  fold_left (fun acc k => if mem_str k acc then acc else acc ++ [k]) l [].

Lemma jsx_props_keys_gen (kw : list (str * jval)) : forall d : list (str * jval),
  map fst (fold_left (fun d kv => jset (norm_name (fst kv)) (snd kv) d) kw d) =
  fold_left (fun acc k => if mem_str k acc then acc else acc ++ [k]) (map norm_name (map fst kw)) (map fst d).
Proof.
  induction kw as [|[k v] kw IH]; intros d; simpl.
  - reflexivity.
  - rewrite IH. rewrite jset_keys. reflexivity.
Qed.

Lemma jsx_props_keys kw :
  map fst (jsx_props kw) = first_occ (map norm_name (map fst kw)).
Proof. unfold jsx_props, first_occ. apply (jsx_props_keys_gen kw []). Qed.

Lemma first_occ_NoDup_gen l : forall acc,
  NoDup acc -> NoDup (fold_left (fun acc k => if mem_str k acc then acc else acc ++ [k]) l acc).
Proof.
  induction l as [|k l IH]; intros acc H; simpl; [exact H|].
  apply IH. destruct (mem_str k acc) eqn:M; [exact H|].
  assert (Hn : ~ In k acc). { intros Hin. apply jx_mem_str_In in Hin. congruence. }
  clear M IH. induction acc as [|a acc IHa]; simpl.
  - constructor; [intros []|constructor].
  - inversion H; subst. constructor.
    + intros Hin. apply in_app_or in Hin. destruct Hin as [Hin|[Hin|[]]]; [contradiction|].
      subst. apply Hn. left. reflexivity.
    + apply IHa; [assumption|]. intros Hin. apply Hn. right. exact Hin.
Qed.

Lemma first_occ_In_gen l : forall acc x,
  In x (fold_left (fun acc k => if mem_str k acc then acc else acc ++ [k]) l acc) <-> In x acc \/ In x l.
Proof.
  induction l as [|k l IH]; intros acc x; simpl.
  - tauto.
  - rewrite IH. destruct (mem_str k acc) eqn:M.
    + apply jx_mem_str_In in M. split; [tauto|]. intros [H|[H|H]]; [tauto| |tauto]. subst. tauto.
    + rewrite in_app_iff. simpl. tauto.
Qed.

Lemma jsx_props_NoDup kw : NoDup (map fst (jsx_props kw)).
Proof. rewrite jsx_props_keys. apply first_occ_NoDup_gen. constructor. Qed.

Lemma jsx_props_In kw k :
  In k (map fst (jsx_props kw)) <-> exists raw, In raw (map fst kw) /\ norm_name raw = k.
Proof.
  rewrite jsx_props_keys. unfold first_occ. rewrite first_occ_In_gen. rewrite in_map_iff.
  split.
  - intros [[]|[raw [H1 H2]]]. exists raw. tauto.
  - intros [raw [H1 H2]]. right. exists raw. tauto.
Qed.

(* the value stored under a name is the last one given for it *)
Definition last_given (k : str) (kw : list (str * jval)) : option jval :=
  fold_left (fun acc kv => if str_eqb k (norm_name (fst kv)) then Some (snd kv) else acc) kw None.

Lemma jsx_props_get_gen k (kw : list (str * jval)) : forall d : list (str * jval),
  jget k (fold_left (fun d kv => jset (norm_name (fst kv)) (snd kv) d) kw d) =
  fold_left (fun acc kv => if str_eqb k (norm_name (fst kv)) then Some (snd kv) else acc) kw (jget k d).
Proof.
  induction kw as [|[k' v] kw IH]; intros d; simpl; [reflexivity|].
  rewrite IH. rewrite jget_jset. reflexivity.
Qed.

Lemma jsx_props_get k kw : jget k (jsx_props kw) = last_given k kw.
Proof. unfold jsx_props, last_given. apply (jsx_props_get_gen k kw []). Qed.

(* normalised names contain no underscore, so normalising again changes nothing *)
Lemma replace1_no_us s : ~ In 95 (replace1 95 [45] s).
Proof.
  unfold replace1. induction s as [|c s IH]; simpl; [intros []|].
  destruct (c =? 95) eqn:E; simpl.
  - intros [H|H]; [discriminate|contradiction].
  - intros [H|H]; [|contradiction]. subst. discriminate.
Qed.

Lemma ends_with_us_In s : ends_with_us s = true -> In 95 s.
Proof.
  induction s as [|c s IH]; simpl; [discriminate|].
  destruct s as [|d s'].
  - intros H. apply N.eqb_eq in H. left. exact H.
  - intros H. right. apply IH. exact H.
Qed.

Lemma replace1_id s : ~ In 95 s -> replace1 95 [45] s = s.
Proof.
  unfold replace1. induction s as [|c s IH]; intros H; simpl; [reflexivity|].
  destruct (c =? 95) eqn:E.
  - apply N.eqb_eq in E. exfalso. apply H. left. exact E.
  - simpl. f_equal. apply IH. intros Hin. apply H. right. exact Hin.
Qed.

Lemma norm_name_idem k : norm_name (norm_name k) = norm_name k.
Proof.
  assert (H : ~ In 95 (norm_name k)) by (unfold norm_name; apply replace1_no_us).
  unfold norm_name at 1.
  destruct (ends_with_us (norm_name k)) eqn:E.
  - exfalso. apply H. apply ends_with_us_In. exact E.
  - apply replace1_id. exact H.
Qed.

(* the walk stores each walked value back under its own key: for the keys a JSXTagAttrDict
   holds (distinct, normalised) the store loop  x.attrs[key] = f(value)  is a map *)
Lemma jset_app_notin {V} k (v v0 : V) pre post :
  ~ In k (map fst pre) -> jset k v (pre ++ (k, v0) :: post) = pre ++ (k, v) :: post.
Proof.
  induction pre as [|[k1 v1] pre IH]; intros H; simpl.
  - rewrite jx_str_eqb_refl. reflexivity.
  - destruct (str_eqb k k1) eqn:E.
    + apply jx_str_eqb_eq in E. subst. exfalso. apply H. left. reflexivity.
    + f_equal. apply IH. intros Hin. apply H. right. exact Hin.
Qed.

Lemma store_loop_gen (f : jval -> jval) (todo : list (str * jval)) : forall done_,
  NoDup (map fst done_ ++ map fst todo) ->
  Forall (fun k => norm_name k = k) (map fst todo) ->
  fold_left (fun d kv => jset (norm_name (fst kv)) (f (snd kv)) d) todo (done_ ++ todo) =
  done_ ++ map (fun kv => (fst kv, f (snd kv))) todo.
Proof.
  induction todo as [|[k v] todo IH]; intros done_ Hnd Hn; cbn [fold_left map fst snd].
  - reflexivity.
  - cbn [map fst] in Hn. inversion Hn as [|? ? Hk Hrest]; subst. rewrite Hk.
    rewrite jset_app_notin.
    + change (done_ ++ (k, f v) :: todo) with (done_ ++ [(k, f v)] ++ todo).
      rewrite app_assoc. rewrite IH.
      * rewrite <- app_assoc. reflexivity.
      * rewrite map_app. cbn [map fst]. rewrite <- app_assoc. exact Hnd.
      * exact Hrest.
    + cbn [map fst] in Hnd. apply NoDup_remove_2 in Hnd. intros Hin. apply Hnd.
      apply in_or_app. left. exact Hin.
Qed.

Lemma walk_store_is_map (f : jval -> jval) ps :
  NoDup (map fst ps) -> Forall (fun k => norm_name k = k) (map fst ps) ->
  fold_left (fun d kv => jset (norm_name (fst kv)) (f (snd kv)) d) ps ps =
  map (fun kv => (fst kv, f (snd kv))) ps.
Proof. intros H1 H2. apply (store_loop_gen f ps []); assumption. Qed.

Lemma jsx_props_normalised kw : Forall (fun k => norm_name k = k) (map fst (jsx_props kw)).
Proof.
  apply Forall_forall. intros k Hk. apply jsx_props_In in Hk. destruct Hk as [raw [_ E]].
  subst k. apply norm_name_idem.
Qed.

(* ---- tagify ----------------------------------------------------------------------------- *)
Definition script_attrs : attrs := [(s_type, AStr s_text_javascript); (s_data_needs_render, AStr [])].

Definition lib_deps_res : res (list (str * str * str)) :=
  mapM (fun d : str * str * bool => lib_dependency (fst (fst d)) (snd (fst d))) jsx_lib_deps.

(* react first, then react-dom; each with the version the versions table pins and a script
   file the translator found in htmltools/lib *)
Definition react_deps_ok (deps : list (str * str * str)) : Prop :=
  exists v1 f1 v2 f2,
    deps = [(s_react, v1, f1); (s_react_dom, v2, f2)] /\
    jget s_react lib_versions = Some v1 /\ jget s_react_dom lib_versions = Some v2 /\
    In (s_react, f1, true) jsx_lib_deps /\ In (s_react_dom, f2, true) jsx_lib_deps.

Lemma lib_deps_ok : exists deps, lib_deps_res = Ok deps /\ react_deps_ok deps.
Proof.
  eexists. split.
  - vm_compute. reflexivity.
  - unfold react_deps_ok. do 4 eexists. split; [reflexivity|].
    split; [vm_compute; reflexivity|]. split; [vm_compute; reflexivity|].
    split; [left; reflexivity|right; left; reflexivity].
Qed.

Lemma script_attrs_ok : attrs_new [script_attr_args] [] = Ok script_attrs.
Proof. vm_compute. reflexivity. Qed.

Lemma tagify_eq name props kids :
  jsx_tagify (JComp name props kids) =
  match render_node 2 [10] (fst (walk (JComp name props kids))) with
  | Err e => Err e
  | Ok comp =>
    match lib_deps_res with
    | Err e => Err e
    | Ok deps => Ok (mk_script script_attrs ([10] ++ wrapper name comp ++ [10]) deps
                               (snd (walk (JComp name props kids))))
    end
  end.
Proof.
  unfold jsx_tagify. fold lib_deps_res. rewrite script_attrs_ok.
  destruct (render_node 2 [10] (fst (walk (JComp name props kids)))); [|reflexivity].
  destruct lib_deps_res; reflexivity.
Qed.

Lemma tagify_shape name props kids s :
  jsx_tagify (JComp name props kids) = Ok s ->
  sc_attrs s = script_attrs /\
  (exists comp, render_node 2 [10] (fst (walk (JComp name props kids))) = Ok comp /\
                sc_html s = [10] ++ wrapper name comp ++ [10]) /\
  react_deps_ok (sc_deps s) /\
  sc_metas s = snd (walk (JComp name props kids)).
Proof.
  rewrite tagify_eq. destruct lib_deps_ok as [deps [Hd Hok]]. rewrite Hd.
  destruct (render_node 2 [10] (fst (walk (JComp name props kids)))) as [comp|e]; [|discriminate].
  intros H. inversion H. cbn [sc_attrs sc_html sc_deps sc_metas].
  split; [reflexivity|]. split; [exists comp; split; reflexivity|]. split; [exact Hok|reflexivity].
Qed.

Lemma tagify_err name props kids e :
  jsx_tagify (JComp name props kids) = Err e <->
  render_node 2 [10] (fst (walk (JComp name props kids))) = Err e.
Proof.
  rewrite tagify_eq. destruct lib_deps_ok as [deps [Hd _]]. rewrite Hd.
  destruct (render_node 2 [10] (fst (walk (JComp name props kids)))); split; intros H; try discriminate; inversion H; reflexivity.
Qed.

(* str(component): one script element around the HTML child; the metadata children print
   nothing *)
Lemma filter_metas {M} (l : list M) (f : M -> node M) :
  (forall m, is_meta (f m) = true) -> filter (fun c => negb (is_meta c)) (map f l) = [].
Proof. intros H. induction l as [|m l IH]; simpl; [reflexivity|]. rewrite H. simpl. exact IH. Qed.

Lemma script_str s :
  tag_html 0 [10] (script_node s) =
  Ok (piece_str (POpen s_script (sc_attrs s) true) ++ sc_html s ++ piece_str (PClose s_script true)).
Proof.
  unfold tag_html, script_node. cbn [render_tag].
  assert (F : filter (fun c : node N => negb (is_meta c))
                (Html (sc_html s) :: map (fun _ : str * str * str => Meta 0) (sc_deps s) ++
                 map (fun i => Meta i) (sc_metas s)) = [Html (sc_html s)]).
  { cbn [filter is_meta negb]. f_equal. rewrite filter_app.
    rewrite (filter_metas (sc_metas s) (fun i => Meta i)) by reflexivity.
    rewrite app_nil_r.
    induction (sc_deps s) as [|d l IH]; simpl; [reflexivity|exact IH]. }
  rewrite F.
  replace (mem_str s_script no_escape_names) with true by (vm_compute; reflexivity).
  cbn [single_text res_map pieces_str flat_map indent_str piece_str].
  rewrite app_nil_r. reflexivity.
Qed.

(* ---- CSS text: what the declaration parser reads ------------------------------------------ *)
Lemma split_on_cons c s : exists p ps, split_on c s = p :: ps.
Proof.
  induction s as [|x s [p [ps IH]]]; simpl; [eauto|].
  rewrite IH. destruct (x =? c); eauto.
Qed.

Lemma split_on_none c a : ~ In c a -> split_on c a = [a].
Proof.
  induction a as [|x a IH]; intros H; simpl; [reflexivity|].
  rewrite IH by (intros Hin; apply H; right; exact Hin).
  destruct (x =? c) eqn:E; [|reflexivity].
  apply N.eqb_eq in E. exfalso. apply H. left. exact E.
Qed.

Lemma split_on_app c a rest : ~ In c a -> split_on c (a ++ c :: rest) = a :: split_on c rest.
Proof.
  induction a as [|x a IH]; intros H; simpl.
  - destruct (split_on_cons c rest) as [p [ps E]]. rewrite E. rewrite N.eqb_refl. reflexivity.
  - rewrite IH by (intros Hin; apply H; right; exact Hin).
    destruct (x =? c) eqn:E; [|reflexivity].
    apply N.eqb_eq in E. exfalso. apply H. left. exact E.
Qed.

Lemma split_join c xs :
  xs <> [] -> Forall (fun d => ~ In c d) xs -> split_on c (join [c] xs) = xs.
Proof.
  induction xs as [|x xs IH]; intros Hne HF; [contradiction|].
  inversion HF as [|? ? Hx Hxs]; subst.
  destruct xs as [|y xs].
  - simpl. apply split_on_none. exact Hx.
  - change (join [c] (x :: y :: xs)) with (x ++ c :: join [c] (y :: xs)).
    rewrite split_on_app by exact Hx. f_equal. apply IH; [discriminate|exact Hxs].
Qed.

Definition css_decl (kv : str * str) : str := fst kv ++ [58] ++ snd kv.

Lemma jset_append {V} k (v : V) m : ~ In k (map fst m) -> jset k v m = m ++ [(k, v)].
Proof.
  induction m as [|[k1 v1] m IH]; intros H; simpl; [reflexivity|].
  destruct (str_eqb k k1) eqn:E.
  - apply jx_str_eqb_eq in E. subst. exfalso. apply H. left. reflexivity.
  - f_equal. apply IH. intros Hin. apply H. right. exact Hin.
Qed.

Lemma css_pairs_decls ds : forall acc,
  Forall (fun kv => ~ In 58 (fst kv) /\ ~ In 58 (snd kv)) ds ->
  NoDup (map fst acc ++ map fst ds) ->
  css_pairs (map css_decl ds) acc = Ok (acc ++ ds).
Proof.
  induction ds as [|[k v] ds IH]; intros acc HF Hnd; cbn [map css_pairs].
  - rewrite app_nil_r. reflexivity.
  - inversion HF as [|? ? [Hk Hv] HF']; subst. cbn [fst snd] in Hk, Hv.
    assert (E1 : existsb (N.eqb 58) (css_decl (k, v)) = true).
    { unfold css_decl. cbn [fst snd]. rewrite existsb_app. cbn [app existsb]. rewrite N.eqb_refl.
      rewrite orb_true_r. reflexivity. }
    rewrite E1.
    assert (E2 : split_on 58 (css_decl (k, v)) = [k; v]).
    { unfold css_decl. cbn [fst snd app]. rewrite split_on_app by exact Hk. rewrite split_on_none by exact Hv. reflexivity. }
    rewrite E2.
    cbn [map fst] in Hnd.
    rewrite jset_append.
    + rewrite IH.
      * rewrite <- app_assoc. reflexivity.
      * exact HF'.
      * rewrite map_app. cbn [map fst]. rewrite <- app_assoc. exact Hnd.
    + apply NoDup_remove_2 in Hnd. intros Hin. apply Hnd. apply in_or_app. left. exact Hin.
Qed.

(* declarations k:v joined by semicolons are read back as the dict {k: v} in order, when
   names and values contain neither colon nor semicolon and the names are distinct; nothing
   is trimmed *)
Lemma css_parse_decls ds :
  Forall (fun kv => ~ In 58 (fst kv) /\ ~ In 59 (fst kv) /\ ~ In 58 (snd kv) /\ ~ In 59 (snd kv)) ds ->
  NoDup (map fst ds) ->
  css_parse (join [59] (map css_decl ds)) = Ok ds.
Proof.
  intros HF Hnd. unfold css_parse. destruct ds as [|d ds].
  - reflexivity.
  - rewrite split_join.
    + apply (css_pairs_decls (d :: ds) []).
      * eapply Forall_impl; [|exact HF]. intros kv (H1 & H2 & H3 & H4). split; assumption.
      * exact Hnd.
    + discriminate.
    + apply Forall_forall. intros x Hx. apply in_map_iff in Hx. destruct Hx as [kv [E Hin]]. subst x.
      rewrite Forall_forall in HF. destruct (HF kv Hin) as (H1 & H2 & H3 & H4). unfold css_decl.
      intros H. apply in_app_or in H. destruct H as [H|H]; [contradiction|].
      cbn [app] in H. destruct H as [H|H]; [discriminate|contradiction].
Qed.

(* ---- end to end --------------------------------------------------------------------------- *)
Lemma tagify_mirror name props kids j :
  direct_ok (JComp name props kids) = true ->
  to_js (expand (JComp name props kids)) = Some j ->
  exists s, jsx_tagify (JComp name props kids) = Ok s /\
    sc_attrs s = script_attrs /\
    sc_html s = [10] ++ wrapper name (print_js 2 [10] j) ++ [10] /\
    react_deps_ok (sc_deps s) /\
    sc_metas s = metas_ref (JComp name props kids).
Proof.
  intros Hd Hj. rewrite tagify_eq. rewrite (walk_expand_metas _ Hd). cbn [fst snd].
  pose proof (proj2 mirror_all (expand (JComp name props kids)) 2%nat [10]) as M.
  rewrite Hj in M. rewrite M.
  destruct lib_deps_ok as [deps [Hdeps Hok]]. rewrite Hdeps.
  eexists. split; [reflexivity|]. cbn [sc_attrs sc_html sc_deps sc_metas].
  repeat split; try reflexivity. exact Hok.
Qed.

Lemma tagify_no_reading name props kids :
  direct_ok (JComp name props kids) = true ->
  to_js (expand (JComp name props kids)) = None ->
  exists e, jsx_tagify (JComp name props kids) = Err e.
Proof.
  intros Hd Hj.
  pose proof (proj2 mirror_all (expand (JComp name props kids)) 2%nat [10]) as M.
  rewrite Hj in M. destruct M as [e He]. exists e. apply tagify_err.
  rewrite (walk_expand_metas _ Hd). exact He.
Qed.

(* C01: the three layers put together.  The rendered markup of an ordinary tree is
   accepted by the spec tokenizer, its tokens are well nested, and the forest the builder
   returns has the canonical form of the tree's element forest. *)
From HT Require Import Model.Str Model.Tree Model.Escape Model.Render Model.Tagify Gen.Tables
     Spec.CharMap Spec.Tokenizer Spec.TreeElems
     Proofs.TagifyProofs Proofs.TokenizeLemmas Proofs.BuildTree Proofs.ParsePieces.

Section ParseBack.
  Context {M : Type}.

  Lemma ordinary_expanded (n : node M) : ordinary n = true -> has_unexpanded n = false.
  Proof.
    induction n as [s|s|s|m|name ws a kids IH|sh exp _] using node_ind'; intros H;
      try reflexivity; try discriminate H.
    cbn [ordinary] in H. apply andb_true_iff in H as [_ H]. cbn [has_unexpanded].
    induction IH as [|k l Hk _ IHl]; [reflexivity|].
    cbn [forallb] in H. apply andb_true_iff in H as [H1 H2].
    cbn [existsb]. rewrite (Hk H1), (IHl H2). reflexivity.
  Qed.

  (* Layers A and C on the unmerged token stream of the pieces *)
  Theorem ordinary_pieces (t : node M) i eol :
    is_tag t = true -> ordinary t = true -> ws_only eol = true ->
    exists ps,
      render_tag i eol t = Ok ps /\ tokenizable ps = true
      /\ option_map canon (build (toks_of_pieces ps)) = Some (canon (elems_of t)).
  Proof.
    intros Ht Ho He.
    destruct (render_expanded_ok t i eol Ht (ordinary_expanded t Ho)) as [ps Hr].
    exists ps. split; [exact Hr|].
    destruct (all_tag_good t i eol ps Ho He Hr) as [Tk (n & a & K & F & Hel & HK & Hb)].
    split; [exact Tk|].
    unfold build. rewrite <- (app_nil_r ps), Hb. cbn [toks_of_pieces map build_stack rev app].
    cbn [option_map]. f_equal. rewrite Hel.
    rewrite !canon_cl, cl_text, !cl_elem, !cl_nil, HK. cbn [app].
    rewrite (flush_run_ws_only _ (ws_only_indent i)). reflexivity.
  Qed.

  (* Layer B for the rendering of an ordinary tree *)
  Theorem ordinary_tokenizes (t : node M) i eol :
    is_tag t = true -> ordinary t = true -> ws_only eol = true ->
    exists ps,
      render_tag i eol t = Ok ps /\ tag_html i eol t = Ok (pieces_str ps)
      /\ tokenizable ps = true
      /\ tokenize (pieces_str ps) = Some (merge_chars (toks_of_pieces ps)).
  Proof.
    intros Ht Ho He.
    destruct (ordinary_pieces t i eol Ht Ho He) as (ps & Hr & Tk & _).
    exists ps. split; [exact Hr|]. split; [unfold tag_html; rewrite Hr; reflexivity|].
    split; [exact Tk|]. apply tokenize_pieces, Tk.
  Qed.

  Theorem parse_back (t : node M) (i : nat) (eol : str) :
    is_tag t = true -> ordinary t = true -> ws_only eol = true ->
    exists s, tag_html i eol t = Ok s
              /\ option_map canon (parse s) = Some (canon (elems_of t)).
  Proof.
    intros Ht Ho He.
    destruct (ordinary_pieces t i eol Ht Ho He) as (ps & Hr & Tk & Hb).
    exists (pieces_str ps). split; [unfold tag_html; rewrite Hr; reflexivity|].
    unfold parse. rewrite (tokenize_pieces ps Tk), build_merge_chars. exact Hb.
  Qed.
End ParseBack.

(* C08: the model of == (Spec/EqSpec.v) decides structural similarity. *)
From Coq Require Import PeanoNat Lia.
From HT Require Import Model.Str Model.Tree Spec.EqSpec.

Lemma seqb_eq a : forall b, str_eqb a b = true <-> a = b.
Proof.
  induction a as [|x a IH]; intros [|y b]; cbn [str_eqb]; split; intros H;
    try reflexivity; try discriminate.
  - apply andb_true_iff in H as [H1 H2]. apply N.eqb_eq in H1. apply IH in H2. congruence.
  - inversion H; subst. rewrite N.eqb_refl. apply IH. reflexivity.
Qed.

Lemma seqb_refl a : str_eqb a a = true.
Proof. apply seqb_eq. reflexivity. Qed.

(* ---- attribute maps ------------------------------------------------------------------ *)
Lemma alookup_in k a v : alookup k a = Some v -> In (k, v) a.
Proof.
  induction a as [|[k' v'] a IH]; cbn [alookup]; intros H; [discriminate|].
  destruct (str_eqb k k') eqn:E.
  - apply seqb_eq in E. inversion H; subst. left. reflexivity.
  - right. apply IH, H.
Qed.

Lemma alookup_none k a : alookup k a = None <-> ~ In k (map fst a).
Proof.
  induction a as [|[k' v'] a IH]; cbn [alookup map fst In]; [tauto|].
  destruct (str_eqb k k') eqn:E.
  - apply seqb_eq in E. subst. split; [discriminate|]. intros H. exfalso. apply H. left. reflexivity.
  - rewrite IH. split.
    + intros H [H1|H1]; [|tauto]. subst. rewrite seqb_refl in E. discriminate.
    + intros H H1. apply H. right. exact H1.
Qed.

Lemma alookup_nodup k v a : NoDup (map fst a) -> In (k, v) a -> alookup k a = Some v.
Proof.
  induction a as [|[k' v'] a IH]; cbn [alookup map fst]; intros ND Hin; [destruct Hin|].
  inversion ND as [|? ? Hnot ND']; subst.
  destruct Hin as [Heq|Hin].
  - inversion Heq; subst. rewrite seqb_refl. reflexivity.
  - destruct (str_eqb k k') eqn:E.
    + apply seqb_eq in E. subst. exfalso. apply Hnot.
      change k' with (fst (k', v)). apply in_map. exact Hin.
    + apply IH; assumption.
Qed.

Lemma attrs_eqb_same a b :
  NoDup (map fst a) -> NoDup (map fst b) -> (attrs_eqb a b = true <-> attrs_same a b).
Proof.
  intros Na Nb. unfold attrs_eqb. rewrite andb_true_iff, Nat.eqb_eq, forallb_forall. split.
  - intros [Hlen Hall] k.
    destruct (alookup k a) as [v|] eqn:Ea.
    + specialize (Hall (k, v) (alookup_in _ _ _ Ea)). cbn [fst snd] in Hall.
      destruct (alookup k b) as [v'|]; [|discriminate]. apply seqb_eq in Hall.
      cbn. congruence.
    + destruct (alookup k b) as [v'|] eqn:Eb; [|reflexivity]. exfalso.
      apply alookup_none in Ea. apply Ea.
      assert (Hincl : incl (map fst a) (map fst b)).
      { intros k0 Hk0. apply in_map_iff in Hk0 as [[k1 v1] [<- Hin]]. cbn [fst].
        specialize (Hall (k1, v1) Hin). cbn [fst snd] in Hall.
        destruct (alookup k1 b) as [v2|] eqn:E2; [|discriminate].
        apply alookup_in in E2. change k1 with (fst (k1, v2)). apply in_map. exact E2. }
      apply (NoDup_length_incl (l := map fst a) (l' := map fst b) Na);
        [rewrite !map_length; lia|exact Hincl|].
      apply alookup_in in Eb. change k with (fst (k, v')). apply in_map. exact Eb.
  - intros Hs.
    assert (I1 : incl (map fst a) (map fst b)).
    { intros k Hk. destruct (alookup k b) as [v|] eqn:Eb.
      - apply alookup_in in Eb. change k with (fst (k, v)). apply in_map. exact Eb.
      - exfalso. specialize (Hs k). rewrite Eb in Hs.
        destruct (alookup k a) eqn:Ea; [discriminate|]. apply alookup_none in Ea. tauto. }
    assert (I2 : incl (map fst b) (map fst a)).
    { intros k Hk. destruct (alookup k a) as [v|] eqn:Ea.
      - apply alookup_in in Ea. change k with (fst (k, v)). apply in_map. exact Ea.
      - exfalso. specialize (Hs k). rewrite Ea in Hs.
        destruct (alookup k b) eqn:Eb; [discriminate|]. apply alookup_none in Eb. tauto. }
    split.
    + pose proof (NoDup_incl_length Na I1). pose proof (NoDup_incl_length Nb I2).
      rewrite !map_length in *. lia.
    + intros [k v] Hin. cbn [fst snd]. specialize (Hs k).
      rewrite (alookup_nodup k v a Na Hin) in Hs.
      destruct (alookup k b) as [v'|]; [|discriminate]. cbn in Hs. apply seqb_eq. congruence.
Qed.

Lemma attrs_same_refl a : attrs_same a a.
Proof. intros k. reflexivity. Qed.
Lemma attrs_same_sym a b : attrs_same a b -> attrs_same b a.
Proof. intros H k. symmetry. apply H. Qed.

(* ---- children ------------------------------------------------------------------------ *)
Fixpoint kids_eqb (l l' : list (node N)) : bool :=
  match l, l' with
  | [], [] => true
  | c :: l1, c' :: l1' => eqb c c' && kids_eqb l1 l1'
  | _, _ => false
  end.

Lemma eqb_tag n w a k n' w' a' k' :
  eqb (TagN n w a k) (TagN n' w' a' k')
  = str_eqb n n' && Bool.eqb w w' && attrs_eqb a a' && kids_eqb k k'.
Proof.
  reflexivity.
Qed.

Lemma kids_eqb_forall2 l l' :
  kids_eqb l l' = true <-> Forall2 (fun c c' => eqb c c' = true) l l'.
Proof.
  revert l'. induction l as [|c l IH]; intros [|c' l']; cbn [kids_eqb]; split; intros H;
    try constructor; try discriminate; try (inversion H; fail).
  - apply andb_true_iff in H. tauto.
  - apply IH. apply andb_true_iff in H. tauto.
  - inversion H; subst. apply andb_true_iff. split; [assumption|]. apply IH. assumption.
Qed.

Lemma dict_ok_tag n w a kids :
  dict_ok (TagN n w a kids) <-> NoDup (map fst a) /\ Forall dict_ok kids.
Proof.
  cbn [dict_ok].
  assert (E : forall l, (fix all (l : list (node N)) : Prop :=
                           match l with [] => True | c :: l' => dict_ok c /\ all l' end) l
                        <-> Forall dict_ok l).
  { induction l as [|c l IH]; [split; intros _; constructor|].
    split; intros H.
    - destruct H as [H1 H2]. constructor; [exact H1|apply IH, H2].
    - inversion H; subst. split; [assumption|]. apply IH. assumption. }
  rewrite E. tauto.
Qed.

Lemma sim_text_inv x y s : text_of x = Some s -> sim x y -> text_of y = Some s.
Proof.
  intros Hx S. inversion S; subst; try discriminate. congruence.
Qed.

(* ---- the main theorem ---------------------------------------------------------------- *)
Lemma eqb_text_sim x y s : text_of x = Some s -> (eqb x y = true <-> sim x y).
Proof.
  intros Hx. split.
  - intros H. destruct x as [t|t| | | |]; try discriminate; cbn in Hx; inversion Hx; subst t;
      destruct y as [s'|s'|s'|m'|n' w' a' k'|sh' e']; cbn [eqb] in H; try discriminate;
      apply seqb_eq in H; subst s'; eapply sim_text; reflexivity.
  - intros S. pose proof (sim_text_inv _ _ _ Hx S) as Hy.
    destruct x as [t|t| | | |]; try discriminate; cbn in Hx; inversion Hx; subst t;
      destruct y as [s'|s'|s'|m'|n' w' a' k'|sh' e']; try discriminate;
      cbn in Hy; inversion Hy; subst s'; cbn [eqb]; apply seqb_refl.
Qed.

Theorem eqb_sim x : forall y, dict_ok x -> dict_ok y -> (eqb x y = true <-> sim x y).
Proof.
  induction x as [s|s|s|m|n w a kids IH|sh exp _] using node_ind'; intros y Dx Dy.
  - apply (eqb_text_sim _ _ s). reflexivity.
  - apply (eqb_text_sim _ _ s). reflexivity.
  - split; intros H; [destruct y; discriminate|]. inversion H; subst; discriminate.
  - destruct y as [s'|s'|s'|m'|n' w' a' k'|sh' e']; cbn [eqb]; split; intros H;
      try discriminate; try (inversion H; subst; discriminate).
    + apply N.eqb_eq in H. subst. constructor.
    + inversion H; subst; try discriminate. apply N.eqb_refl.
  - destruct y as [s'|s'|s'|m'|n' w' a' k'|sh' e'];
      try (split; intros H; [discriminate|inversion H; subst; discriminate]).
    rewrite eqb_tag. apply dict_ok_tag in Dx as [Na Fx]. apply dict_ok_tag in Dy as [Nb Fy].
    assert (K : Forall2 (fun c c' => eqb c c' = true) kids k' <-> Forall2 sim kids k').
    { clear - IH Fx Fy. revert k' Fy. induction kids as [|c kids IHk]; intros k' Fy.
      - split; intros H; inversion H; constructor.
      - inversion IH as [|? ? Hc IHr]; subst. inversion Fx as [|? ? Dc Fr]; subst.
        split; intros H; inversion H as [|? c' ? l' Hcc Hrest]; subst;
          inversion Fy as [|? ? Dc' Fr']; subst; constructor.
        + apply Hc; assumption.
        + apply IHk; assumption.
        + apply Hc; assumption.
        + apply IHk; assumption. }
    rewrite !andb_true_iff, kids_eqb_forall2, K, seqb_eq, (attrs_eqb_same a a' Na Nb).
    split.
    + intros [[[Hn Hw] Ha] Hk]. apply Bool.eqb_prop in Hw. subst. constructor; assumption.
    + intros H. inversion H; subst; try discriminate.
      repeat split; try assumption. apply Bool.eqb_reflx.
  - split; intros H; [destruct y; discriminate|]. inversion H; subst; discriminate.
Qed.

(* ---- sim is reflexive on plain trees and symmetric ----------------------------------- *)
Lemma sim_refl x : plain x = true -> sim x x.
Proof.
  induction x as [s|s|s|m|n w a kids IH|sh exp _] using node_ind'; intros P; try discriminate.
  - eapply sim_text; reflexivity.
  - eapply sim_text; reflexivity.
  - constructor.
  - constructor; [apply attrs_same_refl|]. cbn [plain] in P.
    induction IH as [|c l Hc _ IHl]; [constructor|].
    cbn [forallb] in P. apply andb_true_iff in P as [P1 P2].
    constructor; [apply Hc, P1|apply IHl, P2].
Qed.

Lemma sim_sym x : forall y, sim x y -> sim y x.
Proof.
  induction x as [s|s|s|m|n w a kids IH|sh exp _] using node_ind'; intros y S;
    inversion S; subst; try discriminate;
    try (eapply sim_text; eassumption); try constructor.
  - apply attrs_same_sym. assumption.
  - clear S. match goal with H : Forall2 sim kids ?kb |- _ => revert H; generalize kb end.
    induction IH as [|c l Hc _ IHl]; intros kb' F2; inversion F2; subst; constructor.
    + apply Hc. assumption.
    + apply IHl. assumption.
Qed.

Theorem eqb_refl x : dict_ok x -> plain x = true -> eqb x x = true.
Proof. intros D P. apply eqb_sim; try assumption. apply sim_refl, P. Qed.

Theorem eqb_sym x y : dict_ok x -> dict_ok y -> eqb x y = eqb y x.
Proof.
  intros Dx Dy. destruct (eqb x y) eqn:E1, (eqb y x) eqn:E2; try reflexivity.
  - apply eqb_sim in E1; try assumption. apply sim_sym in E1.
    apply eqb_sim in E1; try assumption. congruence.
  - apply eqb_sim in E2; try assumption. apply sim_sym in E2.
    apply eqb_sim in E2; try assumption. congruence.
Qed.

(* what a true answer implies, field by field: contrapositive = what makes == false *)
Theorem eqb_tag_true_inv n w a k n' w' a' k' :
  NoDup (map fst a) -> NoDup (map fst a') ->
  eqb (TagN n w a k) (TagN n' w' a' k') = true ->
  n = n' /\ w = w' /\ attrs_same a a' /\ length k = length k'
  /\ Forall2 (fun c c' => eqb c c' = true) k k'.
Proof.
  intros Na Nb H. rewrite eqb_tag in H. rewrite !andb_true_iff in H.
  destruct H as [[[Hn Hw] Ha] Hk]. apply seqb_eq in Hn. apply Bool.eqb_prop in Hw.
  apply (attrs_eqb_same a a' Na Nb) in Ha. apply kids_eqb_forall2 in Hk.
  repeat split; try assumption.
  clear - Hk. induction Hk; [reflexivity|]. cbn. f_equal. assumption.
Qed.

Lemma attrs_same_keys a b k :
  attrs_same a b -> (In k (map fst a) <-> In k (map fst b)).
Proof.
  intros H. specialize (H k).
  destruct (alookup k a) eqn:Ea, (alookup k b) eqn:Eb; try discriminate.
  - apply alookup_in in Ea, Eb. split; intros _.
    + change k with (fst (k, a1)). apply in_map. exact Eb.
    + change k with (fst (k, a0)). apply in_map. exact Ea.
  - apply alookup_none in Ea, Eb. tauto.
Qed.

(* ---- the statements of Properties/C08.v ------------------------------------------------ *)

Theorem c08_eq_discriminates :
  (forall n w a k n' w' a' k',
      NoDup (map fst a) -> NoDup (map fst a') ->
      eqb (TagN n w a k) (TagN n' w' a' k') = true ->
      n = n' /\ w = w'
      /\ (forall key, In key (map fst a) <-> In key (map fst a'))
      /\ (forall key, option_map aval_text (alookup key a) = option_map aval_text (alookup key a'))
      /\ length k = length k'
      /\ Forall2 (fun c c' => eqb c c' = true) k k')
  /\ (forall n w a k y, is_tag y = false -> eqb (TagN n w a k) y = false /\ eqb y (TagN n w a k) = false)
  /\ (forall s s', eqb (Text s) (Text s') = true <-> s = s').
Proof.
  split; [|split].
  - intros n w a k n' w' a' k' Na Nb H.
    destruct (eqb_tag_true_inv n w a k n' w' a' k' Na Nb H) as (E1 & E2 & E3 & E4 & E5).
    repeat split; try assumption; try (apply (attrs_same_keys a a' key E3)).
  - intros n w a k y Hy. destruct y; try discriminate; split; reflexivity.
  - intros s s'. apply seqb_eq.
Qed.

(* C13  Lemmas about the string-level model of serialising / extracting dependencies. *)
From Coq Require Import ZArith Lia.
(* No dependency on Gen.Tables: nothing here is recompiled when the tables are regenerated. *)
From HT Require Import Model.Str Model.SerializeFns Spec.SerializeSpec.

(* lia on N with division / modulo by constants *)
Ltac Zify.zify_post_hook ::= Z.to_euclidean_division_equations.

(* ------------------------------------------------------------------------------------ *)
(* basic string facts                                                                     *)
(* ------------------------------------------------------------------------------------ *)
Lemma strip_prefix_cons x p y s :
  strip_prefix (x :: p) (y :: s) = if N.eqb x y then strip_prefix p s else None.
Proof. reflexivity. Qed.

Lemma strip_prefix_app p r : strip_prefix p (p ++ r) = Some r.
Proof.
  induction p as [|x p IH]; cbn [strip_prefix app]; [reflexivity|].
  rewrite N.eqb_refl. exact IH.
Qed.

Lemma strip_prefix_Some p : forall s r, strip_prefix p s = Some r -> s = p ++ r.
Proof.
  induction p as [|x p IH]; intros s r H.
  - cbn in H. injection H as ->. reflexivity.
  - destruct s as [|y s]; [discriminate H|].
    rewrite strip_prefix_cons in H. destruct (N.eqb x y) eqn:E; [|discriminate H].
    apply N.eqb_eq in E. subst y. cbn [app]. f_equal. apply IH, H.
Qed.

Lemma strip_prefix_iff p s r : strip_prefix p s = Some r <-> s = p ++ r.
Proof. split; [apply strip_prefix_Some | intros ->; apply strip_prefix_app]. Qed.

(* a failed prefix test on a text at least as long as the prefix fails on every extension *)
Lemma strip_prefix_None_app p : forall s r,
  (length p <= length s)%nat -> strip_prefix p s = None -> strip_prefix p (s ++ r) = None.
Proof.
  induction p as [|x p IH]; intros s r Hl H; [discriminate H|].
  destruct s as [|y s]; [cbn in Hl; lia|].
  cbn [app]. rewrite strip_prefix_cons in *. destruct (N.eqb x y); [|reflexivity].
  apply IH; [cbn in Hl; lia | exact H].
Qed.

Lemma starts_with_iff p s : starts_with p s = true <-> exists r, s = p ++ r.
Proof.
  unfold starts_with. destruct (strip_prefix p s) as [r|] eqn:E.
  - split; [intros _; exists r; apply strip_prefix_Some, E | reflexivity].
  - split; [discriminate|]. intros [r ->]. rewrite strip_prefix_app in E. discriminate E.
Qed.

Lemma str_eqb_refl a : str_eqb a a = true.
Proof. induction a as [|x a IH]; cbn; [reflexivity|]. rewrite N.eqb_refl. exact IH. Qed.

Lemma str_eqb_eq a : forall b, str_eqb a b = true <-> a = b.
Proof.
  induction a as [|x a IH]; intros [|y b]; cbn; split; intros H;
    try reflexivity; try discriminate H.
  - apply andb_true_iff in H as [H1 H2]. apply N.eqb_eq in H1. apply IH in H2. congruence.
  - injection H as -> ->. rewrite N.eqb_refl. cbn. apply IH. reflexivity.
Qed.

Lemma str_eqb_sym a b : str_eqb a b = str_eqb b a.
Proof.
  destruct (str_eqb a b) eqn:E1, (str_eqb b a) eqn:E2; try reflexivity.
  - apply str_eqb_eq in E1. subst. rewrite str_eqb_refl in E2. discriminate.
  - apply str_eqb_eq in E2. subst. rewrite str_eqb_refl in E1. discriminate.
Qed.

Lemma contains_iff n : forall s, contains n s = true <-> occurs n s.
Proof.
  unfold occurs. induction s as [|c s IH].
  - cbn. destruct n as [|x n]; split; intros H; try discriminate H; try reflexivity.
    + exists [], []. reflexivity.
    + destruct H as (a & b & H). destruct a; cbn in H; discriminate H.
  - cbn [contains]. rewrite orb_true_iff, IH, starts_with_iff. split.
    + intros [[r H]|(a & b & H)].
      * exists [], r. exact H.
      * exists (c :: a), b. cbn. f_equal. exact H.
    + intros (a & b & H). destruct a as [|y a].
      * left. exists b. exact H.
      * right. injection H as -> H. exists a, b. exact H.
Qed.

Lemma contains_false_iff n s : contains n s = false <-> ~ occurs n s.
Proof.
  rewrite <- contains_iff. destruct (contains n s); split; intros H;
    try reflexivity; try discriminate H.
  - exfalso. apply H. reflexivity.
  - intros H'. discriminate H'.
Qed.

(* ------------------------------------------------------------------------------------ *)
(* T1  no end-tag-like close tag survives, for the repaired literals                      *)
(* ------------------------------------------------------------------------------------ *)
Definition hd47 (s : str) : bool := match s with c :: _ => c =? 47 | [] => false end.

Lemma fixed_head f s :
  (0 < f)%nat -> hd47 (replace_all_fuel f [60; 47] [60; 92; 47] s) = hd47 s.
Proof.
  destruct f as [|f]; [lia|]. intros _. destruct s as [|c s]; [reflexivity|].
  cbn [replace_all_fuel]. destruct (strip_prefix [60; 47] (c :: s)) as [r|] eqn:E.
  - apply strip_prefix_Some in E. cbn in E. injection E as -> E. reflexivity.
  - reflexivity.
Qed.

Lemma fixed_no_lt_slash : forall f s,
  (length s < f)%nat -> contains [60; 47] (replace_all_fuel f [60; 47] [60; 92; 47] s) = false.
Proof.
  induction f as [|f IH]; intros s Hl; [lia|].
  destruct s as [|c s]; [reflexivity|].
  cbn [replace_all_fuel]. destruct (strip_prefix [60; 47] (c :: s)) as [r|] eqn:E.
  - apply strip_prefix_Some in E. cbn in E. injection E as -> ->.
    cbn. apply IH. cbn in Hl. lia.
  - cbn [contains]. rewrite IH by (cbn in Hl; lia). rewrite orb_false_r.
    unfold starts_with. rewrite strip_prefix_cons.
    destruct (60 =? c) eqn:Ec; [|reflexivity].
    destruct (replace_all_fuel f [60; 47] [60; 92; 47] s) as [|d r] eqn:ER; [reflexivity|].
    rewrite strip_prefix_cons. destruct (47 =? d) eqn:Ed; [|reflexivity].
    exfalso.
    assert (Hh : hd47 (replace_all_fuel f [60; 47] [60; 92; 47] s) = true).
    { rewrite ER. cbn. rewrite N.eqb_sym. exact Ed. }
    rewrite fixed_head in Hh by (cbn in Hl; lia).
    destruct s as [|d' s']; [discriminate Hh|]. cbn in Hh.
    apply N.eqb_eq in Hh, Ec. subst. cbn in E. discriminate E.
Qed.

Lemma lower_char_60 c : lower_char c = 60 -> c = 60.
Proof.
  unfold lower_char. destruct ((65 <=? c) && (c <=? 90)) eqn:E; intros H; [|exact H].
  apply andb_true_iff in E as [E1 E2]. apply N.leb_le in E1, E2. lia.
Qed.
Lemma lower_char_47 c : lower_char c = 47 -> c = 47.
Proof.
  unfold lower_char. destruct ((65 <=? c) && (c <=? 90)) eqn:E; intros H; [|exact H].
  apply andb_true_iff in E as [E1 E2]. apply N.leb_le in E1, E2. lia.
Qed.

Lemma close_tag_starts s :
  starts_with close_tag_lc (lower s) = true -> starts_with [60; 47] s = true.
Proof.
  rewrite starts_with_iff. intros [r H].
  destruct s as [|c [|d s]]; cbn in H; try discriminate H.
  injection H as H1 H2 _. apply lower_char_60 in H1. apply lower_char_47 in H2. subst.
  reflexivity.
Qed.

(* every end-tag-like close tag, in whatever letter case, begins with  < /  *)
Lemma close_tag_has_lt_slash s : has_close_tag s = true -> contains [60; 47] s = true.
Proof.
  unfold has_close_tag. induction s as [|c s IH]; [discriminate|].
  change (lower (c :: s)) with (lower_char c :: lower s). cbn [contains].
  rewrite !orb_true_iff. intros [H|H].
  - left. apply close_tag_starts. exact H.
  - right. apply IH, H.
Qed.

Lemma no_close_tag_of_ok f t :
  neutralise_ok f t = true -> forall s, has_close_tag (neutralise_with f t s) = false.
Proof.
  unfold neutralise_ok. intros H s. apply andb_true_iff in H as [Hf Ht].
  apply str_eqb_eq in Hf, Ht. subst f t.
  destruct (has_close_tag _) eqn:E; [|reflexivity].
  apply close_tag_has_lt_slash in E.
  unfold neutralise_with, replace_all in E. rewrite fixed_no_lt_slash in E by lia. discriminate E.
Qed.

(* stronger: with the repaired literals no  < /  at all is left *)
Lemma no_lt_slash_of_ok f t :
  neutralise_ok f t = true -> forall s, contains [60; 47] (neutralise_with f t s) = false.
Proof.
  unfold neutralise_ok. intros H s. apply andb_true_iff in H as [Hf Ht].
  apply str_eqb_eq in Hf, Ht. subst f t.
  unfold neutralise_with, replace_all. apply fixed_no_lt_slash. lia.
Qed.

(* the witness of finding F3 (fixed by dfbc841; kept so that a regression of the literals is
   reported as a refutation with a concrete string): the close tag in upper case *)
Definition close_tag_upper : str := [60; 47; 83; 67; 82; 73; 80; 84; 62].
Lemma close_tag_witness f t :
  has_close_tag (neutralise_with f t close_tag_upper) = true ->
  exists s : str, has_close_tag (neutralise_with f t s) = true.
Proof. intros H. exists close_tag_upper. exact H. Qed.

(* ------------------------------------------------------------------------------------ *)
(* T4  str.replace(pattern, markup, 1)                                                    *)
(* ------------------------------------------------------------------------------------ *)
Lemma replace_first_hit pat markup s r :
  strip_prefix pat s = Some r -> replace_first pat markup s = markup ++ r.
Proof. intros H. destruct s; cbn [replace_first]; rewrite H; reflexivity. Qed.

Lemma replace_first_at pat markup : forall a b,
  (forall a' b', a ++ pat ++ b = a' ++ pat ++ b' -> (length a <= length a')%nat) ->
  replace_first pat markup (a ++ pat ++ b) = a ++ markup ++ b.
Proof.
  induction a as [|c a IH]; intros b Hfirst.
  - cbn [app]. apply replace_first_hit, strip_prefix_app.
  - cbn [app replace_first].
    destruct (strip_prefix pat (c :: a ++ pat ++ b)) as [r|] eqn:E.
    + apply strip_prefix_Some in E.
      specialize (Hfirst [] r E). cbn in Hfirst. lia.
    + f_equal. apply IH. intros a' b' H.
      specialize (Hfirst (c :: a') b'). cbn in Hfirst. rewrite H in Hfirst.
      specialize (Hfirst eq_refl). lia.
Qed.

Lemma replace_first_absent pat markup : forall s,
  ~ occurs pat s -> replace_first pat markup s = s.
Proof.
  induction s as [|c s IH]; intros H.
  - cbn. destruct (strip_prefix pat []) as [r|] eqn:E; [|reflexivity].
    exfalso. apply H. exists [], r. apply strip_prefix_Some in E. exact E.
  - cbn [replace_first]. destruct (strip_prefix pat (c :: s)) as [r|] eqn:E.
    + exfalso. apply H. exists [], r. apply strip_prefix_Some in E. exact E.
    + f_equal. apply IH. intros (a & b & Hs). apply H. exists (c :: a), b. cbn. f_equal. exact Hs.
Qed.

(* ------------------------------------------------------------------------------------ *)
(* T3  extraction: findall / sub as repeated first-occurrence search, then dedup          *)
(* ------------------------------------------------------------------------------------ *)
Lemma split_first_hit n s r : strip_prefix n s = Some r -> split_first n s = Some ([], r).
Proof. intros H. destruct s; cbn [split_first]; rewrite H; reflexivity. Qed.

Lemma split_first_None n : forall s, contains n s = false -> split_first n s = None.
Proof.
  induction s as [|c s IH]; intros H.
  - cbn in *. destruct n; [discriminate H|reflexivity].
  - cbn [contains] in H. apply orb_false_iff in H as [H1 H2].
    cbn [split_first]. unfold starts_with in H1.
    destruct (strip_prefix n (c :: s)); [discriminate H1|]. rewrite IH by exact H2. reflexivity.
Qed.

Lemma border_free_inv d :
  border_free d = true -> exists h tl, d = h :: tl /\ ~ In h tl.
Proof.
  destruct d as [|h tl]; [discriminate|]. cbn. intros H. exists h, tl. split; [reflexivity|].
  intros Hin. apply negb_true_iff in H.
  assert (existsb (N.eqb h) tl = true).
  { apply existsb_exists. exists h. split; [exact Hin | apply N.eqb_refl]. }
  congruence.
Qed.

(* a border-free delimiter that does not occur in p is first found, in p ++ d ++ rest,
   right after p: it can neither start inside p nor straddle the boundary *)
Lemma split_first_at d : border_free d = true -> forall p rest,
  contains d p = false -> split_first d (p ++ d ++ rest) = Some (p, rest).
Proof.
  intros Hb. destruct (border_free_inv d Hb) as (h & tl & -> & Hnin).
  induction p as [|c p IH]; intros rest Hc.
  - cbn [app]. apply split_first_hit. apply (strip_prefix_app (h :: tl)).
  - cbn [contains] in Hc. apply orb_false_iff in Hc as [Hs Hc].
    change ((c :: p) ++ (h :: tl) ++ rest) with (c :: p ++ (h :: tl) ++ rest).
    cbn [split_first].
    destruct (strip_prefix (h :: tl) (c :: p ++ (h :: tl) ++ rest)) as [r|] eqn:E.
    + exfalso. apply strip_prefix_Some in E. cbn [app] in E. injection E as -> E.
      apply app_eq_app in E as [l [[E1 E2]|[E1 E2]]].
      * assert (starts_with (h :: tl) (h :: p) = true).
        { apply starts_with_iff. exists l. cbn. f_equal. exact E1. }
        congruence.
      * destruct l as [|y l].
        -- rewrite app_nil_r in E1. subst tl.
           assert (starts_with (h :: p) (h :: p) = true).
           { apply starts_with_iff. exists []. rewrite app_nil_r. reflexivity. }
           congruence.
        -- cbn in E2. injection E2 as <- _. apply Hnin. rewrite E1.
           apply in_or_app. right. left. reflexivity.
    + rewrite IH by exact Hc. reflexivity.
Qed.

Definition seg_ok (op cl : str) (pt : str * str) : Prop :=
  contains cl (fst pt) = false /\ contains op (snd pt) = false.

Lemma scan_assemble op cl :
  border_free op = true -> border_free cl = true ->
  forall segs t0 fuel,
    (length segs <= fuel)%nat ->
    contains op t0 = false ->
    Forall (seg_ok op cl) segs ->
    scan_fuel fuel op cl (assemble op cl t0 segs) = (t0 ++ concat (map snd segs), map fst segs).
Proof.
  intros Hop Hcl. induction segs as [|[p t] segs IH]; intros t0 fuel Hf Ht0 Hsegs.
  - cbn. rewrite app_nil_r. destruct fuel as [|f]; [reflexivity|].
    cbn [scan_fuel]. rewrite split_first_None by exact Ht0. reflexivity.
  - destruct fuel as [|f]; [cbn in Hf; lia|].
    inversion Hsegs as [|x l [Hp Ht] Hrest]; subst. cbn [fst snd] in Hp, Ht.
    cbn [assemble scan_fuel].
    rewrite (split_first_at op Hop) by exact Ht0.
    rewrite (split_first_at cl Hcl) by exact Hp.
    rewrite IH; [|cbn in Hf; lia|exact Ht|exact Hrest].
    cbn [map concat fst snd]. reflexivity.
Qed.

Lemma assemble_length op cl : op <> [] -> forall segs t0,
  (length segs <= length (assemble op cl t0 segs))%nat.
Proof.
  intros Hop. induction segs as [|[p t] segs IH]; intros t0; cbn [assemble length]; [lia|].
  rewrite !app_length. specialize (IH t). destruct op; [congruence|]. cbn [length]. lia.
Qed.

Lemma filter_absorb {A} (P Q : A -> bool) :
  (forall y, P y = true -> Q y = true) -> forall l, filter P (filter Q l) = filter P l.
Proof.
  intros H. induction l as [|y l IH]; cbn [filter]; [reflexivity|].
  destruct (Q y) eqn:EQ; cbn [filter].
  - rewrite IH. reflexivity.
  - destruct (P y) eqn:EP; [|exact IH]. apply H in EP. congruence.
Qed.

Lemma filter_filter {A} (P Q : A -> bool) : forall l,
  filter P (filter Q l) = filter (fun y => Q y && P y) l.
Proof.
  induction l as [|y l IH]; cbn [filter]; [reflexivity|].
  destruct (Q y); cbn [filter andb]; rewrite IH; reflexivity.
Qed.

Lemma filter_true {A} : forall l : list A, filter (fun _ => true) l = l.
Proof. induction l as [|y l IH]; cbn; [reflexivity|]. rewrite IH. reflexivity. Qed.

Lemma dedup_from_spec : forall l seen,
  dedup_from seen l = filter (fun y => negb (mem_str y seen)) (stable_unique l).
Proof.
  induction l as [|x l IH]; intros seen; [reflexivity|].
  cbn [dedup_from stable_unique filter]. destruct (mem_str x seen) eqn:E; cbn [negb].
  - rewrite IH. symmetry. apply filter_absorb. intros y Hy.
    destruct (str_eqb y x) eqn:Ey; [|reflexivity].
    apply str_eqb_eq in Ey. subst y. rewrite E in Hy. discriminate Hy.
  - f_equal. rewrite IH, filter_filter. apply filter_ext. intros y.
    unfold mem_str. cbn [existsb]. rewrite negb_orb. reflexivity.
Qed.

Lemma dedup_spec l : dedup l = stable_unique l.
Proof.
  unfold dedup. rewrite dedup_from_spec. cbn. apply filter_true.
Qed.

Lemma extract_assemble op cl :
  border_free op = true -> border_free cl = true ->
  forall t0 segs,
    contains op t0 = false ->
    Forall (seg_ok op cl) segs ->
    extract_with op cl (assemble op cl t0 segs) =
    (t0 ++ concat (map snd segs), stable_unique (map fst segs)).
Proof.
  intros Hop Hcl t0 segs Ht0 Hsegs. unfold extract_with, scan.
  rewrite (scan_assemble op cl Hop Hcl).
  - rewrite dedup_spec. reflexivity.
  - pose proof (assemble_length op cl) as H.
    assert (Hne : op <> []) by (destruct op; [discriminate Hop | discriminate]).
    specialize (H Hne segs t0). lia.
  - exact Ht0.
  - exact Hsegs.
Qed.

(* ------------------------------------------------------------------------------------ *)
(* T2  a JSON string literal survives the neutralisation: loads (neutralise (dumps s)) = s *)
(* ------------------------------------------------------------------------------------ *)
(* s' is s with a backslash inserted between some  <  and the  /  that follows it *)
Inductive ins : str -> str -> Prop :=
| ins_nil : ins [] []
| ins_same c s s' : ins s s' -> ins (c :: s) (c :: s')
| ins_esc s s' : ins s s' -> ins (60 :: 47 :: s) (60 :: 92 :: 47 :: s').

Lemma ins_refl s : ins s s.
Proof. induction s; constructor; assumption. Qed.

Lemma ins_app_same l : forall s s', ins s s' -> ins (l ++ s) (l ++ s').
Proof. induction l as [|c l IH]; intros s s' H; cbn; [exact H|]. apply ins_same, IH, H. Qed.

Lemma shape_inv f t :
  neutralise_shape f t = true -> exists tl, f = 60 :: 47 :: tl /\ t = 60 :: 92 :: 47 :: tl.
Proof.
  unfold neutralise_shape. destruct f as [|a [|b t1]]; try discriminate.
  destruct t as [|c [|d [|e t2]]]; try discriminate.
  intros H. repeat (apply andb_true_iff in H as [H ?]).
  repeat match goal with E : (_ =? _) = true |- _ => apply N.eqb_eq in E end.
  match goal with E : str_eqb _ _ = true |- _ => apply str_eqb_eq in E end.
  subst. exists t2. split; reflexivity.
Qed.

Lemma ins_replace tl : forall fuel s,
  ins s (replace_all_fuel fuel (60 :: 47 :: tl) (60 :: 92 :: 47 :: tl) s).
Proof.
  induction fuel as [|f IH]; intros s; [apply ins_refl|].
  destruct s as [|c s]; [constructor|]. cbn [replace_all_fuel].
  destruct (strip_prefix (60 :: 47 :: tl) (c :: s)) as [r|] eqn:E.
  - apply strip_prefix_Some in E. rewrite E. cbn [app]. apply ins_esc, ins_app_same, IH.
  - apply ins_same, IH.
Qed.

Lemma ins_no60_prefix x : ~ In 60 x -> forall y z,
  ins (x ++ y) z -> exists z', z = x ++ z' /\ ins y z'.
Proof.
  induction x as [|c x IH]; intros Hn y z H.
  - exists z. split; [reflexivity|exact H].
  - cbn [app] in H. inversion H as [|c0 s0 s0' H0|s0 s0' H0]; subst.
    + apply IH in H0 as (z' & -> & H0); [|intros Hin; apply Hn; right; exact Hin].
      exists z'. split; [reflexivity|exact H0].
    + exfalso. apply Hn. left. reflexivity.
Qed.

Lemma ins_60 y z :
  ins (60 :: y) z ->
  (exists z1, z = 60 :: z1 /\ ins y z1) \/
  (exists y2 z2, y = 47 :: y2 /\ z = 60 :: 92 :: 47 :: z2 /\ ins y2 z2).
Proof.
  intros H. inversion H as [|c0 s0 s0' H0|s0 s0' H0]; subst.
  - left. exists s0'. split; [reflexivity|exact H0].
  - right. exists s0, s0'. repeat split. exact H0.
Qed.

(* --- the encoder's output alphabet --- *)
Lemma hexchar_not60 d : hexchar d <> 60.
Proof.
  unfold hexchar. destruct (d <? 10) eqn:E; [apply N.ltb_lt in E|apply N.ltb_ge in E]; lia.
Qed.

Lemma u_escape_no60 n : ~ In 60 (u_escape n).
Proof.
  unfold u_escape, hex4. cbn [In]. intros H.
  repeat (destruct H as [H|H]; [first [discriminate H | exact (hexchar_not60 _ H)]|]).
  exact H.
Qed.

Ltac split_ifs :=
  repeat match goal with
         | |- context [if ?b then _ else _] => destruct b eqn:?
         end.

Lemma enc_no60 c : c <> 60 -> ~ In 60 (json_enc_char c).
Proof.
  intros Hc. unfold json_enc_char. split_ifs;
    try (cbn [In]; intros H; repeat (destruct H as [H|H]; [discriminate H|]); exact H).
  - cbn [In]. intros [H|H]; [congruence|exact H].
  - apply u_escape_no60.
  - intros H. apply in_app_or in H as [H|H]; exact (u_escape_no60 _ H).
Qed.

(* an encoded character starts with a backslash or is the character itself *)
Lemma enc_head d : (exists tl, json_enc_char d = 92 :: tl) \/ json_enc_char d = [d].
Proof.
  unfold json_enc_char.
  destruct (d =? 34); [left; eexists; reflexivity|].
  destruct (d =? 92); [left; eexists; reflexivity|].
  destruct (d =? 10); [left; eexists; reflexivity|].
  destruct (d =? 13); [left; eexists; reflexivity|].
  destruct (d =? 9); [left; eexists; reflexivity|].
  destruct (d =? 8); [left; eexists; reflexivity|].
  destruct (d =? 12); [left; eexists; reflexivity|].
  destruct ((32 <=? d) && (d <=? 126)); [right; reflexivity|].
  destruct (d <? 65536); left; eexists; cbn [u_escape app]; reflexivity.
Qed.

Lemma enc_hd47 d rest y2 : json_enc_char d ++ rest = 47 :: y2 -> d = 47.
Proof.
  destruct (enc_head d) as [[tl H]|H]; rewrite H; cbn [app]; intros E; injection E as E _.
  - discriminate E.
  - exact E.
Qed.

(* --- the decoder, one step at a time --- *)
Lemma dec_plain c z :
  (c =? 34) = false -> (c =? 92) = false -> (c <? 32) = false ->
  dec_body (c :: z) = cons_res c (dec_body z).
Proof. intros H1 H2 H3. cbn [dec_body]. rewrite H1, H2, H3. reflexivity. Qed.

Lemma dec_simple e ch z :
  (e =? 117) = false -> simple_escape e = Some ch ->
  dec_body (92 :: e :: z) = cons_res ch (dec_body z).
Proof.
  intros H1 H2. cbn [dec_body]. change (92 =? 34) with false. change (92 =? 92) with true.
  cbv iota. rewrite H1, H2. reflexivity.
Qed.

Lemma dec_u_single a b c d u z :
  hex4_val a b c d = Some u -> is_high u = false ->
  dec_body (92 :: 117 :: a :: b :: c :: d :: z) = cons_res u (dec_body z).
Proof.
  intros H1 H2. cbn [dec_body]. change (92 =? 34) with false. change (92 =? 92) with true.
  change (117 =? 117) with true. cbv iota. rewrite H1, H2. reflexivity.
Qed.

Lemma dec_u_pair a b c d u a' b' c' d' u2 z :
  hex4_val a b c d = Some u -> is_high u = true ->
  hex4_val a' b' c' d' = Some u2 -> is_low u2 = true ->
  dec_body (92 :: 117 :: a :: b :: c :: d :: 92 :: 117 :: a' :: b' :: c' :: d' :: z) =
  cons_res (join_surrogates u u2) (dec_body z).
Proof.
  intros H1 H2 H3 H4. cbn [dec_body]. change (92 =? 34) with false.
  change (92 =? 92) with true. change (117 =? 117) with true. cbv iota.
  rewrite H1, H2. cbn [andb]. rewrite H3, H4. reflexivity.
Qed.

(* --- hexadecimal digits --- *)
Lemma hexval_hexchar d : d < 16 -> hexval (hexchar d) = Some d.
Proof.
  intros Hd. unfold hexval, hexchar. destruct (d <? 10) eqn:E.
  - apply N.ltb_lt in E.
    replace ((48 <=? 48 + d) && (48 + d <=? 57)) with true.
    + f_equal. lia.
    + symmetry. apply andb_true_iff. split; apply N.leb_le; lia.
  - apply N.ltb_ge in E.
    replace ((48 <=? 87 + d) && (87 + d <=? 57)) with false.
    + replace ((97 <=? 87 + d) && (87 + d <=? 102)) with true.
      * f_equal. lia.
      * symmetry. apply andb_true_iff. split; apply N.leb_le; lia.
    + symmetry. apply andb_false_iff. right. apply N.leb_gt. lia.
Qed.

Lemma hex4_val_hex4 n :
  n < 65536 ->
  hex4_val (hexchar (n / 4096 mod 16)) (hexchar (n / 256 mod 16))
           (hexchar (n / 16 mod 16)) (hexchar (n mod 16)) = Some n.
Proof.
  intros Hn. unfold hex4_val.
  rewrite !hexval_hexchar by (apply N.mod_lt; discriminate).
  f_equal. lia.
Qed.

(* --- one encoded character decodes to itself, whatever follows --- *)
Lemma dec_enc_char c : scalar c -> forall z,
  dec_body (json_enc_char c ++ z) = cons_res c (dec_body z).
Proof.
  intros Hs z. unfold json_enc_char.
  destruct (c =? 34) eqn:E34; [apply N.eqb_eq in E34; subst; reflexivity|].
  destruct (c =? 92) eqn:E92; [apply N.eqb_eq in E92; subst; reflexivity|].
  destruct (c =? 10) eqn:E10; [apply N.eqb_eq in E10; subst; reflexivity|].
  destruct (c =? 13) eqn:E13; [apply N.eqb_eq in E13; subst; reflexivity|].
  destruct (c =? 9) eqn:E9; [apply N.eqb_eq in E9; subst; reflexivity|].
  destruct (c =? 8) eqn:E8; [apply N.eqb_eq in E8; subst; reflexivity|].
  destruct (c =? 12) eqn:E12; [apply N.eqb_eq in E12; subst; reflexivity|].
  destruct ((32 <=? c) && (c <=? 126)) eqn:Ep.
  - apply andb_true_iff in Ep as [Ep _]. apply N.leb_le in Ep.
    cbn [app]. apply dec_plain; [exact E34|exact E92|apply N.ltb_ge; exact Ep].
  - destruct (c <? 65536) eqn:Eb.
    + apply N.ltb_lt in Eb. cbn [u_escape hex4 app].
      apply dec_u_single; [apply hex4_val_hex4; exact Eb|].
      unfold is_high. destruct Hs as [Hs|[Hs _]].
      * apply andb_false_iff. left. apply N.leb_gt. exact Hs.
      * apply andb_false_iff. right. apply N.leb_gt. lia.
    + apply N.ltb_ge in Eb. destruct Hs as [Hs|[_ Hs]]; [lia|].
      cbn zeta. cbn [u_escape hex4 app].
      rewrite (dec_u_pair _ _ _ _ (55296 + (c - 65536) / 1024 mod 1024) _ _ _ _
                          (56320 + (c - 65536) mod 1024)).
      * f_equal. unfold join_surrogates. lia.
      * apply hex4_val_hex4. lia.
      * unfold is_high. apply andb_true_iff. split; apply N.leb_le; lia.
      * apply hex4_val_hex4. lia.
      * unfold is_low. apply andb_true_iff. split; apply N.leb_le; lia.
Qed.

Lemma roundtrip_body : forall n s,
  (length s <= n)%nat -> Forall scalar s -> forall z,
  ins (flat_map json_enc_char s ++ [34]) z -> dec_body z = Some (s, []).
Proof.
  assert (Hnil : forall z, ins [34] z -> dec_body z = Some ([], [])).
  { intros z Hi. apply (ins_no60_prefix [34]) with (y := []) in Hi as (z' & -> & Hi).
    - inversion Hi. reflexivity.
    - cbn. intros [H|H]; [discriminate H|exact H]. }
  induction n as [|n IH]; intros s Hl Hs z Hi.
  - destruct s as [|c s]; [|cbn in Hl; lia]. apply Hnil, Hi.
  - destruct s as [|c s]; [apply Hnil, Hi|].
    inversion Hs as [|c0 s0 Hc Hs']; subst.
    cbn [flat_map] in Hi. rewrite <- app_assoc in Hi.
    destruct (N.eq_dec c 60) as [->|Hne].
    + change (json_enc_char 60) with [60] in Hi. cbn [app] in Hi.
      apply ins_60 in Hi as [(z1 & -> & Hi)|(y2 & z2 & Hy & -> & Hi)].
      * rewrite dec_plain by reflexivity.
        rewrite (IH s) by (try exact Hs'; try exact Hi; cbn in Hl; lia). reflexivity.
      * destruct s as [|d s]; [discriminate Hy|].
        cbn [flat_map] in Hy. rewrite <- app_assoc in Hy.
        pose proof (enc_hd47 _ _ _ Hy) as ->.
        change (json_enc_char 47) with [47] in Hy. cbn [app] in Hy. injection Hy as <-.
        inversion Hs' as [|c1 s1 Hc1 Hs'']; subst.
        rewrite dec_plain by reflexivity.
        rewrite (dec_simple 47 47) by reflexivity.
        rewrite (IH s) by (try exact Hs''; try exact Hi; cbn in Hl; lia). reflexivity.
    + apply ins_no60_prefix in Hi as (z' & -> & Hi); [|apply enc_no60; exact Hne].
      rewrite dec_enc_char by exact Hc.
      rewrite (IH s) by (try exact Hs'; try exact Hi; cbn in Hl; lia). reflexivity.
Qed.

Lemma json_roundtrip_with f t :
  neutralise_shape f t = true ->
  forall s, Forall scalar s -> json_str_dec (neutralise_with f t (json_str_enc s)) = Some s.
Proof.
  intros Hsh s Hs. destruct (shape_inv f t Hsh) as (tl & -> & ->).
  unfold neutralise_with, replace_all.
  pose proof (ins_replace tl (S (length (json_str_enc s))) (json_str_enc s)) as Hi.
  unfold json_str_enc in Hi at 1.
  apply (ins_no60_prefix [34]) in Hi as (z' & Hz & Hi).
  - rewrite Hz. cbn [app json_str_dec].
    rewrite (roundtrip_body (length s) s) by (try exact Hs; try exact Hi; lia). reflexivity.
  - cbn. intros [H|H]; [discriminate H|exact H].
Qed.

Lemma scalarb_iff c : scalarb c = true <-> scalar c.
Proof.
  unfold scalarb, scalar. rewrite orb_true_iff, andb_true_iff, N.ltb_lt, !N.leb_le. tauto.
Qed.

Lemma Forall_scalarb s : forallb scalarb s = true -> Forall scalar s.
Proof.
  intros H. apply Forall_forall. intros c Hc. apply scalarb_iff.
  rewrite forallb_forall in H. apply H, Hc.
Qed.

(* ------------------------------------------------------------------------------------ *)
(* link T1 -> T3: a payload without an end-tag-like close tag does not contain CLOSER     *)
(* ------------------------------------------------------------------------------------ *)
Lemma closer_absent cl p :
  starts_with close_tag_lc (lower cl) = true ->
  has_close_tag p = false -> contains cl p = false.
Proof.
  intros Hcl Hp. destruct (contains cl p) eqn:E; [|reflexivity].
  apply contains_iff in E as (a & b & ->).
  apply starts_with_iff in Hcl as [r Hr].
  unfold has_close_tag in Hp. apply contains_false_iff in Hp. exfalso. apply Hp.
  unfold lower in *. rewrite !map_app, Hr.
  exists (map lower_char a), (r ++ map lower_char b). rewrite <- app_assoc. reflexivity.
Qed.

(* C14: proofs about Model/TagListOps.v against Spec/FlattenSpec.v.
   Everything here compiles unchanged whatever the two repair flags of the model say:
   the lemmas that need a repair take it as a hypothesis
   (iadd_delegates_to_extend = true, child_tuple_has_int = true). *)
From Coq Require Import ZArith Lia.
From HT Require Import Model.Str Model.Tree Model.TagListOps Spec.FlattenSpec.

(* ------------------------------------------------------------------------------ *)
(* flatten, without the accumulator                                                *)
(* ------------------------------------------------------------------------------ *)
Fixpoint fl (v : pyval) : list pyval :=
  match v with
  | PList l | PTuple l | PTagList l =>
      (fix go (l : list pyval) : list pyval :=
         match l with [] => [] | x :: l' => fl x ++ go l' end) l
  | PNone => []
  | _ => [v]
  end.

Lemma fl_go : forall l,
  (fix go (l : list pyval) : list pyval :=
     match l with [] => [] | x :: l' => fl x ++ go l' end) l = flat_map fl l.
Proof. induction l as [|x l IH]; simpl; [reflexivity | now rewrite IH]. Qed.

Lemma fri_loop : forall l r,
  (fix loop (x : list pyval) (result : list pyval) : list pyval :=
     match x with
     | [] => result
     | it :: x' => loop x' (flatten_recurse_item it result)
     end) l r = flatten_recurse l r.
Proof. induction l as [|x l IH]; intros r; simpl; [reflexivity | apply IH]. Qed.

Lemma flatten_recurse_acc : forall l,
  Forall (fun x => forall r, flatten_recurse_item x r = r ++ fl x) l ->
  forall r, flatten_recurse l r = r ++ flat_map fl l.
Proof.
  intros l H. induction H as [|x l Hx Hl IH]; intros r; simpl.
  - now rewrite app_nil_r.
  - rewrite IH, Hx, app_assoc. reflexivity.
Qed.

Lemma fri_acc : forall v r, flatten_recurse_item v r = r ++ fl v.
Proof.
  induction v as [ | | | | | | | | | |l IH|l IH|l IH| ] using pyval_ind'; intros acc;
    try (simpl; now rewrite ?app_nil_r).
  all: simpl; rewrite fri_loop, fl_go; apply flatten_recurse_acc; exact IH.
Qed.

Lemma flatten_flat_map : forall l, flatten l = flat_map fl l.
Proof.
  intros l. unfold flatten. rewrite flatten_recurse_acc; [reflexivity|].
  apply Forall_forall. intros x _. apply fri_acc.
Qed.

(* ------------------------------------------------------------------------------ *)
(* results                                                                         *)
(* ------------------------------------------------------------------------------ *)
Lemma res_map_app : forall a b : res (list node),
  res_map embed (res_app a b) = res_app (res_map embed a) (res_map embed b).
Proof.
  intros [x|e] [y|e']; simpl; try reflexivity. unfold embed. now rewrite map_app.
Qed.

Lemma embed_app : forall a b, embed (a ++ b) = embed a ++ embed b.
Proof. intros. unfold embed. apply map_app. Qed.

Lemma res_app_nil_r : forall T (a : res (list T)), res_app a (Ok []) = a.
Proof. intros T [x|e]; simpl; [now rewrite app_nil_r | reflexivity]. Qed.

(* ------------------------------------------------------------------------------ *)
(* convert_items                                                                   *)
(* ------------------------------------------------------------------------------ *)
Lemma convert_app : forall a b,
  convert_items (a ++ b) = res_app (convert_items a) (convert_items b).
Proof.
  induction a as [|x a IH]; intros b; simpl.
  - destruct (convert_items b); reflexivity.
  - destruct x; simpl; rewrite ?IH;
      destruct (convert_items a); destruct (convert_items b); reflexivity.
Qed.

Lemma flat1_go : forall l,
  (fix go (l : list pyval) : res (list node) :=
     match l with [] => Ok [] | x :: l' => res_app (flat1 x) (go l') end) l = flat_spec l.
Proof. induction l as [|x l IH]; simpl; [reflexivity | now rewrite IH]. Qed.

Lemma flat1_list : forall l, flat1 (PList l) = flat_spec l.
Proof. intros; simpl; apply flat1_go. Qed.
Lemma flat1_tuple : forall l, flat1 (PTuple l) = flat_spec l.
Proof. intros; simpl; apply flat1_go. Qed.
Lemma flat1_taglist : forall l, flat1 (PTagList l) = flat_spec l.
Proof. intros; simpl; apply flat1_go. Qed.

Lemma convert_flat_map : forall l,
  Forall (fun v => convert_items (fl v) = res_map embed (flat1 v)) l ->
  convert_items (flat_map fl l) = res_map embed (flat_spec l).
Proof.
  intros l H. induction H as [|x l Hx Hl IH]; simpl; [reflexivity|].
  rewrite convert_app, Hx, IH, res_map_app. reflexivity.
Qed.

Lemma convert_fl : forall v, convert_items (fl v) = res_map embed (flat1 v).
Proof.
  induction v as [ | | | | | | | | | |l IH|l IH|l IH| ] using pyval_ind';
    try reflexivity.
  - rewrite flat1_list. simpl. rewrite fl_go. now apply convert_flat_map.
  - rewrite flat1_tuple. simpl. rewrite fl_go. now apply convert_flat_map.
  - rewrite flat1_taglist. simpl. rewrite fl_go. now apply convert_flat_map.
Qed.

(* C14_flatten, element position: flatten + convert = the declarative flattening *)
Theorem flatten_correct : forall items,
  tagchilds_of_items items = res_map embed (flat_spec items).
Proof.
  intros. unfold tagchilds_of_items. rewrite flatten_flat_map.
  apply convert_flat_map. apply Forall_forall. intros v _. apply convert_fl.
Qed.

(* C14_flatten, iterable position *)
Theorem tagchilds_iterable_correct : forall x,
  tagchilds_to_tagnodes x = res_map embed (flat_iterable x).
Proof.
  intros x. unfold tagchilds_to_tagnodes, flat_iterable.
  destruct x; simpl; try reflexivity; apply flatten_correct.
Qed.

(* all errors of the specification are TypeError *)
Lemma flat1_err : forall v e, flat1 v = Err e -> e = TypeError.
Proof.
  assert (G : forall l, Forall (fun v => forall e, flat1 v = Err e -> e = TypeError) l ->
              forall e, flat_spec l = Err e -> e = TypeError).
  { intros l H. induction H as [|x l Hx Hl IH]; intros e; simpl; [discriminate|].
    destruct (flat1 x) as [a|e1] eqn:E1; destruct (flat_spec l) as [b|e2] eqn:E2;
      simpl; intros Q; inversion Q; subst; eauto. }
  induction v as [ | | | | | | | | | |l IH|l IH|l IH| ] using pyval_ind'; intros e;
    try (simpl; discriminate).
  - rewrite flat1_list. now apply G.
  - rewrite flat1_tuple. now apply G.
  - rewrite flat1_taglist. now apply G.
  - simpl. intros Q; inversion Q; reflexivity.
Qed.

Lemma flat_spec_err : forall l e, flat_spec l = Err e -> e = TypeError.
Proof. intros l e. rewrite <- flat1_list. apply flat1_err. Qed.

Lemma flat_iterable_err : forall x e, flat_iterable x = Err e -> e = TypeError.
Proof.
  intros x e. unfold flat_iterable.
  destruct (as_iterable x) as [its|e'] eqn:E.
  - apply flat_spec_err.
  - intros Q; inversion Q; subst. destruct x; simpl in E; inversion E; reflexivity.
Qed.

(* ------------------------------------------------------------------------------ *)
(* a normalised receiver re-normalises to itself                                    *)
(* ------------------------------------------------------------------------------ *)
Lemma flat1_node : forall n, flat1 (pv_of_node n) = Ok [n].
Proof. intros [s|s|[] i]; reflexivity. Qed.

Lemma flat_spec_embed : forall ns, flat_spec (embed ns) = Ok ns.
Proof.
  induction ns as [|n ns IH]; [reflexivity|].
  change (flat_spec (embed (n :: ns)))
    with (res_app (flat1 (pv_of_node n)) (flat_spec (embed ns))).
  rewrite flat1_node, IH. reflexivity.
Qed.

Lemma flat_spec_app : forall a b, flat_spec (a ++ b) = res_app (flat_spec a) (flat_spec b).
Proof.
  induction a as [|x a IH]; intros b; simpl.
  - destruct (flat_spec b); reflexivity.
  - rewrite IH. destruct (flat1 x); destruct (flat_spec a); destruct (flat_spec b);
      simpl; rewrite ?app_assoc; reflexivity.
Qed.

Lemma flat_spec_self_first : forall ns its,
  flat_spec (PTagList (embed ns) :: its) = res_map (app ns) (flat_spec its).
Proof.
  intros. change (flat_spec (PTagList (embed ns) :: its))
    with (res_app (flat1 (PTagList (embed ns))) (flat_spec its)).
  rewrite flat1_taglist, flat_spec_embed. destruct (flat_spec its); reflexivity.
Qed.

Lemma flat_spec_self_last : forall ns its,
  flat_spec (its ++ [PTagList (embed ns)]) = res_map (fun new => new ++ ns) (flat_spec its).
Proof.
  intros. rewrite flat_spec_app.
  change (flat_spec [PTagList (embed ns)])
    with (res_app (flat1 (PTagList (embed ns))) (Ok [])).
  rewrite flat1_taglist, flat_spec_embed. simpl. rewrite app_nil_r.
  destruct (flat_spec its); reflexivity.
Qed.

Lemma res_map_embed_compose : forall (f : list node -> list node) (g : list pyval -> list pyval)
                                     (r : res (list node)),
  (forall x, embed (f x) = g (embed x)) ->
  res_map embed (res_map f r) = res_map g (res_map embed r).
Proof. intros f g [x|e] H; simpl; [now rewrite H | reflexivity]. Qed.

(* ------------------------------------------------------------------------------ *)
(* list-slice arithmetic                                                           *)
(* ------------------------------------------------------------------------------ *)
Lemma take_positions_map : forall (T U : Type) (f : T -> U) (l : list T) ps,
  take_positions (map f l) ps = map f (take_positions l ps).
Proof.
  intros T U f l ps. unfold take_positions. induction ps as [|p ps IH]; simpl; [reflexivity|].
  rewrite IH, map_app, nth_error_map. destruct (nth_error l p); reflexivity.
Qed.

Lemma py_getslice_embed : forall ns a b s,
  py_getslice (embed ns) a b s = res_map embed (py_getslice ns a b s).
Proof.
  intros. unfold py_getslice, embed. rewrite map_length.
  destruct (slice_indices (Z.of_nat (length ns)) a b s) as [[[x y] z]|e]; simpl; [|reflexivity].
  now rewrite take_positions_map.
Qed.

Lemma take_positions_In : forall (T : Type) (l : list T) ps x,
  In x (take_positions l ps) -> In x l.
Proof.
  intros T l ps x. unfold take_positions. rewrite in_flat_map. intros [p [_ H]].
  destruct (nth_error l p) eqn:E; simpl in H; [|contradiction].
  destruct H as [H|[]]; subst. eapply nth_error_In; eauto.
Qed.

Lemma positions_step1 : forall fuel lo hi,
  (0 <= lo)%Z -> (Z.to_nat (hi - lo) <= fuel)%nat ->
  slice_positions fuel lo hi 1 = seq (Z.to_nat lo) (Z.to_nat (hi - lo)).
Proof.
  induction fuel as [|f IH]; intros lo hi Hlo Hf.
  - simpl. replace (Z.to_nat (hi - lo)) with O by lia. reflexivity.
  - simpl. destruct (lo <? hi)%Z eqn:E.
    + apply Z.ltb_lt in E.
      replace (Z.to_nat (hi - lo)) with (S (Z.to_nat (hi - (lo + 1)))) by lia.
      simpl. f_equal. rewrite IH by lia. f_equal. lia.
    + apply Z.ltb_ge in E. replace (Z.to_nat (hi - lo)) with O by lia. reflexivity.
Qed.

Lemma skipn_nth_error : forall (T : Type) (l : list T) n x,
  nth_error l n = Some x -> skipn n l = x :: skipn (S n) l.
Proof.
  intros T l. induction l as [|y l IH]; intros [|n] x H; simpl in *; try discriminate.
  - inversion H; reflexivity.
  - apply IH in H. exact H.
Qed.

Lemma take_seq : forall (T : Type) (l : list T) n lo,
  (lo + n <= length l)%nat -> take_positions l (seq lo n) = firstn n (skipn lo l).
Proof.
  intros T l. induction n as [|n IH]; intros lo H; [reflexivity|].
  unfold take_positions in *. simpl.
  destruct (nth_error l lo) as [x|] eqn:E.
  - rewrite (skipn_nth_error _ _ _ _ E). simpl. f_equal. apply IH. lia.
  - apply nth_error_None in E. lia.
Qed.

Definition adj0 (len x : Z) : Z := if (x <? 0)%Z then Z.max (x + len) 0 else Z.min x len.

Lemma adj0_clamp : forall len x, Z.to_nat (adj0 (Z.of_nat len) x) = clamp_index len x.
Proof. intros. unfold adj0, clamp_index. destruct (x <? 0)%Z; f_equal; lia. Qed.

Lemma adj0_range : forall len x, (0 <= len -> 0 <= adj0 len x <= len)%Z.
Proof. intros len x H. unfold adj0. destruct (x <? 0)%Z eqn:E; [apply Z.ltb_lt in E|apply Z.ltb_ge in E]; lia. Qed.

(* tl[a:b] with the default step is firstn / skipn with clamped bounds *)
Lemma getslice_step1 : forall (T : Type) (l : list T) a b s,
  s = None \/ s = Some 1%Z ->
  py_getslice l a b s =
  Ok (firstn (slice_hi (length l) b - slice_lo (length l) a) (skipn (slice_lo (length l) a) l)).
Proof.
  intros T l a b s Hs. unfold py_getslice, slice_indices.
  assert (Hs' : match s with Some s0 => s0 | None => 1%Z end = 1%Z) by (destruct Hs; subst; reflexivity).
  rewrite Hs'. simpl.
  set (len := Z.of_nat (length l)).
  set (lo := match a with Some x => if (x <? 0)%Z then Z.max (x + len) 0 else Z.min x len | None => 0%Z end).
  set (hi := match b with Some x => if (x <? 0)%Z then Z.max (x + len) 0 else Z.min x len | None => len end).
  assert (Hlen : (0 <= len)%Z) by (unfold len; lia).
  assert (Hlo : (0 <= lo <= len)%Z).
  { unfold lo. destruct a as [x|]; [apply (adj0_range len x Hlen) | lia]. }
  assert (Hhi : (0 <= hi <= len)%Z).
  { unfold hi. destruct b as [x|]; [apply (adj0_range len x Hlen) | lia]. }
  assert (Elo : Z.to_nat lo = slice_lo (length l) a).
  { unfold lo, slice_lo. destruct a as [x|]; [apply adj0_clamp | reflexivity]. }
  assert (Ehi : Z.to_nat hi = slice_hi (length l) b).
  { unfold hi, slice_hi. destruct b as [x|]; [apply adj0_clamp | unfold len; lia]. }
  f_equal. rewrite positions_step1 by (unfold len in *; lia).
  rewrite <- Elo, <- Ehi.
  replace (Z.to_nat (hi - lo)) with (Z.to_nat hi - Z.to_nat lo)%nat by lia.
  apply take_seq. unfold len in *. lia.
Qed.

(* self[i:i] = items is the firstn / skipn splice at the clamped index *)
Lemma setslice_insert : forall ns i new,
  py_setslice (embed ns) i i (embed new) =
  embed (firstn (clamp_index (length ns) i) ns ++ new ++ skipn (clamp_index (length ns) i) ns).
Proof.
  intros. unfold py_setslice, slice_indices. simpl.
  assert (L : length (embed ns) = length ns) by apply map_length.
  rewrite !L.
  fold (adj0 (Z.of_nat (length ns)) i).
  rewrite Z.ltb_irrefl, !adj0_clamp.
  rewrite !embed_app. unfold embed. now rewrite firstn_map, skipn_map.
Qed.

Lemma list_repeat_embed : forall k ns,
  list_repeat k (embed ns) = embed (concat (repeat ns k)).
Proof.
  induction k as [|k IH]; intros ns; simpl; [reflexivity|].
  now rewrite IH, embed_app.
Qed.

(* ------------------------------------------------------------------------------ *)
(* every operation against its declarative description                             *)
(* ------------------------------------------------------------------------------ *)
Definition is_iadd (o : op) : bool := match o with OIadd _ => true | _ => false end.
(* the operation's own code normalises (true for all of them once += delegates) *)
Definition op_ok (o : op) : bool := negb (is_iadd o) || iadd_delegates_to_extend.

Lemma taglist_new_list_embed : forall l, taglist_new [PList (embed l)] = Ok (embed l).
Proof.
  intros. unfold taglist_new. rewrite flatten_correct. simpl.
  rewrite flat1_go, flat_spec_embed. simpl. now rewrite app_nil_r.
Qed.

Lemma extend_correct : forall ns x,
  op_extend (embed ns) x = res_map embed (res_map (app ns) (flat_iterable x)).
Proof.
  intros. unfold op_extend. rewrite tagchilds_iterable_correct.
  destruct (flat_iterable x); simpl; [now rewrite embed_app | reflexivity].
Qed.

Lemma py_iter_as_iterable : forall x, (forall s, x <> PStr s) -> py_iter x = as_iterable x.
Proof. intros x H. destruct x; try reflexivity. exfalso. eapply H; reflexivity. Qed.

Lemma add_correct : forall ns x,
  op_add (embed ns) x = res_map embed (res_map (app ns) (flat_iterable x)).
Proof.
  intros ns x. unfold op_add, flat_iterable.
  destruct x; simpl; try reflexivity;
    unfold taglist_new; rewrite flatten_correct, flat_spec_self_first; reflexivity.
Qed.

Lemma radd_correct : forall ns x,
  op_radd (embed ns) x = res_map embed (res_map (fun new => new ++ ns) (flat_iterable x)).
Proof.
  intros ns x. unfold op_radd, flat_iterable.
  destruct x; simpl; try reflexivity;
    unfold taglist_new; rewrite flatten_correct.
  - (* str: TagList(item, self) *)
    change [PStr s; PTagList (embed ns)] with ([PStr s] ++ [PTagList (embed ns)]).
    rewrite flat_spec_self_last. reflexivity.
  - rewrite flat_spec_self_last. reflexivity.
  - rewrite flat_spec_self_last. reflexivity.
  - rewrite flat_spec_self_last. reflexivity.
  - rewrite flat_spec_self_last. reflexivity.
Qed.

Lemma insert_correct : forall ns i x,
  op_insert (embed ns) i x =
  res_map embed
    (res_map (fun new => firstn (clamp_index (length ns) i) ns ++ new
                         ++ skipn (clamp_index (length ns) i) ns) (flat_spec [x])).
Proof.
  intros. unfold op_insert. rewrite tagchilds_iterable_correct.
  unfold flat_iterable, as_iterable.
  destruct (flat_spec [x]) as [new|e]; simpl; [|reflexivity].
  now rewrite setslice_insert.
Qed.

Lemma getslice_correct : forall ns a b s,
  op_getslice (embed ns) a b s = res_map embed (py_getslice ns a b s).
Proof.
  intros. unfold op_getslice. rewrite py_getslice_embed.
  destruct (py_getslice ns a b s) as [l|e]; simpl; [apply taglist_new_list_embed | reflexivity].
Qed.

Theorem op_value_correct : forall o ns,
  op_ok o = true ->
  op_value o (embed ns) = res_map embed (op_spec o ns).
Proof.
  intros o ns Hok. destruct o as [args|item args|other|i item|item|item|other|a b s|n|n| ]; simpl.
  - apply flatten_correct.
  - unfold op_append. rewrite extend_correct. reflexivity.
  - apply extend_correct.
  - apply insert_correct.
  - apply add_correct.
  - apply radd_correct.
  - unfold op_ok in Hok. simpl in Hok. unfold op_iadd. rewrite Hok. apply extend_correct.
  - rewrite getslice_correct.
    destruct s as [z|].
    + destruct z as [|p|p]; try reflexivity.
      destruct p; try reflexivity.
      now rewrite (getslice_step1 _ ns a b (Some 1%Z)) by (right; reflexivity).
    + now rewrite (getslice_step1 _ ns a b None) by (left; reflexivity).
  - unfold op_mul. rewrite list_repeat_embed. rewrite taglist_new_list_embed. reflexivity.
  - unfold op_imul. rewrite list_repeat_embed. reflexivity.
  - unfold op_copy, taglist_new. rewrite flatten_correct.
    replace [PTagList (embed ns)] with ([] ++ [PTagList (embed ns)]) by reflexivity.
    rewrite flat_spec_self_last. reflexivity.
Qed.

(* the receiver object and the value bound to tl after the call *)
Theorem exec_op_correct : forall o ns,
  op_ok o = true ->
  exec_op o (embed ns) =
  (embed (if in_place o then step_spec ns o else ns), res_map embed (op_spec o ns)).
Proof.
  intros o ns Hok. unfold exec_op, step_spec. rewrite op_value_correct by exact Hok.
  destruct (op_spec o ns) as [ns'|e]; simpl; destruct (in_place o); reflexivity.
Qed.

Lemma step_correct : forall o ns,
  op_ok o = true -> step (embed ns) o = embed (step_spec ns o).
Proof.
  intros o ns Hok. unfold step. rewrite exec_op_correct by exact Hok.
  unfold step_spec. destruct (op_spec o ns) as [ns'|e]; simpl; [reflexivity|].
  destruct (in_place o); reflexivity.
Qed.

(* any history: the list is the declarative fold of the supplied arguments *)
Theorem run_ops_correct : forall ops ns,
  forallb op_ok ops = true ->
  run_ops ops (embed ns) = embed (run_spec ops ns).
Proof.
  induction ops as [|o ops IH]; intros ns H; simpl in *; [reflexivity|].
  apply andb_true_iff in H. destruct H as [Ho Hops].
  rewrite step_correct by exact Ho. apply IH. exact Hops.
Qed.

Lemma embed_stored : forall ns, forallb is_stored_node (embed ns) = true.
Proof.
  induction ns as [|n ns IH]; simpl; [reflexivity|].
  rewrite IH. destruct n as [s|s|[] i]; reflexivity.
Qed.

Lemma embed_is_tag_node : forall ns, forallb is_tag_node (embed ns) = true.
Proof.
  induction ns as [|n ns IH]; simpl; [reflexivity|].
  rewrite IH. destruct n as [s|s|[] i]; reflexivity.
Qed.

Theorem invariant_gen : forall ops,
  forallb op_ok ops = true -> forallb is_stored_node (run_ops ops []) = true.
Proof.
  intros ops H. change (@nil pyval) with (embed []).
  rewrite run_ops_correct by exact H. apply embed_stored.
Qed.

Theorem is_node_gen : forall ops,
  forallb op_ok ops = true -> forallb is_tag_node (run_ops ops []) = true.
Proof.
  intros ops H. change (@nil pyval) with (embed []).
  rewrite run_ops_correct by exact H. apply embed_is_tag_node.
Qed.

Lemma op_ok_one : iadd_delegates_to_extend = true -> forall o, op_ok o = true.
Proof. intros H o. unfold op_ok. rewrite H. apply orb_true_r. Qed.

Lemma op_ok_all : iadd_delegates_to_extend = true -> forall ops, forallb op_ok ops = true.
Proof.
  intros H ops. induction ops as [|o ops IH]; simpl; [reflexivity|].
  rewrite IH. unfold op_ok. rewrite H. now rewrite orb_true_r.
Qed.

Lemma op_ok_noiadd : forall ops, forallb (fun o => negb (is_iadd o)) ops = true ->
  forallb op_ok ops = true.
Proof.
  induction ops as [|o ops IH]; simpl; [reflexivity|]. intros H.
  apply andb_true_iff in H. destruct H as [Ho Hops].
  rewrite IH by exact Hops. unfold op_ok. now rewrite Ho.
Qed.

(* ------------------------------------------------------------------------------ *)
(* failure atomicity, purity of the operators that return a new list               *)
(* ------------------------------------------------------------------------------ *)
Theorem atomic : forall o st e, snd (exec_op o st) = Err e -> fst (exec_op o st) = st.
Proof.
  intros o st e. unfold exec_op. destruct (op_value o st); simpl; [discriminate | reflexivity].
Qed.

Theorem atomic_step : forall o st e, snd (exec_op o st) = Err e -> step st o = st.
Proof.
  intros o st e. unfold step, exec_op. destruct (op_value o st); simpl; [discriminate | reflexivity].
Qed.

Theorem pure_ops : forall o st, in_place o = false -> fst (exec_op o st) = st.
Proof.
  intros o st H. unfold exec_op. rewrite H. destruct (op_value o st); reflexivity.
Qed.

(* an unsupported argument is a TypeError (the only other exception in scope is the
   ValueError of a zero slice step) *)
Theorem spec_errors : forall o ns e,
  op_spec o ns = Err e ->
  e = TypeError \/ (e = ValueError /\ exists a b, o = OSlice a b (Some 0%Z)).
Proof.
  intros o ns e. destruct o as [args|item args|other|i item|item|item|other|a b s|n|n| ]; simpl;
    try discriminate.
  - intros H. left. eapply flat_spec_err; eauto.
  - destruct (res_app (flat1 item) (flat_spec args)) eqn:E; simpl; intros H; inversion H; subst.
    left. eapply (flat_spec_err (item :: args)). exact E.
  - destruct (flat_iterable other) eqn:E; simpl; intros H; inversion H; subst.
    left. eapply flat_iterable_err; eauto.
  - destruct (res_app (flat1 item) (Ok [])) eqn:E; simpl; intros H; inversion H; subst.
    left. eapply (flat_spec_err [item]). exact E.
  - destruct (flat_iterable item) eqn:E; simpl; intros H; inversion H; subst.
    left. eapply flat_iterable_err; eauto.
  - destruct (flat_iterable item) eqn:E; simpl; intros H; inversion H; subst.
    left. eapply flat_iterable_err; eauto.
  - destruct (flat_iterable other) eqn:E; simpl; intros H; inversion H; subst.
    left. eapply flat_iterable_err; eauto.
  - destruct s as [z|]; [|discriminate].
    destruct z as [|p|p].
    + unfold py_getslice, slice_indices. simpl. intros H; inversion H; subst.
      right. split; [reflexivity|]. exists a, b. reflexivity.
    + destruct p; try discriminate;
        unfold py_getslice, slice_indices; simpl; discriminate.
    + unfold py_getslice, slice_indices; simpl; discriminate.
Qed.

(* ------------------------------------------------------------------------------ *)
(* is_tag_child / is_tag_node                                                      *)
(* ------------------------------------------------------------------------------ *)
Definition is_int_like (x : pyval) : bool :=
  match x with PInt _ | PBool _ => true | _ => false end.

Theorem is_child_complete_gen : forall x,
  is_int_like x = false \/ child_tuple_has_int = true ->
  flat_spec [x] <> Err TypeError -> is_tag_child x = true.
Proof.
  (* written so that it goes through whatever child_tuple_has_int is *)
  intros x H Hx. destruct x; try reflexivity;
    try (destruct H as [H|H]; [discriminate H | exact H]).
  exfalso. apply Hx. reflexivity.
Qed.

(* whatever is accepted in the iterable position is a TagChild as well *)
Theorem is_child_iterable : forall x, (exists its, as_iterable x = Ok its) -> is_tag_child x = true.
Proof.
  intros x [its H]. destruct x; try reflexivity; simpl in H; discriminate.
Qed.

Theorem is_node_spec : forall args ns,
  flat_spec args = Ok ns -> forallb is_tag_node (embed ns) = true.
Proof. intros. apply embed_is_tag_node. Qed.

Theorem stored_spec : forall args ns,
  flat_spec args = Ok ns -> forallb is_stored_node (embed ns) = true.
Proof. intros. apply embed_stored. Qed.

(* C04: concatenation with + / += / reflected + preserves the escaped-once / verbatim
   reading of every operand, for every grouping and order of the operands. *)
From HT Require Import Model.Str Model.Tree Model.Escape Model.Concat Proofs.EscapeProofs.

Local Arguments html_escape : simpl never.

Definition is_obj_val (v : cval) : bool := match v with CObj _ => true | _ => false end.
Definition str_or_html (o : operand) : Prop := match o with OObj _ => False | _ => True end.

Lemma child_str_val_of o : child_str (val_of o) = operand_str o.
Proof. destruct o; reflexivity. Qed.

Lemma is_html_val_of o : is_html_val (val_of o) = is_html_operand o.
Proof. destruct o; reflexivity. Qed.

(* one + : the rendering of the sum is the two renderings side by side *)
Lemma add_child x y v : add x y = Some v -> child_str v = child_str x ++ child_str y.
Proof.
  destruct x as [a|a|a], y as [b|b|b]; cbn [add str_of]; intros H;
    try discriminate H; injection H as <-; cbn [child_str];
    rewrite ?escape_app; reflexivity.
Qed.

Lemma add_is_html x y v : add x y = Some v -> is_html_val v = is_html_val x || is_html_val y.
Proof.
  destruct x as [a|a|a], y as [b|b|b]; cbn [add]; intros H;
    try discriminate H; injection H as <-; reflexivity.
Qed.

Lemma add_not_obj x y v : add x y = Some v -> is_obj_val v = false.
Proof.
  destruct x as [a|a|a], y as [b|b|b]; cbn [add]; intros H;
    try discriminate H; injection H as <-; reflexivity.
Qed.

Lemma add_total x y : is_obj_val x = false -> is_obj_val y = false -> exists v, add x y = Some v.
Proof.
  destruct x as [a|a|a], y as [b|b|b]; cbn [add is_obj_val]; intros Hx Hy;
    try discriminate; eexists; reflexivity.
Qed.

Lemma eval_add_inv a b v :
  eval (Add a b) = Some v -> exists x y, eval a = Some x /\ eval b = Some y /\ add x y = Some v.
Proof.
  cbn [eval]. destruct (eval a) as [x|]; [|discriminate].
  destruct (eval b) as [y|]; [|discriminate].
  intros H. exists x, y. repeat split. exact H.
Qed.

Theorem concat_child e : forall v,
  eval e = Some v -> child_str v = flat_map operand_str (leaves e).
Proof.
  induction e as [o|a IHa b IHb]; intros v H.
  - cbn [eval] in H. injection H as <-. cbn [leaves flat_map]. rewrite app_nil_r.
    apply child_str_val_of.
  - apply eval_add_inv in H as (x & y & Ea & Eb & Hadd).
    cbn [leaves]. rewrite flat_map_app, <- (IHa _ Ea), <- (IHb _ Eb).
    exact (add_child _ _ _ Hadd).
Qed.

Theorem concat_is_html e : forall v,
  eval e = Some v -> is_html_val v = existsb is_html_operand (leaves e).
Proof.
  induction e as [o|a IHa b IHb]; intros v H.
  - cbn [eval] in H. injection H as <-. cbn [leaves existsb]. rewrite orb_false_r.
    apply is_html_val_of.
  - apply eval_add_inv in H as (x & y & Ea & Eb & Hadd).
    cbn [leaves]. rewrite existsb_app, <- (IHa _ Ea), <- (IHb _ Eb).
    exact (add_is_html _ _ _ Hadd).
Qed.

Lemma concat_total_strong e :
  Forall str_or_html (leaves e) -> exists v, eval e = Some v /\ is_obj_val v = false.
Proof.
  induction e as [o|a IHa b IHb]; intros H.
  - cbn [leaves] in H. apply Forall_inv in H.
    exists (val_of o). split; [reflexivity|]. destruct o; [reflexivity|reflexivity|destruct H].
  - cbn [leaves] in H. apply Forall_app in H as [Ha Hb].
    destruct (IHa Ha) as (x & Ea & Hx). destruct (IHb Hb) as (y & Eb & Hy).
    destruct (add_total x y Hx Hy) as [v Hv].
    exists v. split.
    + cbn [eval]. rewrite Ea, Eb. exact Hv.
    + exact (add_not_obj _ _ _ Hv).
Qed.

Theorem concat_total_on_str_html e :
  Forall str_or_html (leaves e) -> exists v, eval e = Some v.
Proof. intros H. destruct (concat_total_strong e H) as (v & E & _). exists v. exact E. Qed.

Theorem concat_never_obj e v :
  eval e = Some v -> (exists a b, e = Add a b) ->
  match v with CObj _ => False | _ => True end.
Proof.
  intros H (a & b & ->). apply eval_add_inv in H as (x & y & _ & _ & Hadd).
  apply add_not_obj in Hadd. destruct v; [exact I|exact I|discriminate Hadd].
Qed.

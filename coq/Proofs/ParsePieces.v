(* C01, layers A and C (second half): by induction on an ordinary tree, its piece list is
   tokenizable, and the tree builder run on the (unmerged) token stream of the pieces
   yields one element whose children are, up to the canonical form, the element forest of
   the tree's children. *)
From Coq Require Import Lia.
From HT Require Import Model.Str Model.Tree Model.Escape Model.Render Gen.Tables
     Spec.CharMap Spec.Tokenizer Spec.TreeElems
     Proofs.RenderLoop Proofs.TokenizeLemmas Proofs.BuildTree.

Local Arguments mem_str : simpl never.
Local Arguments html_escape : simpl never.

Lemma c01_str_eqb_refl a : str_eqb a a = true.
Proof. induction a as [|x a IH]; [reflexivity|]. cbn [str_eqb]. rewrite N.eqb_refl. exact IH. Qed.

Lemma c01_str_eqb_eq a : forall b, str_eqb a b = true -> a = b.
Proof.
  induction a as [|x a IH]; intros [|y b] H; try discriminate H; [reflexivity|].
  cbn [str_eqb] in H. apply andb_true_iff in H as [H1 H2].
  apply N.eqb_eq in H1. subst y. f_equal. apply IH, H2.
Qed.

(* a name the renderer treats as raw-text is excluded by `ordinary` *)
Lemma noesc_false name :
  mem_str (lower name) raw_text_names = false -> mem_str name no_escape_names = false.
Proof.
  intros H. destruct (mem_str name no_escape_names) eqn:E; [|reflexivity].
  unfold mem_str, no_escape_names in E. cbn [existsb] in E.
  apply orb_true_iff in E as [E|E].
  - apply c01_str_eqb_eq in E. subst name. vm_compute in H. discriminate H.
  - apply orb_true_iff in E as [E|E]; [|discriminate E].
    apply c01_str_eqb_eq in E. subst name. vm_compute in H. discriminate H.
Qed.

Lemma toks_cons p ps : toks_of_pieces (p :: ps) = tok_of_piece p :: toks_of_pieces ps.
Proof. reflexivity. Qed.

Lemma tokenizable_app a b : tokenizable (a ++ b) = tokenizable a && tokenizable b.
Proof. unfold tokenizable. apply forallb_app. Qed.

Lemma flush_run_ws_l w t : ws_only w = true -> flush_run (w ++ t) = flush_run t.
Proof. intros H. unfold flush_run. rewrite trim_ws_l by exact H. reflexivity. Qed.

(* ------------------------------------------------------------------ *)
(* rendered forest R versus tree forest F, read by the canonical-form    *)
(* state machine: same output, pending text equal up to leading layout   *)
(* whitespace.  prev = the renderer's prev_was_add_ws flag on entry:     *)
(* layout whitespace is only put in front of text when it is set, and    *)
(* then the tree side has no pending text.                               *)
(* ------------------------------------------------------------------ *)
Definition rel (prev : bool) (R F : list elem) : Prop :=
  forall w t, ws_only w = true -> (prev = true -> t = []) ->
    cl_out (w ++ t) R = cl_out t F
    /\ exists w', ws_only w' = true /\ cl_pend (w ++ t) R = w' ++ cl_pend t F.

Lemma rel_nil prev : rel prev [] [].
Proof.
  intros w t Hw _. split; [reflexivity|]. exists w. split; [exact Hw|reflexivity].
Qed.

Lemma rel_app p1 p2 R1 F1 R2 F2 :
  rel p1 R1 F1 ->
  (forall t, (p1 = true -> t = []) -> p2 = true -> cl_pend t F1 = []) ->
  rel p2 R2 F2 ->
  rel p1 (R1 ++ R2) (F1 ++ F2).
Proof.
  intros H1 Hmid H2 w t Hw Ht.
  destruct (H1 w t Hw Ht) as [O1 (w1 & Hw1 & P1)].
  rewrite !cl_out_app, !cl_pend_app, O1, P1.
  destruct (H2 w1 (cl_pend t F1) Hw1 (Hmid t Ht)) as [O2 (w2 & Hw2 & P2)].
  rewrite O2. split; [reflexivity|]. exists w2. split; [exact Hw2|exact P2].
Qed.

Section Tree.
  Context {M : Type}.
  Implicit Types (k c : node M) (l : list (node M)).

  Lemma elems_filter_meta l :
    flat_map elems_of (filter (fun c => negb (is_meta c)) l) = flat_map elems_of l.
  Proof.
    induction l as [|k l IH]; [reflexivity|]. cbn [filter flat_map].
    destruct k; cbn [is_meta negb flat_map elems_of app]; rewrite ?IH; reflexivity.
  Qed.

  Lemma ordinary_filter (f : node M -> bool) l :
    forallb ordinary l = true -> forallb ordinary (filter f l) = true.
  Proof.
    induction l as [|k l IH]; [reflexivity|]. cbn [forallb filter]. intros H.
    apply andb_true_iff in H as [Hk Hl]. destruct (f k); cbn [forallb]; rewrite ?Hk; auto.
  Qed.

  Definition tag_good (c : node M) : Prop :=
    forall i eol ps, ordinary c = true -> ws_only eol = true -> render_tag i eol c = Ok ps ->
      tokenizable ps = true /\
      exists n a K F, elems_of c = [EElem n a F] /\ canon K = canon F /\
        forall rest cur stack,
          build_stack (toks_of_pieces (ps ++ rest)) cur stack
          = build_stack (toks_of_pieces rest) (EElem n a K :: EText (indent_str i) :: cur) stack.

  Lemma step_good i eol first prev k pk f' p' :
    tag_good k -> ordinary k = true -> ws_only eol = true ->
    step render_tag i eol true first prev k = Ok (pk, f', p') ->
    tokenizable pk = true /\
    exists R,
      (forall rest cur stack,
          build_stack (toks_of_pieces (pk ++ rest)) cur stack
          = build_stack (toks_of_pieces rest) (rev R ++ cur) stack)
      /\ rel prev R (elems_of k)
      /\ (forall t, (prev = true -> t = []) -> p' = true -> cl_pend t (elems_of k) = []).
  Proof.
    intros Hk Hord Heol H.
    pose proof (ws_only_indent i) as Hind.
    destruct k as [s|s|s|m|name ws a kids|sh exp]; cbn [step] in H; try discriminate Hord.
    - (* Text *)
      injection H as <- <- <-. cbn [elems_of].
      destruct prev.
      + assert (Hrel : forall W, ws_only W = true ->
                  forall w t, ws_only w = true -> (true = true -> t = []) ->
                  exists w', ws_only w' = true /\ w ++ t ++ W ++ s = w' ++ t ++ s).
        { intros W HW w t Hw Ht. rewrite (Ht eq_refl). exists (w ++ W).
          rewrite ws_only_app, Hw, HW, <- app_assoc. split; reflexivity. }
        destruct first.
        * split; [cbn; rewrite Hind; reflexivity|].
          exists [EText (indent_str i); EText s]. split; [reflexivity|]. split; [|discriminate].
          intros w t Hw Ht. split; [reflexivity|]. cbn [cl_pend].
          rewrite <- !app_assoc. apply Hrel; assumption.
        * split; [cbn; rewrite Hind, Heol; reflexivity|].
          exists [EText eol; EText (indent_str i); EText s].
          split; [reflexivity|]. split; [|discriminate].
          intros w t Hw Ht. split; [reflexivity|]. cbn [cl_pend].
          rewrite <- !app_assoc. rewrite (app_assoc eol).
          apply Hrel; [|assumption|assumption]. rewrite ws_only_app, Heol, Hind. reflexivity.
      + split; [destruct first; reflexivity|].
        exists [EText s]. split; [destruct first; reflexivity|]. split; [|discriminate].
        intros w t Hw Ht. split; [reflexivity|]. cbn [cl_pend].
        exists w. split; [exact Hw|]. rewrite app_assoc. reflexivity.
    - (* Meta *)
      injection H as <- <- <-. split; [reflexivity|]. exists []. split; [reflexivity|].
      split; [apply rel_nil|]. intros t Ht Hp. cbn [elems_of cl_pend]. exact (Ht Hp).
    - (* Tag *)
      set (c := TagN name ws a kids) in *.
      assert (Hcase : exists j e ps, ws_only e = true /\ render_tag j e c = Ok ps
                 /\ ws_only (indent_str j) = true
                 /\ pk = (if first then [] else if prev || ws then [PWs eol] else []) ++ ps
                 /\ p' = ws).
      { destruct (prev || ws).
        - destruct (render_tag i eol c) as [ps|] eqn:E; [|discriminate H].
          injection H as <- <- <-. exists i, eol, ps. repeat split; auto.
        - destruct (render_tag 0%nat [] c) as [ps|] eqn:E; [|discriminate H].
          injection H as <- <- <-. exists 0%nat, [], ps. repeat split; auto. }
      clear H. destruct Hcase as (j & e & ps & He & Hr & Hj & -> & ->).
      destruct (Hk j e ps Hord He Hr) as [Htok (n & a' & K & F & Hel & HK & Hb)].
      rewrite Hel.
      assert (Hout : forall W, ws_only W = true -> forall w t, ws_only w = true ->
                 flush_run ((w ++ t) ++ W) ++ [EElem n a' (canon K)]
                 = flush_run t ++ [EElem n a' (canon F)]).
      { intros W HW w t Hw. rewrite HK, <- app_assoc, flush_run_ws by assumption. reflexivity. }
      assert (Hafter : forall t : str, (prev = true -> t = []) -> ws = true ->
                                  cl_pend t [EElem n a' F] = []).
      { intros t _ _. reflexivity. }
      destruct (if first then [] else if prev || ws then [PWs eol] else []) as [|sp sep] eqn:Esep.
      + split; [exact Htok|].
        exists [EText (indent_str j); EElem n a' K]. split; [exact Hb|]. split; [|exact Hafter].
        intros w t Hw Ht. cbn [cl_out cl_pend]. split.
        * apply Hout; assumption.
        * exists []. split; reflexivity.
      + assert (sp = PWs eol /\ sep = []) as [-> ->].
        { destruct first; [discriminate Esep|]. destruct (prev || ws); [|discriminate Esep].
          injection Esep as <- <-. split; reflexivity. }
        split; [rewrite tokenizable_app, Htok; cbn; rewrite Heol; reflexivity|].
        exists [EText eol; EText (indent_str j); EElem n a' K]. split; [|split; [|exact Hafter]].
        * intros rest cur stack. cbn [app]. rewrite toks_cons. cbn [tok_of_piece build_stack].
          rewrite Hb. reflexivity.
        * intros w t Hw Ht. cbn [cl_out cl_pend]. split.
          -- rewrite <- (app_assoc (w ++ t)). apply Hout; [|assumption].
             rewrite ws_only_app, Heol, Hj. reflexivity.
          -- exists []. split; reflexivity.
  Qed.

  Lemma loop_good l :
    Forall tag_good l ->
    forall i eol first prev body,
      forallb ordinary l = true -> ws_only eol = true ->
      loop render_tag i eol true first prev l = Ok body ->
      tokenizable body = true /\
      exists R,
        (forall rest cur stack,
            build_stack (toks_of_pieces (body ++ rest)) cur stack
            = build_stack (toks_of_pieces rest) (rev R ++ cur) stack)
        /\ rel prev R (flat_map elems_of l).
  Proof.
    induction 1 as [|k l Hk Hl IH]; intros i eol first prev body Hord Heol H.
    - cbn [loop] in H. injection H as <-. split; [reflexivity|].
      exists []. split; [reflexivity|apply rel_nil].
    - cbn [forallb] in Hord. apply andb_true_iff in Hord as [Hok Hol].
      apply loop_cons_inv in H as (pk & f' & p' & r & Es & El & ->).
      destruct (step_good _ _ _ _ _ _ _ _ Hk Hok Heol Es) as [T1 (R1 & B1 & Rel1 & Mid)].
      destruct (IH _ _ _ _ _ Hol Heol El) as [T2 (R2 & B2 & Rel2)].
      split; [rewrite tokenizable_app, T1, T2; reflexivity|].
      exists (R1 ++ R2). split.
      + intros rest cur stack. rewrite <- app_assoc, B1, B2, rev_app_distr, <- app_assoc.
        reflexivity.
      + cbn [flat_map]. eapply rel_app; eassumption.
  Qed.

  Theorem all_tag_good n : tag_good n.
  Proof.
    induction n as [s|s|s|m|name ws a kids IH|sh exp _] using node_ind';
      intros i eol ps Hord Heol H; try discriminate H.
    cbn [ordinary] in Hord.
    apply andb_true_iff in Hord as [Hord Hkids].
    apply andb_true_iff in Hord as [Hord Hattrs].
    apply andb_true_iff in Hord as [Hname Hraw].
    apply negb_true_iff in Hraw.
    pose proof (ws_only_indent i) as Hind.
    cbn [render_tag] in H. rewrite (noesc_false _ Hraw) in H.
    cbn [elems_of]. fold (low_attrs a).
    pose proof (ordinary_filter (fun c => negb (is_meta c)) kids Hkids) as Hfk.
    pose proof (elems_filter_meta kids) as Hfe.
    destruct (filter (fun c => negb (is_meta c)) kids) as [|x r] eqn:Ef.
    - (* no children *)
      cbn [flat_map] in Hfe.
      destruct (mem_str name void_names); injection H as <-.
      + split; [cbn; rewrite Hind, Hname, Hattrs; reflexivity|].
        exists (lower name), (low_attrs a), [], (flat_map elems_of kids).
        split; [reflexivity|]. split; [rewrite <- Hfe; reflexivity|]. reflexivity.
      + split; [cbn; rewrite Hind, Hname, Hattrs; reflexivity|].
        exists (lower name), (low_attrs a), [], (flat_map elems_of kids).
        split; [reflexivity|]. split; [rewrite <- Hfe; reflexivity|].
        intros rest cur stack. cbn [app]. rewrite !toks_cons. cbn [tok_of_piece build_stack].
        rewrite c01_str_eqb_refl. reflexivity.
    - destruct (single_text false (x :: r)) as [p|] eqn:Es.
      + (* a single text child *)
        injection H as <-.
        destruct x as [s|s|s|m|n2 w2 a2 k2|sh2 e2]; destruct r; try discriminate Es.
        * cbn [single_text] in Es. injection Es as <-.
          split; [cbn; rewrite Hind, Hname, Hattrs; reflexivity|].
          exists (lower name), (low_attrs a), [EText s], (flat_map elems_of kids).
          split; [reflexivity|]. split; [rewrite <- Hfe; reflexivity|].
          intros rest cur stack. cbn [app]. rewrite !toks_cons. cbn [tok_of_piece build_stack].
          rewrite c01_str_eqb_refl. reflexivity.
        * cbn [forallb ordinary] in Hfk. discriminate Hfk.
      + (* the general loop *)
        destruct (loop render_tag (S i) eol (negb false) true ws kids) as [body|] eqn:El;
          [|discriminate H].
        injection H as <-. cbn [negb] in El.
        destruct (loop_good kids IH _ _ _ _ _ Hkids Heol El) as [Tb (R & Bb & Rel)].
        set (F := flat_map elems_of kids) in *.
        destruct ws.
        * (* block layout *)
          split.
          { cbn [app]. unfold tokenizable in *. cbn [forallb piece_ok].
            rewrite !forallb_app, Tb. cbn [forallb piece_ok].
            rewrite Hind, Hname, Hattrs, Heol. reflexivity. }
          exists (lower name), (low_attrs a),
            (EText eol :: R ++ [EText eol; EText (indent_str i)]), F.
          split; [reflexivity|]. split.
          { destruct (Rel eol [] Heol (fun _ => eq_refl)) as [O (w' & Hw' & P)].
            rewrite app_nil_r in O, P.
            rewrite canon_cl, cl_text. cbn [app]. rewrite cl_split, O, P.
            rewrite !cl_text, cl_nil, canon_split. f_equal.
            rewrite <- !app_assoc. apply flush_run_ws; [exact Hw'|].
            rewrite ws_only_app, Heol, Hind. reflexivity. }
          intros rest cur stack. cbn [app]. rewrite !toks_cons. cbn [tok_of_piece build_stack].
          rewrite <- app_assoc, Bb. cbn [app]. rewrite !toks_cons. cbn [tok_of_piece build_stack].
          rewrite c01_str_eqb_refl.
          replace (rev (EText (indent_str i) :: EText eol :: rev R ++ [EText eol]))
            with (EText eol :: R ++ [EText eol; EText (indent_str i)]); [reflexivity|].
          cbn [rev]. rewrite rev_app_distr, rev_involutive. cbn [rev app].
          rewrite <- !app_assoc. reflexivity.
        * (* inline layout *)
          split.
          { cbn [app]. unfold tokenizable in *. cbn [forallb piece_ok].
            rewrite !forallb_app, Tb. cbn [forallb piece_ok].
            rewrite Hind, Hname, Hattrs. reflexivity. }
          exists (lower name), (low_attrs a), R, F.
          split; [reflexivity|]. split.
          { destruct (Rel [] [] eq_refl (fun _ => eq_refl)) as [O (w' & Hw' & P)].
            cbn [app] in O, P.
            rewrite !canon_split, O, P. f_equal. apply flush_run_ws_l, Hw'. }
          intros rest cur stack. cbn [app]. rewrite !toks_cons. cbn [tok_of_piece build_stack].
          rewrite <- app_assoc, Bb. cbn [app]. rewrite !toks_cons. cbn [tok_of_piece build_stack].
          rewrite c01_str_eqb_refl, app_nil_r, rev_involutive. reflexivity.
  Qed.
End Tree.

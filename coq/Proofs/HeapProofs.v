(* C08: proofs about the heap layer (Model/Heap.v, Model/HeapOps.v). *)
From Coq Require Import PeanoNat Lia.
From HT Require Import Model.Str Model.Tree Model.Tagify Model.Render Model.Heap Model.HeapOps
  Proofs.TagifyProofs.

(* ==================================================================================== *)
(* 1. lookup / alloc / store                                                            *)
(* ==================================================================================== *)

Lemma lookup_lt h l o : lookup h l = Some o -> (l < length h)%nat.
Proof. unfold lookup. intros H. apply nth_error_Some. congruence. Qed.

Lemma lookup_app_l h e l : (l < length h)%nat -> lookup (h ++ e) l = lookup h l.
Proof. unfold lookup. intros H. apply nth_error_app1. exact H. Qed.

Lemma lookup_app_some h e l o : lookup h l = Some o -> lookup (h ++ e) l = Some o.
Proof. intros H. rewrite lookup_app_l; [exact H|]. eapply lookup_lt; eauto. Qed.

Lemma lookup_new h o : lookup (h ++ [o]) (length h) = Some o.
Proof.
  unfold lookup. rewrite nth_error_app2 by lia. rewrite Nat.sub_diag. reflexivity.
Qed.

Lemma length_store h l o : length (store h l o) = length h.
Proof.
  unfold store. destruct (Nat.ltb l (length h)) eqn:E; [|reflexivity].
  apply Nat.ltb_lt in E. rewrite app_length. cbn [length]. rewrite firstn_length, skipn_length. lia.
Qed.

Lemma lookup_store_same h l o : (l < length h)%nat -> lookup (store h l o) l = Some o.
Proof.
  intros H. unfold store, lookup. destruct (Nat.ltb l (length h)) eqn:E.
  - rewrite nth_error_app2; rewrite firstn_length; [|lia].
    replace (l - Nat.min l (length h))%nat with O by lia. reflexivity.
  - apply Nat.ltb_ge in E. lia.
Qed.

Lemma nth_error_firstn_lt' {T} (h : list T) : forall l x,
  (x < l)%nat -> nth_error (firstn l h) x = nth_error h x.
Proof.
  induction h as [|a h IH]; intros l x H.
  - rewrite firstn_nil. reflexivity.
  - destruct l as [|l]; [lia|]. destruct x as [|x]; [reflexivity|]. cbn. apply IH. lia.
Qed.

Lemma nth_error_skipn' {T} (h : list T) : forall n k,
  nth_error (skipn n h) k = nth_error h (n + k).
Proof.
  induction h as [|a h IH]; intros n k.
  - rewrite skipn_nil. destruct k, n; reflexivity.
  - destruct n as [|n]; [reflexivity|]. cbn. apply IH.
Qed.

Lemma lookup_store_other h l o x : x <> l -> lookup (store h l o) x = lookup h x.
Proof.
  intros H. unfold store, lookup. destruct (Nat.ltb l (length h)) eqn:E; [|reflexivity].
  apply Nat.ltb_lt in E.
  destruct (Nat.lt_ge_cases x l) as [Hlt|Hge].
  - rewrite nth_error_app1 by (rewrite firstn_length; lia).
    apply nth_error_firstn_lt'. exact Hlt.
  - rewrite nth_error_app2 by (rewrite firstn_length; lia).
    rewrite firstn_length. replace (Nat.min l (length h)) with l by lia.
    destruct (x - l)%nat as [|k] eqn:Ek; [lia|]. cbn [nth_error].
    rewrite nth_error_skipn'. f_equal. lia.
Qed.

(* ---- heap extension ---------------------------------------------------------------- *)
Definition ext (h h' : heap) : Prop := exists e, h' = h ++ e.

Lemma ext_refl h : ext h h.
Proof. exists []. symmetry. apply app_nil_r. Qed.

Lemma ext_trans h1 h2 h3 : ext h1 h2 -> ext h2 h3 -> ext h1 h3.
Proof. intros [e1 ->] [e2 ->]. exists (e1 ++ e2). symmetry. apply app_assoc. Qed.

Lemma ext_app h e : ext h (h ++ e).
Proof. exists e. reflexivity. Qed.

Lemma ext_length h h' : ext h h' -> (length h <= length h')%nat.
Proof. intros [e ->]. rewrite app_length. lia. Qed.

Lemma ext_lookup h h' l : ext h h' -> (l < length h)%nat -> lookup h' l = lookup h l.
Proof. intros [e ->] H. apply lookup_app_l. exact H. Qed.

Lemma ext_lookup_some h h' l o : ext h h' -> lookup h l = Some o -> lookup h' l = Some o.
Proof. intros [e ->] H. apply lookup_app_some. exact H. Qed.

(* a store at a location that did not exist in h0 keeps h0 as a prefix *)
Lemma ext_store h0 h l o : ext h0 h -> (length h0 <= l)%nat -> ext h0 (store h l o).
Proof.
  intros [e ->] Hl. unfold store. destruct (Nat.ltb l (length (h0 ++ e))) eqn:E.
  - rewrite firstn_app. rewrite firstn_all2 by lia. rewrite <- app_assoc.
    eexists. reflexivity.
  - exists e. reflexivity.
Qed.

Lemma ext_alloc h o : ext h (fst (alloc h o)).
Proof. apply ext_app. Qed.

(* ==================================================================================== *)
(* 2. abs: monotone in fuel, stable under extension, determined by the reachable part   *)
(* ==================================================================================== *)

Lemma omap_ext_in {T U} (f g : T -> option U) l :
  (forall x, In x l -> f x = g x) -> omap f l = omap g l.
Proof.
  induction l as [|x l IH]; intros H; [reflexivity|]. cbn [omap].
  rewrite (H x (or_introl eq_refl)). rewrite IH; [reflexivity|].
  intros y Hy. apply H. right. exact Hy.
Qed.

Lemma omap_impl {T U} (f g : T -> option U) l r :
  (forall x y, In x l -> f x = Some y -> g x = Some y) -> omap f l = Some r -> omap g l = Some r.
Proof.
  revert r. induction l as [|x l IH]; intros r H Hr; [exact Hr|]. cbn [omap] in *.
  destruct (f x) as [y|] eqn:Ey; [|discriminate].
  rewrite (H x y (or_introl eq_refl) Ey).
  destruct (omap f l) as [ys|] eqn:Eys; [|discriminate].
  rewrite (IH ys); [exact Hr| |reflexivity].
  intros z w Hz. apply H. right. exact Hz.
Qed.

Lemma omap_app {T U} (f : T -> option U) l1 l2 :
  omap f (l1 ++ l2) =
  match omap f l1, omap f l2 with Some a, Some b => Some (a ++ b) | _, _ => None end.
Proof.
  induction l1 as [|x l1 IH]; cbn [omap app].
  - destruct (omap f l2); reflexivity.
  - destruct (f x); [|reflexivity]. rewrite IH.
    destruct (omap f l1); [|reflexivity]. destruct (omap f l2); reflexivity.
Qed.

Lemma omap_length {T U} (f : T -> option U) l r : omap f l = Some r -> length r = length l.
Proof.
  revert r. induction l as [|x l IH]; intros r H; cbn [omap] in H.
  - inversion H. reflexivity.
  - destruct (f x); [|discriminate]. destruct (omap f l) eqn:E; [|discriminate].
    inversion H. cbn. f_equal. apply IH. reflexivity.
Qed.

Lemma abs_val_S f h v :
  abs_val (S f) h v =
  match v with
  | VText s => Some (Text s)
  | VHtml s => Some (Html s)
  | VRepr s => Some (Repr s)
  | VRef l =>
    match lookup h l with
    | Some (OTag name ws al kl) =>
      match lookup h al, lookup h kl with
      | Some (OAttrs a), Some (OList items) =>
        match omap (abs_val f h) items with
        | Some kids => Some (TagN name ws a kids)
        | None => None
        end
      | _, _ => None
      end
    | Some (OMeta p) => Some (Meta p)
    | Some (OCustom sh exp) =>
      match omap (abs_val f h) exp with
      | Some e => Some (Custom sh (flat_map subst e))
      | None => None
      end
    | _ => None
    end
  end.
Proof. reflexivity. Qed.

Lemma abs_mono_S f : forall h v t, abs_val f h v = Some t -> abs_val (S f) h v = Some t.
Proof.
  induction f as [|f IH]; intros h v t H; [discriminate|].
  rewrite abs_val_S in H. rewrite abs_val_S.
  destruct v as [s|s|s|l]; try exact H.
  destruct (lookup h l) as [[name ws al kl|a|items|p|sh exp]|]; try exact H.
  - destruct (lookup h al) as [[| a | | |]|]; try exact H.
    destruct (lookup h kl) as [[| | items | |]|]; try exact H.
    destruct (omap (abs_val f h) items) as [kids|] eqn:E; [|discriminate].
    rewrite (omap_impl _ (abs_val (S f) h) _ _ (fun x y _ => IH h x y) E). exact H.
  - destruct (omap (abs_val f h) exp) as [e|] eqn:E; [|discriminate].
    rewrite (omap_impl _ (abs_val (S f) h) _ _ (fun x y _ => IH h x y) E). exact H.
Qed.

Lemma abs_mono f1 f2 h v t : (f1 <= f2)%nat -> abs_val f1 h v = Some t -> abs_val f2 h v = Some t.
Proof.
  induction 1 as [|f2 _ IH]; intros H; [exact H|]. apply abs_mono_S, IH, H.
Qed.

Lemma abs_list_mono f1 f2 h l ts :
  (f1 <= f2)%nat -> abs_list f1 h l = Some ts -> abs_list f2 h l = Some ts.
Proof.
  intros Hf. unfold abs_list. apply omap_impl. intros x y _. apply abs_mono. exact Hf.
Qed.

(* the tree does not depend on the fuel *)
Lemma abs_det f1 f2 h v t1 t2 :
  abs_val f1 h v = Some t1 -> abs_val f2 h v = Some t2 -> t1 = t2.
Proof.
  intros H1 H2.
  pose proof (abs_mono f1 (Nat.max f1 f2) h v t1 (Nat.le_max_l _ _) H1) as A.
  pose proof (abs_mono f2 (Nat.max f1 f2) h v t2 (Nat.le_max_r _ _) H2) as B.
  congruence.
Qed.

Lemma abs_list_det f1 f2 h l t1 t2 :
  abs_list f1 h l = Some t1 -> abs_list f2 h l = Some t2 -> t1 = t2.
Proof.
  intros H1 H2.
  pose proof (abs_list_mono f1 (Nat.max f1 f2) h l t1 (Nat.le_max_l _ _) H1) as A.
  pose proof (abs_list_mono f2 (Nat.max f1 f2) h l t2 (Nat.le_max_r _ _) H2) as B.
  congruence.
Qed.

(* a defined abstraction survives heap extension *)
Lemma abs_ext f : forall h h' v t, ext h h' -> abs_val f h v = Some t -> abs_val f h' v = Some t.
Proof.
  induction f as [|f IH]; intros h h' v t He H; [discriminate|].
  rewrite abs_val_S in H. rewrite abs_val_S.
  destruct v as [s|s|s|l]; try exact H.
  destruct (lookup h l) as [o|] eqn:El; [|discriminate].
  rewrite (ext_lookup_some _ _ _ _ He El).
  destruct o as [name ws al kl|a|items|p|sh exp]; try exact H.
  - destruct (lookup h al) as [oa|] eqn:Ea; [|discriminate].
    rewrite (ext_lookup_some _ _ _ _ He Ea).
    destruct oa as [| a | | |]; try discriminate.
    destruct (lookup h kl) as [ok|] eqn:Ek; [|discriminate].
    rewrite (ext_lookup_some _ _ _ _ He Ek).
    destruct ok as [| | items | |]; try discriminate.
    destruct (omap (abs_val f h) items) as [kids|] eqn:E; [|discriminate].
    rewrite (omap_impl _ (abs_val f h') _ _ (fun x y _ => IH h h' x y He) E). exact H.
  - destruct (omap (abs_val f h) exp) as [e|] eqn:E; [|discriminate].
    rewrite (omap_impl _ (abs_val f h') _ _ (fun x y _ => IH h h' x y He) E). exact H.
Qed.

Lemma abs_list_ext f h h' l ts : ext h h' -> abs_list f h l = Some ts -> abs_list f h' l = Some ts.
Proof.
  intros He. unfold abs_list. apply omap_impl. intros x y _. apply abs_ext. exact He.
Qed.

(* abs looks only at the reachable part of the heap *)
Lemma abs_agree f : forall h1 h2 v,
  (forall x, reach h1 v x -> lookup h2 x = lookup h1 x) -> abs_val f h2 v = abs_val f h1 v.
Proof.
  induction f as [|f IH]; intros h1 h2 v H; [reflexivity|].
  rewrite !abs_val_S. destruct v as [s|s|s|l]; try reflexivity.
  rewrite (H l (reach_self _ l)).
  destruct (lookup h1 l) as [[name ws al kl|a|items|p|sh exp]|] eqn:El; try reflexivity.
  - rewrite (H al (reach_attrs _ _ _ _ _ _ El)), (H kl (reach_kids _ _ _ _ _ _ El)).
    destruct (lookup h1 al) as [[| a | | |]|]; try reflexivity.
    destruct (lookup h1 kl) as [[| | items | |]|] eqn:Ek; try reflexivity.
    rewrite (omap_ext_in (abs_val f h2) (abs_val f h1) items); [reflexivity|].
    intros c Hc. apply IH. intros x Hx. apply H. eapply reach_child; eauto.
  - rewrite (omap_ext_in (abs_val f h2) (abs_val f h1) exp); [reflexivity|].
    intros c Hc. apply IH. intros x Hx. apply H. eapply reach_exp; eauto.
Qed.

Lemma reach_agree h1 h2 v :
  (forall x, reach h1 v x -> lookup h2 x = lookup h1 x) ->
  forall x, reach h2 v x -> reach h1 v x.
Proof.
  intros H x R. revert H.
  induction R as [l|l name ws al kl El|l name ws al kl El
                  |l name ws al kl items c x El Ek Hc R IH
                  |l items c x El Hc R IH|l sh exp c x El Hc R IH]; intros H.
  - apply reach_self.
  - rewrite (H l (reach_self _ l)) in El. eapply reach_attrs; eauto.
  - rewrite (H l (reach_self _ l)) in El. eapply reach_kids; eauto.
  - rewrite (H l (reach_self _ l)) in El.
    rewrite (H kl (reach_kids _ _ _ _ _ _ El)) in Ek.
    eapply reach_child; eauto. apply IH. intros y Hy. apply H. eapply reach_child; eauto.
  - rewrite (H l (reach_self _ l)) in El.
    eapply reach_item; eauto. apply IH. intros y Hy. apply H. eapply reach_item; eauto.
  - rewrite (H l (reach_self _ l)) in El.
    eapply reach_exp; eauto. apply IH. intros y Hy. apply H. eapply reach_exp; eauto.
Qed.

(* ---- confinement: everything reachable from v lies in [lo, length h) ---------------- *)
Definition confined (lo : nat) (h : heap) (v : val) : Prop :=
  forall x, reach h v x -> (lo <= x < length h)%nat.

(* h2 has at least the objects of h1 and the same ones at and above lo *)
Definition same_above (lo : nat) (h1 h2 : heap) : Prop :=
  (length h1 <= length h2)%nat /\
  forall x, (lo <= x < length h1)%nat -> lookup h2 x = lookup h1 x.

Lemma same_above_ext lo h h' : ext h h' -> same_above lo h h'.
Proof.
  intros He. split; [apply ext_length, He|]. intros x Hx. apply ext_lookup; [exact He|lia].
Qed.

Lemma same_above_store lo h c o : (c < lo)%nat -> same_above lo h (store h c o).
Proof.
  intros Hc. split; [rewrite length_store; lia|]. intros x Hx. apply lookup_store_other. lia.
Qed.

Lemma same_above_trans lo h1 h2 h3 :
  same_above lo h1 h2 -> same_above lo h2 h3 -> same_above lo h1 h3.
Proof.
  intros [L1 A1] [L2 A2]. split; [lia|]. intros x Hx. rewrite A2 by lia. apply A1. exact Hx.
Qed.

Lemma same_above_weaken lo lo' h1 h2 : (lo <= lo')%nat -> same_above lo h1 h2 -> same_above lo' h1 h2.
Proof. intros Hl [L A]. split; [exact L|]. intros x Hx. apply A. lia. Qed.

Lemma confined_transfer lo h1 h2 v :
  confined lo h1 v -> same_above lo h1 h2 ->
  confined lo h2 v /\ forall f, abs_val f h2 v = abs_val f h1 v.
Proof.
  intros C [L A].
  assert (Hag : forall x, reach h1 v x -> lookup h2 x = lookup h1 x).
  { intros x Hx. apply A, C, Hx. }
  split.
  - intros x Hx. pose proof (C x (reach_agree h1 h2 v Hag x Hx)). lia.
  - intros f. apply abs_agree. exact Hag.
Qed.

Lemma confined_weaken lo lo' h v : (lo' <= lo)%nat -> confined lo h v -> confined lo' h v.
Proof. intros Hl C x Hx. specialize (C x Hx). lia. Qed.

Lemma confined_text lo h v : (forall l, v <> VRef l) -> confined lo h v.
Proof. intros H x R. inversion R; subst; exfalso; eapply H; reflexivity. Qed.

Lemma Forall_confined_transfer lo h1 h2 l :
  Forall (confined lo h1) l -> same_above lo h1 h2 ->
  Forall (confined lo h2) l /\ forall f, abs_list f h2 l = abs_list f h1 l.
Proof.
  intros F SA. split.
  - eapply Forall_impl; [|exact F]. intros v C. apply (confined_transfer lo h1 h2 v C SA).
  - intros f. unfold abs_list. apply omap_ext_in. intros v Hv.
    rewrite Forall_forall in F. apply (confined_transfer lo h1 h2 v (F v Hv) SA).
Qed.

(* ---- well-formed heaps are closed ---------------------------------------------------- *)
Lemma wf_obj h l o : wf h -> lookup h l = Some o -> obj_ok h o.
Proof.
  intros W H. unfold wf in W. rewrite Forall_forall in W. apply W.
  eapply nth_error_In. exact H.
Qed.

Lemma wf_closed h v : wf h -> val_ok (length h) v -> confined 0 h v.
Proof.
  intros W Hv x R. split; [lia|]. revert Hv.
  induction R as [l|l name ws al kl El|l name ws al kl El
                  |l name ws al kl items c x El Ek Hc R IH
                  |l items c x El Hc R IH|l sh exp c x El Hc R IH]; intros Hv.
  - exact Hv.
  - destruct (wf_obj _ _ _ W El) as [[a Ha] _]. eapply lookup_lt; eauto.
  - destruct (wf_obj _ _ _ W El) as [_ [its Hi]]. eapply lookup_lt; eauto.
  - apply IH. pose proof (wf_obj _ _ _ W Ek) as Ok. cbn in Ok.
    rewrite Forall_forall in Ok. apply Ok, Hc.
  - apply IH. pose proof (wf_obj _ _ _ W El) as Ok. cbn in Ok.
    rewrite Forall_forall in Ok. apply Ok, Hc.
  - apply IH. pose proof (wf_obj _ _ _ W El) as Ok. cbn in Ok.
    rewrite Forall_forall in Ok. apply Ok, Hc.
Qed.

Lemma omap_in {T U} (f : T -> option U) l r x :
  omap f l = Some r -> In x l -> exists y, f x = Some y.
Proof.
  revert r. induction l as [|a l IH]; intros r H Hin; [destruct Hin|].
  cbn [omap] in H. destruct (f a) as [y|] eqn:Ea; [|discriminate].
  destruct (omap f l) as [ys|] eqn:El; [|discriminate].
  destruct Hin as [->|Hin]; [eauto|]. eapply IH; eauto.
Qed.

(* a defined abstraction also closes the graph below v *)
Lemma abs_closed f h v t : abs_val f h v = Some t -> confined 0 h v.
Proof.
  intros H x R. split; [lia|]. revert f t H.
  induction R as [l|l name ws al kl El|l name ws al kl El
                  |l name ws al kl items c x El Ek Hc R IH
                  |l items c x El Hc R IH|l sh exp c x El Hc R IH]; intros f t H;
    (destruct f as [|f]; [discriminate|]); rewrite abs_val_S in H.
  - destruct (lookup h l) eqn:El; [|discriminate]. eapply lookup_lt; eauto.
  - rewrite El in H. destruct (lookup h al) eqn:Ea; [|discriminate]. eapply lookup_lt; eauto.
  - rewrite El in H. destruct (lookup h al) as [[| a | | |]|]; try discriminate.
    destruct (lookup h kl) eqn:Ek; [|discriminate]. eapply lookup_lt; eauto.
  - rewrite El in H. destruct (lookup h al) as [[| a | | |]|]; try discriminate.
    rewrite Ek in H. destruct (omap (abs_val f h) items) as [kids|] eqn:E; [|discriminate].
    destruct (omap_in _ _ _ _ E Hc) as [tc Htc]. eapply IH; eauto.
  - rewrite El in H. discriminate.
  - rewrite El in H. destruct (omap (abs_val f h) exp) as [e|] eqn:E; [|discriminate].
    destruct (omap_in _ _ _ _ E Hc) as [tc Htc]. eapply IH; eauto.
Qed.

(* ==================================================================================== *)
(* 3. tagify: allocation only, fresh result, refinement of the pure substitution        *)
(* ==================================================================================== *)

Lemma reach_inv h l x :
  reach h (VRef l) x ->
  x = l
  \/ (exists name ws al kl, lookup h l = Some (OTag name ws al kl) /\
        (x = al \/ x = kl \/
         exists items c, lookup h kl = Some (OList items) /\ In c items /\ reach h c x))
  \/ (exists items c, lookup h l = Some (OList items) /\ In c items /\ reach h c x)
  \/ (exists sh exp c, lookup h l = Some (OCustom sh exp) /\ In c exp /\ reach h c x).
Proof.
  intros R. remember (VRef l) as v eqn:Ev. destruct R; inversion Ev; subst.
  - left. reflexivity.
  - right. left. do 4 eexists. split; [eassumption|]. left. reflexivity.
  - right. left. do 4 eexists. split; [eassumption|]. right. left. reflexivity.
  - right. left. do 4 eexists. split; [eassumption|]. right. right. eauto.
  - right. right. left. do 2 eexists. eauto.
  - right. right. right. do 3 eexists. eauto.
Qed.

Lemma lookup_app_r h e k : lookup (h ++ e) (length h + k)%nat = nth_error e k.
Proof.
  unfold lookup. rewrite nth_error_app2 by lia. f_equal. lia.
Qed.

Lemma lookup3 h o1 o2 o3 :
  lookup (h ++ [o1; o2; o3]) (length h) = Some o1
  /\ lookup (h ++ [o1; o2; o3]) (S (length h)) = Some o2
  /\ lookup (h ++ [o1; o2; o3]) (S (S (length h))) = Some o3.
Proof.
  repeat split.
  - pose proof (lookup_app_r h [o1; o2; o3] 0) as L. rewrite Nat.add_0_r in L. exact L.
  - replace (S (length h)) with (length h + 1)%nat by lia. apply lookup_app_r.
  - replace (S (S (length h))) with (length h + 2)%nat by lia. apply lookup_app_r.
Qed.

Lemma copy_tag_inv h l h' cp :
  copy_tag h l = Some (h', cp) ->
  exists name ws al kl a items,
    lookup h l = Some (OTag name ws al kl) /\ lookup h al = Some (OAttrs a)
    /\ lookup h kl = Some (OList items)
    /\ h' = h ++ [OAttrs a; OList items; OTag name ws (length h) (S (length h))]
    /\ cp = S (S (length h)).
Proof.
  unfold copy_tag, alloc. intros H.
  destruct (lookup h l) as [[name ws al kl| | | |]|] eqn:El; try discriminate.
  destruct (lookup h al) as [[|a| | |]|] eqn:Ea; try discriminate.
  destruct (lookup h kl) as [[| |items| |]|] eqn:Ek; try discriminate.
  inversion H; subst. exists name, ws, al, kl, a, items.
  repeat split; try reflexivity; try assumption.
  - rewrite <- !app_assoc. cbn [app]. rewrite app_length. cbn [length].
    rewrite Nat.add_1_r. reflexivity.
  - rewrite !app_length. cbn [length]. lia.
Qed.

(* list surgery, for any element type *)
Lemma nth_error_mid' {T} (pre : list T) c rest : nth_error (pre ++ c :: rest) (length pre) = Some c.
Proof. induction pre as [|x pre IH]; [reflexivity|]. cbn. exact IH. Qed.

Lemma set_slice_mid (pre : list val) c repl rest :
  set_slice (length pre) repl (pre ++ c :: rest) = pre ++ repl ++ rest.
Proof.
  unfold set_slice. f_equal.
  - induction pre as [|x pre IH]; [reflexivity|]. cbn. f_equal. exact IH.
  - f_equal. induction pre as [|x pre IH]; [reflexivity|]. cbn [length app]. exact IH.
Qed.

Lemma last_split {T} (l : list T) j :
  length l = S j -> exists l' c, l = l' ++ [c] /\ length l' = j.
Proof.
  intros H. destruct l as [|a l] using rev_ind; [discriminate|].
  exists l, a. split; [reflexivity|]. rewrite app_length in H. cbn in H. lia.
Qed.

Lemma abs_nonref f h1 h2 v : (forall l, v <> VRef l) -> abs_val f h2 v = abs_val f h1 v.
Proof.
  intros H. destruct f; [reflexivity|]. rewrite !abs_val_S.
  destruct v; try reflexivity. exfalso. eapply H. reflexivity.
Qed.

Lemma abs_nonref_subst f h v t : (forall l, v <> VRef l) -> abs_val f h v = Some t -> subst t = [t].
Proof.
  intros H A. destruct f; [discriminate|]. rewrite abs_val_S in A.
  destruct v; inversion A; try reflexivity. exfalso. eapply H. reflexivity.
Qed.

Definition items_spec (rl : heap -> list val -> option (heap * loc)) : Prop :=
  forall h items h' r, rl h items = Some (h', r) ->
    ext h h' /\ r = length h /\
    exists items', lookup h' r = Some (OList items') /\
      Forall (confined (S r) h') items' /\
      forall f ts, abs_list f h items = Some ts -> abs_list f h' items' = Some (flat_map subst ts).

Definition tag_spec (rt : heap -> loc -> option (heap * loc)) : Prop :=
  forall h l h' r, rt h l = Some (h', r) ->
    ext h h' /\ confined (length h) h' (VRef r) /\
    forall f t, abs_val f h (VRef l) = Some t ->
      exists t', subst t = [t'] /\ abs_val f h' (VRef r) = Some t'.

Lemma tag_step_spec rl : items_spec rl -> tag_spec (tag_step rl).
Proof.
  intros Hrl h l h' r H. unfold tag_step in H.
  destruct (copy_tag h l) as [[h1 cp]|] eqn:Ec; [|discriminate].
  apply copy_tag_inv in Ec as (name & ws & al & kl & a & items & El & Ea & Ek & -> & ->).
  set (n := length h) in *.
  destruct (lookup3 h (OAttrs a) (OList items) (OTag name ws n (S n))) as (L1 & L2 & L3).
  fold n in L1, L2, L3. rewrite L3, L2 in H.
  set (h1 := h ++ [OAttrs a; OList items; OTag name ws n (S n)]) in *.
  destruct (rl h1 items) as [[h2 kl']|] eqn:Er; [|discriminate].
  inversion H; subst h' r; clear H.
  destruct (Hrl _ _ _ _ Er) as (E12 & Hkl & items' & Lk & Fc & Habs).
  assert (Len1 : length h1 = S (S (S n))).
  { unfold h1. rewrite app_length. cbn [length]. fold n. lia. }
  pose proof (ext_length _ _ E12) as Len2.
  pose proof (lookup_lt _ _ _ Lk) as Lkl.
  set (h' := store h2 (S (S n)) (OTag name ws n kl')).
  assert (Lcp : lookup h' (S (S n)) = Some (OTag name ws n kl')).
  { apply lookup_store_same. lia. }
  assert (Ln : lookup h' n = Some (OAttrs a)).
  { unfold h'. rewrite lookup_store_other by lia. eapply ext_lookup_some; eauto. }
  assert (Lk' : lookup h' kl' = Some (OList items')).
  { unfold h'. rewrite lookup_store_other by lia. exact Lk. }
  assert (SA : same_above (S kl') h2 h').
  { apply same_above_store. lia. }
  destruct (Forall_confined_transfer _ _ _ _ Fc SA) as [Fc' Habs'].
  assert (Len' : length h' = length h2) by apply length_store.
  split; [|split].
  - apply ext_store; [|lia]. eapply ext_trans; [apply ext_app|exact E12].
  - intros x R. fold n.
    apply reach_inv in R as [->|[(name0 & ws0 & al0 & kl0 & E0 & R)|[(its & c & E0 & _)|(sh & ex & c & E0 & _)]]];
      try (rewrite Lcp in E0; discriminate).
    + lia.
    + rewrite Lcp in E0. inversion E0; subst.
      destruct R as [->|[->|(its & c & Ei & Hc & R)]]; [lia|lia|].
      rewrite Lk' in Ei. inversion Ei; subst its.
      rewrite Forall_forall in Fc'. pose proof (Fc' c Hc x R). lia.
  - intros f t A. destruct f as [|f]; [discriminate|]. rewrite abs_val_S in A.
    rewrite El, Ea, Ek in A.
    destruct (omap (abs_val f h) items) as [kids|] eqn:E; [|discriminate].
    inversion A; subst t. exists (TagN name ws a (flat_map subst kids)). split; [reflexivity|].
    rewrite abs_val_S, Lcp, Ln, Lk'.
    fold (abs_list f h' items'). rewrite Habs'.
    rewrite (Habs f kids); [reflexivity|].
    eapply abs_list_ext; [apply ext_app|exact E].
Qed.

Section LoopSpec.
  Variable rt : heap -> loc -> option (heap * loc).
  Variable rl : heap -> list val -> option (heap * loc).
  Hypothesis Hrt : tag_spec rt.
  Hypothesis Hrl : items_spec rl.

  Lemma tl_loop_spec : forall i hb cp pre done h h',
    cp = length hb -> ext hb h -> (cp < length h)%nat ->
    lookup h cp = Some (OList (pre ++ done)) -> length pre = i ->
    Forall (confined (S cp) h) done ->
    tl_loop rt rl i h cp = Some h' ->
    ext hb h' /\ exists items', lookup h' cp = Some (OList items') /\
      Forall (confined (S cp) h') items' /\
      forall f tp td, abs_list f hb pre = Some tp -> abs_list f h done = Some td ->
        abs_list f h' items' = Some (flat_map subst tp ++ td).
  Proof.
    induction i as [|j IH]; intros hb cp pre done h h' Hcp Hb Hlt Lcp Hlen Fd H.
    - destruct pre; [|discriminate]. cbn [tl_loop] in H. inversion H; subst h'.
      split; [exact Hb|]. exists done. split; [exact Lcp|]. split; [exact Fd|].
      intros f tp td Hp Hd. cbn in Hp. inversion Hp; subst tp. exact Hd.
    - destruct (last_split _ _ Hlen) as (pre' & c0 & -> & Hlen').
      cbn [tl_loop] in H. rewrite Lcp in H. rewrite <- app_assoc in H. cbn [app] in H.
      rewrite <- Hlen' in H at 1. rewrite nth_error_mid' in H.
      (* what remains to be shown once the slot has been replaced *)
      assert (Step : forall h2 repl,
                 ext hb h2 -> (cp < length h2)%nat ->
                 lookup h2 cp = Some (OList (pre' ++ repl ++ done)) ->
                 Forall (confined (S cp) h2) (repl ++ done) ->
                 (forall f t0 td, abs_val f hb c0 = Some t0 -> abs_list f h done = Some td ->
                                  abs_list f h2 (repl ++ done) = Some (subst t0 ++ td)) ->
                 tl_loop rt rl j h2 cp = Some h' ->
                 ext hb h' /\ exists items', lookup h' cp = Some (OList items') /\
                   Forall (confined (S cp) h') items' /\
                   forall f tp td, abs_list f hb (pre' ++ [c0]) = Some tp ->
                                   abs_list f h done = Some td ->
                                   abs_list f h' items' = Some (flat_map subst tp ++ td)).
      { intros h2 repl Hb2 Hlt2 L2 F2 A2 H2.
        destruct (IH hb cp pre' (repl ++ done) h2 h' Hcp Hb2 Hlt2 L2 Hlen' F2 H2)
          as (Hb' & items' & L' & F' & A').
        split; [exact Hb'|]. exists items'. split; [exact L'|]. split; [exact F'|].
        intros f tp td Hp Hd. unfold abs_list in Hp. rewrite omap_app in Hp.
        destruct (omap (abs_val f hb) pre') as [tp'|] eqn:Ep; [|discriminate].
        cbn [omap] in Hp. destruct (abs_val f hb c0) as [t0|] eqn:E0; [|discriminate].
        inversion Hp; subst tp.
        rewrite (A' f tp' (subst t0 ++ td) Ep (A2 f t0 td E0 Hd)).
        rewrite flat_map_app. cbn [flat_map]. rewrite app_nil_r, <- app_assoc. reflexivity. }
      (* the slot keeps its value: str, HTML, _repr_html_ object *)
      assert (Keep : (forall l, c0 <> VRef l) -> tl_loop rt rl j h cp = Some h' ->
                     ext hb h' /\ exists items', lookup h' cp = Some (OList items') /\
                       Forall (confined (S cp) h') items' /\
                       forall f tp td, abs_list f hb (pre' ++ [c0]) = Some tp ->
                                       abs_list f h done = Some td ->
                                       abs_list f h' items' = Some (flat_map subst tp ++ td)).
      { intros Hn H2. apply (Step h [c0]); try assumption.
        - rewrite Lcp, <- app_assoc. reflexivity.
        - constructor; [apply confined_text, Hn|exact Fd].
        - intros f t0 td E0 Hd. cbn [app]. unfold abs_list. cbn [omap].
          rewrite (abs_nonref f hb h c0 Hn), E0. fold (abs_list f h done). rewrite Hd.
          rewrite (abs_nonref_subst f hb c0 t0 Hn E0). reflexivity. }
      destruct c0 as [s|s|s|c]; try (apply Keep; [congruence|exact H]).
      clear Keep.
      destruct (lookup h c) as [[cname cws cal ckl|a|its|p|sh exp]|] eqn:Ec; try discriminate.
      + (* a Tag child *)
        destruct (rt h c) as [[h1 r]|] eqn:Er; [|discriminate].
        destruct (Hrt _ _ _ _ Er) as (E1 & Cr & Ar).
        rewrite (ext_lookup _ _ _ E1 Hlt), Lcp in H.
        rewrite <- app_assoc in H. cbn [app] in H. rewrite <- Hlen' in H at 2.
        rewrite set_slice_mid in H.
        pose proof (ext_length _ _ E1) as Len1.
        set (h2 := store h1 cp (OList (pre' ++ [VRef r] ++ done))) in *.
        assert (SA : same_above (S cp) h h2).
        { eapply same_above_trans; [apply same_above_ext, E1|apply same_above_store; lia]. }
        assert (SA1 : same_above (S cp) h1 h2) by (apply same_above_store; lia).
        destruct (Forall_confined_transfer _ _ _ _ Fd SA) as [Fd2 Ad2].
        assert (Cr' : confined (S cp) h1 (VRef r)).
        { eapply confined_weaken; [|exact Cr]. lia. }
        destruct (confined_transfer (S cp) h1 h2 (VRef r) Cr' SA1) as [Cr2 Ar2].
        apply (Step h2 [VRef r]).
        * apply ext_store; [|lia]. eapply ext_trans; eauto.
        * unfold h2. rewrite length_store. lia.
        * unfold h2. apply lookup_store_same. lia.
        * constructor; assumption.
        * intros f t0 td E0 Hd.
          destruct (Ar f t0 (abs_ext f hb h _ _ Hb E0)) as (t' & St & At).
          cbn [app]. unfold abs_list. cbn [omap]. rewrite Ar2, At.
          fold (abs_list f h2 done). rewrite Ad2, Hd, St. reflexivity.
        * exact H.
      + (* a metadata node: copied *)
        unfold alloc in H.
        rewrite (lookup_app_l h [OMeta p] cp Hlt), Lcp in H.
        rewrite <- app_assoc in H. cbn [app] in H. rewrite <- Hlen' in H at 2.
        rewrite set_slice_mid in H.
        set (r := length h) in *. set (h1 := h ++ [OMeta p]) in *.
        assert (Len1 : length h1 = S r).
        { unfold h1. rewrite app_length. cbn. lia. }
        assert (Lr : lookup h1 r = Some (OMeta p)) by apply lookup_new.
        set (h2 := store h1 cp (OList (pre' ++ [VRef r] ++ done))) in *.
        assert (SA : same_above (S cp) h h2).
        { eapply same_above_trans; [apply same_above_ext, ext_app|apply same_above_store; lia]. }
        destruct (Forall_confined_transfer _ _ _ _ Fd SA) as [Fd2 Ad2].
        assert (Lr2 : lookup h2 r = Some (OMeta p)).
        { unfold h2. rewrite lookup_store_other by lia. exact Lr. }
        apply (Step h2 [VRef r]).
        * apply ext_store; [|lia]. eapply ext_trans; [exact Hb|apply ext_app].
        * unfold h2. rewrite length_store. lia.
        * unfold h2. apply lookup_store_same. lia.
        * constructor; [|exact Fd2]. intros x R.
          assert (length h2 = S r) by (unfold h2; rewrite length_store; exact Len1).
          apply reach_inv in R as [->|[(n0 & w0 & a0 & k0 & E0 & _)|[(i0 & c1 & E0 & _)|(s0 & e0 & c1 & E0 & _)]]];
            try (rewrite Lr2 in E0; discriminate). lia.
        * intros f t0 td E0 Hd.
          destruct f as [|f]; [discriminate|]. rewrite abs_val_S in E0.
          pose proof (ext_lookup _ _ c Hb) as Lc.
          destruct (lookup hb c) as [o|] eqn:Ehb; [|discriminate].
          rewrite (ext_lookup_some _ _ _ _ Hb Ehb) in Ec. inversion Ec; subst o.
          inversion E0; subst t0.
          cbn [app]. unfold abs_list. cbn [omap]. rewrite abs_val_S, Lr2.
          fold (abs_list (S f) h2 done). rewrite Ad2, Hd. reflexivity.
        * exact H.
      + (* an object with tagify(): spliced *)
        destruct (rl h exp) as [[h1 r]|] eqn:Er; [|discriminate].
        destruct (Hrl _ _ _ _ Er) as (E1 & Hr & res & Lr & Fr & Ares).
        rewrite Lr in H. rewrite (ext_lookup _ _ _ E1 Hlt), Lcp in H.
        rewrite <- app_assoc in H. cbn [app] in H. rewrite <- Hlen' in H at 2.
        rewrite set_slice_mid in H.
        pose proof (ext_length _ _ E1) as Len1.
        set (h2 := store h1 cp (OList (pre' ++ res ++ done))) in *.
        assert (SA : same_above (S cp) h h2).
        { eapply same_above_trans; [apply same_above_ext, E1|apply same_above_store; lia]. }
        assert (SA1 : same_above (S cp) h1 h2) by (apply same_above_store; lia).
        destruct (Forall_confined_transfer _ _ _ _ Fd SA) as [Fd2 Ad2].
        assert (Fr' : Forall (confined (S cp) h1) res).
        { eapply Forall_impl; [|exact Fr]. intros v. apply confined_weaken. lia. }
        destruct (Forall_confined_transfer _ _ _ _ Fr' SA1) as [Fr2 Ar2].
        apply (Step h2 res).
        * apply ext_store; [|lia]. eapply ext_trans; eauto.
        * unfold h2. rewrite length_store. lia.
        * unfold h2. apply lookup_store_same. lia.
        * apply Forall_app. split; assumption.
        * intros f t0 td E0 Hd.
          destruct f as [|f]; [discriminate|]. rewrite abs_val_S in E0.
          destruct (lookup hb c) as [o|] eqn:Ehb; [|discriminate].
          rewrite (ext_lookup_some _ _ _ _ Hb Ehb) in Ec. inversion Ec; subst o.
          destruct (omap (abs_val f hb) exp) as [e|] eqn:Ee; [|discriminate].
          inversion E0; subst t0. cbn [subst].
          unfold abs_list. rewrite omap_app.
          fold (abs_list (S f) h2 res). fold (abs_list (S f) h2 done).
          rewrite Ar2, Ad2, Hd.
          rewrite (abs_list_mono f (S f) h1 res (flat_map subst e)); [reflexivity|lia|].
          apply Ares. eapply abs_list_ext; [exact Hb|exact Ee].
        * exact H.
  Qed.
End LoopSpec.

Theorem tagify_items_spec g : items_spec (tagify_items g).
Proof.
  induction g as [|g IH]; intros h items h' r H; [discriminate|].
  cbn [tagify_items] in H. unfold alloc in H.
  destruct (tl_loop (tag_step (tagify_items g)) (tagify_items g) (length items)
                    (h ++ [OList items]) (length h)) as [h2|] eqn:El; [|discriminate].
  inversion H; subst h' r; clear H.
  destruct (tl_loop_spec _ _ (tag_step_spec _ IH) IH (length items) h (length h) items []
                         (h ++ [OList items]) h2) as (Hb & items' & L' & F' & A');
    try reflexivity.
  - apply ext_app.
  - rewrite app_length. cbn. lia.
  - rewrite app_nil_r. apply lookup_new.
  - constructor.
  - exact El.
  - split; [exact Hb|]. split; [reflexivity|]. exists items'. split; [exact L'|].
    split; [exact F'|]. intros f ts Hts. rewrite (A' f ts [] Hts eq_refl). rewrite app_nil_r. reflexivity.
Qed.

Theorem tag_tagify_spec g : tag_spec (tag_tagify g).
Proof. apply tag_step_spec, tagify_items_spec. Qed.

(* ==================================================================================== *)
(* 4. what abs yields is expanded (objects contribute tagified nodes): idempotence      *)
(* ==================================================================================== *)

Lemma omap_forallb {T U} (f : T -> option U) (P : U -> bool) l r :
  omap f l = Some r -> (forall x y, In x l -> f x = Some y -> P y = true) -> forallb P r = true.
Proof.
  revert r. induction l as [|a l IH]; intros r H HP; cbn [omap] in H.
  - inversion H. reflexivity.
  - destruct (f a) as [y|] eqn:Ea; [|discriminate].
    destruct (omap f l) as [ys|] eqn:El; [|discriminate]. inversion H; subst r.
    cbn [forallb]. rewrite (HP a y (or_introl eq_refl) Ea). cbn.
    apply IH; [reflexivity|]. intros x z Hx. apply HP. right. exact Hx.
Qed.

Lemma abs_exp_expanded f : forall h v t, abs_val f h v = Some t -> exp_expanded t = true.
Proof.
  induction f as [|f IH]; intros h v t H; [discriminate|].
  rewrite abs_val_S in H. destruct v as [s|s|s|l]; try (inversion H; reflexivity).
  destruct (lookup h l) as [[name ws al kl|a|items|p|sh exp]|]; try discriminate.
  - destruct (lookup h al) as [[| a | | |]|]; try discriminate.
    destruct (lookup h kl) as [[| | items | |]|]; try discriminate.
    destruct (omap (abs_val f h) items) as [kids|] eqn:E; [|discriminate].
    inversion H; subst t. cbn [exp_expanded].
    eapply omap_forallb; [exact E|]. intros x y _. apply IH.
  - inversion H. reflexivity.
  - destruct (omap (abs_val f h) exp) as [e|] eqn:E; [|discriminate].
    inversion H; subst t. cbn [exp_expanded].
    apply subst_list_result_no_custom.
    eapply omap_forallb; [exact E|]. intros x y _. apply IH.
Qed.

(* ==================================================================================== *)
(* 5. copy.copy                                                                         *)
(* ==================================================================================== *)

Lemma copy_tag_ext h l h' cp : copy_tag h l = Some (h', cp) -> ext h h'.
Proof.
  intros H. apply copy_tag_inv in H as (name & ws & al & kl & a & items & _ & _ & _ & -> & _).
  apply ext_app.
Qed.

Lemma copy_tag_abs h l h' cp :
  copy_tag h l = Some (h', cp) ->
  forall f t, abs_val f h (VRef l) = Some t -> abs_val f h' (VRef cp) = Some t.
Proof.
  intros H f t A.
  apply copy_tag_inv in H as (name & ws & al & kl & a & items & El & Ea & Ek & -> & ->).
  destruct (lookup3 h (OAttrs a) (OList items) (OTag name ws (length h) (S (length h))))
    as (L1 & L2 & L3).
  destruct f as [|f]; [discriminate|]. rewrite abs_val_S in A. rewrite El, Ea, Ek in A.
  destruct (omap (abs_val f h) items) as [kids|] eqn:E; [|discriminate].
  rewrite abs_val_S, L3, L1, L2.
  fold (abs_list f (h ++ [OAttrs a; OList items; OTag name ws (length h) (S (length h))]) items).
  rewrite (abs_list_ext f h _ items kids (ext_app _ _) E). exact A.
Qed.

(* the copy is a new tag object with its own attribute map and its own child list; the
   children themselves are shared *)
Lemma copy_tag_shape h l h' cp :
  copy_tag h l = Some (h', cp) ->
  exists name ws al kl a items,
    lookup h l = Some (OTag name ws al kl) /\ lookup h al = Some (OAttrs a)
    /\ lookup h kl = Some (OList items)
    /\ (length h <= cp)%nat
    /\ lookup h' cp = Some (OTag name ws (length h) (S (length h)))
    /\ lookup h' (length h) = Some (OAttrs a)
    /\ lookup h' (S (length h)) = Some (OList items)
    /\ length h' = S (S (S (length h))).
Proof.
  intros H.
  apply copy_tag_inv in H as (name & ws & al & kl & a & items & El & Ea & Ek & -> & ->).
  destruct (lookup3 h (OAttrs a) (OList items) (OTag name ws (length h) (S (length h))))
    as (L1 & L2 & L3).
  exists name, ws, al, kl, a, items. repeat split; try assumption; try lia.
  rewrite app_length. cbn [length]. lia.
Qed.

Lemma copy_list_spec h l h' cp :
  copy_list h l = Some (h', cp) ->
  exists items, lookup h l = Some (OList items) /\ h' = h ++ [OList items] /\ cp = length h.
Proof.
  unfold copy_list, alloc. destruct (lookup h l) as [[| |items| |]|]; try discriminate.
  intros H. inversion H. eauto.
Qed.

(* ==================================================================================== *)
(* 6. independence of the tagify() result                                               *)
(* ==================================================================================== *)

(* a store at a location that did not exist in h leaves every tree defined in h alone *)
Lemma store_fresh_keeps_old h h' c o f v t :
  ext h h' -> (length h <= c)%nat -> abs_val f h v = Some t ->
  abs_val f (store h' c o) v = Some t.
Proof.
  intros He Hc A. rewrite <- A. apply abs_agree. intros x R.
  pose proof (abs_closed _ _ _ _ A x R) as [_ Hx].
  rewrite lookup_store_other by lia. apply ext_lookup; assumption.
Qed.

(* a store at an old location leaves everything confined to the new part alone *)
Lemma store_old_keeps_fresh n h' c o f v :
  confined n h' v -> (c < n)%nat -> abs_val f (store h' c o) v = abs_val f h' v.
Proof.
  intros C Hc. apply (confined_transfer n h' (store h' c o) v C).
  apply same_above_store. exact Hc.
Qed.

Lemma list_result_confined g h items h' r :
  tagify_items g h items = Some (h', r) -> confined (length h) h' (VRef r).
Proof.
  intros H. destruct (tagify_items_spec g _ _ _ _ H) as (E & -> & items' & L & F & _).
  intros x R. pose proof (lookup_lt _ _ _ L) as Lr.
  apply reach_inv in R as [->|[(n0 & w0 & a0 & k0 & E0 & _)|[(its & c & E0 & Hc & R)|(s0 & e0 & c & E0 & _)]]];
    try (rewrite L in E0; discriminate).
  - lia.
  - rewrite L in E0. inversion E0; subst its. rewrite Forall_forall in F.
    pose proof (F c Hc x R). lia.
Qed.

(* ==================================================================================== *)
(* 7. HTMLDocument.render allocates only                                                *)
(* ==================================================================================== *)

Lemma new_tag_inv h name ws a items h' l :
  new_tag h name ws a items = (h', l) ->
  h' = h ++ [OAttrs a; OList items; OTag name ws (length h) (S (length h))]
  /\ l = S (S (length h)).
Proof.
  unfold new_tag, alloc. intros H. inversion H; subst. split.
  - rewrite <- !app_assoc. cbn [app]. rewrite app_length. cbn [length].
    rewrite Nat.add_1_r. reflexivity.
  - rewrite !app_length. cbn [length]. lia.
Qed.

Lemma new_tag_ext h name ws a items : ext h (fst (new_tag h name ws a items)).
Proof.
  destruct (new_tag h name ws a items) as [h' l] eqn:E.
  apply new_tag_inv in E as [-> _]. apply ext_app.
Qed.

(* the tag at l owns a child list that did not exist in h0 *)
Definition own_kids (h0 h : heap) (l : loc) : Prop :=
  exists name ws al kl items,
    lookup h l = Some (OTag name ws al kl) /\ lookup h kl = Some (OList items)
    /\ (length h0 <= kl)%nat.

Lemma own_kids_ext h0 h h' l : ext h h' -> own_kids h0 h l -> own_kids h0 h' l.
Proof.
  intros He (name & ws & al & kl & items & El & Ek & Hk).
  exists name, ws, al, kl, items. repeat split; try assumption; eapply ext_lookup_some; eauto.
Qed.

Lemma own_kids_new_tag h0 h name ws a items h' l :
  ext h0 h -> new_tag h name ws a items = (h', l) -> own_kids h0 h' l.
Proof.
  intros He H. apply new_tag_inv in H as [-> ->].
  destruct (lookup3 h (OAttrs a) (OList items) (OTag name ws (length h) (S (length h))))
    as (L1 & L2 & L3).
  exists name, ws, (length h), (S (length h)), items. repeat split; try assumption.
  pose proof (ext_length _ _ He). lia.
Qed.

Lemma own_kids_copy_tag h0 h l h' cp :
  ext h0 h -> copy_tag h l = Some (h', cp) -> own_kids h0 h' cp.
Proof.
  intros He H.
  apply copy_tag_shape in H as (name & ws & al & kl & a & items & _ & _ & _ & _ & L3 & _ & L2 & _).
  exists name, ws, (length h), (S (length h)), items. repeat split; try assumption.
  pose proof (ext_length _ _ He). lia.
Qed.

Lemma kids_update_ext h0 h l f h' :
  ext h0 h -> own_kids h0 h l -> kids_update h l f = Some h' ->
  ext h0 h' /\ forall l', own_kids h0 h l' -> own_kids h0 h' l'.
Proof.
  intros He (name & ws & al & kl & items & El & Ek & Hk) H.
  unfold kids_update, kids_of in H. rewrite El, Ek in H. inversion H; subst h'; clear H.
  split; [apply ext_store; assumption|].
  intros l' (name' & ws' & al' & kl' & items' & El' & Ek' & Hk').
  assert (l' <> kl) by (intros ->; congruence).
  destruct (Nat.eq_dec kl' kl) as [->|Hne].
  - exists name', ws', al', kl, (f items). repeat split; try assumption.
    + rewrite lookup_store_other by assumption. exact El'.
    + apply lookup_store_same. eapply lookup_lt; eauto.
  - exists name', ws', al', kl', items'. repeat split; try assumption.
    + rewrite lookup_store_other by assumption. exact El'.
    + rewrite lookup_store_other by assumption. exact Ek'.
Qed.

Lemma alloc_node_ext t : forall h, ext h (fst (alloc_node h t)).
Proof.
  induction t as [s|s|s|m|name ws a kids IH|sh exp IH] using node_ind'; intros h;
    try apply ext_refl.
  - cbn [alloc_node alloc fst]. apply ext_app.
  - cbn [alloc_node].
    set (go := fix go (h : heap) (ks : list (node N)) : heap * list val :=
                 match ks with
                 | [] => (h, [])
                 | k :: ks' => let (h1, v) := alloc_node h k in
                               let (h2, vs) := go h1 ks' in (h2, v :: vs)
                 end).
    assert (G : forall h, ext h (fst (go h kids))).
    { induction IH as [|k ks Hk _ IHks]; intros h1; [apply ext_refl|].
      cbn [go]. specialize (Hk h1). destruct (alloc_node h1 k) as [h2 v].
      specialize (IHks h2). destruct (go h2 ks) as [h3 vs]. cbn [fst] in *.
      eapply ext_trans; eauto. }
    specialize (G h). destruct (go h kids) as [h1 vs]. cbn [fst] in G.
    pose proof (new_tag_ext h1 name ws a vs) as E.
    destruct (new_tag h1 name ws a vs) as [h2 l]. cbn [fst] in *. eapply ext_trans; eauto.
  - cbn [alloc_node].
    set (go := fix go (h : heap) (ks : list (node N)) : heap * list val :=
                 match ks with
                 | [] => (h, [])
                 | k :: ks' => let (h1, v) := alloc_node h k in
                               let (h2, vs) := go h1 ks' in (h2, v :: vs)
                 end).
    assert (G : forall h, ext h (fst (go h exp))).
    { induction IH as [|k ks Hk _ IHks]; intros h1; [apply ext_refl|].
      cbn [go]. specialize (Hk h1). destruct (alloc_node h1 k) as [h2 v].
      specialize (IHks h2). destruct (go h2 ks) as [h3 vs]. cbn [fst] in *.
      eapply ext_trans; eauto. }
    specialize (G h). destruct (go h exp) as [h1 vs]. cbn [fst alloc] in *.
    eapply ext_trans; [exact G|apply ext_app].
Qed.

Lemma alloc_nodes_ext ts : forall h, ext h (fst (alloc_nodes h ts)).
Proof.
  induction ts as [|t ts IH]; intros h; [apply ext_refl|].
  cbn [alloc_nodes]. pose proof (alloc_node_ext t h) as E1.
  destruct (alloc_node h t) as [h1 v]. specialize (IH h1).
  destruct (alloc_nodes h1 ts) as [h2 vs]. cbn [fst] in *. eapply ext_trans; eauto.
Qed.

Section DocProofs.
  Variable upd : nat -> attrs -> attrs.
  Variable mk : nat -> attrs.
  Variable resolve : list N -> list N.
  Variable dep_script : list N -> str.
  Variable dep_tags : nat -> N -> list (node N).

  Lemma ensure_head_ext h0 h res h' hi :
    ext h0 h -> own_kids h0 h res -> ensure_head h res = Some (h', hi) ->
    ext h0 h' /\ forall l', own_kids h0 h l' -> own_kids h0 h' l'.
  Proof.
    intros He Ho H. unfold ensure_head in H.
    destruct (kids_of h res) as [[kl items]|]; [|discriminate].
    destruct (find_head h items 0) as [i|].
    - inversion H; subst. split; [assumption|]. intros l' K. exact K.
    - destruct (new_tag h s_head true [] []) as [h2 hd] eqn:En.
      pose proof (new_tag_ext h s_head true [] []) as E2. rewrite En in E2. cbn [fst] in E2.
      destruct (kids_update h2 res (fun its => VRef hd :: its)) as [h3|] eqn:Eu; [|discriminate].
      inversion H; subst h' hi.
      destruct (kids_update_ext h0 h2 res _ h3 (ext_trans _ _ _ He E2)
                                (own_kids_ext _ _ _ _ E2 Ho) Eu) as [E3 K3].
      split; [exact E3|]. intros l' K. apply K3. eapply own_kids_ext; eauto.
  Qed.

  Lemma copy_head_ext h0 h res hi h' head :
    ext h0 h -> own_kids h0 h res -> copy_head h res hi = Some (h', head) ->
    ext h0 h' /\ own_kids h0 h' head /\ forall l', own_kids h0 h l' -> own_kids h0 h' l'.
  Proof.
    intros He Ho H. unfold copy_head in H.
    destruct (kids_of h res) as [[kl items]|]; [|discriminate].
    destruct (nth_error items hi) as [[| | |c]|]; try discriminate.
    destruct (copy_tag h c) as [[h1 hd]|] eqn:Ec; [|discriminate].
    destruct (kids_update h1 res (set_slice hi [VRef hd])) as [h2|] eqn:Eu; [|discriminate].
    inversion H; subst h' head.
    pose proof (copy_tag_ext _ _ _ _ Ec) as E1.
    destruct (kids_update_ext h0 h1 res _ h2 (ext_trans _ _ _ He E1)
                              (own_kids_ext _ _ _ _ E1 Ho) Eu) as [E2 K2].
    split; [exact E2|]. split.
    - apply K2. exact (own_kids_copy_tag h0 h c h1 hd He Ec).
    - intros l' K. apply K2. eapply own_kids_ext; eauto.
  Qed.

  Lemma fill_head_ext fuel k h0 h head x h' :
    ext h0 h -> own_kids h0 h head ->
    fill_head resolve dep_script dep_tags fuel k h head x = Some h' -> ext h0 h'.
  Proof.
    intros He Ho H. unfold fill_head in H.
    destruct (new_tag h s_meta true [(s_charset, AStr s_utf8)] []) as [h1 m] eqn:En.
    pose proof (new_tag_ext h s_meta true [(s_charset, AStr s_utf8)] []) as E1.
    rewrite En in E1. cbn [fst] in E1.
    destruct (kids_update h1 head (fun its => VRef m :: its)) as [h2|] eqn:Eu; [|discriminate].
    destruct (kids_update_ext h0 h1 head _ h2 (ext_trans _ _ _ He E1)
                              (own_kids_ext _ _ _ _ E1 Ho) Eu) as [E2 K2].
    pose proof (K2 head (own_kids_ext _ _ _ _ E1 Ho)) as Ho2.
    destruct (get_deps resolve fuel h2 x) as [deps|]; [|discriminate].
    assert (Mid : forall h4,
               match deps with
               | [] => Some h2
               | _ :: _ =>
                 let (h3, s) := new_tag h2 s_script true [(s_type, AStr s_htmldeps)]
                                        [VText (dep_script deps)] in
                 kids_update h3 head (fun its => its ++ [VRef s])
               end = Some h4 -> ext h0 h4 /\ own_kids h0 h4 head).
    { intros h4 M. destruct deps as [|d ds].
      - inversion M; subst h4. split; assumption.
      - destruct (new_tag h2 s_script true [(s_type, AStr s_htmldeps)]
                          [VText (dep_script (d :: ds))]) as [h3 s] eqn:En3.
        pose proof (new_tag_ext h2 s_script true [(s_type, AStr s_htmldeps)]
                                [VText (dep_script (d :: ds))]) as E3.
        rewrite En3 in E3. cbn [fst] in E3.
        destruct (kids_update_ext h0 h3 head _ h4 (ext_trans _ _ _ E2 E3)
                                  (own_kids_ext _ _ _ _ E3 Ho2) M) as [E4 K4].
        split; [exact E4|]. apply K4. eapply own_kids_ext; eauto. }
    destruct (match deps with
              | [] => Some h2
              | _ :: _ =>
                let (h3, s) := new_tag h2 s_script true [(s_type, AStr s_htmldeps)]
                                       [VText (dep_script deps)] in
                kids_update h3 head (fun its => its ++ [VRef s])
              end) as [h4|]; [|discriminate].
    destruct (Mid h4 eq_refl) as [E4 Ho4].
    pose proof (alloc_nodes_ext (flat_map (dep_tags k) deps) h4) as E5.
    destruct (alloc_nodes h4 (flat_map (dep_tags k) deps)) as [h5 vs]. cbn [fst] in E5.
    destruct (kids_update_ext h0 h5 head _ h' (ext_trans _ _ _ E4 E5)
                              (own_kids_ext _ _ _ _ E5 Ho4) H) as [E6 _].
    exact E6.
  Qed.

  Lemma hoist_ext fuel k h x h' res :
    hoist resolve dep_script dep_tags fuel k h x = Some (h', res) -> ext h h'.
  Proof.
    intros H. unfold hoist in H.
    destruct (lookup h x) as [[name ws al kl| | | |]|]; try discriminate.
    destruct (negb (str_eqb name s_html)); [discriminate|].
    destruct (copy_tag h x) as [[h1 r]|] eqn:Ec; [|discriminate].
    pose proof (copy_tag_ext _ _ _ _ Ec) as E1.
    pose proof (own_kids_copy_tag h h x h1 r (ext_refl h) Ec) as Ho1.
    destruct (ensure_head h1 r) as [[h2 hi]|] eqn:Ee; [|discriminate].
    destruct (ensure_head_ext h h1 r h2 hi E1 Ho1 Ee) as [E2 K2].
    destruct (copy_head h2 r hi) as [[h3 head]|] eqn:Eh; [|discriminate].
    destruct (copy_head_ext h h2 r hi h3 head E2 (K2 r Ho1) Eh) as (E3 & Ho3 & _).
    destruct (fill_head resolve dep_script dep_tags fuel k h3 head x) as [h4|] eqn:Ef; [|discriminate].
    inversion H; subst h' res.
    eapply fill_head_ext; eauto.
  Qed.

  Lemma tag_tagify_ext g h l h' r : tag_tagify g h l = Some (h', r) -> ext h h'.
  Proof. intros H. apply (tag_tagify_spec g _ _ _ _ H). Qed.

  Lemma taglist_tagify_ext g h l h' r : taglist_tagify g h l = Some (h', r) -> ext h h'.
  Proof.
    unfold taglist_tagify. destruct (lookup h l) as [[| |items| |]|]; try discriminate.
    intros H. apply (tagify_items_spec g _ _ _ _ H).
  Qed.

  Lemma gen_tree_ext fuel k h content h' html :
    gen_tree upd mk resolve dep_script dep_tags fuel k h content = Some (h', html) -> ext h h'.
  Proof.
    intros H. unfold gen_tree in H.
    destruct (lookup h content) as [[| |items| |]|]; try discriminate.
    destruct (single_tag_named h items s_html) as [c|].
    - destruct (tag_tagify fuel h c) as [[h1 ht]|] eqn:Et; [|discriminate].
      destruct (tag_tagify_spec fuel _ _ _ _ Et) as (E1 & C1 & _).
      destruct (lookup h1 ht) as [[n0 w0 al k0| | | |]|] eqn:Eh; try discriminate.
      destruct (lookup h1 al) as [[|a| | |]|] eqn:Ea; try discriminate.
      pose proof (C1 al (reach_attrs _ _ _ _ _ _ Eh)) as [Hal _].
      apply hoist_ext in H. eapply ext_trans; [|exact H]. apply ext_store; assumption.
    - destruct (match single_tag_named h items s_body with
                | Some c => (h, c)
                | None => new_tag h s_body true [] items
                end) as [h1 body] eqn:Eb.
      assert (E1 : ext h h1).
      { destruct (single_tag_named h items s_body).
        - inversion Eb; subst. apply ext_refl.
        - pose proof (new_tag_ext h s_body true [] items) as E. rewrite Eb in E. exact E. }
      destruct (tag_tagify fuel h1 body) as [[h2 body']|] eqn:Et; [|discriminate].
      pose proof (tag_tagify_ext _ _ _ _ _ Et) as E2.
      destruct (new_tag h2 s_head true [] []) as [h3 hd] eqn:En3.
      pose proof (new_tag_ext h2 s_head true [] []) as E3. rewrite En3 in E3. cbn [fst] in E3.
      destruct (new_tag h3 s_html true (mk k) [VRef hd; VRef body']) as [h4 ht] eqn:En4.
      pose proof (new_tag_ext h3 s_html true (mk k) [VRef hd; VRef body']) as E4.
      rewrite En4 in E4. cbn [fst] in E4.
      apply hoist_ext in H.
      eapply ext_trans; [exact E1|]. eapply ext_trans; [exact E2|].
      eapply ext_trans; [exact E3|]. eapply ext_trans; [exact E4|exact H].
  Qed.

  Lemma render_ext fuel h l h' r : render resolve fuel h l = Some (h', r) -> ext h h'.
  Proof.
    unfold render. intros H.
    destruct (lookup h l) as [[n0 w0 a0 k0| |items| |]|] eqn:El; try discriminate.
    - destruct (tag_tagify fuel h l) as [[h1 cp]|] eqn:Et; [|discriminate].
      destruct (abs_root fuel h1 cp); [|discriminate]. inversion H; subst.
      eapply tag_tagify_ext; eauto.
    - destruct (taglist_tagify fuel h l) as [[h1 cp]|] eqn:Et; [|discriminate].
      destruct (abs_root fuel h1 cp); [|discriminate]. inversion H; subst.
      eapply taglist_tagify_ext; eauto.
  Qed.

  Lemma doc_render_ext fuel k h content h' r :
    doc_render upd mk resolve dep_script dep_tags fuel k h content = Some (h', r) -> ext h h'.
  Proof.
    unfold doc_render. intros H.
    destruct (gen_tree upd mk resolve dep_script dep_tags fuel k h content) as [[h1 ht]|] eqn:Eg;
      [|discriminate].
    destruct (render resolve fuel h1 ht) as [[h2 [ | | |s d]]|] eqn:Er; try discriminate.
    inversion H; subst. eapply ext_trans; [eapply gen_tree_ext; eauto|eapply render_ext; eauto].
  Qed.

  (* purity: every operation only allocates *)
  Theorem run_op_ext fuel h o h' r :
    run_op upd mk resolve dep_script dep_tags fuel h o = Some (h', r) -> ext h h'.
  Proof.
    destruct o as [l|l|l i e|l|l|l k|l k]; cbn [run_op]; intros H;
      [| | | | | |destruct (hoist resolve dep_script dep_tags fuel k h l) as [[h1 r1]|] eqn:E;
                   [inversion H; subst; eapply hoist_ext; eauto|discriminate]].
    - destruct (lookup h l) as [[n0 w0 a0 k0| |items| |]|]; try discriminate.
      + destruct (tag_tagify fuel h l) as [[h1 r1]|] eqn:E; [|discriminate].
        inversion H; subst. eapply tag_tagify_ext; eauto.
      + destruct (taglist_tagify fuel h l) as [[h1 r1]|] eqn:E; [|discriminate].
        inversion H; subst. eapply taglist_tagify_ext; eauto.
    - eapply render_ext; eauto.
    - destruct (abs_root fuel h l); [|discriminate]. inversion H; subst. apply ext_refl.
    - destruct (get_deps resolve fuel h l); [|discriminate]. inversion H; subst. apply ext_refl.
    - destruct (lookup h l) as [[n0 w0 a0 k0| |items| |]|]; try discriminate.
      + destruct (copy_tag h l) as [[h1 r1]|] eqn:E; [|discriminate].
        inversion H; subst. eapply copy_tag_ext; eauto.
      + destruct (copy_list h l) as [[h1 r1]|] eqn:E; [|discriminate].
        inversion H; subst. apply copy_list_spec in E as (its & _ & -> & _). apply ext_app.
    - destruct (lookup h l) as [[n0 w0 a0 k0| |items| |]|]; try discriminate.
      + unfold alloc in H. apply doc_render_ext in H.
        eapply ext_trans; [apply ext_app|exact H].
      + unfold alloc in H. apply doc_render_ext in H.
        eapply ext_trans; [apply ext_app|exact H].
  Qed.

  Theorem run_ops_ext fuel os : forall h h' rs,
    run_ops upd mk resolve dep_script dep_tags fuel h os = Some (h', rs) -> ext h h'.
  Proof.
    induction os as [|o os IH]; intros h h' rs H; cbn [run_ops] in H.
    - inversion H; subst. apply ext_refl.
    - destruct (run_op upd mk resolve dep_script dep_tags fuel h o) as [[h1 r]|] eqn:E1; [|discriminate].
      destruct (run_ops upd mk resolve dep_script dep_tags fuel h1 os) as [[h2 rs']|] eqn:E2; [|discriminate].
      inversion H; subst. eapply ext_trans; [eapply run_op_ext; eauto|eapply IH; eauto].
  Qed.
End DocProofs.

(* ==================================================================================== *)
(* 8. results are functions of the tree the receiver denotes: replay                    *)
(* ==================================================================================== *)

Lemma abs_root_ext f h h' l r : ext h h' -> abs_root f h l = Some r -> abs_root f h' l = Some r.
Proof.
  intros He. unfold abs_root, abs.
  destruct (lookup h l) as [o|] eqn:El; [|discriminate].
  rewrite (ext_lookup_some _ _ _ _ He El).
  destruct o as [n w a k| |items| |]; try discriminate.
  - destruct (abs_val f h (VRef l)) as [t|] eqn:E; [|discriminate].
    rewrite (abs_ext f h h' _ t He E). tauto.
  - destruct (abs_list f h items) as [ts|] eqn:E; [|discriminate].
    rewrite (abs_list_ext f h h' _ ts He E). tauto.
Qed.

Lemma abs_root_det f1 f2 h l r1 r2 :
  abs_root f1 h l = Some r1 -> abs_root f2 h l = Some r2 -> r1 = r2.
Proof.
  unfold abs_root, abs. destruct (lookup h l) as [[n w a k| |items| |]|]; try discriminate.
  - destruct (abs_val f1 h (VRef l)) as [t1|] eqn:E1; [|discriminate].
    destruct (abs_val f2 h (VRef l)) as [t2|] eqn:E2; [|discriminate].
    cbn. intros A B. inversion A; inversion B. f_equal. eapply abs_det; eauto.
  - destruct (abs_list f1 h items) as [t1|] eqn:E1; [|discriminate].
    destruct (abs_list f2 h items) as [t2|] eqn:E2; [|discriminate].
    cbn. intros A B. inversion A; inversion B. f_equal. eapply abs_list_det; eauto.
Qed.

Lemma abs_tag_inv f h l n w a k :
  abs_val f h (VRef l) = Some (TagN n w a k) -> exists al kl, lookup h l = Some (OTag n w al kl).
Proof.
  destruct f as [|f]; [discriminate|]. rewrite abs_val_S.
  destruct (lookup h l) as [[name ws al kl| | |p|sh exp]|]; try discriminate.
  - destruct (lookup h al) as [[|a0| | |]|]; try discriminate.
    destruct (lookup h kl) as [[| |items| |]|]; try discriminate.
    destruct (omap (abs_val f h) items); [|discriminate]. intros H. inversion H; subst. eauto.
  - destruct (omap (abs_val f h) exp); discriminate.
Qed.

Lemma abs_of_tag_is_tag f h l name ws al kl t :
  lookup h l = Some (OTag name ws al kl) -> abs_val f h (VRef l) = Some t ->
  exists a kids, t = TagN name ws a kids.
Proof.
  intros El A. destruct f as [|f]; [discriminate|]. rewrite abs_val_S, El in A.
  destruct (lookup h al) as [[|a0| | |]|]; try discriminate.
  destruct (lookup h kl) as [[| |items| |]|]; try discriminate.
  destruct (omap (abs_val f h) items); [|discriminate]. inversion A. eauto.
Qed.

(* x.tagify() on a Tag or a TagList, as the operations perform it *)
Definition tagify_root (fuel : nat) (h : heap) (l : loc) : option (heap * loc) :=
  match lookup h l with
  | Some (OTag _ _ _ _) => tag_tagify fuel h l
  | Some (OList _) => taglist_tagify fuel h l
  | _ => None
  end.

Lemma tagify_root_obs fuel h l h' r f rt :
  tagify_root fuel h l = Some (h', r) -> abs_root f h l = Some rt ->
  exists rt', root_subst rt = Some rt' /\ abs_root f h' r = Some rt'.
Proof.
  unfold tagify_root, abs_root, abs.
  destruct (lookup h l) as [[name ws al kl| |items| |]|] eqn:El; try discriminate.
  - intros H A. destruct (abs_val f h (VRef l)) as [t|] eqn:E; [|discriminate].
    inversion A; subst rt.
    destruct (tag_tagify_spec fuel _ _ _ _ H) as (_ & _ & R).
    destruct (R f t E) as (t' & St & At).
    destruct (abs_of_tag_is_tag _ _ _ _ _ _ _ _ El E) as (a & kids & ->).
    cbn [subst] in St. inversion St; subst t'.
    destruct (abs_tag_inv _ _ _ _ _ _ _ At) as (al' & kl' & Lr).
    exists (RT (TagN name ws a (flat_map subst kids))). split; [reflexivity|].
    rewrite Lr, At. reflexivity.
  - intros H A. unfold taglist_tagify in H. rewrite El in H.
    destruct (abs_list f h items) as [ts|] eqn:E; [|discriminate].
    inversion A; subst rt.
    destruct (tagify_items_spec fuel _ _ _ _ H) as (_ & _ & items' & L & _ & R).
    exists (RL (flat_map subst ts)). split; [reflexivity|].
    rewrite L, (R f ts E). reflexivity.
Qed.

Section Replay.
  Variable upd : nat -> attrs -> attrs.
  Variable mk : nat -> attrs.
  Variable resolve : list N -> list N.
  Variable dep_script : list N -> str.
  Variable dep_tags : nat -> N -> list (node N).

  Notation run_op' := (run_op upd mk resolve dep_script dep_tags).
  Notation run_ops' := (run_ops upd mk resolve dep_script dep_tags).
  Notation pure_op' := (pure_op upd mk resolve dep_script dep_tags).

  Lemma observe_ext f h h' r out : ext h h' -> observe f h r = Some out -> observe f h' r = Some out.
  Proof.
    intros He. destruct r as [l|s|d|s d]; cbn [observe]; try tauto.
    destruct (abs_root f h l) as [rt|] eqn:E; [|discriminate].
    rewrite (abs_root_ext f h h' l rt He E). tauto.
  Qed.

  (* the outcome of every operation other than HTMLDocument.render is the pure-layer
     function of the tree its receiver denotes *)
  Theorem run_op_obs fuel h o h' r f rt :
    run_op' fuel h o = Some (h', r) -> is_doc o = false ->
    abs_root f h (op_target o) = Some rt ->
    observe f h' r = pure_op' o rt /\ pure_op' o rt <> None.
  Proof.
    destruct o as [l|l|l i e|l|l|l k|l k]; cbn [run_op op_target is_doc pure_op]; intros H Hd A;
      try discriminate.
    - assert (T : exists h1 r1, tagify_root fuel h l = Some (h1, r1) /\ h' = h1 /\ r = RLoc r1).
      { unfold tagify_root. destruct (lookup h l) as [[n0 w0 a0 k0| |items| |]|]; try discriminate.
        - destruct (tag_tagify fuel h l) as [[h1 r1]|]; [|discriminate]. inversion H; eauto.
        - destruct (taglist_tagify fuel h l) as [[h1 r1]|]; [|discriminate]. inversion H; eauto. }
      destruct T as (h1 & r1 & T & -> & ->).
      destruct (tagify_root_obs _ _ _ _ _ _ _ T A) as (rt' & S1 & A1).
      cbn [observe]. rewrite S1, A1. split; [reflexivity|discriminate].
    - unfold render in H. fold (tagify_root fuel h l) in H.
      destruct (tagify_root fuel h l) as [[h1 cp]|] eqn:T; [|discriminate].
      destruct (abs_root fuel h1 cp) as [r0|] eqn:A0; [|discriminate].
      inversion H; subst h' r.
      destruct (tagify_root_obs _ _ _ _ _ _ _ T A) as (rt' & S1 & A1).
      rewrite (abs_root_det _ _ _ _ _ _ A0 A1). cbn [observe]. rewrite S1.
      split; [reflexivity|discriminate].
    - destruct (abs_root fuel h l) as [r0|] eqn:A0; [|discriminate].
      inversion H; subst h' r. rewrite (abs_root_det _ _ _ _ _ _ A0 A).
      split; [reflexivity|discriminate].
    - unfold get_deps in H. destruct (abs_root fuel h l) as [r0|] eqn:A0; [|discriminate].
      inversion H; subst h' r. rewrite (abs_root_det _ _ _ _ _ _ A0 A).
      split; [reflexivity|discriminate].
    - split; [|discriminate]. unfold abs_root, abs in A.
      destruct (lookup h l) as [[n0 w0 a0 k0| |items| |]|] eqn:El; try discriminate.
      + destruct (copy_tag h l) as [[h1 r1]|] eqn:E; [|discriminate].
        inversion H; subst h' r.
        destruct (abs_val f h (VRef l)) as [t|] eqn:At; [|discriminate]. inversion A; subst rt.
        pose proof (copy_tag_abs _ _ _ _ E f t At) as A1.
        apply copy_tag_shape in E as (n1 & w1 & a1 & k1 & aa & its & _ & _ & _ & _ & L3 & _).
        cbn [observe]. unfold abs_root, abs. rewrite L3, A1. reflexivity.
      + destruct (copy_list h l) as [[h1 r1]|] eqn:E; [|discriminate].
        inversion H; subst h' r. apply copy_list_spec in E as (its & L & -> & ->).
        rewrite El in L. inversion L; subst its.
        destruct (abs_list f h items) as [ts|] eqn:At; [|discriminate]. inversion A; subst rt.
        cbn [observe]. unfold abs_root. rewrite lookup_new.
        rewrite (abs_list_ext f h _ items ts (ext_app _ _) At). reflexivity.
  Qed.

  (* replay: after any history, the heap is the original one plus new objects, every value
     that denoted a tree still denotes the same tree, and the outcome of each operation is
     the pure function of what its receiver denoted in the ORIGINAL heap -- hence the same
     as the outcome of running that operation first, alone, or repeatedly *)
  Theorem run_ops_replay fuel os : forall h0 h h' rs,
    ext h0 h -> run_ops' fuel h os = Some (h', rs) ->
    ext h0 h' /\
    Forall2 (fun o r => is_doc o = false -> forall f rt,
                 abs_root f h0 (op_target o) = Some rt ->
                 observe f h' r = pure_op' o rt) os rs.
  Proof.
    induction os as [|o os IH]; intros h0 h h' rs He H; cbn [run_ops] in H.
    - inversion H; subst. split; [exact He|constructor].
    - destruct (run_op' fuel h o) as [[h1 r]|] eqn:E1; [|discriminate].
      destruct (run_ops' fuel h1 os) as [[h2 rs']|] eqn:E2; [|discriminate].
      inversion H; subst h' rs; clear H.
      pose proof (run_op_ext _ _ _ _ _ _ _ _ _ _ E1) as X1.
      pose proof (run_ops_ext _ _ _ _ _ _ _ _ _ _ E2) as X2.
      destruct (IH h0 h1 h2 rs' (ext_trans _ _ _ He X1) E2) as [X3 F].
      split; [exact X3|]. constructor; [|exact F].
      intros Hd f rt A.
      destruct (run_op_obs _ _ _ _ _ f rt E1 Hd (abs_root_ext _ _ _ _ _ He A)) as [O NN].
      destruct (pure_op' o rt) as [out|] eqn:P; [|congruence].
      exact (observe_ext f h1 h2 r out X2 O).
  Qed.
End Replay.

(* ---- frames under well-formedness: equality, defined or not ------------------------- *)
Theorem abs_frame_wf f h e v :
  wf h -> val_ok (length h) v -> abs_val f (h ++ e) v = abs_val f h v.
Proof.
  intros W Hv. apply abs_agree. intros x R.
  pose proof (wf_closed h v W Hv x R) as [_ Hx]. apply lookup_app_l. exact Hx.
Qed.

(* ==================================================================================== *)
(* 9. the statements of Properties/C08.v                                                *)
(* ==================================================================================== *)

Lemma Forall2_impl' {A B} (P Q : A -> B -> Prop) l l' :
  (forall a b, P a b -> Q a b) -> Forall2 P l l' -> Forall2 Q l l'.
Proof. intros H F. induction F; constructor; auto. Qed.

Theorem c08_replay :
  forall upd mk resolve dep_script dep_tags fuel os h h' rs,
    wf h ->
    run_ops upd mk resolve dep_script dep_tags fuel h os = Some (h', rs) ->
    (exists ext, h' = h ++ ext)
    /\ (forall f v, val_ok (length h) v -> abs_val f h' v = abs_val f h v)
    /\ Forall2 (fun o r =>
                  is_doc o = false ->
                  forall f rt, abs_root f h (op_target o) = Some rt ->
                    observe f h' r = pure_op upd mk resolve dep_script dep_tags o rt
                    /\ forall h1 r1,
                        run_op upd mk resolve dep_script dep_tags fuel h o = Some (h1, r1) ->
                        observe f h1 r1 = observe f h' r) os rs.
Proof.
  intros upd mk resolve dep_script dep_tags fuel os h h' rs W H.
  destruct (run_ops_replay upd mk resolve dep_script dep_tags fuel os h h h' rs (ext_refl h) H)
    as [[e ->] F].
  split; [exists e; reflexivity|]. split.
  - intros f v Hv. apply abs_frame_wf; assumption.
  - eapply Forall2_impl'; [|exact F]. intros o r P Hd f rt A. split; [apply P; assumption|].
    intros h1 r1 H1. rewrite (P Hd f rt A).
    apply (run_op_obs upd mk resolve dep_script dep_tags fuel h o h1 r1 f rt H1 Hd A).
Qed.

Theorem c08_tagify_fresh :
  forall fuel h l h' r,
    tag_tagify fuel h l = Some (h', r) \/ taglist_tagify fuel h l = Some (h', r) ->
    forall x, reach h' (VRef r) x -> (length h <= x < length h')%nat.
Proof.
  intros fuel h l h' r [H|H] x R.
  - exact (proj1 (proj2 (tag_tagify_spec fuel h l h' r H)) x R).
  - unfold taglist_tagify in H. destruct (lookup h l) as [[| |items| |]|]; try discriminate.
    exact (list_result_confined fuel h items h' r H x R).
Qed.

Theorem c08_independent :
  forall fuel h l h' r,
    tag_tagify fuel h l = Some (h', r) ->
    (forall c o f v t,
        reach h' (VRef r) c -> abs_val f h v = Some t -> abs_val f (store h' c o) v = Some t)
    /\ (forall c o f,
           (c < length h)%nat -> abs_val f (store h' c o) (VRef r) = abs_val f h' (VRef r)).
Proof.
  intros fuel h l h' r H.
  destruct (tag_tagify_spec fuel h l h' r H) as (E & C & _). split.
  - intros c o f v t R A. apply store_fresh_keeps_old with (h := h); try assumption.
    apply (C c R).
  - intros c o f Hc. apply store_old_keeps_fresh with (n := length h); assumption.
Qed.

Theorem c08_tagify_refines :
  forall fuel h l h' r f t,
    tag_tagify fuel h l = Some (h', r) -> abs f h l = Some t ->
    exists t', subst t = [t'] /\ abs f h' r = Some t'.
Proof.
  intros fuel h l h' r f t H A.
  exact (proj2 (proj2 (tag_tagify_spec fuel h l h' r H)) f t A).
Qed.

Theorem c08_tagify_noexp :
  forall fuel h l h' r f t,
    tag_tagify fuel h l = Some (h', r) -> abs f h l = Some t -> no_custom t = true ->
    abs f h' r = Some t.
Proof.
  intros fuel h l h' r f t H A NC.
  destruct (c08_tagify_refines fuel h l h' r f t H A) as (t' & S & A').
  rewrite (subst_no_custom t NC) in S. inversion S; subst. exact A'.
Qed.

Theorem c08_tagify_idem :
  forall g1 g2 h l h1 r1 h2 r2 f t,
    tag_tagify g1 h l = Some (h1, r1) -> abs f h l = Some t ->
    tag_tagify g2 h1 r1 = Some (h2, r2) ->
    exists t1, abs f h1 r1 = Some t1 /\ abs f h2 r2 = Some t1.
Proof.
  intros g1 g2 h l h1 r1 h2 r2 f t H1 A H2.
  destruct (c08_tagify_refines g1 h l h1 r1 f t H1 A) as (t1 & S1 & A1).
  destruct (c08_tagify_refines g2 h1 r1 h2 r2 f t1 H2 A1) as (t2 & S2 & A2).
  exists t1. split; [exact A1|].
  pose proof (subst_idem_when_expansions_expanded t (abs_exp_expanded f h (VRef l) t A)) as I.
  rewrite S1 in I. cbn [flat_map] in I. rewrite app_nil_r, S2 in I. inversion I; subst. exact A2.
Qed.

Theorem c08_copy_shallow :
  forall h l h' cp,
    copy_tag h l = Some (h', cp) ->
    (exists ext, h' = h ++ ext)
    /\ (exists name ws al kl a items,
           lookup h' cp = Some (OTag name ws al kl) /\ lookup h' al = Some (OAttrs a)
           /\ lookup h' kl = Some (OList items)
           /\ (length h <= cp)%nat /\ (length h <= al)%nat /\ (length h <= kl)%nat
           /\ exists al0 kl0, lookup h l = Some (OTag name ws al0 kl0)
                              /\ lookup h al0 = Some (OAttrs a) /\ lookup h kl0 = Some (OList items))
    /\ forall f t, abs f h l = Some t -> abs f h' cp = Some t.
Proof.
  intros h l h' cp H. split; [exact (copy_tag_ext h l h' cp H)|]. split.
  - destruct (copy_tag_shape h l h' cp H)
      as (name & ws & al & kl & a & items & L0 & La & Lk & Hcp & L3 & L1 & L2 & _).
    exists name, ws, (length h), (S (length h)), a, items.
    repeat split; try assumption; try lia. exists al, kl. repeat split; assumption.
  - exact (copy_tag_abs h l h' cp H).
Qed.

Theorem c08_render_is_str :
  forall upd mk resolve dep_script dep_tags fuel h l h' s d f rt,
    run_op upd mk resolve dep_script dep_tags fuel h (OpRender l) = Some (h', RRender s d) ->
    abs_root f h l = Some rt ->
    model_str rt = Some s.
Proof.
  intros upd mk resolve dep_script dep_tags fuel h l h' s d f rt H A.
  destruct (run_op_obs upd mk resolve dep_script dep_tags fuel h (OpRender l) h' _ f rt H eq_refl A)
    as [O _].
  cbn [observe pure_op] in O. unfold model_str, pure_render_html.
  destruct (root_subst rt) as [rt'|]; cbn in O |- *; [|discriminate]. inversion O. reflexivity.
Qed.

(* ==================================================================================== *)
(* 10. the document construction refines its pure reading                               *)
(* ==================================================================================== *)

(* v's graph lies in [lo, hi) *)
Definition frozen (lo hi : nat) (h : heap) (v : val) : Prop :=
  forall x, reach h v x -> (lo <= x < hi)%nat.

(* h' has all the objects of h, unchanged except possibly at the locations K *)
Definition keeps (K : list nat) (h h' : heap) : Prop :=
  (length h <= length h')%nat /\
  forall c, (c < length h)%nat -> ~ In c K -> lookup h' c = lookup h c.

Lemma keeps_refl K h : keeps K h h.
Proof. split; [lia|]. reflexivity. Qed.

Lemma keeps_trans K h1 h2 h3 : keeps K h1 h2 -> keeps K h2 h3 -> keeps K h1 h3.
Proof.
  intros [L1 A1] [L2 A2]. split; [lia|]. intros c Hc Hk.
  rewrite A2 by first [lia | assumption]. apply A1; assumption.
Qed.

Lemma keeps_ext K h h' : ext h h' -> keeps K h h'.
Proof.
  intros He. split; [apply ext_length, He|]. intros c Hc _. apply ext_lookup; assumption.
Qed.

Lemma keeps_store K h c o : In c K -> keeps K h (store h c o).
Proof.
  intros Hin. split; [rewrite length_store; lia|]. intros x Hx Hk.
  apply lookup_store_other. intros ->. tauto.
Qed.

Lemma keeps_weaken K K' h h' : incl K K' -> keeps K h h' -> keeps K' h h'.
Proof. intros Hi [L A]. split; [exact L|]. intros c Hc Hk. apply A; [exact Hc|]. intros Hin. apply Hk, Hi, Hin. Qed.

(* v is untouched by stores at K *)
Definition steady (K : list nat) (h : heap) (v : val) : Prop :=
  exists lo hi, frozen lo hi h v /\ (hi <= length h)%nat
                /\ forall c, In c K -> (c < lo \/ hi <= c)%nat.

Lemma steady_keeps K h h' v :
  steady K h v -> keeps K h h' ->
  steady K h' v /\ forall f, abs_val f h' v = abs_val f h v.
Proof.
  intros (lo & hi & Fz & Hhi & HK) [L A].
  assert (Hag : forall x, reach h v x -> lookup h' x = lookup h x).
  { intros x Hx. pose proof (Fz x Hx). apply A; [lia|]. intros Hin. specialize (HK x Hin). lia. }
  split.
  - exists lo, hi. split; [|split; [lia|exact HK]].
    intros x Hx. apply Fz. eapply reach_agree; eauto.
  - intros f. apply abs_agree. exact Hag.
Qed.

Lemma steady_list_keeps K h h' l :
  Forall (steady K h) l -> keeps K h h' ->
  Forall (steady K h') l /\ forall f, abs_list f h' l = abs_list f h l.
Proof.
  intros F Kp. split.
  - eapply Forall_impl; [|exact F]. intros v S. apply (steady_keeps K h h' v S Kp).
  - intros f. unfold abs_list. apply omap_ext_in. intros v Hv.
    rewrite Forall_forall in F. apply (steady_keeps K h h' v (F v Hv) Kp).
Qed.

Lemma steady_nonref K h v : (forall l, v <> VRef l) -> steady K h v.
Proof.
  intros Hn. exists O, O. split; [|split; [lia|intros; lia]].
  intros x R. exfalso. inversion R; subst; eapply Hn; reflexivity.
Qed.

(* a value whose abstraction is defined in hb, seen from a later heap *)
Lemma steady_old K hb h v f t :
  abs_val f hb v = Some t -> ext hb h -> (forall c, In c K -> (length hb <= c)%nat) ->
  steady K h v.
Proof.
  intros A He HK. exists O, (length hb). split; [|split].
  - intros x R. pose proof (abs_closed f hb v t A) as C.
    apply C. eapply reach_agree; [|exact R]. intros y Hy. apply ext_lookup; [exact He|].
    apply (C y Hy).
  - apply ext_length, He.
  - intros c Hc. right. apply HK, Hc.
Qed.

Lemma steady_child K h l name ws al kl items c :
  steady K h (VRef l) -> lookup h l = Some (OTag name ws al kl) ->
  lookup h kl = Some (OList items) -> In c items -> steady K h c.
Proof.
  intros (lo & hi & Fz & Hhi & HK) El Ek Hc. exists lo, hi. split; [|split; assumption].
  intros x R. apply Fz. eapply reach_child; eauto.
Qed.

(* ---- a tag object with its attribute map and child list ---------------------------- *)
Definition tagv (h : heap) (l : loc) (name : str) (ws : bool) (al : loc) (a : attrs)
           (kl : loc) (items : list val) : Prop :=
  lookup h l = Some (OTag name ws al kl) /\ lookup h al = Some (OAttrs a)
  /\ lookup h kl = Some (OList items).

Lemma tagv_abs h l name ws al a kl items f kids :
  tagv h l name ws al a kl items -> abs_list f h items = Some kids ->
  abs_val (S f) h (VRef l) = Some (TagN name ws a kids).
Proof.
  intros (E1 & E2 & E3) A. rewrite abs_val_S, E1, E2, E3. unfold abs_list in A. rewrite A. reflexivity.
Qed.

Lemma abs_tagv f h l name ws a kids :
  abs_val f h (VRef l) = Some (TagN name ws a kids) ->
  exists al kl items f', tagv h l name ws al a kl items /\ abs_list f' h items = Some kids.
Proof.
  destruct f as [|f]; [discriminate|]. rewrite abs_val_S.
  destruct (lookup h l) as [[n w al kl| | |p|sh exp]|] eqn:El; try discriminate.
  - destruct (lookup h al) as [[|a0| | |]|] eqn:Ea; try discriminate.
    destruct (lookup h kl) as [[| |items| |]|] eqn:Ek; try discriminate.
    destruct (omap (abs_val f h) items) as [ks|] eqn:E; [|discriminate].
    intros H. inversion H; subst. exists al, kl, items, f. repeat split; assumption.
  - destruct (omap (abs_val f h) exp); discriminate.
Qed.

Lemma tagv_keeps K h h' l name ws al a kl items :
  tagv h l name ws al a kl items -> keeps K h h' ->
  ~ In l K -> ~ In al K -> ~ In kl K -> tagv h' l name ws al a kl items.
Proof.
  intros (E1 & E2 & E3) [L A] N1 N2 N3. repeat split.
  - rewrite A; [exact E1|eapply lookup_lt; eauto|exact N1].
  - rewrite A; [exact E2|eapply lookup_lt; eauto|exact N2].
  - rewrite A; [exact E3|eapply lookup_lt; eauto|exact N3].
Qed.

Lemma tagv_store_own h l name ws al a kl items items' :
  tagv h l name ws al a kl items ->
  tagv (store h kl (OList items')) l name ws al a kl items'.
Proof.
  intros (E1 & E2 & E3). repeat split.
  - rewrite lookup_store_other; [exact E1|]. intros ->. congruence.
  - rewrite lookup_store_other; [exact E2|]. intros ->. congruence.
  - apply lookup_store_same. eapply lookup_lt; eauto.
Qed.

Lemma kids_of_tagv h l name ws al a kl items :
  tagv h l name ws al a kl items -> kids_of h l = Some (kl, items).
Proof. intros (E1 & _ & E3). unfold kids_of. rewrite E1, E3. reflexivity. Qed.

Lemma kids_update_tagv h l name ws al a kl items g :
  tagv h l name ws al a kl items -> kids_update h l g = Some (store h kl (OList (g items))).
Proof. intros T. unfold kids_update. rewrite (kids_of_tagv _ _ _ _ _ _ _ _ T). reflexivity. Qed.

Lemma new_tag_tagv h name ws a items h' l :
  new_tag h name ws a items = (h', l) ->
  ext h h' /\ l = S (S (length h)) /\ length h' = S (S (S (length h)))
  /\ tagv h' l name ws (length h) a (S (length h)) items.
Proof.
  intros H. apply new_tag_inv in H as [-> ->].
  destruct (lookup3 h (OAttrs a) (OList items) (OTag name ws (length h) (S (length h))))
    as (L1 & L2 & L3).
  split; [apply ext_app|]. split; [reflexivity|]. split.
  - rewrite app_length. cbn [length]. lia.
  - repeat split; assumption.
Qed.

Lemma copy_tag_tagv h c name ws al a kl items h' cp :
  tagv h c name ws al a kl items -> copy_tag h c = Some (h', cp) ->
  ext h h' /\ cp = S (S (length h)) /\ length h' = S (S (S (length h)))
  /\ tagv h' cp name ws (length h) a (S (length h)) items.
Proof.
  intros (E1 & E2 & E3) H.
  apply copy_tag_inv in H as (n0 & w0 & al0 & kl0 & a0 & its0 & F1 & F2 & F3 & -> & ->).
  rewrite E1 in F1. inversion F1; subst n0 w0 al0 kl0.
  rewrite E2 in F2. inversion F2; subst a0. rewrite E3 in F3. inversion F3; subst its0.
  destruct (lookup3 h (OAttrs a) (OList items) (OTag name ws (length h) (S (length h))))
    as (L1 & L2 & L3).
  split; [apply ext_app|]. split; [reflexivity|]. split.
  - rewrite app_length. cbn [length]. lia.
  - repeat split; assumption.
Qed.

(* a new tag whose children are values: its graph is the three new objects *)
Lemma tagv_leaf_frozen h l name ws al a kl items :
  tagv h l name ws al a kl items -> (forall c, In c items -> forall l', c <> VRef l') ->
  forall lo hi, (lo <= l < hi)%nat -> (lo <= al < hi)%nat -> (lo <= kl < hi)%nat ->
  frozen lo hi h (VRef l).
Proof.
  intros (E1 & E2 & E3) Hn lo hi B1 B2 B3 x R.
  apply reach_inv in R as [->|[(n0 & w0 & a0 & k0 & E0 & R)|[(its & c & E0 & _)|(sh & ex & c & E0 & _)]]];
    try (rewrite E1 in E0; discriminate); [exact B1|].
  rewrite E1 in E0. inversion E0; subst.
  destruct R as [->|[->|(its & c & Ei & Hc & R)]]; [exact B2|exact B3|].
  rewrite E3 in Ei. inversion Ei; subst its. exfalso.
  inversion R; subst; eapply (Hn _ Hc); reflexivity.
Qed.

Definition val_node (v : val) : node N :=
  match v with VText s => Text s | VHtml s => Html s | VRepr s => Repr s | VRef _ => Text [] end.

Lemma abs_list_values h items :
  (forall c, In c items -> forall l', c <> VRef l') ->
  abs_list 1 h items = Some (map val_node items).
Proof.
  induction items as [|c items IH]; intros Hn; [reflexivity|].
  unfold abs_list in *. cbn [omap map].
  rewrite IH by (intros c' Hc'; apply Hn; right; exact Hc').
  destruct c as [s|s|s|l]; try reflexivity. exfalso. eapply (Hn (VRef l)); [left|]; reflexivity.
Qed.

(* ---- find_head looks at the same things as its pure reading ------------------------- *)
Lemma find_head_pure_eq f h items : forall kids i,
  abs_list f h items = Some kids -> find_head h items i = find_head_pure kids i.
Proof.
  induction items as [|c items IH]; intros kids i A; unfold abs_list in A; cbn [omap] in A.
  - inversion A. reflexivity.
  - destruct (abs_val f h c) as [t|] eqn:Ec; [|discriminate].
    destruct (omap (abs_val f h) items) as [ks|] eqn:Ei; [|discriminate].
    inversion A; subst kids. cbn [find_head find_head_pure].
    destruct f as [|f]; [discriminate|]. rewrite abs_val_S in Ec.
    destruct c as [s|s|s|l]; try (inversion Ec; subst t; apply IH; exact Ei).
    destruct (lookup h l) as [[n w al kl| | |p|sh exp]|]; try discriminate.
    + destruct (lookup h al) as [[|a0| | |]|]; try discriminate.
      destruct (lookup h kl) as [[| |its| |]|]; try discriminate.
      destruct (omap (abs_val f h) its); [|discriminate]. inversion Ec; subst t.
      destruct (str_eqb n s_head); [reflexivity|]. apply IH. exact Ei.
    + inversion Ec; subst t. apply IH. exact Ei.
    + destruct (omap (abs_val f h) exp); [|discriminate]. inversion Ec; subst t. apply IH. exact Ei.
Qed.

Lemma omap_nth {T U} (f : T -> option U) l r i x :
  omap f l = Some r -> nth_error l i = Some x ->
  exists y, f x = Some y /\ nth_error r i = Some y.
Proof.
  revert r i. induction l as [|a l IH]; intros r i H Hn; [destruct i; discriminate|].
  cbn [omap] in H. destruct (f a) as [b|] eqn:Ea; [|discriminate].
  destruct (omap f l) as [bs|] eqn:El; [|discriminate]. inversion H; subst r.
  destruct i as [|i]; cbn [nth_error] in *.
  - inversion Hn; subst. eauto.
  - eapply IH; eauto.
Qed.

Lemma omap_set_slice {T U} (f : T -> option U) l r i x y :
  omap f l = Some r -> (i < length l)%nat -> f x = Some y ->
  omap f (firstn i l ++ [x] ++ skipn (S i) l) = Some (firstn i r ++ [y] ++ skipn (S i) r).
Proof.
  revert r i. induction l as [|a l IH]; intros r i H Hi Hx; [cbn in Hi; lia|].
  cbn [omap] in H. destruct (f a) as [b|] eqn:Ea; [|discriminate].
  destruct (omap f l) as [bs|] eqn:El; [|discriminate]. inversion H; subst r.
  destruct i as [|i].
  - cbn [firstn skipn app omap]. rewrite Hx, El. reflexivity.
  - cbn [length] in Hi. assert (Hi' : (i < length l)%nat) by lia.
    pose proof (IH bs i eq_refl Hi' Hx) as IH'.
    change (firstn (S i) (a :: l) ++ [x] ++ skipn (S (S i)) (a :: l))
      with (a :: (firstn i l ++ [x] ++ skipn (S i) l)).
    cbn [omap]. rewrite Ea, IH'. reflexivity.
Qed.

(* ---- allocating a tree yields a value that denotes it -------------------------------- *)
Lemma frozen_weaken lo hi lo' hi' h v :
  frozen lo hi h v -> (lo' <= lo)%nat -> (hi <= hi')%nat -> frozen lo' hi' h v.
Proof. intros F H1 H2 x R. specialize (F x R). lia. Qed.

Lemma frozen_ext lo hi h h' v :
  frozen lo hi h v -> (hi <= length h)%nat -> ext h h' ->
  frozen lo hi h' v /\ forall f, abs_val f h' v = abs_val f h v.
Proof.
  intros F Hhi He.
  destruct (steady_keeps [] h h' v) as [(lo' & hi' & _) A].
  - exists lo, hi. split; [exact F|]. split; [exact Hhi|]. intros c [].
  - apply keeps_ext, He.
  - split; [|exact A]. intros x R. apply F. eapply reach_agree; [|exact R].
    intros y Hy. apply ext_lookup; [exact He|]. specialize (F y Hy). lia.
Qed.

Definition alloc_ok (h : heap) (t : node N) : Prop :=
  ext h (fst (alloc_node h t))
  /\ frozen (length h) (length (fst (alloc_node h t))) (fst (alloc_node h t)) (snd (alloc_node h t))
  /\ exists f, abs_val f (fst (alloc_node h t)) (snd (alloc_node h t)) = Some t.

Lemma alloc_go_spec (kids : list (node N)) :
  Forall (fun t => no_custom t = true -> forall h, alloc_ok h t) kids ->
  forallb no_custom kids = true ->
  forall h,
    let go := fix go (h : heap) (ks : list (node N)) : heap * list val :=
                match ks with
                | [] => (h, [])
                | k :: ks' => let (h1, v) := alloc_node h k in
                              let (h2, vs) := go h1 ks' in (h2, v :: vs)
                end in
    ext h (fst (go h kids))
    /\ Forall (frozen (length h) (length (fst (go h kids))) (fst (go h kids))) (snd (go h kids))
    /\ exists f, abs_list f (fst (go h kids)) (snd (go h kids)) = Some kids.
Proof.
  intros IH. induction IH as [|k ks Hk _ IHks]; intros NC h go.
  - cbn. split; [apply ext_refl|]. split; [constructor|]. exists 1%nat. reflexivity.
  - cbn [forallb] in NC. apply andb_true_iff in NC as [NC1 NC2].
    cbn [go]. destruct (Hk NC1 h) as (E1 & F1 & f1 & A1).
    destruct (alloc_node h k) as [h1 v] eqn:Ea. cbn [fst snd] in E1, F1, A1.
    destruct (IHks NC2 h1) as (E2 & F2 & f2 & A2). fold go in E2, F2, A2.
    destruct (go h1 ks) as [h2 vs] eqn:Eg. cbn [fst snd] in *.
    pose proof (ext_length _ _ E1) as L1. pose proof (ext_length _ _ E2) as L2.
    destruct (frozen_ext _ _ _ _ _ F1 (Nat.le_refl _) E2) as [F1' A1'].
    split; [eapply ext_trans; eauto|]. split.
    + constructor.
      * eapply frozen_weaken; [exact F1'|lia|lia].
      * eapply Forall_impl; [|exact F2]. intros w Fw. eapply frozen_weaken; [exact Fw|lia|lia].
    + exists (Nat.max f1 f2). unfold abs_list. cbn [omap].
      rewrite (abs_mono f1 (Nat.max f1 f2) h2 v k (Nat.le_max_l _ _)) by (rewrite A1'; exact A1).
      fold (abs_list (Nat.max f1 f2) h2 vs).
      rewrite (abs_list_mono f2 (Nat.max f1 f2) h2 vs ks (Nat.le_max_r _ _) A2). reflexivity.
Qed.

Lemma alloc_node_spec t : no_custom t = true -> forall h, alloc_ok h t.
Proof.
  induction t as [s|s|s|m|name ws a kids IH|sh exp _] using node_ind'; intros NC h;
    try discriminate.
  - split; [apply ext_refl|]. split; [|exists 1%nat; reflexivity].
    intros x R. inversion R.
  - split; [apply ext_refl|]. split; [|exists 1%nat; reflexivity].
    intros x R. inversion R.
  - split; [apply ext_refl|]. split; [|exists 1%nat; reflexivity].
    intros x R. inversion R.
  - unfold alloc_ok. cbn [alloc_node alloc fst snd].
    assert (L : lookup (h ++ [OMeta m]) (length h) = Some (OMeta m)) by apply lookup_new.
    split; [apply ext_app|]. split.
    + intros x R. rewrite app_length. cbn [length].
      apply reach_inv in R as [->|[(n0 & w0 & a0 & k0 & E0 & _)|[(i0 & c1 & E0 & _)|(s0 & e0 & c1 & E0 & _)]]];
        try (rewrite L in E0; discriminate). lia.
    + exists 1%nat. rewrite abs_val_S, L. reflexivity.
  - cbn [no_custom] in NC. unfold alloc_ok. cbn [alloc_node].
    pose proof (alloc_go_spec kids IH NC h) as G. cbn zeta in G.
    set (go := fix go (h : heap) (ks : list (node N)) : heap * list val :=
                 match ks with
                 | [] => (h, [])
                 | k :: ks' => let (h1, v) := alloc_node h k in
                               let (h2, vs) := go h1 ks' in (h2, v :: vs)
                 end) in *.
    destruct G as (E1 & F1 & f1 & A1). destruct (go h kids) as [h1 vs]. cbn [fst snd] in *.
    destruct (new_tag h1 name ws a vs) as [h2 l] eqn:En. cbn [fst snd].
    destruct (new_tag_tagv _ _ _ _ _ _ _ En) as (E2 & -> & Len2 & T).
    pose proof (ext_length _ _ E1) as L1.
    destruct (steady_list_keeps [] h1 h2 vs) as [S2 A2].
    { eapply Forall_impl; [|exact F1]. intros w Fw. exists (length h), (length h1).
      split; [exact Fw|]. split; [lia|]. intros c []. }
    { apply keeps_ext, E2. }
    split; [eapply ext_trans; eauto|]. split.
    + intros x R. destruct T as (T1 & T2 & T3).
      apply reach_inv in R as [->|[(n0 & w0 & a0 & k0 & E0 & R)|[(its & c & E0 & _)|(sh & ex & c & E0 & _)]]];
        try (rewrite T1 in E0; discriminate); [lia|].
      rewrite T1 in E0. inversion E0; subst.
      destruct R as [->|[->|(its & c & Ei & Hc & R)]]; [lia|lia|].
      rewrite T3 in Ei. inversion Ei; subst its.
      rewrite Forall_forall in S2. destruct (S2 c Hc) as (lo & hi & Fz & _).
      rewrite Forall_forall in F1.
      assert (Fc : frozen (length h) (length h1) h2 c).
      { intros y Ry. apply (F1 c Hc). eapply reach_agree; [|exact Ry].
        intros z Hz. apply ext_lookup; [exact E2|]. specialize (F1 c Hc z Hz). lia. }
      specialize (Fc x R). lia.
    + exists (S f1). eapply tagv_abs; [exact T|]. rewrite A2. exact A1.
Qed.

Lemma alloc_nodes_spec ts : forallb no_custom ts = true -> forall h,
  ext h (fst (alloc_nodes h ts))
  /\ Forall (frozen (length h) (length (fst (alloc_nodes h ts))) (fst (alloc_nodes h ts)))
            (snd (alloc_nodes h ts))
  /\ exists f, abs_list f (fst (alloc_nodes h ts)) (snd (alloc_nodes h ts)) = Some ts.
Proof.
  induction ts as [|t ts IH]; intros NC h.
  - cbn. split; [apply ext_refl|]. split; [constructor|]. exists 1%nat. reflexivity.
  - cbn [forallb] in NC. apply andb_true_iff in NC as [NC1 NC2].
    cbn [alloc_nodes]. destruct (alloc_node_spec t NC1 h) as (E1 & F1 & f1 & A1).
    destruct (alloc_node h t) as [h1 v]. cbn [fst snd] in E1, F1, A1.
    destruct (IH NC2 h1) as (E2 & F2 & f2 & A2).
    destruct (alloc_nodes h1 ts) as [h2 vs]. cbn [fst snd] in *.
    pose proof (ext_length _ _ E1) as L1. pose proof (ext_length _ _ E2) as L2.
    destruct (frozen_ext _ _ _ _ _ F1 (Nat.le_refl _) E2) as [F1' A1'].
    split; [eapply ext_trans; eauto|]. split.
    + constructor.
      * eapply frozen_weaken; [exact F1'|lia|lia].
      * eapply Forall_impl; [|exact F2]. intros w Fw. eapply frozen_weaken; [exact Fw|lia|lia].
    + exists (Nat.max f1 f2). unfold abs_list. cbn [omap].
      rewrite (abs_mono f1 (Nat.max f1 f2) h2 v t (Nat.le_max_l _ _)) by (rewrite A1'; exact A1).
      fold (abs_list (Nat.max f1 f2) h2 vs).
      rewrite (abs_list_mono f2 (Nat.max f1 f2) h2 vs ts (Nat.le_max_r _ _) A2). reflexivity.
Qed.

Lemma abs_list_cons f h v l :
  abs_list f h (v :: l)
  = match abs_val f h v with
    | Some y => match abs_list f h l with Some ys => Some (y :: ys) | None => None end
    | None => None
    end.
Proof. reflexivity. Qed.

Lemma abs_list_app f h l1 l2 :
  abs_list f h (l1 ++ l2)
  = match abs_list f h l1, abs_list f h l2 with Some a, Some b => Some (a ++ b) | _, _ => None end.
Proof. apply omap_app. Qed.

Lemma abs_list_nil f h : abs_list f h [] = Some [].
Proof. reflexivity. Qed.

Section DocRefine.
  Variable upd : nat -> attrs -> attrs.
  Variable mk : nat -> attrs.
  Variable resolve : list N -> list N.
  Variable dep_script : list N -> str.
  Variable dep_tags : nat -> N -> list (node N).
  (* the tags a dependency contributes hold no tagifiable object *)
  Hypothesis Hdt : forall k p, forallb no_custom (dep_tags k p) = true.

  Lemma dep_tags_no_custom k deps : forallb no_custom (flat_map (dep_tags k) deps) = true.
  Proof.
    induction deps as [|d ds IH]; [reflexivity|]. cbn [flat_map]. rewrite forallb_app, Hdt, IH.
    reflexivity.
  Qed.

  Lemma tagv_distinct h l name ws al a kl items : tagv h l name ws al a kl items -> l <> kl /\ al <> kl.
  Proof. intros (E1 & E2 & E3). split; intros ->; congruence. Qed.

  Lemma ensure_head_refines hb h res name ws al a R items f kids h2 hi :
    ext hb h -> (length hb <= R)%nat ->
    tagv h res name ws al a R items ->
    abs_list f hb items = Some kids ->
    ensure_head h res = Some (h2, hi) ->
    exists items1 f1,
      keeps [R] h h2 /\ ext hb h2 /\ tagv h2 res name ws al a R items1
      /\ abs_list f1 h2 items1
         = Some (fst (match find_head_pure kids 0 with
                      | Some i => (kids, i) | None => (head_tag :: kids, O) end))
      /\ hi = snd (match find_head_pure kids 0 with
                   | Some i => (kids, i) | None => (head_tag :: kids, O) end)
      /\ Forall (steady [R; S (length h2)] h2) items1.
  Proof.
    intros Hb HR T A H. unfold ensure_head in H.
    rewrite (kids_of_tagv _ _ _ _ _ _ _ _ T) in H.
    pose proof (abs_list_ext f hb h items kids Hb A) as Ah.
    rewrite (find_head_pure_eq f h items kids 0 Ah) in H.
    assert (Old : forall h', ext hb h' -> (length hb <= S (length h'))%nat ->
                             Forall (steady [R; S (length h')] h') items).
    { intros h' He Hl. apply Forall_forall. intros v Hv.
      destruct (omap_in _ _ _ _ A Hv) as [t Ht].
      eapply steady_old; [exact Ht|exact He|]. intros c [Eq|[Eq|[]]]; lia. }
    pose proof (ext_length _ _ Hb) as Lb.
    destruct (find_head_pure kids 0) as [i|].
    - inversion H; subst h2 hi. exists items, f. cbn [fst snd].
      split; [apply keeps_refl|]. split; [exact Hb|]. split; [exact T|]. split; [exact Ah|].
      split; [reflexivity|]. apply Old; [exact Hb|lia].
    - destruct (new_tag h s_head true [] []) as [h1 hd] eqn:En.
      destruct (new_tag_tagv _ _ _ _ _ _ _ En) as (E1 & -> & Len1 & Thd).
      pose proof (lookup_lt _ _ _ (proj2 (proj2 T))) as RL.
      destruct (tagv_distinct _ _ _ _ _ _ _ _ T) as [D1 D2].
      assert (T1 : tagv h1 res name ws al a R items).
      { destruct T as (P1 & P2 & P3). repeat split; eapply ext_lookup_some; eauto. }
      rewrite (kids_update_tagv _ _ _ _ _ _ _ _ _ T1) in H. inversion H; subst h2 hi. clear H.
      set (h2 := store h1 R (OList (VRef (S (S (length h))) :: items))).
      assert (K12 : keeps [R] h1 h2) by (apply keeps_store; left; reflexivity).
      assert (Len2 : length h2 = length h1) by apply length_store.
      assert (E2 : ext hb h2). { apply ext_store; [eapply ext_trans; eauto|exact HR]. }
      assert (Thd2 : tagv h2 (S (S (length h))) s_head true (length h) [] (S (length h)) []).
      { eapply tagv_keeps; [exact Thd|exact K12| | |]; intros [Eq|[]]; lia. }
      exists (VRef (S (S (length h))) :: items), (S f). cbn [fst snd].
      split; [eapply keeps_trans; [apply keeps_ext, E1|exact K12]|].
      split; [exact E2|]. split; [exact (tagv_store_own _ _ _ _ _ _ _ _ _ T1)|]. split; [|split; [reflexivity|]].
      + unfold abs_list. cbn [omap].
        rewrite (tagv_abs _ _ _ _ _ _ _ _ f [] Thd2 eq_refl).
        fold (abs_list (S f) h2 items).
        rewrite (abs_list_mono f (S f) h2 items kids) by
            first [lia | eapply abs_list_ext; [exact E2|exact A]].
        reflexivity.
      + constructor; [|apply Old; [exact E2|lia]].
        exists (length h), (length h2). split; [|split; [lia|]].
        * eapply tagv_leaf_frozen; [exact Thd2|intros c []| | |]; lia.
        * intros c [Eq|[Eq|[]]]; lia.
  Qed.

  Lemma copy_head_refines hb h2 res name ws al a R items1 f1 kids1 hi h3 head :
    ext hb h2 -> (length hb <= R)%nat ->
    tagv h2 res name ws al a R items1 ->
    abs_list f1 h2 items1 = Some kids1 ->
    Forall (steady [R; S (length h2)] h2) items1 ->
    copy_head h2 res hi = Some (h3, head) ->
    exists hn hws ha hk hitems fh,
      nth_error kids1 hi = Some (TagN hn hws ha hk)
      /\ keeps [R] h2 h3 /\ ext hb h3 /\ length h3 = S (S (S (length h2)))
      /\ head = S (S (length h2))
      /\ tagv h3 res name ws al a R (set_slice hi [VRef head] items1)
      /\ tagv h3 head hn hws (length h2) ha (S (length h2)) hitems
      /\ abs_list f1 h3 items1 = Some kids1 /\ (hi < length items1)%nat
      /\ Forall (steady [R; S (length h2)] h3) items1
      /\ Forall (steady [R; S (length h2)] h3) hitems /\ abs_list fh h3 hitems = Some hk.
  Proof.
    intros Hb HR T A St H. unfold copy_head in H.
    rewrite (kids_of_tagv _ _ _ _ _ _ _ _ T) in H.
    destruct (nth_error items1 hi) as [[| | |c]|] eqn:En; try discriminate.
    destruct (copy_tag h2 c) as [[h3' hd]|] eqn:Ec; [|discriminate].
    pose proof Ec as Ec'.
    apply copy_tag_inv in Ec' as (hn & hws & cal & ckl & ha & hitems & F1 & F2 & F3 & _ & _).
    assert (Tc : tagv h2 c hn hws cal ha ckl hitems) by (repeat split; assumption).
    destruct (copy_tag_tagv _ _ _ _ _ _ _ _ _ _ Tc Ec) as (E3 & -> & Len3 & Thd).
    pose proof (lookup_lt _ _ _ (proj2 (proj2 T))) as RL.
    assert (T3' : tagv h3' res name ws al a R items1).
    { destruct T as (P1 & P2 & P3). repeat split; eapply ext_lookup_some; eauto. }
    rewrite (kids_update_tagv _ _ _ _ _ _ _ _ _ T3') in H. inversion H; subst h3 head. clear H.
    set (head := S (S (length h2))).
    set (h3 := store h3' R (OList (set_slice hi [VRef head] items1))).
    assert (K : keeps [R] h2 h3).
    { eapply keeps_trans; [apply keeps_ext, E3|apply keeps_store; left; reflexivity]. }
    assert (K2 : keeps [R; S (length h2)] h2 h3).
    { eapply keeps_weaken; [|exact K]. intros z [<-|[]]. left. reflexivity. }
    destruct (omap_nth _ _ _ _ _ A En) as (y & Ay & Ny).
    destruct f1 as [|f1']; [discriminate|]. pose proof Ay as Ay'.
    rewrite abs_val_S, F1, F2, F3 in Ay'.
    destruct (omap (abs_val f1' h2) hitems) as [hk|] eqn:Ehk; [|discriminate].
    inversion Ay'; subst y. clear Ay'.
    assert (Sc : steady [R; S (length h2)] h2 (VRef c)).
    { rewrite Forall_forall in St. apply St. eapply nth_error_In; eauto. }
    assert (Sh : Forall (steady [R; S (length h2)] h2) hitems).
    { apply Forall_forall. intros v Hv. eapply steady_child; eauto. }
    destruct (steady_list_keeps _ _ _ _ St K2) as [St3 A3].
    destruct (steady_list_keeps _ _ _ _ Sh K2) as [Sh3 Ah3].
    exists hn, hws, ha, hk, hitems, f1'.
    split; [exact Ny|]. split; [exact K|].
    split; [apply ext_store; [eapply ext_trans; eauto|exact HR]|].
    split; [unfold h3; rewrite length_store; exact Len3|]. split; [reflexivity|].
    split; [exact (tagv_store_own _ _ _ _ _ _ _ _ _ T3')|]. split.
    { eapply (tagv_keeps [R]); [exact Thd|apply keeps_store; left; reflexivity| | |];
        intros [Eq|[]]; unfold head in *; lia. }
    split; [rewrite A3; exact A|]. split; [apply nth_error_Some; congruence|].
    split; [exact St3|]. split; [exact Sh3|]. rewrite Ah3. exact Ehk.
  Qed.

  Lemma fill_head_refines fuel k hb h3 head x hn hws hal ha R H hitems fh hk f name ws a kids h' :
    ext hb h3 -> (length hb <= H)%nat -> (R < H)%nat ->
    tagv h3 head hn hws hal ha H hitems ->
    Forall (steady [R; H] h3) hitems -> abs_list fh h3 hitems = Some hk ->
    abs_val f hb (VRef x) = Some (TagN name ws a kids) ->
    fill_head resolve dep_script dep_tags fuel k h3 head x = Some h' ->
    exists hitems' fh',
      keeps [H] h3 h' /\ ext hb h'
      /\ tagv h' head hn hws hal ha H hitems'
      /\ abs_list fh' h' hitems'
         = Some (meta_tag :: hk
                   ++ (match resolve (flat_map deps_of kids) with
                       | [] => [] | _ :: _ => [script_tag dep_script (resolve (flat_map deps_of kids))] end)
                   ++ flat_map (dep_tags k) (resolve (flat_map deps_of kids))).
  Proof.
    intros Hb HH HRH T St Ah Ax Hf. unfold fill_head in Hf.
    assert (kw : forall h1 h2, keeps [H] h1 h2 -> keeps [R; H] h1 h2).
    { intros h1 h2. apply keeps_weaken. intros z [<-|[]]. right. left. reflexivity. }
    pose proof (lookup_lt _ _ _ (proj2 (proj2 T))) as HL.
    destruct (tagv_distinct _ _ _ _ _ _ _ _ T) as [D1 D2].
    pose proof (lookup_lt _ _ _ (proj1 T)) as HdL.
    pose proof (lookup_lt _ _ _ (proj1 (proj2 T))) as HaL.
    (* the meta tag *)
    destruct (new_tag h3 s_meta true [(s_charset, AStr s_utf8)] []) as [h4 m] eqn:En.
    destruct (new_tag_tagv _ _ _ _ _ _ _ En) as (E4 & -> & Len4 & Tm).
    assert (T4 : tagv h4 head hn hws hal ha H hitems).
    { destruct T as (P1 & P2 & P3). repeat split; eapply ext_lookup_some; eauto. }
    rewrite (kids_update_tagv _ _ _ _ _ _ _ _ _ T4) in Hf.
    remember (VRef (S (S (length h3)))) as mv eqn:Emv.
    set (h5 := store h4 H (OList (mv :: hitems))) in *.
    assert (K45 : keeps [H] h4 h5) by (apply keeps_store; left; reflexivity).
    assert (K35 : keeps [H] h3 h5).
    { eapply keeps_trans; [apply keeps_ext, E4|exact K45]. }
    assert (E5 : ext hb h5). { apply ext_store; [eapply ext_trans; eauto|exact HH]. }
    assert (Len5 : length h5 = length h4) by apply length_store.
    assert (T5 : tagv h5 head hn hws hal ha H (mv :: hitems)) by exact (tagv_store_own _ _ _ _ _ _ _ _ _ T4).
    assert (Sm4 : steady [R; H] h4 mv).
    { exists (length h3), (length h4). split; [|split; [lia|]].
      - rewrite Emv. eapply tagv_leaf_frozen; [exact Tm|intros c []| | |]; lia.
      - intros c [Eq|[Eq|[]]]; lia. }
    assert (Am4 : abs_val 1 h4 mv = Some meta_tag).
    { rewrite Emv. eapply tagv_abs; [exact Tm|reflexivity]. }
    destruct (steady_keeps _ _ _ _ Sm4 (kw _ _ K45)) as [Sm5 Am5].
    destruct (steady_list_keeps _ _ _ _ St (kw _ _ K35)) as [St5 Ah5].
    (* deps = x.get_dependencies() *)
    destruct (get_deps resolve fuel h5 x) as [deps|] eqn:Eg; [|discriminate].
    assert (Hdeps : deps = resolve (flat_map deps_of kids)).
    { unfold get_deps, abs_root, abs in Eg.
      pose proof (abs_ext f hb h5 _ _ E5 Ax) as Ax5.
      destruct (abs_tag_inv _ _ _ _ _ _ _ Ax5) as (xal & xkl & Lx). rewrite Lx in Eg.
      destruct (abs_val fuel h5 (VRef x)) as [t0|] eqn:E0; [|discriminate].
      rewrite (abs_det _ _ _ _ _ _ E0 Ax5) in Eg. cbn in Eg. inversion Eg. reflexivity. }
    rewrite <- Hdeps.
    (* the script tag, when there are dependencies *)
    assert (Mid : forall h6,
               match deps with
               | [] => Some h5
               | _ :: _ =>
                 let (h3', s) := new_tag h5 s_script true [(s_type, AStr s_htmldeps)]
                                         [VText (dep_script deps)] in
                 kids_update h3' head (fun its => its ++ [VRef s])
               end = Some h6 ->
               exists its6 f6,
                 keeps [H] h5 h6 /\ ext hb h6 /\ tagv h6 head hn hws hal ha H its6
                 /\ Forall (steady [R; H] h6) its6
                 /\ abs_list f6 h6 its6
                    = Some (meta_tag :: hk ++ match deps with [] => [] | _ :: _ => [script_tag dep_script deps] end)).
    { intros h6 M. destruct deps as [|d ds].
      - inversion M; subst h6. exists (mv :: hitems), (S fh).
        split; [apply keeps_refl|]. split; [exact E5|]. split; [exact T5|].
        split; [constructor; assumption|].
        rewrite app_nil_r, abs_list_cons.
        rewrite (abs_mono 1 (S fh) h5 mv meta_tag) by first [lia | rewrite Am5; exact Am4].
        rewrite (abs_list_mono fh (S fh) h5 hitems hk) by first [lia | rewrite Ah5; exact Ah].
        reflexivity.
      - destruct (new_tag h5 s_script true [(s_type, AStr s_htmldeps)]
                          [VText (dep_script (d :: ds))]) as [h5' s] eqn:En5.
        destruct (new_tag_tagv _ _ _ _ _ _ _ En5) as (E5' & -> & Len5' & Ts).
        assert (T5' : tagv h5' head hn hws hal ha H (mv :: hitems)).
        { destruct T5 as (P1 & P2 & P3). repeat split; eapply ext_lookup_some; eauto. }
        rewrite (kids_update_tagv _ _ _ _ _ _ _ _ _ T5') in M.
        remember (VRef (S (S (length h5)))) as sv eqn:Esv.
        injection M as Eh6.
        assert (K56' : keeps [H] h5' h6)
          by (rewrite <- Eh6; apply keeps_store; left; reflexivity).
        assert (K56 : keeps [H] h5 h6).
        { eapply keeps_trans; [apply keeps_ext, E5'|exact K56']. }
        assert (Ss : steady [R; H] h5' sv).
        { exists (length h5), (length h5'). split; [|split; [lia|]].
          - rewrite Esv. eapply tagv_leaf_frozen; [exact Ts| | | |]; try lia.
            intros c [<-|[]] l'. discriminate.
          - intros c [Eq|[Eq|[]]]; lia. }
        assert (As : abs_val 2 h5' sv = Some (script_tag dep_script (d :: ds))).
        { rewrite Esv. eapply tagv_abs; [exact Ts|reflexivity]. }
        destruct (steady_keeps _ _ _ _ Ss (kw _ _ K56')) as [Ss6 As6].
        destruct (steady_keeps _ _ _ _ Sm5 (kw _ _ K56)) as [Sm6 Am6].
        destruct (steady_list_keeps _ _ _ _ St5 (kw _ _ K56)) as [St6 Ah6].
        exists ((mv :: hitems) ++ [sv]), (S (S fh)).
        split; [exact K56|].
        split; [rewrite <- Eh6; apply ext_store; [eapply ext_trans; eauto|exact HH]|].
        split; [rewrite <- Eh6; exact (tagv_store_own _ _ _ _ _ _ _ _ _ T5')|].
        split; [apply Forall_app; split; [constructor; assumption|constructor; [exact Ss6|constructor]]|].
        rewrite abs_list_app, !abs_list_cons, abs_list_nil.
        rewrite (abs_mono 1 (S (S fh)) h6 mv meta_tag) by first [lia | rewrite Am6, Am5; exact Am4].
        rewrite (abs_list_mono fh (S (S fh)) h6 hitems hk) by first [lia | rewrite Ah6, Ah5; exact Ah].
        rewrite (abs_mono 2 (S (S fh)) h6 sv (script_tag dep_script (d :: ds)))
          by first [lia | rewrite As6; exact As].
        reflexivity. }
    destruct (match deps with
              | [] => Some h5
              | _ :: _ =>
                let (h3', s) := new_tag h5 s_script true [(s_type, AStr s_htmldeps)]
                                        [VText (dep_script deps)] in
                kids_update h3' head (fun its => its ++ [VRef s])
              end) as [h6|]; [|discriminate].
    destruct (Mid h6 eq_refl) as (its6 & f6 & K56 & E6 & T6 & S6 & A6).
    (* the tags of the dependencies *)
    destruct (alloc_nodes_spec _ (dep_tags_no_custom k deps) h6) as (E7 & F7 & f7 & A7).
    destruct (alloc_nodes h6 (flat_map (dep_tags k) deps)) as [h7 vs]. cbn [fst snd] in *.
    assert (T7 : tagv h7 head hn hws hal ha H its6).
    { destruct T6 as (P1 & P2 & P3). repeat split; eapply ext_lookup_some; eauto. }
    rewrite (kids_update_tagv _ _ _ _ _ _ _ _ _ T7) in Hf. inversion Hf; subst h'. clear Hf.
    set (h8 := store h7 H (OList (its6 ++ vs))).
    assert (K78 : keeps [H] h7 h8) by (apply keeps_store; left; reflexivity).
    pose proof (ext_length _ _ E7) as L7.
    pose proof (proj1 K56) as L56. pose proof (ext_length _ _ E4) as L34.
    assert (Sv7 : Forall (steady [R; H] h7) vs).
    { eapply Forall_impl; [|exact F7]. intros w Fw. exists (length h6), (length h7).
      split; [exact Fw|]. split; [lia|]. intros c [Eq|[Eq|[]]]; lia. }
    destruct (steady_list_keeps _ _ _ _ Sv7 (kw _ _ K78)) as [Sv8 Av8].
    destruct (steady_list_keeps _ _ _ _ S6 (kw _ _ (keeps_trans _ _ _ _ (keeps_ext _ _ _ E7) K78))) as [S68 A68].
    exists (its6 ++ vs), (Nat.max f6 f7).
    split.
    { eapply keeps_trans; [exact K35|]. eapply keeps_trans; [exact K56|].
      eapply keeps_trans; [apply keeps_ext, E7|exact K78]. }
    split; [apply ext_store; [eapply ext_trans; eauto|exact HH]|].
    split; [exact (tagv_store_own _ _ _ _ _ _ _ _ _ T7)|].
    rewrite abs_list_app.
    rewrite (abs_list_mono f6 (Nat.max f6 f7) h8 its6 _ (Nat.le_max_l _ _)) by (rewrite A68; exact A6).
    rewrite (abs_list_mono f7 (Nat.max f6 f7) h8 vs _ (Nat.le_max_r _ _)) by (rewrite Av8; exact A7).
    cbn [app]. rewrite <- app_assoc. reflexivity.
  Qed.

  (* _hoist_head_content refines hoist_pure *)
  Theorem hoist_refines fuel k h x h' res f t :
    hoist resolve dep_script dep_tags fuel k h x = Some (h', res) ->
    abs_val f h (VRef x) = Some t ->
    exists t' f', hoist_pure resolve dep_script dep_tags k t = Some t'
                  /\ abs_val f' h' (VRef res) = Some t'.
  Proof.
    intros H A. unfold hoist in H.
    destruct (lookup h x) as [[name ws xal xkl| | | |]|] eqn:Lx; try discriminate.
    destruct (abs_of_tag_is_tag _ _ _ _ _ _ _ _ Lx A) as (a & kids & ->).
    destruct (abs_tagv _ _ _ _ _ _ _ A) as (al0 & kl0 & items0 & f0 & Tx & A0).
    destruct (negb (str_eqb name s_html)) eqn:Nm; [discriminate|].
    destruct (copy_tag h x) as [[h1 r]|] eqn:Ec; [|discriminate].
    destruct (copy_tag_tagv _ _ _ _ _ _ _ _ _ _ Tx Ec) as (E1 & -> & Len1 & Tr).
    set (res0 := S (S (length h))) in *. set (R := S (length h)) in *.
    destruct (ensure_head h1 res0) as [[h2 hi]|] eqn:Ee; [|discriminate].
    destruct (ensure_head_refines h h1 res0 name ws (length h) a R items0 f0 kids h2 hi
                                  E1 ltac:(unfold R; lia) Tr A0 Ee)
      as (items1 & f1 & K12 & E2 & T2 & A1 & Hhi & St2).
    set (kh := match find_head_pure kids 0 with
               | Some i => (kids, i) | None => (head_tag :: kids, O) end) in *.
    destruct (copy_head h2 res0 hi) as [[h3 head]|] eqn:Eh; [|discriminate].
    destruct (copy_head_refines h h2 res0 name ws (length h) a R items1 f1 (fst kh) hi h3 head
                                E2 ltac:(unfold R; lia) T2 A1 St2 Eh)
      as (hn & hws & ha & hk & hitems & fh & Nk & K23 & E3 & Len3 & -> & T3 & Th & A3 & Hlt
          & St3 & Sh3 & Ah3).
    set (head0 := S (S (length h2))) in *. set (H2 := S (length h2)) in *.
    destruct (fill_head resolve dep_script dep_tags fuel k h3 head0 x) as [h4|] eqn:Ef;
      [|discriminate].
    inversion H; subst h' res. clear H.
    pose proof (ext_length _ _ E1) as L01. pose proof (proj1 K12) as L12.
    destruct (fill_head_refines fuel k h h3 head0 x hn hws (length h2) ha R H2 hitems
                                fh hk f name ws a kids h4
                                E3 ltac:(pose proof (ext_length _ _ E2); unfold H2; lia)
                                ltac:(unfold R, H2; lia) Th Sh3 Ah3 A Ef)
      as (hitems' & fh' & K34 & E4 & Th4 & Ah4).
    set (deps := resolve (flat_map deps_of kids)) in *.
    set (hk' := meta_tag :: hk ++ (match deps with [] => [] | _ :: _ => [script_tag dep_script deps] end)
                         ++ flat_map (dep_tags k) deps) in *.
    (* the result tag in the final heap *)
    assert (T4 : tagv h4 res0 name ws (length h) a R (set_slice hi [VRef head0] items1)).
    { eapply (tagv_keeps [H2]); [exact T3|exact K34| | |]; intros [Eq|[]]; unfold H2, R, res0, head0 in *; lia. }
    assert (K34' : keeps [R; H2] h3 h4).
    { eapply keeps_weaken; [|exact K34]. intros z [<-|[]]. right. left. reflexivity. }
    destruct (steady_list_keeps _ _ _ _ St3 K34') as [_ A34].
    pose proof (tagv_abs _ _ _ _ _ _ _ _ fh' hk' Th4 Ah4) as Ahead.
    set (F := Nat.max f1 (S fh')).
    assert (Aitems : abs_list F h4 (set_slice hi [VRef head0] items1)
                     = Some (slice_nodes hi [TagN hn hws ha hk'] (fst kh))).
    { unfold set_slice, slice_nodes, abs_list. apply omap_set_slice.
      - fold (abs_list F h4 items1). eapply abs_list_mono; [apply Nat.le_max_l|].
        rewrite A34. exact A3.
      - exact Hlt.
      - eapply abs_mono; [apply Nat.le_max_r|exact Ahead]. }
    exists (TagN name ws a (slice_nodes hi [TagN hn hws ha hk'] (fst kh))), (S F).
    split.
    - cbn [hoist_pure]. rewrite Nm. fold kh. rewrite <- Hhi, Nk. reflexivity.
    - eapply tagv_abs; [exact T4|exact Aitems].
  Qed.

  Lemma tag_step_shape rl h l h' r :
    items_spec rl -> tag_step rl h l = Some (h', r) ->
    exists name ws a kl' items',
      tagv h' r name ws (length h) a kl' items'
      /\ Forall (confined (S (length h)) h') items' /\ r = S (S (length h)).
  Proof.
    intros Hrl H. unfold tag_step in H.
    destruct (copy_tag h l) as [[h1 cp]|] eqn:Ec; [|discriminate].
    apply copy_tag_inv in Ec as (name & ws & al & kl & a & items & El & Ea & Ek & -> & ->).
    set (n := length h) in *.
    destruct (lookup3 h (OAttrs a) (OList items) (OTag name ws n (S n))) as (L1 & L2 & L3).
    fold n in L1, L2, L3. rewrite L3, L2 in H.
    set (h1 := h ++ [OAttrs a; OList items; OTag name ws n (S n)]) in *.
    destruct (rl h1 items) as [[h2 kl']|] eqn:Er; [|discriminate].
    inversion H; subst h' r; clear H.
    destruct (Hrl _ _ _ _ Er) as (E12 & Hkl & items' & Lk & Fc & _).
    assert (Len1 : length h1 = S (S (S n))).
    { unfold h1. rewrite app_length. cbn [length]. fold n. lia. }
    pose proof (ext_length _ _ E12) as Len2.
    pose proof (lookup_lt _ _ _ Lk) as Lkl.
    exists name, ws, a, kl', items'. split; [|split; [|reflexivity]].
    - repeat split.
      + apply lookup_store_same. lia.
      + rewrite lookup_store_other by lia. eapply ext_lookup_some; eauto.
      + rewrite lookup_store_other by lia. exact Lk.
    - assert (SA : same_above (S kl') h2 (store h2 (S (S n)) (OTag name ws n kl'))).
      { apply same_above_store. lia. }
      destruct (Forall_confined_transfer _ _ _ _ Fc SA) as [Fc' _].
      eapply Forall_impl; [|exact Fc']. intros v. apply confined_weaken. lia.
  Qed.

  Lemma single_named_eq f h items ts name :
    abs_list f h items = Some ts ->
    match single_tag_named h items name with
    | Some c => items = [VRef c]
                /\ exists n w a k, single_named_pure ts name = Some (TagN n w a k)
                                  /\ abs_val f h (VRef c) = Some (TagN n w a k)
    | None => single_named_pure ts name = None
    end.
  Proof.
    intros A. unfold abs_list in A.
    destruct items as [|v [|v2 rest]]; cbn [omap] in A.
    - inversion A. reflexivity.
    - destruct (abs_val f h v) as [t|] eqn:Ev; [|discriminate]. inversion A; subst ts.
      destruct f as [|f']; [discriminate|]. pose proof Ev as Ev'. rewrite abs_val_S in Ev'.
      destruct v as [s|s|s|c]; cbn [single_tag_named]; try (inversion Ev'; reflexivity).
      destruct (lookup h c) as [[n w al kl| | |p|sh exp]|] eqn:Lc; try discriminate.
      + destruct (lookup h al) as [[|a0| | |]|]; try discriminate.
        destruct (lookup h kl) as [[| |its| |]|]; try discriminate.
        destruct (omap (abs_val f' h) its) as [ks|]; [|discriminate]. inversion Ev'; subst t.
        cbn [single_named_pure]. destruct (str_eqb n name); [|reflexivity].
        split; [reflexivity|]. exists n, w, a0, ks. split; [reflexivity|exact Ev].
      + inversion Ev'. reflexivity.
      + destruct (omap (abs_val f' h) exp); [|discriminate]. inversion Ev'. reflexivity.
    - destruct (abs_val f h v) as [t|]; [|discriminate].
      destruct (abs_val f h v2) as [t2|]; [|discriminate].
      destruct (omap (abs_val f h) rest) as [tr|]; [|discriminate]. inversion A.
      cbn. destruct v as [| | |c]; destruct t; reflexivity.
  Qed.

  (* _gen_html_tag_tree refines gen_tree_pure *)
  Theorem gen_tree_refines fuel k h content items h' html f ts :
    gen_tree upd mk resolve dep_script dep_tags fuel k h content = Some (h', html) ->
    lookup h content = Some (OList items) -> abs_list f h items = Some ts ->
    exists t f', gen_tree_pure upd mk resolve dep_script dep_tags k ts = Some t
                 /\ abs_val f' h' (VRef html) = Some t.
  Proof.
    intros H Lc A. unfold gen_tree in H. rewrite Lc in H. unfold gen_tree_pure.
    pose proof (single_named_eq f h items ts s_html A) as S1.
    destruct (single_tag_named h items s_html) as [c|].
    - destruct S1 as (_ & n & w & a & ks & P1 & Ac). rewrite P1.
      destruct (tag_tagify fuel h c) as [[h1 ht]|] eqn:Et; [|discriminate].
      destruct (tag_tagify_spec fuel _ _ _ _ Et) as (E1 & _ & Rf).
      destruct (Rf f _ Ac) as (t' & St & At). cbn [subst] in St. inversion St; subst t'.
      clear St. cbn [subst].
      destruct (tag_step_shape _ _ _ _ _ (tagify_items_spec fuel) Et)
        as (n1 & w1 & a1 & kl' & items' & T1 & Fc & Hr).
      destruct (abs_tagv _ _ _ _ _ _ _ At) as (al2 & kl2 & its2 & f2 & T2 & A2).
      destruct T1 as (Q1 & Q2 & Q3). destruct T2 as (U1 & U2 & U3).
      rewrite Q1 in U1. inversion U1; subst n1 w1 al2 kl2.
      rewrite Q2 in U2. inversion U2; subst a1. rewrite Q3 in U3. inversion U3; subst its2.
      rewrite Q1, Q2 in H.
      set (h1' := store h1 (length h) (OAttrs (upd k a))) in *.
      assert (T' : tagv h1' ht n w (length h) (upd k a) kl' items').
      { pose proof (lookup_lt _ _ _ Q2). repeat split.
        - unfold h1'. rewrite lookup_store_other; [exact Q1|]. intros ->. congruence.
        - apply lookup_store_same. assumption.
        - unfold h1'. rewrite lookup_store_other; [exact Q3|]. intros ->. congruence. }
      assert (SA : same_above (S (length h)) h1 h1') by (apply same_above_store; lia).
      destruct (Forall_confined_transfer _ _ _ _ Fc SA) as [_ A'].
      pose proof (tagv_abs _ _ _ _ _ _ _ _ f2 _ T' ltac:(rewrite A'; exact A2)) as Aht.
      destruct (hoist_refines fuel k h1' ht h' html _ _ H Aht) as (t' & f' & P & Q).
      exists t', f'. split; [exact P|exact Q].
    - rewrite S1.
      pose proof (single_named_eq f h items ts s_body A) as S2.
      set (bodyt := match single_named_pure ts s_body with
                    | Some b => b | None => TagN s_body true [] ts end).
      destruct (match single_tag_named h items s_body with
                | Some c => (h, c)
                | None => new_tag h s_body true [] items
                end) as [h1 body] eqn:Eb.
      assert (B : ext h h1 /\ exists fb, abs_val fb h1 (VRef body) = Some bodyt).
      { unfold bodyt. destruct (single_tag_named h items s_body) as [c|].
        - destruct S2 as (_ & n & w & a & ks & P1 & Ac). rewrite P1.
          inversion Eb; subst h1 body. split; [apply ext_refl|]. exists f. exact Ac.
        - rewrite S2. destruct (new_tag_tagv _ _ _ _ _ _ _ Eb) as (E1 & _ & _ & T).
          split; [exact E1|]. exists (S f). eapply tagv_abs; [exact T|].
          eapply abs_list_ext; eauto. }
      destruct B as (E1 & fb & Ab).
      destruct (tag_tagify fuel h1 body) as [[h2 body']|] eqn:Et; [|discriminate].
      destruct (tag_tagify_spec fuel _ _ _ _ Et) as (E2 & _ & Rf).
      destruct (Rf fb _ Ab) as (b' & Sb & Ab'). rewrite Sb.
      destruct (new_tag h2 s_head true [] []) as [h3 hd] eqn:En3.
      destruct (new_tag_tagv _ _ _ _ _ _ _ En3) as (E3 & _ & _ & T3).
      destruct (new_tag h3 s_html true (mk k) [VRef hd; VRef body']) as [h4 ht] eqn:En4.
      destruct (new_tag_tagv _ _ _ _ _ _ _ En4) as (E4 & _ & _ & T4).
      pose proof (tagv_abs _ _ _ _ _ _ _ _ fb [] T3 eq_refl) as Ahd.
      assert (A4 : abs_list (S fb) h4 [VRef hd; VRef body'] = Some [head_tag; b']).
      { rewrite !abs_list_cons, abs_list_nil.
        rewrite (abs_ext (S fb) h3 h4 _ _ E4 Ahd).
        rewrite (abs_mono fb (S fb) h4 (VRef body') b'); [reflexivity|lia|].
        eapply abs_ext; [exact (ext_trans _ _ _ E3 E4)|exact Ab']. }
      pose proof (tagv_abs _ _ _ _ _ _ _ _ _ _ T4 A4) as Aht.
      destruct (hoist_refines fuel k h4 ht h' html _ _ H Aht) as (t' & f' & P & Q).
      exists t', f'. split; [exact P|exact Q].
  Qed.

  Notation run_op' := (run_op upd mk resolve dep_script dep_tags).
  Notation run_ops' := (run_ops upd mk resolve dep_script dep_tags).
  Notation pure_op' := (pure_op upd mk resolve dep_script dep_tags).

  Lemma doc_render_obs fuel k h content items h' r f ts :
    doc_render upd mk resolve dep_script dep_tags fuel k h content = Some (h', r) ->
    lookup h content = Some (OList items) -> abs_list f h items = Some ts ->
    exists out, Some out = doc_pure upd mk resolve dep_script dep_tags k (RL ts)
                /\ forall f', observe f' h' r = Some out.
  Proof.
    intros H Lc A. unfold doc_render in H.
    destruct (gen_tree upd mk resolve dep_script dep_tags fuel k h content) as [[h1 ht]|] eqn:Eg;
      [|discriminate].
    destruct (gen_tree_refines _ _ _ _ _ _ _ _ _ Eg Lc A) as (t & f1 & P & At).
    destruct (render resolve fuel h1 ht) as [[h2 [ | | |s d]]|] eqn:Er; try discriminate.
    inversion H; subst h' r. clear H.
    assert (Ar : abs_root f1 h1 ht = Some (RT t)).
    { unfold abs_root, abs. destruct t; try (exfalso; revert P; clear; intros P;
        unfold gen_tree_pure in P; repeat match type of P with
          | context [match ?x with _ => _ end] => destruct x; try discriminate end;
        unfold hoist_pure in P; repeat match type of P with
          | context [match ?x with _ => _ end] => destruct x; try discriminate
          | context [if ?x then _ else _] => destruct x; try discriminate end; fail).
      destruct (abs_tag_inv _ _ _ _ _ _ _ At) as (al & kl & L). rewrite L, At. reflexivity. }
    destruct (run_op_obs upd mk resolve dep_script dep_tags fuel h1 (OpRender ht) h2
                         (RRender s d) f1 (RT t) Er eq_refl Ar) as [O NN].
    cbn [observe pure_op] in O. unfold doc_pure. rewrite P.
    destruct (root_subst (RT t)) as [r'|]; cbn [option_map] in O |- *; [|discriminate].
    inversion O. eexists. split; [reflexivity|]. intros f'. reflexivity.
  Qed.

  (* every operation: the outcome is the pure function of what the receiver denotes *)
  Theorem run_op_obs_all fuel h o h' r f rt :
    run_op' fuel h o = Some (h', r) -> abs_root f h (op_target o) = Some rt ->
    exists f', observe f' h' r = pure_op' o rt /\ pure_op' o rt <> None.
  Proof.
    intros H A. destruct (is_doc o) eqn:Hd.
    - destruct o as [l|l|l i e|l|l|l k|l k]; try discriminate; cbn [run_op op_target pure_op] in *.
      + (* HTMLDocument(x).render() *)
        unfold abs_root, abs in A.
        destruct (lookup h l) as [[n0 w0 a0 k0| |items| |]|] eqn:El; try discriminate.
        * destruct (abs_val f h (VRef l)) as [t|] eqn:At; [|discriminate]. inversion A; subst rt.
          unfold alloc in H.
          destruct (doc_render_obs fuel k (h ++ [OList [VRef l]]) (length h) [VRef l] h' r f [t] H
                                   (lookup_new _ _)) as (out & P & O).
          { rewrite abs_list_cons, abs_list_nil, (abs_ext f h _ _ _ (ext_app _ _) At). reflexivity. }
          exists 0%nat. rewrite (O 0%nat).
          change (doc_pure upd mk resolve dep_script dep_tags k (RT t))
            with (doc_pure upd mk resolve dep_script dep_tags k (RL [t])).
          split; [exact P|]. rewrite <- P. discriminate.
        * destruct (abs_list f h items) as [ts|] eqn:At; [|discriminate]. inversion A; subst rt.
          unfold alloc in H.
          destruct (doc_render_obs fuel k (h ++ [OList items]) (length h) items h' r f ts H
                                   (lookup_new _ _) (abs_list_ext f h _ _ _ (ext_app _ _) At))
            as (out & P & O).
          exists 0%nat. rewrite (O 0%nat). split; [exact P|]. rewrite <- P. discriminate.
      + (* _hoist_head_content *)
        destruct (hoist resolve dep_script dep_tags fuel k h l) as [[h1 r1]|] eqn:Eh; [|discriminate].
        inversion H; subst h' r. clear H.
        unfold abs_root, abs in A.
        destruct (lookup h l) as [[n0 w0 a0 k0| |items| |]|] eqn:El; try discriminate;
          [|unfold hoist in Eh; rewrite El in Eh; discriminate].
        destruct (abs_val f h (VRef l)) as [t|] eqn:At; [|discriminate]. inversion A; subst rt.
        destruct (hoist_refines fuel k h l h1 r1 f t Eh At) as (t' & f' & P & Q).
        exists f'. rewrite P. cbn [option_map observe]. split; [|discriminate].
        unfold abs_root, abs.
        assert (exists n w a ks, t' = TagN n w a ks) as (n & w & a & ks & ->).
        { unfold hoist_pure in P. destruct t; try discriminate.
          destruct (negb (str_eqb name s_html)); [discriminate|].
          destruct (nth_error _ _) as [[| | | |? ? ? ?|]|]; try discriminate.
          inversion P. eauto. }
        destruct (abs_tag_inv _ _ _ _ _ _ _ Q) as (al & kl & L). rewrite L, Q. reflexivity.
    - exists f. exact (run_op_obs upd mk resolve dep_script dep_tags fuel h o h' r f rt H Hd A).
  Qed.

  Theorem run_ops_replay_all fuel os : forall h0 h h' rs,
    ext h0 h -> run_ops' fuel h os = Some (h', rs) ->
    ext h0 h' /\
    Forall2 (fun o r => forall f rt,
                 abs_root f h0 (op_target o) = Some rt ->
                 exists f', observe f' h' r = pure_op' o rt /\ pure_op' o rt <> None) os rs.
  Proof.
    induction os as [|o os IH]; intros h0 h h' rs He H; cbn [run_ops] in H.
    - inversion H; subst. split; [exact He|constructor].
    - destruct (run_op' fuel h o) as [[h1 r]|] eqn:E1; [|discriminate].
      destruct (run_ops' fuel h1 os) as [[h2 rs']|] eqn:E2; [|discriminate].
      inversion H; subst h' rs; clear H.
      pose proof (run_op_ext _ _ _ _ _ _ _ _ _ _ E1) as X1.
      pose proof (run_ops_ext _ _ _ _ _ _ _ _ _ _ E2) as X2.
      destruct (IH h0 h1 h2 rs' (ext_trans _ _ _ He X1) E2) as [X3 F].
      split; [exact X3|]. constructor; [|exact F].
      intros f rt A.
      destruct (run_op_obs_all _ _ _ _ _ f rt E1 (abs_root_ext _ _ _ _ _ He A)) as (f' & O & NN).
      exists f'. split; [|exact NN].
      destruct (pure_op' o rt) as [out|] eqn:P; [|congruence].
      exact (observe_ext upd mk resolve dep_script dep_tags f' h1 h2 r out X2 O).
  Qed.
End DocRefine.

(* the full replay statement of Properties/C08.v *)
Theorem c08_replay_all :
  forall upd mk resolve dep_script dep_tags fuel os h h' rs,
    (forall k p, forallb no_custom (dep_tags k p) = true) ->
    wf h ->
    run_ops upd mk resolve dep_script dep_tags fuel h os = Some (h', rs) ->
    (exists ext, h' = h ++ ext)
    /\ (forall f v, val_ok (length h) v -> abs_val f h' v = abs_val f h v)
    /\ Forall2 (fun o r =>
                  forall f rt, abs_root f h (op_target o) = Some rt ->
                    exists out,
                      pure_op upd mk resolve dep_script dep_tags o rt = Some out
                      /\ (exists f', observe f' h' r = Some out)
                      /\ forall h1 r1,
                          run_op upd mk resolve dep_script dep_tags fuel h o = Some (h1, r1) ->
                          exists f1, observe f1 h1 r1 = Some out) os rs.
Proof.
  intros upd mk resolve dep_script dep_tags fuel os h h' rs Hdt W H.
  destruct (run_ops_replay_all upd mk resolve dep_script dep_tags Hdt fuel os h h h' rs
                               (ext_refl h) H) as [[e ->] F].
  split; [exists e; reflexivity|]. split.
  - intros f v Hv. apply abs_frame_wf; assumption.
  - eapply Forall2_impl'; [|exact F]. intros o r P f rt A.
    destruct (P f rt A) as (f' & O & NN).
    destruct (pure_op upd mk resolve dep_script dep_tags o rt) as [out|] eqn:E; [|congruence].
    exists out. split; [reflexivity|]. split; [exists f'; exact O|].
    intros h1 r1 H1.
    destruct (run_op_obs_all upd mk resolve dep_script dep_tags Hdt fuel h o h1 r1 f rt H1 A)
      as (f1 & O1 & _).
    exists f1. rewrite O1. exact E.
Qed.

(* C11: the document tree built by _gen_html_tag_tree / _hoist_head_content is the
   declarative tree of Spec/DocumentSpec.v; consequences for the head, the rendering and
   the returned dependency list. *)
From Coq Require Import PeanoNat Lia.
From HT Require Import Model.Str Model.Tree Model.Escape Model.Render Model.Tagify Model.Deps
     Model.Attrs Model.Document Gen.Tables
     Spec.ResolveSpec Spec.StripMeta Spec.DocumentSpec
     Proofs.TagifyProofs Proofs.DepsProofs Proofs.RenderMeta.

(* ------------------------------------------------------------------------------------ *)
(* 1. names, the index search                                                            *)
(* ------------------------------------------------------------------------------------ *)
Lemma is_named_tag nm name ws a kids :
  is_named nm (TagN name ws a kids) = true -> name = nm.
Proof. cbn. apply str_eqb_eq. Qed.

Lemma is_named_refl nm ws a kids : is_named nm (TagN nm ws a kids) = true.
Proof. cbn. apply str_eqb_refl. Qed.

Lemma no_head_nil : no_head [].
Proof. intros k []. Qed.

Lemma no_head_cons k l : is_named n_head k = false -> no_head l -> no_head (k :: l).
Proof. intros Hk Hl x [E|Hx]; [subst; exact Hk|exact (Hl x Hx)]. Qed.

Lemma head_index_none l : head_index l = None -> no_head l.
Proof.
  induction l as [|c l IH]; intros H; [exact no_head_nil|].
  cbn [head_index] in H. destruct (is_named n_head c) eqn:E; [discriminate|].
  destruct (head_index l); [discriminate|]. apply no_head_cons; [exact E|apply IH; reflexivity].
Qed.

Lemma head_index_some l : forall i, head_index l = Some i ->
  exists pre hws ha hk post,
    l = pre ++ TagN n_head hws ha hk :: post /\ length pre = i /\ no_head pre.
Proof.
  induction l as [|c l IH]; intros i H; [discriminate|].
  cbn [head_index] in H. destruct (is_named n_head c) eqn:E.
  - injection H as <-. destruct c as [s|s|s|m|name ws a kids|sh ex]; try discriminate.
    apply is_named_tag in E. subst name.
    exists [], ws, a, kids, l. repeat split. exact no_head_nil.
  - destruct (head_index l) as [j|] eqn:Ej; [|discriminate]. injection H as <-.
    destruct (IH j eq_refl) as (pre & hws & ha & hk & post & -> & Hl & Hn).
    exists (c :: pre), hws, ha, hk, post. repeat split.
    + cbn. rewrite Hl. reflexivity.
    + apply no_head_cons; assumption.
Qed.

Lemma head_index_app pre hws ha hk post :
  no_head pre -> head_index (pre ++ TagN n_head hws ha hk :: post) = Some (length pre).
Proof.
  induction pre as [|c pre IH]; intros H.
  - cbn [app head_index]. rewrite is_named_refl. reflexivity.
  - cbn [app head_index length]. rewrite (H c (or_introl eq_refl)).
    rewrite IH; [reflexivity|]. intros x Hx. apply H. right. exact Hx.
Qed.

Lemma no_head_index l : no_head l -> head_index l = None.
Proof.
  induction l as [|c l IH]; intros H; [reflexivity|].
  cbn [head_index]. rewrite (H c (or_introl eq_refl)).
  rewrite IH; [reflexivity|]. intros x Hx. apply H. right. exact Hx.
Qed.

Lemma split_or_none l :
  (exists pre hws ha hk post, l = pre ++ TagN n_head hws ha hk :: post /\ no_head pre)
  \/ no_head l.
Proof.
  destruct (head_index l) as [i|] eqn:E.
  - left. destruct (head_index_some l i E) as (pre & hws & ha & hk & post & H1 & _ & H3).
    exists pre, hws, ha, hk, post. split; assumption.
  - right. apply head_index_none, E.
Qed.

Lemma nth_error_mid {A} (pre : list A) x post : nth_error (pre ++ x :: post) (length pre) = Some x.
Proof. induction pre as [|c pre IH]; [reflexivity|exact IH]. Qed.
Lemma firstn_mid {A} (pre : list A) rest : firstn (length pre) (pre ++ rest) = pre.
Proof. induction pre as [|c pre IH]; [destruct rest; reflexivity|cbn; rewrite IH; reflexivity]. Qed.
Lemma skipn_mid {A} (pre : list A) x post : skipn (S (length pre)) (pre ++ x :: post) = post.
Proof. induction pre as [|c pre IH]; [reflexivity|exact IH]. Qed.

(* ------------------------------------------------------------------------------------ *)
(* 2. hoisting                                                                           *)
(* ------------------------------------------------------------------------------------ *)
Lemma collect_head_empty l : collect (head_empty :: l) = collect l.
Proof. reflexivity. Qed.

Section Hoist.
  Variable tags_of : dep -> list (node dep).

  Lemma hoist_head ws a pre hws ha hk post :
    no_head pre ->
    hoist tags_of (TagN n_html ws a (pre ++ TagN n_head hws ha hk :: post))
    = Ok (TagN n_html ws a
               (pre ++ TagN n_head hws ha
                            (meta_charset :: hk ++ head_block tags_of
                               (resolve (collect (pre ++ TagN n_head hws ha hk :: post))))
                    :: post)).
  Proof.
    intros Hn. unfold hoist. rewrite str_eqb_refl. cbn [negb].
    rewrite (head_index_app pre hws ha hk post Hn).
    rewrite nth_error_mid, firstn_mid, skipn_mid.
    unfold get_dependencies, finish, head_block.
    cbn [app]. rewrite <- !app_assoc. reflexivity.
  Qed.

  Lemma hoist_nohead ws a kids :
    no_head kids ->
    hoist tags_of (TagN n_html ws a kids)
    = Ok (TagN n_html ws a
               (TagN n_head true [] (meta_charset :: head_block tags_of (resolve (collect kids)))
                :: kids)).
  Proof.
    intros Hn. unfold hoist. rewrite str_eqb_refl. cbn [negb].
    rewrite (no_head_index kids Hn).
    unfold get_dependencies, finish, head_block. reflexivity.
  Qed.

  Lemma hoist_new a name ws ba bkids :
    hoist tags_of (TagN n_html true a [head_empty; TagN name ws ba bkids])
    = Ok (TagN n_html true a
               ([] ++ TagN n_head true []
                  (meta_charset :: [] ++ head_block tags_of (resolve (collect bkids)))
                :: [TagN name ws ba bkids])).
  Proof.
    change [head_empty; TagN name ws ba bkids]
      with ([] ++ TagN n_head true [] [] :: [TagN name ws ba bkids]).
    rewrite (hoist_head true a [] true [] [] _ no_head_nil).
    cbn [app]. change (TagN n_head true [] []) with head_empty.
    rewrite collect_head_empty, collect_tag. reflexivity.
  Qed.
End Hoist.

(* ------------------------------------------------------------------------------------ *)
(* 3. the construction cases                                                             *)
(* ------------------------------------------------------------------------------------ *)
Lemma sole_tag_some nm content h :
  sole_tag nm content = Some h ->
  exists ws a kids, content = [TagN nm ws a kids] /\ h = TagN nm ws a kids.
Proof.
  unfold sole_tag. destruct content as [|c [|c2 r]]; try discriminate.
  - destruct c as [s|s|s|m|name ws a kids|sh ex]; try discriminate.
    destruct (str_eqb name nm) eqn:E; [|discriminate]. apply str_eqb_eq in E. subst name.
    intros H. injection H as <-. exists ws, a, kids. split; reflexivity.
  - destruct c; discriminate.
Qed.

Lemma sole_tag_refl nm ws a kids :
  sole_tag nm [TagN nm ws a kids] = Some (TagN nm ws a kids).
Proof. unfold sole_tag. rewrite str_eqb_refl. reflexivity. Qed.

Lemma sole_tag_other nm name ws a kids :
  str_eqb name nm = false -> sole_tag nm [TagN name ws a kids] = None.
Proof. intros H. unfold sole_tag. rewrite H. reflexivity. Qed.

Lemma tagified_tag name ws a kids :
  tagified [TagN name ws a kids] = [TagN name ws a (tagified kids)].
Proof. reflexivity. Qed.

Lemma doc_deps_resolve content : doc_deps content = resolve (collect (tagified content)).
Proof. unfold doc_deps. rewrite <- ver_resolve_is_spec, <- collect_preorder. reflexivity. Qed.

Lemma doc_deps_tag name ws a kids :
  doc_deps [TagN name ws a kids] = resolve (collect (tagified kids)).
Proof. rewrite doc_deps_resolve, tagified_tag, collect_tag. reflexivity. Qed.

Section Tree.
  Variable tags_of : dep -> list (node dep).

  Theorem doc_tree_sound content kw t :
    doc_tree tags_of content kw = Ok t -> spec_doc tags_of content kw t.
  Proof.
    unfold doc_tree. destruct (sole_tag n_html content) as [h|] eqn:Eh.
    - destruct (sole_tag_some _ _ _ Eh) as (ws & a & kids & -> & ->).
      rewrite render_after_tagify.
      destruct (attrs_update a [] kw) as [a' [e|]] eqn:Ea; [discriminate|].
      fold (tagified kids).
      destruct (split_or_none (tagified kids))
        as [(pre & hws & ha & hk & post & Hs & Hn)|Hn].
      + rewrite Hs, (hoist_head tags_of ws a' pre hws ha hk post Hn). intros H. injection H as <-.
        exists ws, a', pre, hws, ha, hk, post. split; [|split].
        * eapply parts_html_head; [reflexivity|exact Hs|exact Hn].
        * eapply attrs_html; [reflexivity|exact Ea].
        * rewrite doc_deps_tag, Hs. reflexivity.
      + rewrite (hoist_nohead tags_of ws a' (tagified kids) Hn). intros H. injection H as <-.
        exists ws, a', [], true, [], [], (tagified kids). split; [|split].
        * eapply parts_html_nohead; [reflexivity|exact Hn].
        * eapply attrs_html; [reflexivity|exact Ea].
        * rewrite doc_deps_tag. reflexivity.
    - destruct (sole_tag n_body content) as [b|] eqn:Eb.
      + destruct (sole_tag_some _ _ _ Eb) as (ws & a & kids & -> & ->).
        rewrite render_after_tagify. fold (tagified kids).
        destruct (reserved_kw kw) eqn:Er; [discriminate|].
        destruct (attrs_new [] kw) as [a'|e] eqn:Ea; [|discriminate].
        rewrite hoist_new. intros H. injection H as <-.
        exists true, a', [], true, [], [], [TagN n_body ws a (tagified kids)]. split; [|split].
        * eapply parts_body. reflexivity.
        * apply attrs_new_html; assumption.
        * rewrite doc_deps_tag. reflexivity.
      + rewrite render_after_tagify. fold (tagified content).
        destruct (reserved_kw kw) eqn:Er; [discriminate|].
        destruct (attrs_new [] kw) as [a'|e] eqn:Ea; [|discriminate].
        rewrite hoist_new. intros H. injection H as <-.
        exists true, a', [], true, [], [], [TagN n_body true [] (tagified content)].
        split; [|split].
        * apply parts_fragment; assumption.
        * apply attrs_new_html; assumption.
        * rewrite doc_deps_resolve. reflexivity.
  Qed.

  Lemma html_not_body : str_eqb n_body n_html = false.
  Proof. reflexivity. Qed.

  Theorem doc_tree_complete content kw t :
    spec_doc tags_of content kw t -> doc_tree tags_of content kw = Ok t.
  Proof.
    intros (ws & a & pre & hws & ha & uhk & post & Hp & Ha & ->).
    unfold doc_tree.
    destruct Hp as [ws a0 kids pre hws ha uhk post Hc Hs Hn
                   |ws a0 kids Hc Hn
                   |ws a0 kids Hc
                   |Hh Hb].
    - subst content. rewrite sole_tag_refl, render_after_tagify. fold (tagified kids).
      destruct Ha as [ws' a1 kids' a' Hc' Hu|a' Hh' _ _].
      + injection Hc' as <- <- <-. rewrite Hu, Hs, (hoist_head tags_of ws a' pre hws ha uhk post Hn).
        rewrite doc_deps_tag, Hs. reflexivity.
      + rewrite sole_tag_refl in Hh'. discriminate.
    - subst content. rewrite sole_tag_refl, render_after_tagify. fold (tagified kids).
      destruct Ha as [ws' a1 kids' a' Hc' Hu|a' Hh' _ _].
      + injection Hc' as <- <- <-. rewrite Hu, (hoist_nohead tags_of ws a' (tagified kids) Hn).
        rewrite doc_deps_tag. reflexivity.
      + rewrite sole_tag_refl in Hh'. discriminate.
    - subst content. rewrite (sole_tag_other n_html n_body ws a0 kids html_not_body).
      rewrite sole_tag_refl, render_after_tagify. fold (tagified kids).
      destruct Ha as [ws' a1 kids' a' Hc' Hu|a' _ Hr Hnew].
      + discriminate.
      + rewrite Hr, Hnew.
        rewrite hoist_new, doc_deps_tag. reflexivity.
    - rewrite Hh, Hb, render_after_tagify. fold (tagified content).
      destruct Ha as [ws' a1 kids' a' Hc' Hu|a' _ Hr Hnew].
      + subst content. rewrite sole_tag_refl in Hh. discriminate.
      + rewrite Hr, Hnew.
        rewrite hoist_new, doc_deps_resolve. reflexivity.
  Qed.
End Tree.

(* ------------------------------------------------------------------------------------ *)
(* 4. errors: only the attribute arguments can be rejected                               *)
(* ------------------------------------------------------------------------------------ *)
Section Errors.
  Variable tags_of : dep -> list (node dep).

  Lemma hoist_html_ok ws a kids : exists t, hoist tags_of (TagN n_html ws a kids) = Ok t.
  Proof.
    destruct (split_or_none kids) as [(pre & hws & ha & hk & post & -> & Hn)|Hn].
    - eexists. apply hoist_head, Hn.
    - eexists. apply hoist_nohead, Hn.
  Qed.

  Theorem doc_tree_error content kw e :
    doc_tree tags_of content kw = Err e -> doc_attr_error content kw e.
  Proof.
    unfold doc_tree. destruct (sole_tag n_html content) as [h|] eqn:Eh.
    - destruct (sole_tag_some _ _ _ Eh) as (ws & a & kids & -> & ->).
      rewrite render_after_tagify.
      destruct (attrs_update a [] kw) as [a' [e'|]] eqn:Ea.
      + intros H. injection H as <-. eapply aerr_html; [reflexivity|exact Ea].
      + destruct (hoist_html_ok ws a' (flat_map subst kids)) as [t ->]. discriminate.
    - destruct (sole_tag n_body content) as [b|] eqn:Eb.
      + destruct (sole_tag_some _ _ _ Eb) as (ws & a & kids & -> & ->).
        rewrite render_after_tagify.
        destruct (reserved_kw kw) eqn:Er.
        * intros H. injection H as <-. apply aerr_reserved; assumption.
        * destruct (attrs_new [] kw) as [a'|e'] eqn:Ea.
          -- rewrite hoist_new. discriminate.
          -- intros H. injection H as <-. apply aerr_new; assumption.
      + rewrite render_after_tagify.
        destruct (reserved_kw kw) eqn:Er.
        * intros H. injection H as <-. apply aerr_reserved; assumption.
        * destruct (attrs_new [] kw) as [a'|e'] eqn:Ea.
          -- rewrite hoist_new. discriminate.
          -- intros H. injection H as <-. apply aerr_new; assumption.
  Qed.
End Errors.

(* ------------------------------------------------------------------------------------ *)
(* 5. the head and its position                                                          *)
(* ------------------------------------------------------------------------------------ *)
Lemma first_head_app pre hws ha hk post :
  no_head pre -> first_head (pre ++ TagN n_head hws ha hk :: post) = Some (TagN n_head hws ha hk).
Proof.
  unfold first_head. induction pre as [|c pre IH]; intros H.
  - cbn [app find]. rewrite is_named_refl. reflexivity.
  - cbn [app find]. rewrite (H c (or_introl eq_refl)). apply IH.
    intros x Hx. apply H. right. exact Hx.
Qed.

Lemma first_head_none l : no_head l -> first_head l = None.
Proof.
  unfold first_head. induction l as [|c l IH]; intros H; [reflexivity|].
  cbn [find]. rewrite (H c (or_introl eq_refl)). apply IH.
  intros x Hx. apply H. right. exact Hx.
Qed.

Lemma count_no_head l : no_head l -> count_named n_head l = O.
Proof.
  unfold count_named. induction l as [|c l IH]; intros H; [reflexivity|].
  cbn [filter]. rewrite (H c (or_introl eq_refl)). apply IH.
  intros x Hx. apply H. right. exact Hx.
Qed.

Lemma count_split pre hws ha X post :
  count_named n_head (pre ++ TagN n_head hws ha X :: post)
  = S (count_named n_head pre + count_named n_head post).
Proof.
  unfold count_named. rewrite filter_app. cbn [filter]. rewrite is_named_refl.
  rewrite app_length. cbn [length]. lia.
Qed.

Lemma body_not_head : str_eqb n_body n_head = false.
Proof. reflexivity. Qed.

Section Head.
  Variable tags_of : dep -> list (node dep).

  Theorem doc_head content kw t :
    doc_tree tags_of content kw = Ok t ->
    exists hws ha,
      first_head (kids_of t)
      = Some (TagN n_head hws ha
                   (meta_charset :: user_head content
                                 ++ head_block tags_of (doc_deps content))).
  Proof.
    intros H. apply doc_tree_sound in H.
    destruct H as (ws & a & pre & hws & ha & uhk & post & Hp & _ & ->).
    exists hws, ha. cbn [kids_of].
    destruct Hp as [ws a0 kids pre hws ha uhk post Hc Hs Hn
                   |ws a0 kids Hc Hn
                   |ws a0 kids Hc
                   |Hh Hb].
    - rewrite (first_head_app pre _ _ _ post Hn). subst content.
      unfold user_head. rewrite sole_tag_refl, Hs, (first_head_app pre _ _ _ post Hn).
      reflexivity.
    - rewrite (first_head_app [] _ _ _ _ no_head_nil). subst content.
      unfold user_head. rewrite sole_tag_refl, (first_head_none _ Hn). reflexivity.
    - rewrite (first_head_app [] _ _ _ _ no_head_nil). subst content.
      unfold user_head. rewrite (sole_tag_other n_html n_body ws a0 kids html_not_body).
      reflexivity.
    - rewrite (first_head_app [] _ _ _ _ no_head_nil).
      unfold user_head. rewrite Hh. reflexivity.
  Qed.

  (* the number of head children: the user's own (html case), but at least one *)
  Theorem doc_head_count content kw t :
    doc_tree tags_of content kw = Ok t ->
    count_named n_head (kids_of t) = Nat.max 1 (count_named n_head (user_html_kids content)).
  Proof.
    intros H. apply doc_tree_sound in H.
    destruct H as (ws & a & pre & hws & ha & uhk & post & Hp & _ & ->).
    cbn [kids_of]. rewrite count_split.
    destruct Hp as [ws a0 kids pre hws ha uhk post Hc Hs Hn
                   |ws a0 kids Hc Hn
                   |ws a0 kids Hc
                   |Hh Hb].
    - subst content. unfold user_html_kids. rewrite sole_tag_refl, Hs, count_split. lia.
    - subst content. unfold user_html_kids. rewrite sole_tag_refl, (count_no_head _ Hn).
      reflexivity.
    - subst content. unfold user_html_kids.
      rewrite (sole_tag_other n_html n_body ws a0 kids html_not_body).
      unfold count_named. cbn [filter is_named]. rewrite body_not_head. reflexivity.
    - unfold user_html_kids. rewrite Hh.
      unfold count_named. cbn [filter is_named]. rewrite body_not_head. reflexivity.
  Qed.

  (* the root element; with a new html element the children are exactly head and body *)
  Theorem doc_root content kw t :
    doc_tree tags_of content kw = Ok t ->
    exists ws a kids,
      t = TagN n_html ws a kids /\ doc_attrs content kw a /\
      (forall ws0 a0 k0, content = [TagN n_html ws0 a0 k0] -> ws = ws0) /\
      (sole_tag n_html content = None ->
       ws = true /\
       kids = [TagN n_head true []
                    (meta_charset :: head_block tags_of (doc_deps content));
               user_body content]).
  Proof.
    intros H. apply doc_tree_sound in H.
    destruct H as (ws & a & pre & hws & ha & uhk & post & Hp & Ha & ->).
    eexists ws, a, _. split; [reflexivity|]. split; [exact Ha|].
    destruct Hp as [ws a0 kids pre hws ha uhk post Hc Hs Hn
                   |ws a0 kids Hc Hn
                   |ws a0 kids Hc
                   |Hh Hb].
    - subst content. split.
      + intros ws0 a1 k0 E. injection E as -> _ _. reflexivity.
      + rewrite sole_tag_refl. discriminate.
    - subst content. split.
      + intros ws0 a1 k0 E. injection E as -> _ _. reflexivity.
      + rewrite sole_tag_refl. discriminate.
    - subst content. split.
      + intros ws0 a1 k0 E. discriminate.
      + intros _. split; [reflexivity|]. unfold user_body. rewrite sole_tag_refl. reflexivity.
    - split.
      + intros ws0 a1 k0 E. subst content. rewrite sole_tag_refl in Hh. discriminate.
      + intros _. split; [reflexivity|]. unfold user_body. rewrite Hb. reflexivity.
  Qed.
End Head.

(* ------------------------------------------------------------------------------------ *)
(* 6. metadata: nothing of a dependency outside the head block                           *)
(* ------------------------------------------------------------------------------------ *)
Lemma meta_free_not_meta (n : node dep) : meta_free n = true -> is_meta n = false.
Proof. destruct n; cbn; congruence. Qed.

Lemma meta_free_strip (n : node dep) : meta_free n = true -> strip_meta n = n.
Proof.
  induction n as [s|s|s|m|name ws a kids IH|sh ex _] using node_ind'; intros H;
    try reflexivity.
  rewrite strip_meta_tag. f_equal. cbn [meta_free] in H.
  induction IH as [|k l Hk _ IHl]; [reflexivity|].
  cbn [forallb] in H. apply andb_true_iff in H. destruct H as [H1 H2].
  cbn [strip_list]. rewrite (meta_free_not_meta k H1), (Hk H1), (IHl H2). reflexivity.
Qed.

Lemma strip_list_id (l : list (node dep)) : forallb meta_free l = true -> strip_list l = l.
Proof.
  induction l as [|k l IH]; intros H; [reflexivity|].
  cbn [forallb] in H. apply andb_true_iff in H. destruct H as [H1 H2].
  cbn [strip_list]. rewrite (meta_free_not_meta k H1), (meta_free_strip k H1), (IH H2).
  reflexivity.
Qed.

Lemma meta_free_metas (n : node dep) : meta_free n = true -> metas_of n = [].
Proof.
  induction n as [s|s|s|m|name ws a kids IH|sh ex _] using node_ind'; intros H;
    try reflexivity; try discriminate.
  cbn [metas_of]. cbn [meta_free] in H.
  induction IH as [|k l Hk _ IHl]; [reflexivity|].
  cbn [forallb] in H. apply andb_true_iff in H. destruct H as [H1 H2].
  cbn [flat_map]. rewrite (Hk H1), (IHl H2). reflexivity.
Qed.

Lemma meta_free_collect (l : list (node dep)) : forallb meta_free l = true -> collect l = [].
Proof.
  rewrite collect_preorder. unfold preorder.
  induction l as [|k l IH]; intros H; [reflexivity|].
  cbn [forallb] in H. apply andb_true_iff in H. destruct H as [H1 H2].
  cbn [flat_map]. rewrite (meta_free_metas k H1), (IH H2). reflexivity.
Qed.

Lemma listing_meta_free deps : forallb meta_free (listing deps) = true.
Proof. destruct deps; reflexivity. Qed.

Lemma listing_no_custom deps : forallb no_custom (listing deps) = true.
Proof. destruct deps; reflexivity. Qed.

Lemma flat_map_forallb {A B} (p : B -> bool) (f : A -> list B) l :
  (forall x, forallb p (f x) = true) -> forallb p (flat_map f l) = true.
Proof.
  intros H. induction l as [|x l IH]; [reflexivity|].
  cbn [flat_map]. rewrite forallb_app, (H x), IH. reflexivity.
Qed.

Lemma head_block_meta_free tags_of deps :
  (forall d, forallb meta_free (tags_of d) = true) ->
  forallb meta_free (head_block tags_of deps) = true.
Proof.
  intros H. unfold head_block. rewrite forallb_app, listing_meta_free.
  apply flat_map_forallb, H.
Qed.

Lemma head_block_no_custom tags_of deps :
  (forall d, forallb no_custom (tags_of d) = true) ->
  forallb no_custom (head_block tags_of deps) = true.
Proof.
  intros H. unfold head_block. rewrite forallb_app, listing_no_custom.
  apply flat_map_forallb, H.
Qed.

Lemma strip_doc ws a pre hws ha uhk block post :
  forallb meta_free block = true ->
  strip_meta (TagN n_html ws a (pre ++ TagN n_head hws ha (meta_charset :: uhk ++ block) :: post))
  = TagN n_html ws a
         (strip_list pre ++ TagN n_head hws ha (meta_charset :: strip_list uhk ++ block)
                     :: strip_list post).
Proof.
  intros Hb. rewrite strip_meta_tag, strip_list_app. f_equal. f_equal.
  cbn [strip_list is_meta]. f_equal. rewrite strip_meta_tag. f_equal.
  cbn [strip_list is_meta meta_charset]. f_equal.
  rewrite strip_list_app, (strip_list_id block Hb). reflexivity.
Qed.

Lemma collect_meta_charset l : collect (meta_charset :: l) = collect l.
Proof. reflexivity. Qed.

Lemma collect_with_block pre hws ha uhk block post :
  forallb meta_free block = true ->
  collect (pre ++ TagN n_head hws ha (meta_charset :: uhk ++ block) :: post)
  = collect (pre ++ TagN n_head hws ha uhk :: post).
Proof.
  intros Hb. rewrite !collect_app. f_equal.
  change (TagN n_head hws ha (meta_charset :: uhk ++ block) :: post)
    with ([TagN n_head hws ha (meta_charset :: uhk ++ block)] ++ post).
  change (TagN n_head hws ha uhk :: post) with ([TagN n_head hws ha uhk] ++ post).
  rewrite !collect_app, !collect_tag, collect_meta_charset, collect_app,
    (meta_free_collect block Hb), app_nil_r. reflexivity.
Qed.

Lemma parts_collect content ws pre hws ha uhk post :
  doc_parts content ws pre hws ha uhk post ->
  collect (pre ++ TagN n_head hws ha uhk :: post) = collect (tagified content).
Proof.
  intros Hp.
  destruct Hp as [ws a0 kids pre hws ha uhk post Hc Hs Hn
                 |ws a0 kids Hc Hn
                 |ws a0 kids Hc
                 |Hh Hb].
  - subst content. rewrite tagified_tag, collect_tag, Hs. reflexivity.
  - subst content. rewrite tagified_tag, collect_tag. reflexivity.
  - subst content. rewrite tagified_tag. reflexivity.
  - cbn [app]. change (TagN n_head true [] []) with head_empty.
    rewrite collect_head_empty, collect_tag. reflexivity.
Qed.

Lemma exp_expanded_tag name ws a (kids : list (node dep)) :
  forallb exp_expanded [TagN name ws a kids] = true -> forallb exp_expanded kids = true.
Proof. cbn [forallb exp_expanded]. rewrite andb_true_r. exact (fun H => H). Qed.

Lemma parts_no_custom content ws pre hws ha uhk post :
  forallb exp_expanded content = true ->
  doc_parts content ws pre hws ha uhk post ->
  forallb no_custom pre = true /\ forallb no_custom uhk = true /\ forallb no_custom post = true.
Proof.
  intros He Hp.
  destruct Hp as [ws a0 kids pre hws ha uhk post Hc Hs Hn
                 |ws a0 kids Hc Hn
                 |ws a0 kids Hc
                 |Hh Hb].
  - subst content. apply exp_expanded_tag in He.
    pose proof (subst_list_result_no_custom kids He) as Hk. fold (tagified kids) in Hk.
    rewrite Hs, forallb_app in Hk. apply andb_true_iff in Hk. destruct Hk as [H1 H2].
    cbn [forallb no_custom] in H2. apply andb_true_iff in H2. destruct H2 as [H2 H3].
    repeat split; assumption.
  - subst content. apply exp_expanded_tag in He.
    pose proof (subst_list_result_no_custom kids He) as Hk.
    repeat split; try reflexivity. exact Hk.
  - subst content. apply exp_expanded_tag in He.
    pose proof (subst_list_result_no_custom kids He) as Hk. fold (tagified kids) in Hk.
    repeat split; try reflexivity. cbn [forallb no_custom]. rewrite Hk. reflexivity.
  - pose proof (subst_list_result_no_custom content He) as Hk. fold (tagified content) in Hk.
    repeat split; try reflexivity. cbn [forallb no_custom]. rewrite Hk. reflexivity.
Qed.

Section Once.
  Variable tags_of : dep -> list (node dep).

  Theorem doc_once content kw t :
    (forall d, forallb meta_free (tags_of d) = true) ->
    doc_tree tags_of content kw = Ok t ->
    exists ws a pre hws ha uhk post,
      doc_parts content ws pre hws ha uhk post /\
      t = TagN n_html ws a
               (pre ++ TagN n_head hws ha
                            (meta_charset :: uhk ++ listing (doc_deps content)
                               ++ flat_map tags_of (doc_deps content))
                    :: post) /\
      NoDup (map dname (doc_deps content)) /\
      strip_meta t
      = TagN n_html ws a
             (strip_list pre ++ TagN n_head hws ha
                          (meta_charset :: strip_list uhk ++ listing (doc_deps content)
                             ++ flat_map tags_of (doc_deps content))
                  :: strip_list post) /\
      meta_free (strip_meta t) = true /\
      (forall i eol, render_tag i eol t = render_tag i eol (strip_meta t)).
  Proof.
    intros Hm H. apply doc_tree_sound in H.
    destruct H as (ws & a & pre & hws & ha & uhk & post & Hp & _ & ->).
    exists ws, a, pre, hws, ha, uhk, post.
    split; [exact Hp|]. split; [reflexivity|].
    split; [rewrite doc_deps_resolve; apply ver_resolve_unique|].
    split; [apply strip_doc, head_block_meta_free, Hm|].
    split; [apply strip_meta_free; reflexivity|].
    intros i eol. symmetry. apply render_strip_meta.
  Qed.

  Theorem doc_tree_deps content kw t :
    (forall d, forallb meta_free (tags_of d) = true) ->
    doc_tree tags_of content kw = Ok t ->
    resolve (collect (kids_of t)) = doc_deps content.
  Proof.
    intros Hm H. apply doc_tree_sound in H.
    destruct H as (ws & a & pre & hws & ha & uhk & post & Hp & _ & ->).
    cbn [kids_of].
    rewrite (collect_with_block pre hws ha uhk _ post
               (head_block_meta_free tags_of (doc_deps content) Hm)).
    rewrite (parts_collect _ _ _ _ _ _ _ Hp), doc_deps_resolve. reflexivity.
  Qed.

  Lemma doc_tree_no_custom content kw t :
    (forall d, forallb no_custom (tags_of d) = true) ->
    forallb exp_expanded content = true ->
    doc_tree tags_of content kw = Ok t ->
    no_custom t = true.
  Proof.
    intros Hc He H. apply doc_tree_sound in H.
    destruct H as (ws & a & pre & hws & ha & uhk & post & Hp & _ & ->).
    destruct (parts_no_custom _ _ _ _ _ _ _ He Hp) as (H1 & H2 & H3).
    cbn [no_custom]. rewrite forallb_app, H1. cbn [forallb no_custom andb].
    rewrite H3, andb_true_r. change (no_custom meta_charset) with true. cbn [andb].
    rewrite forallb_app, H2. apply head_block_no_custom, Hc.
  Qed.

  Theorem doc_render_spec content kw t :
    (forall d, forallb no_custom (tags_of d) = true) ->
    forallb exp_expanded content = true ->
    doc_tree tags_of content kw = Ok t ->
    exists s,
      tag_html O nl t = Ok s /\
      doc_render tags_of content kw = Ok (resolve (collect (kids_of t)), doctype ++ s).
  Proof.
    intros Hc He H. pose proof (doc_tree_no_custom content kw t Hc He H) as Hn.
    assert (Ht : is_tag t = true).
    { apply doc_tree_sound in H.
      destruct H as (ws & a & pre & hws & ha & uhk & post & _ & _ & ->). reflexivity. }
    destruct (render_expanded_ok t O nl Ht (no_custom_expanded t Hn)) as [ps Hps].
    exists (pieces_str ps). unfold tag_html. rewrite Hps. split; [reflexivity|].
    unfold doc_render. rewrite H, tag_tagify_subst, (subst_no_custom t Hn).
    destruct t as [s|s|s|m|name ws a kids|sh ex]; try discriminate.
    unfold tag_get_dependencies, get_dependencies, finish, tag_html. rewrite Hps.
    reflexivity.
  Qed.

  Theorem doc_render_error content kw e :
    doc_tree tags_of content kw = Err e -> doc_render tags_of content kw = Err e.
  Proof. intros H. unfold doc_render. rewrite H. reflexivity. Qed.
End Once.

(* ------------------------------------------------------------------------------------ *)
(* 7. what render() returns                                                              *)
(* ------------------------------------------------------------------------------------ *)
Section Returned.
  Variable tags_of : dep -> list (node dep).

  Theorem doc_returned content kw deps html :
    (forall d, forallb meta_free (tags_of d) = true) ->
    (forall d, forallb no_custom (tags_of d) = true) ->
    forallb exp_expanded content = true ->
    doc_render tags_of content kw = Ok (deps, html) ->
    deps = doc_deps content /\
    exists t s hws ha,
      doc_tree tags_of content kw = Ok t /\
      tag_html O nl t = Ok s /\
      html = doctype ++ s /\
      first_head (kids_of t)
      = Some (TagN n_head hws ha
                   (meta_charset :: user_head content
                                 ++ listing deps ++ flat_map tags_of deps)).
  Proof.
    intros Hm Hc He Hr.
    destruct (doc_tree tags_of content kw) as [t|e] eqn:Ht.
    - destruct (doc_render_spec tags_of content kw t Hc He Ht) as (s & Hs & Hr').
      rewrite Hr' in Hr. injection Hr as <- <-.
      rewrite (doc_tree_deps tags_of content kw t Hm Ht).
      split; [reflexivity|].
      destruct (doc_head tags_of content kw t Ht) as (hws & ha & Hh).
      exists t, s, hws, ha. repeat split; try assumption.
    - rewrite (doc_render_error tags_of content kw e Ht) in Hr. discriminate.
  Qed.
End Returned.

(* ------------------------------------------------------------------------------------ *)
(* 8. literals, as_html_tags, head_content                                               *)
(* ------------------------------------------------------------------------------------ *)
Lemma as_html_tags_parts m :
  as_html_tags m = mu_metas m ++ mu_links m ++ mu_scripts m ++ mu_head m.
Proof. unfold as_html_tags. cbn. rewrite app_nil_r. reflexivity. Qed.

Lemma fixed_tag_attrs :
  attrs_new [] [(k_charset, VStr v_utf8)] = Ok [(k_charset, AStr v_utf8)] /\
  attrs_new [] [(k_type, VStr v_deps_type)] = Ok [(k_type, AStr v_deps_type)] /\
  attrs_new [] [] = Ok [].
Proof. repeat split; reflexivity. Qed.

Lemma listing_shape :
  listing [] = [] /\
  forall d l,
    listing (d :: l)
    = [TagN n_script true [(k_type, AStr v_deps_type)]
            [Text (join [59] (map (fun x => dname x ++ [91] ++ ver_text (dver x) ++ [93])
                                  (d :: l)))]].
Proof. split; reflexivity. Qed.

Lemma head_content_spec H args id d m :
  head_content_dep H args id = Ok (d, m) ->
  exists s, list_html O nl true true args = Ok s /\
            dname d = headcontent_prefix ++ H s /\ dver d = [0; 0] /\ did d = id /\
            as_html_tags m = args.
Proof.
  unfold head_content_dep, head_content_src.
  destruct (list_html O nl true true args) as [s|e]; [|discriminate].
  intros E. injection E as <- <-. exists s. repeat split.
  rewrite as_html_tags_parts. reflexivity.
Qed.

Lemma doc_head_one tags_of content kw t :
  doc_tree tags_of content kw = Ok t ->
  (count_named n_head (user_html_kids content) <= 1)%nat ->
  count_named n_head (kids_of t) = 1%nat.
Proof.
  intros H Hle. rewrite (doc_head_count tags_of content kw t H). lia.
Qed.

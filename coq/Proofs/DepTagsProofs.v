(* Proofs about the markup one dependency contributes (Model/DepTags.v): as_dict item by item,
   the shape and attributes of the generated tags, rel = stylesheet, refinement to the
   specification spec_html_tags, the bridge to the document theorems of C11 and to the URLs of
   C12, and the rendering of the generated tags. *)
From Coq Require Import Lia.
From HT Require Import Model.Str Model.Tree Model.Escape Model.Render Model.Tagify Model.Deps
     Model.Attrs Model.Paths Model.Document Model.DepTags Gen.Tables
     Spec.AttrsSpec Spec.StripMeta Spec.ResolveSpec Spec.DocumentSpec
     Proofs.AttrsProofs Proofs.TagifyProofs Proofs.RenderLoop Proofs.DocumentProofs.

(* ------------------------------------------------------------------------------------ *)
(* 1. map_res                                                                            *)
(* ------------------------------------------------------------------------------------ *)
Lemma map_res_Forall2 {T U} (f : T -> res U) l l' :
  map_res f l = Ok l' <-> Forall2 (fun x y => f x = Ok y) l l'.
Proof.
  revert l'. induction l as [|x l IH]; intros l'; simpl.
  - split; intros H.
    + injection H as <-. constructor.
    + inversion H. reflexivity.
  - split; intros H.
    + destruct (f x) as [y|e] eqn:E; [|discriminate].
      destruct (map_res f l) as [ys|e] eqn:E2; [|discriminate].
      injection H as <-. constructor; [exact E|]. apply IH. reflexivity.
    + inversion H as [|? y ? ys Hx Hl]; subst. rewrite Hx.
      apply IH in Hl. rewrite Hl. reflexivity.
Qed.

Lemma map_res_ext {T U} (f g : T -> res U) l :
  (forall x, In x l -> f x = g x) -> map_res f l = map_res g l.
Proof.
  induction l as [|x l IH]; intros H; simpl; [reflexivity|].
  rewrite (H x (or_introl eq_refl)), IH; [reflexivity|].
  intros y Hy. apply H. right. exact Hy.
Qed.

Lemma map_res_map {T U V} (f : U -> res V) (h : T -> U) l :
  map_res f (map h l) = map_res (fun x => f (h x)) l.
Proof.
  induction l as [|x l IH]; simpl; [reflexivity|]. rewrite IH. reflexivity.
Qed.

Lemma map_res_ok {T U} (f : T -> res U) (g : T -> U) l :
  (forall x, In x l -> f x = Ok (g x)) -> map_res f l = Ok (map g l).
Proof.
  induction l as [|x l IH]; intros H; simpl; [reflexivity|].
  rewrite (H x (or_introl eq_refl)), IH; [reflexivity|].
  intros y Hy. apply H. right. exact Hy.
Qed.

Lemma Forall2_length' {A B} (R : A -> B -> Prop) l l' : Forall2 R l l' -> length l = length l'.
Proof. induction 1; simpl; congruence. Qed.

(* ------------------------------------------------------------------------------------ *)
(* 2. item dicts                                                                         *)
(* ------------------------------------------------------------------------------------ *)
Lemma iget_None k d : iget k d = None <-> ~ In k (map fst d).
Proof.
  induction d as [|[k' v] d IH]; simpl; [tauto|].
  destruct (str_eqb_spec k k') as [->|Hn].
  - split; [discriminate|]. intros H. exfalso. apply H. left. reflexivity.
  - rewrite IH. split; intros H; [intros [E|E]; [congruence|tauto]|tauto].
Qed.

Lemma ihas_In k d : ihas k d = true <-> In k (map fst d).
Proof.
  unfold ihas. destruct (iget k d) eqn:E.
  - split; [|reflexivity]. intros _.
    destruct (in_dec (list_eq_dec N.eq_dec) k (map fst d)) as [H|H]; [exact H|].
    apply iget_None in H. congruence.
  - split; [discriminate|]. intros H. apply iget_None in E. contradiction.
Qed.

Lemma ihas_false k d : ihas k d = false <-> ~ In k (map fst d).
Proof.
  rewrite <- ihas_In. destruct (ihas k d); split; intros H.
  - discriminate.
  - exfalso. apply H. reflexivity.
  - discriminate.
  - reflexivity.
Qed.

Lemma iget_Some_In k d v : iget k d = Some v -> In k (map fst d).
Proof. intros H. apply ihas_In. unfold ihas. rewrite H. reflexivity. Qed.

Lemma iget_In k d v : iget k d = Some v -> In (k, v) d.
Proof.
  induction d as [|[k' v'] d IH]; simpl; [discriminate|].
  destruct (str_eqb_spec k k') as [->|Hn].
  - intros H. injection H as <-. left. reflexivity.
  - intros H. right. apply IH. exact H.
Qed.

Lemma In_iget k v d : NoDup (map fst d) -> In (k, v) d -> iget k d = Some v.
Proof.
  induction d as [|[k' v'] d IH]; simpl; intros Hnd Hin; [destruct Hin|].
  inversion Hnd as [|? ? Hk Hd]; subst.
  destruct Hin as [E|Hin].
  - injection E as -> ->. rewrite str_eqb_refl. reflexivity.
  - destruct (str_eqb_spec k k') as [->|Hn]; [|apply IH; assumption].
    exfalso. apply Hk. apply in_map_iff. exists (k', v). split; [reflexivity|exact Hin].
Qed.

(* the pointwise form of an assignment *)
Definition repl (k : str) (v : attrarg) (kv : str * attrarg) : str * attrarg :=
  if str_eqb k (fst kv) then (fst kv, v) else kv.

Lemma repl_fst k v kv : fst (repl k v kv) = fst kv.
Proof. unfold repl. destruct (str_eqb k (fst kv)); reflexivity. Qed.

Lemma map_repl_absent k v d : ~ In k (map fst d) -> map (repl k v) d = d.
Proof.
  induction d as [|[k' v'] d IH]; simpl; intros H; [reflexivity|].
  unfold repl at 1. simpl. rewrite str_eqb_neq by (intros ->; apply H; left; reflexivity).
  rewrite IH; [reflexivity|]. intros Hin. apply H. right. exact Hin.
Qed.

Lemma iset_present k v d :
  NoDup (map fst d) -> In k (map fst d) -> iset k v d = map (repl k v) d.
Proof.
  induction d as [|[k' v'] d IH]; simpl; intros Hnd Hin; [destruct Hin|].
  inversion Hnd as [|? ? Hk Hd]; subst. unfold repl at 1. simpl.
  destruct (str_eqb_spec k k') as [->|Hn].
  - rewrite map_repl_absent by exact Hk. reflexivity.
  - f_equal. apply IH; [exact Hd|]. destruct Hin as [E|Hin]; [congruence|exact Hin].
Qed.

Lemma iset_absent k v d : ~ In k (map fst d) -> iset k v d = d ++ [(k, v)].
Proof.
  induction d as [|[k' v'] d IH]; simpl; intros H; [reflexivity|].
  rewrite str_eqb_neq by (intros ->; apply H; left; reflexivity).
  rewrite IH; [reflexivity|]. intros Hin. apply H. right. exact Hin.
Qed.

Lemma keys_map_repl k v d : map fst (map (repl k v) d) = map fst d.
Proof. rewrite map_map. apply map_ext. intros kv. apply repl_fst. Qed.

Lemma iget_app k a b :
  iget k (a ++ b) = match iget k a with Some v => Some v | None => iget k b end.
Proof.
  induction a as [|[k' v'] a IH]; simpl; [reflexivity|].
  destruct (str_eqb k k'); [reflexivity|exact IH].
Qed.

Lemma iget_map_entry (f : str * attrarg -> str * attrarg) k d :
  (forall kv, fst (f kv) = fst kv) ->
  iget k (map f d) = match iget k d with Some v => Some (snd (f (k, v))) | None => None end.
Proof.
  intros Hf. induction d as [|[k' v'] d IH]; simpl; [reflexivity|].
  pose proof (Hf (k', v')) as E. destruct (f (k', v')) as [k2 v2] eqn:Ef. simpl in E. subst k2.
  destruct (str_eqb_spec k k') as [->|Hn]; [rewrite Ef; reflexivity|exact IH].
Qed.

Lemma idel_absent k d : iget k d = None -> idel k d = d.
Proof.
  intros H. apply iget_None in H. unfold idel.
  induction d as [|[k' v'] d IH]; simpl; [reflexivity|].
  simpl in H. rewrite str_eqb_neq by (intros ->; apply H; left; reflexivity). simpl.
  rewrite IH; [reflexivity|]. intros Hin. apply H. right. exact Hin.
Qed.

Lemma idel_In k d kv : In kv (idel k d) <-> In kv d /\ fst kv <> k.
Proof.
  unfold idel. rewrite filter_In. split; intros [H1 H2]; (split; [exact H1|]).
  - intros E. rewrite <- E, str_eqb_refl in H2. discriminate.
  - rewrite str_eqb_neq by congruence. reflexivity.
Qed.

Lemma idel_keys_incl k d x : In x (map fst (idel k d)) -> In x (map fst d).
Proof.
  rewrite !in_map_iff. intros [kv [E H]]. apply idel_In in H. exists kv. tauto.
Qed.

Lemma idel_NoDup k d : NoDup (map fst d) -> NoDup (map fst (idel k d)).
Proof.
  unfold idel. induction d as [|[k' v'] d IH]; simpl; intros H; [constructor|].
  inversion H as [|? ? Hk Hd]; subst.
  destruct (negb (str_eqb k k')); simpl; [|apply IH; exact Hd].
  constructor; [|apply IH; exact Hd]. intros Hin. apply Hk.
  apply (idel_keys_incl k d). exact Hin.
Qed.

Lemma iget_idel_other k k' d : k <> k' -> iget k (idel k' d) = iget k d.
Proof.
  intros Hn. unfold idel. induction d as [|[k2 v2] d IH]; simpl; [reflexivity|].
  destruct (str_eqb_spec k' k2) as [->|H2]; simpl.
  - rewrite (str_eqb_neq k k2) by exact Hn. exact IH.
  - destruct (str_eqb k k2); [reflexivity|exact IH].
Qed.

(* ------------------------------------------------------------------------------------ *)
(* 3. as_dict, item by item                                                              *)
(* ------------------------------------------------------------------------------------ *)
Lemma quote_arg_ok v q :
  quote_arg v = Ok q -> exists h, v = VStr h /\ forallb scalar h = true /\ q = quote h.
Proof.
  destruct v; simpl; try discriminate. unfold quote_py.
  destruct (forallb scalar s) eqn:E; [|discriminate].
  intros H. injection H as <-. exists s. split; [reflexivity|]. split; [exact E|reflexivity].
Qed.

Lemma url_item_ok key base s u :
  url_item key base s = Ok u ->
  exists h, iget key s = Some (VStr h) /\ forallb scalar h = true /\ u = pjoin base (quote h).
Proof.
  unfold url_item. destruct (iget key s) as [v|] eqn:E; [|discriminate].
  destruct (quote_arg v) as [q|e] eqn:Q; [|discriminate]. simpl.
  intros H. injection H as <-. destruct (quote_arg_ok v q Q) as (h & -> & Hs & ->).
  exists h. repeat split; assumption.
Qed.

Lemma rel_not_href : str_eqb k_rel k_href = false.
Proof. reflexivity. Qed.
Lemma rel_not_src : str_eqb k_rel k_src = false.
Proof. reflexivity. Qed.

(* the two assignments of a stylesheet item, pointwise *)
Lemma spec_entry_sheet u kv :
  repl k_rel (VStr v_stylesheet) (repl k_href (VStr u) kv) = spec_entry k_href u true kv.
Proof.
  unfold repl, spec_entry. destruct (str_eqb_spec k_href (fst kv)) as [E|Hn]; simpl.
  - rewrite <- E. reflexivity.
  - destruct (str_eqb k_rel (fst kv)); reflexivity.
Qed.

Lemma spec_entry_fst key u b kv : fst (spec_entry key u b kv) = fst kv.
Proof.
  unfold spec_entry. destruct (str_eqb key (fst kv)); [reflexivity|].
  destruct (b && str_eqb k_rel (fst kv)); reflexivity.
Qed.

Lemma sheet_item_spec base s s' :
  dict_ok s -> sheet_item base s = Ok s' ->
  exists h, iget k_href s = Some (VStr h) /\ forallb scalar h = true /\
            s' = spec_sheet (pjoin base (quote h)) s.
Proof.
  unfold dict_ok, sheet_item. intros Hnd H.
  destruct (url_item k_href base s) as [u|e] eqn:U; [|discriminate].
  injection H as <-. destruct (url_item_ok _ _ _ _ U) as (h & Hg & Hs & ->).
  exists h. split; [exact Hg|]. split; [exact Hs|].
  pose proof (iget_Some_In _ _ _ Hg) as Hin.
  rewrite (iset_present k_href) by assumption.
  set (u := pjoin base (quote h)). unfold spec_sheet.
  destruct (ihas k_rel s) eqn:R.
  - apply ihas_In in R. rewrite iset_present.
    + rewrite map_map, app_nil_r. apply map_ext. intros kv. apply spec_entry_sheet.
    + rewrite keys_map_repl. exact Hnd.
    + rewrite keys_map_repl. exact R.
  - apply ihas_false in R. rewrite iset_absent by (rewrite keys_map_repl; exact R).
    f_equal. apply map_ext_in. intros kv Hkv. rewrite <- spec_entry_sheet. symmetry.
    pose proof (repl_fst k_href (VStr u) kv) as Hf.
    set (x := repl k_href (VStr u) kv) in *. unfold repl.
    rewrite str_eqb_neq; [reflexivity|]. rewrite Hf. intros E. apply R. rewrite E.
    apply in_map. exact Hkv.
Qed.

Lemma script_item_spec base s s' :
  dict_ok s -> script_item base s = Ok s' ->
  exists h, iget k_src s = Some (VStr h) /\ forallb scalar h = true /\
            s' = spec_script (pjoin base (quote h)) s.
Proof.
  unfold dict_ok, script_item. intros Hnd H.
  destruct (url_item k_src base s) as [u|e] eqn:U; [|discriminate].
  injection H as <-. destruct (url_item_ok _ _ _ _ U) as (h & Hg & Hs & ->).
  exists h. split; [exact Hg|]. split; [exact Hs|].
  rewrite (iset_present k_src) by (try assumption; eapply iget_Some_In; exact Hg).
  unfold spec_script. apply map_ext. intros kv. unfold repl, spec_entry. simpl.
  reflexivity.
Qed.

(* what as_dict returns *)
Lemma as_dict_items d lp iv r :
  Forall dict_ok (dd_sheets d) -> Forall dict_ok (dd_scripts d) ->
  dep_as_dict d lp iv = Ok r ->
  Forall2 (fun s s' => exists h, iget k_href s = Some (VStr h) /\ forallb scalar h = true /\
                                 s' = spec_sheet (url_of (to_pdep d) lp iv h) s)
          (dd_sheets d) (ad_sheets r) /\
  Forall2 (fun s s' => exists h, iget k_src s = Some (VStr h) /\ forallb scalar h = true /\
                                 s' = spec_script (url_of (to_pdep d) lp iv h) s)
          (dd_scripts d) (ad_scripts r) /\
  ad_meta r = dd_meta d /\ ad_name r = dd_name d /\ ad_version r = dd_version d /\
  head_html (dd_head d) = Ok (ad_head r).
Proof.
  intros Hst Hsc. unfold dep_as_dict.
  destruct (map_res (sheet_item (source_href d lp iv)) (dd_sheets d)) as [st|e] eqn:E1; [|discriminate].
  destruct (map_res (script_item (source_href d lp iv)) (dd_scripts d)) as [sc|e] eqn:E2; [|discriminate].
  destruct (head_html (dd_head d)) as [h|e] eqn:E3; [|discriminate].
  intros H. injection H as <-. simpl.
  apply map_res_Forall2 in E1. apply map_res_Forall2 in E2.
  split; [|split; [|repeat split]].
  - clear E2. induction E1 as [|s s' l l' Hs Hl IH]; [constructor|].
    inversion Hst; subst. constructor; [|apply IH; assumption].
    apply sheet_item_spec; assumption.
  - clear E1. induction E2 as [|s s' l l' Hs Hl IH]; [constructor|].
    inversion Hsc; subst. constructor; [|apply IH; assumption].
    apply script_item_spec; assumption.
Qed.

(* readable consequences of spec_sheet / spec_script *)
Lemma spec_sheet_keys u s :
  map fst (spec_sheet u s) = map fst s ++ (if ihas k_rel s then [] else [k_rel]).
Proof.
  unfold spec_sheet. rewrite map_app, map_map.
  rewrite (map_ext _ fst) by (intros kv; apply spec_entry_fst).
  destruct (ihas k_rel s); reflexivity.
Qed.

Lemma spec_script_keys u s : map fst (spec_script u s) = map fst s.
Proof.
  unfold spec_script. rewrite map_map. apply map_ext. intros kv. apply spec_entry_fst.
Qed.

Lemma spec_sheet_get u s k :
  iget k (spec_sheet u s) =
  if str_eqb k_href k then (if ihas k_href s then Some (VStr u) else None)
  else if str_eqb k_rel k then Some (VStr v_stylesheet)
  else iget k s.
Proof.
  unfold spec_sheet. rewrite iget_app.
  rewrite iget_map_entry by (intros kv; apply spec_entry_fst).
  unfold ihas. destruct (str_eqb_spec k_href k) as [<-|Hh].
  - destruct (iget k_href s); simpl.
    + unfold spec_entry. simpl. reflexivity.
    + destruct (match iget k_rel s with Some _ => true | None => false end); reflexivity.
  - destruct (str_eqb_spec k_rel k) as [<-|Hr].
    + destruct (iget k_rel s) eqn:R; simpl; [|reflexivity].
      unfold spec_entry. simpl. reflexivity.
    + destruct (iget k s) eqn:G.
      * unfold spec_entry. cbn [fst snd]. rewrite (str_eqb_neq k_href k) by exact Hh.
        rewrite (str_eqb_neq k_rel k) by exact Hr. reflexivity.
      * destruct (match iget k_rel s with Some _ => true | None => false end); [reflexivity|].
        cbn [iget]. rewrite (str_eqb_neq k k_rel) by congruence. reflexivity.
Qed.

Lemma spec_script_get u s k :
  iget k (spec_script u s) =
  if str_eqb k_src k then (if ihas k_src s then Some (VStr u) else None) else iget k s.
Proof.
  unfold spec_script. rewrite iget_map_entry by (intros kv; apply spec_entry_fst).
  unfold ihas. destruct (str_eqb_spec k_src k) as [<-|Hh].
  - destruct (iget k_src s); simpl; [|reflexivity]. unfold spec_entry. simpl. reflexivity.
  - destruct (iget k s); [|reflexivity]. unfold spec_entry. cbn [fst snd].
    rewrite (str_eqb_neq k_src k) by exact Hh. reflexivity.
Qed.

Lemma spec_sheet_NoDup u s : NoDup (map fst s) -> NoDup (map fst (spec_sheet u s)).
Proof.
  intros H. rewrite spec_sheet_keys. destruct (ihas k_rel s) eqn:R.
  - rewrite app_nil_r. exact H.
  - apply NoDup_snoc; [exact H|]. apply ihas_false. exact R.
Qed.

(* ------------------------------------------------------------------------------------ *)
(* 4. the constructor                                                                    *)
(* ------------------------------------------------------------------------------------ *)
Lemma validate_item_ok req d :
  validate_item req d = Ok tt <-> (forall a, In a req -> ihas a d = true).
Proof.
  induction req as [|a req IH]; simpl.
  - split; [intros _ a []|reflexivity].
  - destruct (ihas a d) eqn:E.
    + rewrite IH. split; intros H.
      * intros b [<-|Hb]; [exact E|apply H; exact Hb].
      * intros b Hb. apply H. right. exact Hb.
    + split; [discriminate|]. intros H. rewrite (H a (or_introl eq_refl)) in E. discriminate.
Qed.

Lemma validate_items_ok req l :
  (exists u, validate_items req l = Ok u) <->
  Forall (fun d => forall a, In a req -> ihas a d = true) l.
Proof.
  induction l as [|d l IH]; simpl.
  - split; [constructor|]. intros _. exists tt. reflexivity.
  - destruct (validate_item req d) as [[]|e] eqn:E.
    + rewrite IH. pose proof (proj1 (validate_item_ok req d) E) as E'. split; intros H.
      * constructor; assumption.
      * inversion H. assumption.
    + split.
      * intros [u Hu]. discriminate.
      * intros H. inversion H as [|? ? Hd Hl]; subst.
        pose proof (proj2 (validate_item_ok req d) Hd) as Hd'. congruence.
Qed.

Lemma validate_items_err req l e : validate_items req l = Err e -> e = KeyError.
Proof.
  induction l as [|d l IH]; simpl; [discriminate|].
  destruct (validate_item req d) as [[]|e'] eqn:E; [exact IH|].
  intros H. injection H as <-. clear IH. induction req as [|a req IH]; simpl in E; [discriminate|].
  destruct (ihas a d); [apply IH; exact E|]. injection E as <-. reflexivity.
Qed.

Lemma item_add_rel_spec s :
  item_add_rel s = if ihas k_rel s then s else s ++ [(k_rel, VStr v_stylesheet)].
Proof.
  unfold item_add_rel. destruct (ihas k_rel s) eqn:R; [reflexivity|].
  apply iset_absent. apply ihas_false. exact R.
Qed.

Lemma item_add_rel_has s : ihas k_rel (item_add_rel s) = true.
Proof.
  rewrite item_add_rel_spec. destruct (ihas k_rel s) eqn:R; [exact R|].
  apply ihas_In. rewrite map_app. apply in_or_app. right. left. reflexivity.
Qed.

Lemma item_add_rel_keeps k s : ihas k s = true -> ihas k (item_add_rel s) = true.
Proof.
  rewrite item_add_rel_spec. destruct (ihas k_rel s); [tauto|].
  rewrite !ihas_In, map_app. intros H. apply in_or_app. left. exact H.
Qed.

Lemma item_add_rel_NoDup s : NoDup (map fst s) -> NoDup (map fst (item_add_rel s)).
Proof.
  rewrite item_add_rel_spec. destruct (ihas k_rel s) eqn:R; [tauto|].
  intros H. rewrite map_app. apply NoDup_snoc; [exact H|]. apply ihas_false. exact R.
Qed.

Lemma dep_new_spec name ver src af script sheet meta head :
  (forall d, dep_new name ver src af script sheet meta head = Ok d ->
     dd_name d = name /\ dd_version d = ver /\ dd_source d = src /\ dd_all_files d = af /\
     dd_scripts d = norm_items script /\
     dd_sheets d = map item_add_rel (norm_items sheet) /\
     dd_meta d = norm_items meta /\
     dd_head d = head_of head /\
     Forall (fun s => ihas k_src s = true) (dd_scripts d) /\
     Forall (fun s => ihas k_href s = true /\ ihas k_rel s = true) (dd_sheets d) /\
     Forall (fun s => ihas k_name s = true /\ ihas k_content s = true) (dd_meta d)) /\
  (forall e, dep_new name ver src af script sheet meta head = Err e -> e = KeyError) /\
  ((exists d, dep_new name ver src af script sheet meta head = Ok d) <->
   Forall (fun s => ihas k_src s = true) (norm_items script) /\
   Forall (fun s => ihas k_href s = true) (norm_items sheet) /\
   Forall (fun s => ihas k_name s = true /\ ihas k_content s = true) (norm_items meta)).
Proof.
  unfold dep_new.
  destruct (validate_items [k_src] (norm_items script)) as [[]|e1] eqn:E1.
  2:{ split; [discriminate|]. split.
      - intros e H. injection H as <-. eapply validate_items_err. exact E1.
      - split; [intros [d H]; discriminate|]. intros (H1 & _ & _). exfalso.
        assert (X : exists u, validate_items [k_src] (norm_items script) = Ok u).
        { apply validate_items_ok. eapply Forall_impl; [|exact H1].
          intros s Hs a [<-|[]]. exact Hs. }
        destruct X as [u X]. congruence. }
  destruct (validate_items [k_href] (norm_items sheet)) as [[]|e2] eqn:E2.
  2:{ split; [discriminate|]. split.
      - intros e H. injection H as <-. eapply validate_items_err. exact E2.
      - split; [intros [d H]; discriminate|]. intros (_ & H1 & _). exfalso.
        assert (X : exists u, validate_items [k_href] (norm_items sheet) = Ok u).
        { apply validate_items_ok. eapply Forall_impl; [|exact H1].
          intros s Hs a [<-|[]]. exact Hs. }
        destruct X as [u X]. congruence. }
  destruct (validate_items [k_name; k_content] (norm_items meta)) as [[]|e3] eqn:E3.
  2:{ split; [discriminate|]. split.
      - intros e H. injection H as <-. eapply validate_items_err. exact E3.
      - split; [intros [d H]; discriminate|]. intros (_ & _ & H1). exfalso.
        assert (X : exists u, validate_items [k_name; k_content] (norm_items meta) = Ok u).
        { apply validate_items_ok. eapply Forall_impl; [|exact H1].
          intros s [Hs1 Hs2] a [<-|[<-|[]]]; assumption. }
        destruct X as [u X]. congruence. }
  assert (V1 : Forall (fun s => ihas k_src s = true) (norm_items script)).
  { assert (X : exists u, validate_items [k_src] (norm_items script) = Ok u) by (exists tt; exact E1).
    apply validate_items_ok in X. eapply Forall_impl; [|exact X].
    intros s Hs. apply Hs. left. reflexivity. }
  assert (V2 : Forall (fun s => ihas k_href s = true) (norm_items sheet)).
  { assert (X : exists u, validate_items [k_href] (norm_items sheet) = Ok u) by (exists tt; exact E2).
    apply validate_items_ok in X. eapply Forall_impl; [|exact X].
    intros s Hs. apply Hs. left. reflexivity. }
  assert (V3 : Forall (fun s => ihas k_name s = true /\ ihas k_content s = true) (norm_items meta)).
  { assert (X : exists u, validate_items [k_name; k_content] (norm_items meta) = Ok u) by (exists tt; exact E3).
    apply validate_items_ok in X. eapply Forall_impl; [|exact X].
    intros s Hs. split; apply Hs; [left|right; left]; reflexivity. }
  split; [|split; [discriminate|]].
  - intros d H. injection H as <-. simpl. repeat split; try assumption.
    apply Forall_forall. intros s Hs. apply in_map_iff in Hs. destruct Hs as [s0 [<- Hs0]].
    rewrite Forall_forall in V2. split; [apply item_add_rel_keeps; apply V2; exact Hs0|].
    apply item_add_rel_has.
  - split; [intros _; repeat split; assumption|]. intros _. eexists. reflexivity.
Qed.

(* ------------------------------------------------------------------------------------ *)
(* 5. Tag(name, **item)                                                                  *)
(* ------------------------------------------------------------------------------------ *)
(* C15_call: one construction call is the grouping specification *)
Lemma attrs_new_call dicts kw : attrs_new dicts kw = attrs_of_call dicts kw.
Proof.
  unfold attrs_new. rewrite attrs_update_spec by constructor.
  unfold spec_step. destruct (attrs_of_call dicts kw) as [a|e]; [|reflexivity].
  unfold replace_merge. simpl. rewrite filter_all by reflexivity. reflexivity.
Qed.

Lemma tag_of_item_is_spec name it : tag_of_item name it = spec_tag name it.
Proof.
  unfold tag_of_item, spec_tag, item_ws, item_kwargs.
  destruct (ihas kw_name it); [reflexivity|].
  destruct (iget kw_add_ws it) as [v|] eqn:E.
  - destruct v; try reflexivity. rewrite attrs_new_call. reflexivity.
  - rewrite idel_absent by exact E. rewrite attrs_new_call. reflexivity.
Qed.

Lemma tag_of_item_for name it t : tag_of_item name it = Ok t -> tag_for name it t.
Proof.
  unfold tag_of_item, tag_for, item_ws, item_kwargs.
  destruct (ihas kw_name it); [discriminate|].
  destruct (iget kw_add_ws it) as [v|] eqn:E.
  - destruct v; try discriminate.
    destruct (attrs_new [] (idel kw_add_ws it)) as [a|e]; [|discriminate].
    simpl. intros H. injection H as <-. exists a. split; reflexivity.
  - rewrite idel_absent by exact E.
    destruct (attrs_new [] it) as [a|e]; [|discriminate].
    simpl. intros H. injection H as <-. exists a. split; reflexivity.
Qed.

Lemma kept_pairs_err_type items e : kept_pairs items = Err e -> e = TypeError.
Proof.
  induction items as [|[k v] rest IH]; simpl; [discriminate|].
  destruct v as [| [|] | r | r | s | s |]; simpl; try exact IH;
    try (destruct (kept_pairs rest); [discriminate|intros H; injection H as <-; apply IH; reflexivity]).
  intros H. injection H as <-. reflexivity.
Qed.

Lemma tag_of_item_err name it e : tag_of_item name it = Err e -> e = TypeError.
Proof.
  rewrite tag_of_item_is_spec. unfold spec_tag.
  destruct (ihas kw_name it); [intros H; injection H as <-; reflexivity|].
  assert (X : res_map (fun a => TagN (M:=dep) name (item_ws it) a []) (attrs_of_call [] (item_kwargs it)) = Err e
              -> e = TypeError).
  { unfold attrs_of_call. simpl concat. simpl app.
    destruct (kept_pairs (item_kwargs it)) as [ps|e0] eqn:K; simpl.
    - discriminate.
    - intros H. injection H as <-. eapply kept_pairs_err_type. exact K. }
  destruct (iget kw_add_ws it) as [v|]; [|exact X].
  destruct v; try exact X; intros H; injection H as <-; reflexivity.
Qed.

(* the generated tags are childless *)
Lemma tag_for_leaf name it t : tag_for name it t -> exists ws a, t = TagN name ws a [].
Proof. intros (a & _ & ->). eauto. Qed.

(* ---- the typed-dict case ------------------------------------------------------------- *)
Lemma str_item_dict l : str_item l = dict_of_attrs (plain_attrs l).
Proof. unfold str_item, dict_of_attrs, plain_attrs. rewrite map_map. reflexivity. Qed.

Lemma keys_str_item l : map fst (str_item l) = map fst l.
Proof. unfold str_item. rewrite map_map. reflexivity. Qed.

Lemma keys_plain_attrs l : keys (plain_attrs l) = map fst l.
Proof. unfold keys, plain_attrs. rewrite map_map. reflexivity. Qed.

Lemma attrs_new_typed l : typed l -> attrs_new [] (str_item l) = Ok (plain_attrs l).
Proof.
  intros [Hnd Hus]. rewrite attrs_new_call. unfold attrs_of_call. simpl concat. simpl app.
  rewrite str_item_dict, kept_pairs_dict_of_attrs.
  - simpl. rewrite group_id; [reflexivity|]. rewrite keys_plain_attrs. exact Hnd.
  - rewrite keys_plain_attrs. apply Forall_forall. intros k Hk.
    apply in_map_iff in Hk. destruct Hk as [kv [<- Hkv]].
    rewrite Forall_forall in Hus. apply Hus. exact Hkv.
Qed.

Lemma typed_no_us_key k l : typed l -> In 95 k -> iget k (str_item l) = None.
Proof.
  intros [_ Hus] Hk. apply iget_None. rewrite keys_str_item. intros Hin.
  apply in_map_iff in Hin. destruct Hin as [kv [<- Hkv]].
  rewrite Forall_forall in Hus. exact (Hus kv Hkv Hk).
Qed.

Lemma tag_of_item_typed name l :
  typed l -> tag_of_item name (str_item l) = Ok (TagN name true (plain_attrs l) []).
Proof.
  intros Ht. unfold tag_of_item, ihas.
  rewrite (typed_no_us_key kw_name l Ht) by (left; reflexivity).
  rewrite (typed_no_us_key kw_add_ws l Ht) by (left; reflexivity).
  rewrite attrs_new_typed by exact Ht. reflexivity.
Qed.

Lemma ihas_str_item k l : ihas k (str_item l) = shas k l.
Proof.
  unfold shas. destruct (mem_str_spec k (map fst l)) as [H|H].
  - apply ihas_In. rewrite keys_str_item. exact H.
  - apply ihas_false. rewrite keys_str_item. exact H.
Qed.

Lemma sget_In k h l : NoDup (map fst l) -> In (k, h) l -> sget k l = h.
Proof.
  induction l as [|[k' v'] l IH]; simpl; intros Hnd Hin; [destruct Hin|].
  inversion Hnd as [|? ? Hk Hd]; subst. destruct Hin as [E|Hin].
  - injection E as -> ->. rewrite str_eqb_refl. reflexivity.
  - destruct (str_eqb_spec k k') as [->|Hn]; [|apply IH; assumption].
    exfalso. apply Hk. apply in_map_iff. exists (k', h). split; [reflexivity|exact Hin].
Qed.

Lemma iget_str_item_In k h l :
  NoDup (map fst l) -> In (k, h) l -> iget k (str_item l) = Some (VStr h).
Proof.
  intros Hnd Hin. apply In_iget; [rewrite keys_str_item; exact Hnd|].
  unfold str_item. apply in_map_iff. exists (k, h). split; [reflexivity|exact Hin].
Qed.

Lemma spec_entry_typed key u b kv :
  spec_entry key u b (fst kv, VStr (snd kv))
  = (fst (typed_entry key u b kv), VStr (snd (typed_entry key u b kv))).
Proof.
  unfold spec_entry, typed_entry. cbn [fst snd].
  destruct (str_eqb key (fst kv)); [reflexivity|].
  destruct (b && str_eqb k_rel (fst kv)); reflexivity.
Qed.

Lemma spec_sheet_typed u l :
  spec_sheet u (str_item l)
  = str_item (map (typed_entry k_href u true) l
              ++ (if shas k_rel l then [] else [(k_rel, v_stylesheet)])).
Proof.
  unfold spec_sheet. rewrite ihas_str_item. unfold str_item at 2. rewrite map_app.
  f_equal.
  - unfold str_item. rewrite !map_map. apply map_ext. intros kv. apply spec_entry_typed.
  - destruct (shas k_rel l); reflexivity.
Qed.

Lemma spec_script_typed u l :
  spec_script u (str_item l) = str_item (map (typed_entry k_src u false) l).
Proof.
  unfold spec_script, str_item. rewrite !map_map. apply map_ext. intros kv.
  apply spec_entry_typed.
Qed.

Lemma typed_entry_fst key u b kv : fst (typed_entry key u b kv) = fst kv.
Proof.
  unfold typed_entry. destruct (str_eqb key (fst kv)); [reflexivity|].
  destruct (b && str_eqb k_rel (fst kv)); reflexivity.
Qed.

Lemma typed_sheet_keys base l :
  map fst (typed_sheet base l) = map fst l ++ (if shas k_rel l then [] else [k_rel]).
Proof.
  unfold typed_sheet. rewrite map_app, map_map.
  rewrite (map_ext _ fst) by (intros kv; apply typed_entry_fst).
  destruct (shas k_rel l); reflexivity.
Qed.

Lemma typed_script_keys base l : map fst (typed_script base l) = map fst l.
Proof.
  unfold typed_script. rewrite map_map. apply map_ext. intros kv. apply typed_entry_fst.
Qed.

Lemma typed_keys l : typed l <-> NoDup (map fst l) /\ Forall (fun k => ~ In 95 k) (map fst l).
Proof.
  unfold typed. rewrite Forall_map. tauto.
Qed.

Lemma typed_sheet_typed base l : typed l -> typed (typed_sheet base l).
Proof.
  rewrite !typed_keys, typed_sheet_keys. intros [Hnd Hus].
  unfold shas. destruct (mem_str_spec k_rel (map fst l)) as [H|H].
  - rewrite app_nil_r. split; assumption.
  - split; [apply NoDup_snoc; assumption|].
    apply Forall_app. split; [exact Hus|]. constructor; [|constructor].
    vm_compute. intuition discriminate.
Qed.

Lemma typed_script_typed base l : typed l -> typed (typed_script base l).
Proof. rewrite !typed_keys, typed_script_keys. tauto. Qed.

Lemma sheet_item_typed base l :
  typed l -> has_file k_href l ->
  sheet_item base (str_item l) = Ok (str_item (typed_sheet base l)).
Proof.
  intros Ht (h & Hin & Hs). pose proof Ht as [Hnd _].
  assert (Hd : dict_ok (str_item l)) by (unfold dict_ok; rewrite keys_str_item; exact Hnd).
  pose proof (iget_str_item_In k_href h l Hnd Hin) as Hg.
  destruct (sheet_item base (str_item l)) as [s'|e] eqn:E.
  - destruct (sheet_item_spec base _ _ Hd E) as (h' & Hg' & _ & ->).
    rewrite Hg in Hg'. injection Hg' as <-. rewrite spec_sheet_typed.
    unfold typed_sheet. rewrite (sget_In k_href h l Hnd Hin). reflexivity.
  - exfalso. unfold sheet_item, url_item in E. rewrite Hg in E. simpl in E.
    unfold quote_py in E. rewrite Hs in E. discriminate.
Qed.

Lemma script_item_typed base l :
  typed l -> has_file k_src l ->
  script_item base (str_item l) = Ok (str_item (typed_script base l)).
Proof.
  intros Ht (h & Hin & Hs). pose proof Ht as [Hnd _].
  assert (Hd : dict_ok (str_item l)) by (unfold dict_ok; rewrite keys_str_item; exact Hnd).
  pose proof (iget_str_item_In k_src h l Hnd Hin) as Hg.
  destruct (script_item base (str_item l)) as [s'|e] eqn:E.
  - destruct (script_item_spec base _ _ Hd E) as (h' & Hg' & _ & ->).
    rewrite Hg in Hg'. injection Hg' as <-. rewrite spec_script_typed.
    unfold typed_script. rewrite (sget_In k_src h l Hnd Hin). reflexivity.
  - exfalso. unfold script_item, url_item in E. rewrite Hg in E. simpl in E.
    unfold quote_py in E. rewrite Hs in E. discriminate.
Qed.

(* the closed form of the markup of a dependency whose items are typed dicts *)
Lemma dep_html_tags_typed name ver src af metas sheets scripts head lp iv :
  Forall typed metas -> Forall typed sheets -> Forall typed scripts ->
  Forall (has_file k_href) sheets -> Forall (has_file k_src) scripts ->
  (exists h, head_html head = Ok h) ->
  let d := mk_ddep name ver src af (map str_item metas) (map str_item sheets)
                   (map str_item scripts) head in
  let base := source_href d lp iv in
  dep_html_tags d lp iv
  = Ok (map (fun l => TagN n_meta true (plain_attrs l) []) metas
        ++ map (fun l => TagN n_link true (plain_attrs (typed_sheet base l)) []) sheets
        ++ map (fun l => TagN n_script true (plain_attrs (typed_script base l)) []) scripts
        ++ head_items d).
Proof.
  intros Hm Hst Hsc Hfst Hfsc [h Hh] d base.
  rewrite Forall_forall in Hm, Hst, Hsc, Hfst, Hfsc.
  unfold dep_html_tags, dep_as_dict. fold base. cbn [dd_sheets dd_scripts dd_head dd_meta d].
  rewrite map_res_map.
  rewrite (map_res_ok _ (fun l => str_item (typed_sheet base l)))
    by (intros l Hl; apply sheet_item_typed; [apply Hst|apply Hfst]; exact Hl).
  rewrite map_res_map.
  rewrite (map_res_ok _ (fun l => str_item (typed_script base l)))
    by (intros l Hl; apply script_item_typed; [apply Hsc|apply Hfsc]; exact Hl).
  rewrite Hh. cbn [ad_meta ad_sheets ad_scripts].
  rewrite map_res_map.
  rewrite (map_res_ok _ (fun l => TagN n_meta true (plain_attrs l) []))
    by (intros l Hl; apply tag_of_item_typed; apply Hm; exact Hl).
  rewrite map_res_map.
  rewrite (map_res_ok _ (fun l => TagN n_link true (plain_attrs (typed_sheet base l)) []))
    by (intros l Hl; apply tag_of_item_typed; apply typed_sheet_typed; apply Hst; exact Hl).
  rewrite map_res_map.
  rewrite (map_res_ok _ (fun l => TagN n_script true (plain_attrs (typed_script base l)) []))
    by (intros l Hl; apply tag_of_item_typed; apply typed_script_typed; apply Hsc; exact Hl).
  rewrite as_html_tags_parts. reflexivity.
Qed.

(* ------------------------------------------------------------------------------------ *)
(* 6. as_html_tags: shape                                                                *)
(* ------------------------------------------------------------------------------------ *)
Lemma map_res_tags name l ts :
  map_res (tag_of_item name) l = Ok ts -> Forall2 (tag_for name) l ts.
Proof.
  intros H. apply map_res_Forall2 in H.
  induction H as [|x y l l' Hx Hl IH]; constructor; [apply tag_of_item_for; exact Hx|exact IH].
Qed.

Lemma dep_html_tags_shape d lp iv tags :
  dep_html_tags d lp iv = Ok tags ->
  exists r metas links scripts,
    dep_as_dict d lp iv = Ok r /\
    tags = metas ++ links ++ scripts ++ head_items d /\
    Forall2 (tag_for n_meta) (dd_meta d) metas /\
    Forall2 (tag_for n_link) (ad_sheets r) links /\
    Forall2 (tag_for n_script) (ad_scripts r) scripts /\
    length metas = length (dd_meta d) /\
    length links = length (dd_sheets d) /\
    length scripts = length (dd_scripts d).
Proof.
  unfold dep_html_tags.
  destruct (dep_as_dict d lp iv) as [r|e] eqn:E; [|discriminate].
  destruct (map_res (tag_of_item n_meta) (ad_meta r)) as [metas|e] eqn:E1; [|discriminate].
  destruct (map_res (tag_of_item n_link) (ad_sheets r)) as [links|e] eqn:E2; [|discriminate].
  destruct (map_res (tag_of_item n_script) (ad_scripts r)) as [scripts|e] eqn:E3; [|discriminate].
  intros H. injection H as <-. rewrite as_html_tags_parts. cbn [mu_metas mu_links mu_scripts mu_head].
  exists r, metas, links, scripts.
  assert (Hr : ad_meta r = dd_meta d /\ length (ad_sheets r) = length (dd_sheets d)
               /\ length (ad_scripts r) = length (dd_scripts d)).
  { unfold dep_as_dict in E.
    destruct (map_res (sheet_item (source_href d lp iv)) (dd_sheets d)) as [st|e] eqn:F1; [|discriminate].
    destruct (map_res (script_item (source_href d lp iv)) (dd_scripts d)) as [sc|e] eqn:F2; [|discriminate].
    destruct (head_html (dd_head d)) as [h|e]; [|discriminate].
    injection E as <-. simpl. split; [reflexivity|].
    apply map_res_Forall2 in F1. apply map_res_Forall2 in F2.
    apply Forall2_length' in F1. apply Forall2_length' in F2. split; congruence. }
  destruct Hr as (Hm & Hl1 & Hl2).
  apply map_res_tags in E1. apply map_res_tags in E2. apply map_res_tags in E3.
  rewrite Hm in E1.
  pose proof (Forall2_length' _ _ _ E1). pose proof (Forall2_length' _ _ _ E2).
  pose proof (Forall2_length' _ _ _ E3).
  repeat split; try assumption; congruence.
Qed.

(* the whitespace flag survives as_dict: the key _add_ws is neither href, src nor rel *)
Lemma item_ws_sheet u s : item_ws (spec_sheet u s) = item_ws s.
Proof. unfold item_ws. rewrite spec_sheet_get. reflexivity. Qed.
Lemma item_ws_script u s : item_ws (spec_script u s) = item_ws s.
Proof. unfold item_ws. rewrite spec_script_get. reflexivity. Qed.

Lemma tags_for_block name l ts :
  Forall (fun it => item_ws it = true) l -> Forall2 (tag_for name) l ts ->
  Forall (fun t => block_leaf t = true) ts.
Proof.
  intros W F. induction F as [|it t l l' Ht Hl IH]; [constructor|].
  inversion W as [|? ? Hw Hws]; subst. constructor; [|apply IH; exact Hws].
  destruct Ht as (a & _ & ->). simpl. rewrite Hw. reflexivity.
Qed.

(* all generated tags are whitespace-enabled when no item carries the key _add_ws = False *)
Lemma dep_html_tags_block d lp iv tags :
  Forall dict_ok (dd_sheets d) -> Forall dict_ok (dd_scripts d) ->
  Forall (fun it => item_ws it = true) (dd_meta d ++ dd_sheets d ++ dd_scripts d) ->
  dep_html_tags d lp iv = Ok tags ->
  exists gen, tags = gen ++ head_items d /\ Forall (fun t => block_leaf t = true) gen /\
              length gen = (length (dd_meta d) + length (dd_sheets d) + length (dd_scripts d))%nat.
Proof.
  intros Hd1 Hd2 Hws H.
  destruct (dep_html_tags_shape d lp iv tags H)
    as (r & metas & links & scripts & Hr & -> & F1 & F2 & F3 & L1 & L2 & L3).
  destruct (as_dict_items d lp iv r Hd1 Hd2 Hr) as (S1 & S2 & _).
  apply Forall_app in Hws. destruct Hws as [W1 Hws]. apply Forall_app in Hws. destruct Hws as [W2 W3].
  exists (metas ++ links ++ scripts). split; [rewrite <- !app_assoc; reflexivity|]. split.
  - assert (W2' : Forall (fun it => item_ws it = true) (ad_sheets r)).
    { clear -S1 W2. induction S1 as [|s s' l l' Hs Hl IH]; [constructor|].
      inversion W2 as [|? ? Hw Hws]; subst. constructor; [|apply IH; exact Hws].
      destruct Hs as (h & _ & _ & ->). rewrite item_ws_sheet. exact Hw. }
    assert (W3' : Forall (fun it => item_ws it = true) (ad_scripts r)).
    { clear -S2 W3. induction S2 as [|s s' l l' Hs Hl IH]; [constructor|].
      inversion W3 as [|? ? Hw Hws]; subst. constructor; [|apply IH; exact Hws].
      destruct Hs as (h & _ & _ & ->). rewrite item_ws_script. exact Hw. }
    apply Forall_app. split; [exact (tags_for_block _ _ _ W1 F1)|].
    apply Forall_app. split; [exact (tags_for_block _ _ _ W2' F2)|exact (tags_for_block _ _ _ W3' F3)].
  - rewrite !app_length. lia.
Qed.

(* ------------------------------------------------------------------------------------ *)
(* 7. refinement to the specification                                                    *)
(* ------------------------------------------------------------------------------------ *)
Lemma sheet_item_refines d lp iv s :
  dict_ok s ->
  sheet_item (source_href d lp iv) s
  = res_map (fun u => spec_sheet u s) (spec_url d lp iv k_href s).
Proof.
  intros Hd. destruct (sheet_item (source_href d lp iv) s) as [s'|e] eqn:E.
  - destruct (sheet_item_spec _ _ _ Hd E) as (h & Hg & Hs & ->).
    unfold spec_url. rewrite Hg, Hs. reflexivity.
  - unfold sheet_item, url_item in E. unfold spec_url.
    destruct (iget k_href s) as [v|]; [|simpl; congruence].
    destruct v; simpl in E; try (simpl; congruence).
    unfold quote_py in E. destruct (forallb scalar s0); simpl in E; [discriminate|].
    simpl. congruence.
Qed.

Lemma script_item_refines d lp iv s :
  dict_ok s ->
  script_item (source_href d lp iv) s
  = res_map (fun u => spec_script u s) (spec_url d lp iv k_src s).
Proof.
  intros Hd. destruct (script_item (source_href d lp iv) s) as [s'|e] eqn:E.
  - destruct (script_item_spec _ _ _ Hd E) as (h & Hg & Hs & ->).
    unfold spec_url. rewrite Hg, Hs. reflexivity.
  - unfold script_item, url_item in E. unfold spec_url.
    destruct (iget k_src s) as [v|]; [|simpl; congruence].
    destruct v; simpl in E; try (simpl; congruence).
    unfold quote_py in E. destruct (forallb scalar s0); simpl in E; [discriminate|].
    simpl. congruence.
Qed.

Lemma dep_html_tags_refines d lp iv :
  Forall dict_ok (dd_sheets d) -> Forall dict_ok (dd_scripts d) ->
  dep_html_tags d lp iv = spec_html_tags d lp iv.
Proof.
  intros H1 H2. rewrite Forall_forall in H1, H2.
  unfold dep_html_tags, dep_as_dict, spec_html_tags.
  rewrite (map_res_ext (sheet_item (source_href d lp iv))
                       (fun s => res_map (fun u => spec_sheet u s) (spec_url d lp iv k_href s)))
    by (intros s Hs; apply sheet_item_refines; apply H1; exact Hs).
  destruct (map_res _ (dd_sheets d)) as [st|e]; [|reflexivity].
  rewrite (map_res_ext (script_item (source_href d lp iv))
                       (fun s => res_map (fun u => spec_script u s) (spec_url d lp iv k_src s)))
    by (intros s Hs; apply script_item_refines; apply H2; exact Hs).
  destruct (map_res _ (dd_scripts d)) as [sc|e]; [|reflexivity].
  destruct (head_html (dd_head d)) as [h|e]; [|reflexivity].
  cbn [ad_meta ad_sheets ad_scripts].
  rewrite (map_res_ext (tag_of_item n_meta) (spec_tag n_meta))
    by (intros; apply tag_of_item_is_spec).
  destruct (map_res (spec_tag n_meta) (dd_meta d)) as [metas|e]; [|reflexivity].
  rewrite (map_res_ext (tag_of_item n_link) (spec_tag n_link))
    by (intros; apply tag_of_item_is_spec).
  destruct (map_res (spec_tag n_link) st) as [links|e]; [|reflexivity].
  rewrite (map_res_ext (tag_of_item n_script) (spec_tag n_script))
    by (intros; apply tag_of_item_is_spec).
  destruct (map_res (spec_tag n_script) sc) as [scripts|e]; [|reflexivity].
  rewrite as_html_tags_parts. reflexivity.
Qed.

(* ------------------------------------------------------------------------------------ *)
(* 8. every link has rel = stylesheet                                                    *)
(* ------------------------------------------------------------------------------------ *)
Lemma strip_cases k :
  strip_one_trailing_us k = k \/ k = strip_one_trailing_us k ++ [95].
Proof.
  induction k as [|c k IH]; [left; reflexivity|].
  destruct k as [|c' k'].
  - simpl. destruct (N.eqb_spec c 95) as [->|H]; [right; reflexivity|left; reflexivity].
  - change (strip_one_trailing_us (c :: c' :: k')) with (c :: strip_one_trailing_us (c' :: k')).
    destruct IH as [IH|IH]; [left; rewrite IH; reflexivity|right].
    rewrite IH at 1. reflexivity.
Qed.

Lemma us_map_inv y z : map us_to_hyphen y = z -> ~ In 45 z -> y = z.
Proof.
  revert z. induction y as [|c y IH]; intros z H Hz; simpl in H; [exact H|].
  destruct z as [|c0 z]; [discriminate|]. injection H as Hc Hy.
  f_equal.
  - unfold us_to_hyphen in Hc. destruct (N.eqb_spec c 95); [|exact Hc].
    exfalso. apply Hz. left. symmetry. exact Hc.
  - apply IH; [exact Hy|]. intros Hin. apply Hz. right. exact Hin.
Qed.

(* the only keys that normalise to rel *)
Lemma rel_names k : spec_name k = k_rel -> k = k_rel \/ k = k_rel ++ [95].
Proof.
  unfold spec_name. intros H. apply us_map_inv in H.
  - destruct (strip_cases k) as [E|E]; rewrite H in E; [left; symmetry|right]; exact E.
  - vm_compute. intuition discriminate.
Qed.

Lemma kept_pairs_filter_none n it ps :
  kept_pairs it = Ok ps -> (forall k, In k (map fst it) -> spec_name k <> n) ->
  filter (fun p => str_eqb n (fst p)) ps = [].
Proof.
  revert ps. induction it as [|[k v] rest IH]; intros ps H Hn; simpl in H.
  - injection H as <-. reflexivity.
  - assert (Hrest : forall k0, In k0 (map fst rest) -> spec_name k0 <> n)
      by (intros k0 Hk0; apply Hn; right; exact Hk0).
    destruct (spec_value v) as [[a|]|e]; [| |discriminate].
    + destruct (kept_pairs rest) as [l|e]; [|discriminate]. injection H as <-.
      simpl. rewrite str_eqb_neq by (intros E; apply (Hn k); [left; reflexivity|congruence]).
      apply IH; [reflexivity|exact Hrest].
    + apply IH; [exact H|exact Hrest].
Qed.

Lemma kept_pairs_unique k0 s it ps :
  kept_pairs it = Ok ps -> NoDup (map fst it) -> iget k0 it = Some (VStr s) ->
  (forall k, In k (map fst it) -> spec_name k = spec_name k0 -> k = k0) ->
  values_of (spec_name k0) ps = [AStr s] /\ In (spec_name k0) (map fst ps).
Proof.
  revert ps. induction it as [|[k v] rest IH]; intros ps H Hnd Hg Hu; simpl in H, Hg.
  - discriminate.
  - simpl in Hnd. inversion Hnd as [|? ? Hk Hd]. clear Hnd. subst.
    destruct (str_eqb_spec k0 k) as [<-|Hne].
    + injection Hg as ->. simpl in H.
      destruct (kept_pairs rest) as [l|e] eqn:K; [|discriminate]. injection H as <-.
      unfold values_of. simpl. rewrite str_eqb_refl. simpl. split; [|left; reflexivity].
      rewrite (kept_pairs_filter_none (spec_name k0) rest l K); [reflexivity|].
      intros k Hin E. apply Hk. rewrite <- (Hu k (or_intror Hin) E). exact Hin.
    + assert (Hkn : spec_name k <> spec_name k0).
      { intros E. apply Hne. symmetry. apply Hu; [left; reflexivity|exact E]. }
      assert (Hu' : forall k1, In k1 (map fst rest) -> spec_name k1 = spec_name k0 -> k1 = k0)
        by (intros k1 H1; apply Hu; right; exact H1).
      destruct (spec_value v) as [[a|]|e]; [| |discriminate].
      * destruct (kept_pairs rest) as [l|e] eqn:K; [|discriminate]. injection H as <-.
        destruct (IH l eq_refl Hd Hg Hu') as [V Hi].
        unfold values_of in *. simpl. rewrite (str_eqb_neq (spec_name k0) (spec_name k)) by congruence.
        split; [exact V|right; exact Hi].
      * apply IH; assumption.
Qed.

Lemma link_rel u s t :
  dict_ok s -> ~ In (k_rel ++ [95]) (map fst s) ->
  tag_for n_link (spec_sheet u s) t ->
  exists a, t = TagN n_link (item_ws s) a [] /\ lookup k_rel a = Some (AStr v_stylesheet).
Proof.
  intros Hd Hrel (a & Ha & ->). exists a. rewrite item_ws_sheet. split; [reflexivity|].
  rewrite attrs_new_call in Ha. unfold attrs_of_call in Ha. simpl concat in Ha. simpl app in Ha.
  destruct (kept_pairs (item_kwargs (spec_sheet u s))) as [ps|e] eqn:K; [|discriminate].
  simpl in Ha. injection Ha as <-. rewrite lookup_group.
  destruct (kept_pairs_unique k_rel v_stylesheet _ _ K) as [V Hi].
  - apply idel_NoDup. apply spec_sheet_NoDup. exact Hd.
  - unfold item_kwargs. rewrite iget_idel_other by discriminate.
    rewrite spec_sheet_get. reflexivity.
  - change (spec_name k_rel) with k_rel. intros k Hin E. destruct (rel_names k E) as [-> | ->]; [reflexivity|].
    exfalso. apply Hrel. apply idel_keys_incl in Hin. rewrite spec_sheet_keys in Hin.
    apply in_app_or in Hin. destruct Hin as [Hin|Hin]; [exact Hin|].
    destruct (ihas k_rel s); [destruct Hin|]. destruct Hin as [Hin|[]]. discriminate.
  - change (spec_name k_rel) with k_rel in V, Hi.
    apply mem_str_In in Hi. rewrite Hi, V. rewrite merged_single. reflexivity.
Qed.

Lemma dep_html_tags_link_rel d lp iv tags :
  Forall dict_ok (dd_sheets d) -> Forall dict_ok (dd_scripts d) ->
  Forall (fun s => ~ In (k_rel ++ [95]) (map fst s)) (dd_sheets d) ->
  dep_html_tags d lp iv = Ok tags ->
  exists metas links rest,
    tags = metas ++ links ++ rest /\ length metas = length (dd_meta d) /\
    Forall2 (fun s t => exists a, t = TagN n_link (item_ws s) a [] /\
                                  lookup k_rel a = Some (AStr v_stylesheet))
            (dd_sheets d) links.
Proof.
  intros Hd1 Hd2 Hrel H.
  destruct (dep_html_tags_shape d lp iv tags H)
    as (r & metas & links & scripts & Hr & -> & F1 & F2 & F3 & L1 & L2 & L3).
  destruct (as_dict_items d lp iv r Hd1 Hd2 Hr) as (S1 & _).
  exists metas, links, (scripts ++ head_items d). split; [reflexivity|]. split; [exact L1|].
  clear -S1 F2 Hd1 Hrel. revert links F2.
  induction S1 as [|s s' l l' Hs Hl IH]; intros links F2; inversion F2; subst; [constructor|].
  inversion Hd1; subst. inversion Hrel; subst.
  constructor; [|apply IH; assumption].
  destruct Hs as (h & _ & _ & ->). eapply link_rel; eassumption.
Qed.

(* ------------------------------------------------------------------------------------ *)
(* 9. no metadata node, no tagifiable object: the hypotheses of the document theorems     *)
(* ------------------------------------------------------------------------------------ *)
Lemma tags_for_meta_free name l ts :
  Forall2 (tag_for name) l ts -> forallb meta_free ts = true /\ forallb no_custom ts = true.
Proof.
  induction 1 as [|it t l l' Ht Hl [IH1 IH2]]; [split; reflexivity|].
  destruct Ht as (a & _ & ->). simpl. rewrite IH1, IH2. split; reflexivity.
Qed.

Lemma dep_html_tags_meta_free d lp iv tags :
  forallb meta_free (head_items d) = true ->
  dep_html_tags d lp iv = Ok tags -> forallb meta_free tags = true.
Proof.
  intros Hh H.
  destruct (dep_html_tags_shape d lp iv tags H)
    as (r & metas & links & scripts & _ & -> & F1 & F2 & F3 & _).
  rewrite !forallb_app, Hh.
  rewrite (proj1 (tags_for_meta_free _ _ _ F1)), (proj1 (tags_for_meta_free _ _ _ F2)),
          (proj1 (tags_for_meta_free _ _ _ F3)). reflexivity.
Qed.

Lemma dep_html_tags_no_custom d lp iv tags :
  forallb no_custom (head_items d) = true ->
  dep_html_tags d lp iv = Ok tags -> forallb no_custom tags = true.
Proof.
  intros Hh H.
  destruct (dep_html_tags_shape d lp iv tags H)
    as (r & metas & links & scripts & _ & -> & F1 & F2 & F3 & _).
  rewrite !forallb_app, Hh.
  rewrite (proj2 (tags_for_meta_free _ _ _ F1)), (proj2 (tags_for_meta_free _ _ _ F2)),
          (proj2 (tags_for_meta_free _ _ _ F3)). reflexivity.
Qed.

Lemma dep_tags_of_meta_free env lp iv :
  (forall x, forallb meta_free (head_items (env x)) = true) ->
  forall x, forallb meta_free (dep_tags_of env lp iv x) = true.
Proof.
  intros Hh x. unfold dep_tags_of.
  destruct (dep_html_tags (env x) lp iv) as [l|e] eqn:E; [|reflexivity].
  eapply dep_html_tags_meta_free; [apply Hh|exact E].
Qed.

Lemma dep_tags_of_no_custom env lp iv :
  (forall x, forallb no_custom (head_items (env x)) = true) ->
  forall x, forallb no_custom (dep_tags_of env lp iv x) = true.
Proof.
  intros Hh x. unfold dep_tags_of.
  destruct (dep_html_tags (env x) lp iv) as [l|e] eqn:E; [|reflexivity].
  eapply dep_html_tags_no_custom; [apply Hh|exact E].
Qed.

(* ------------------------------------------------------------------------------------ *)
(* 10. the URLs are those of C12                                                          *)
(* ------------------------------------------------------------------------------------ *)
Lemma urls_agree key (spec : str -> ditem -> ditem) pd lp iv l l' :
  (forall u s, ihas key s = true -> iget key (spec u s) = Some (VStr u)) ->
  Forall2 (fun s s' => exists h, iget key s = Some (VStr h) /\ forallb scalar h = true /\
                                 s' = spec (url_of pd lp iv h) s) l l' ->
  map_res (url_of_py pd lp iv) (str_vals key l) = Ok (str_vals key l').
Proof.
  intros Hspec F. induction F as [|s s' l l' (h & Hg & Hs & ->) Hl IH]; [reflexivity|].
  unfold str_vals in *. simpl. rewrite Hg.
  rewrite Hspec by (unfold ihas; rewrite Hg; reflexivity).
  simpl. unfold url_of_py at 1. unfold quote_py. rewrite Hs. simpl. rewrite IH. reflexivity.
Qed.

Lemma as_dict_urls_agree d lp iv r :
  Forall dict_ok (dd_sheets d) -> Forall dict_ok (dd_scripts d) ->
  dep_as_dict d lp iv = Ok r ->
  as_dict_urls (to_pdep d) lp iv
  = Ok (str_vals k_href (ad_sheets r), str_vals k_src (ad_scripts r)).
Proof.
  intros H1 H2 H. destruct (as_dict_items d lp iv r H1 H2 H) as (S1 & S2 & _).
  unfold as_dict_urls. cbn [to_pdep d_styles d_scripts].
  rewrite (urls_agree k_href spec_sheet (to_pdep d) lp iv (dd_sheets d) (ad_sheets r));
    [|intros u s Hs; rewrite spec_sheet_get, str_eqb_refl, Hs; reflexivity|exact S1].
  rewrite (urls_agree k_src spec_script (to_pdep d) lp iv (dd_scripts d) (ad_scripts r));
    [|intros u s Hs; rewrite spec_script_get, str_eqb_refl, Hs; reflexivity|exact S2].
  reflexivity.
Qed.

(* ------------------------------------------------------------------------------------ *)
(* 11. rendering of the generated tags                                                    *)
(* ------------------------------------------------------------------------------------ *)
Lemma void_meta_link :
  mem_str n_meta void_names = true /\ mem_str n_link void_names = true /\
  mem_str n_script void_names = false.
Proof. vm_compute. repeat split. Qed.

Lemma render_leaf i eol name ws a :
  render_tag i eol (TagN (M:=dep) name ws a []) = Ok (tag_pieces i (TagN name ws a [])).
Proof.
  cbn -[mem_str void_names no_escape_names]. destruct (mem_str name void_names); reflexivity.
Qed.

Lemma tag_html_leaf i eol name ws a :
  tag_html i eol (TagN (M:=dep) name ws a []) =
  Ok (indent_str i ++
      (if mem_str name void_names then [60] ++ name ++ attrs_str a ++ [47; 62]
       else ([60] ++ name ++ attrs_str a ++ [62]) ++ [60; 47] ++ name ++ [62])).
Proof.
  unfold tag_html. rewrite render_leaf. unfold tag_pieces.
  destruct (mem_str name void_names); unfold pieces_str; cbn [res_map flat_map piece_str];
    rewrite ?app_nil_r; reflexivity.
Qed.

Lemma attrs_str_plain l :
  attrs_str (plain_attrs l)
  = flat_map (fun kv => [32] ++ fst kv ++ [61; 34] ++ html_escape true (snd kv) ++ [34]) l.
Proof.
  unfold attrs_str, plain_attrs. induction l as [|kv l IH]; [reflexivity|].
  cbn [map flat_map]. rewrite IH. reflexivity.
Qed.

Lemma block_leaf_inv t : block_leaf t = true -> exists name a, t = TagN name true a [].
Proof.
  destruct t as [s|s|s|m|name ws a kids|sh exp]; try discriminate.
  simpl. destruct ws; [|discriminate]. destruct kids; [|discriminate]. eauto.
Qed.

Definition nil_b {A} (l : list A) : bool := match l with [] => true | _ => false end.

(* a run of childless whitespace-enabled tags renders as one line each *)
Lemma loop_lines i eol esc ts :
  Forall (fun t => block_leaf t = true) ts ->
  forall first prev rest,
    loop render_tag i eol esc first prev (ts ++ rest) =
    match loop render_tag i eol esc (first && nil_b ts) (if nil_b ts then prev else true) rest with
    | Err e => Err e
    | Ok r => Ok (lines_pieces eol first (map (tag_pieces i) ts) ++ r)
    end.
Proof.
  induction 1 as [|t ts Ht Hts IH]; intros first prev rest.
  - simpl. rewrite andb_true_r. destruct (loop render_tag i eol esc first prev rest); reflexivity.
  - destruct (block_leaf_inv t Ht) as (name & a & ->).
    rewrite <- app_comm_cons, loop_step. unfold step. rewrite orb_true_r, render_leaf.
    rewrite IH. cbn [nil_b]. rewrite andb_false_r.
    replace (false && nil_b ts) with false by reflexivity.
    replace (if nil_b ts then true else true) with true by (destruct (nil_b ts); reflexivity).
    destruct (loop render_tag i eol esc false true rest) as [r|e]; [|reflexivity].
    cbn [map lines_pieces]. rewrite <- !app_assoc. reflexivity.
Qed.

Lemma loop_all_meta i eol esc first prev (l : list (node dep)) :
  forallb is_meta l = true -> loop render_tag i eol esc first prev l = Ok [].
Proof.
  induction l as [|k l IH]; [reflexivity|].
  destruct k; simpl; try discriminate. exact IH.
Qed.

(* what a preceding line changes for the nodes after it: one separator, unless they are all
   metadata nodes (which render as nothing) *)
Lemma loop_sep i eol esc (l : list (node dep)) :
  loop render_tag i eol esc false true l =
  if forallb is_meta l then Ok []
  else match loop render_tag i eol esc true true l with
       | Err e => Err e
       | Ok r => Ok (PWs eol :: r)
       end.
Proof.
  induction l as [|k l IH]; [reflexivity|].
  destruct k as [s|s|s|m|name ws a kids|[sh|] exp].
  - cbn [forallb is_meta andb]. rewrite !loop_step. unfold step.
    destruct (loop render_tag i eol esc false false l); reflexivity.
  - cbn [forallb is_meta andb]. rewrite !loop_step. unfold step.
    destruct (loop render_tag i eol esc false false l); reflexivity.
  - cbn [forallb is_meta andb]. rewrite !loop_step. unfold step.
    destruct (loop render_tag i eol esc false false l); reflexivity.
  - cbn [forallb is_meta andb]. rewrite !loop_step. unfold step. rewrite IH.
    destruct (forallb is_meta l); [reflexivity|].
    destruct (loop render_tag i eol esc true true l); reflexivity.
  - cbn [forallb is_meta andb]. rewrite !loop_step. unfold step. cbn [orb].
    destruct (render_tag i eol (TagN name ws a kids)); [|reflexivity].
    destruct (loop render_tag i eol esc false ws l); reflexivity.
  - cbn [forallb is_meta andb]. rewrite !loop_step. unfold step.
    destruct (loop render_tag i eol esc false false l); reflexivity.
  - reflexivity.
Qed.

Lemma render_dep_list i eol esc gen payload :
  Forall (fun t => block_leaf t = true) gen ->
  render_list i eol true esc (gen ++ payload) =
  match render_list i eol true esc payload with
  | Err e => Err e
  | Ok pp =>
    Ok (lines_pieces eol true (map (tag_pieces i) gen)
        ++ (if nil_b gen || forallb is_meta payload then [] else [PWs eol]) ++ pp)
  end.
Proof.
  intros Hg. unfold render_list. rewrite (loop_lines i eol esc gen Hg).
  destruct gen as [|t gen].
  - simpl. destruct (loop render_tag i eol esc true true payload); reflexivity.
  - cbn [nil_b andb orb]. rewrite loop_sep.
    destruct (forallb is_meta payload) eqn:M.
    + rewrite (loop_all_meta i eol esc true true payload M). reflexivity.
    + destruct (loop render_tag i eol esc true true payload); reflexivity.
Qed.

(* ------------------------------------------------------------------------------------ *)
(* 12. the statements of Properties/C11_deptags.v that are conjunctions of the above      *)
(* ------------------------------------------------------------------------------------ *)
Lemma spec_item_facts u s :
  map fst (spec_sheet u s) = map fst s ++ (if ihas k_rel s then [] else [k_rel]) /\
  map fst (spec_script u s) = map fst s /\
  (ihas k_href s = true -> iget k_href (spec_sheet u s) = Some (VStr u)) /\
  iget k_rel (spec_sheet u s) = Some (VStr v_stylesheet) /\
  (forall k, k <> k_href -> k <> k_rel -> iget k (spec_sheet u s) = iget k s) /\
  (ihas k_src s = true -> iget k_src (spec_script u s) = Some (VStr u)) /\
  (forall k, k <> k_src -> iget k (spec_script u s) = iget k s) /\
  (dict_ok s -> dict_ok (spec_sheet u s) /\ dict_ok (spec_script u s)).
Proof.
  split; [apply spec_sheet_keys|]. split; [apply spec_script_keys|].
  split; [intros H; rewrite spec_sheet_get, str_eqb_refl, H; reflexivity|].
  split; [rewrite spec_sheet_get; reflexivity|].
  split; [intros k H1 H2; rewrite spec_sheet_get, !str_eqb_neq by congruence; reflexivity|].
  split; [intros H; rewrite spec_script_get, str_eqb_refl, H; reflexivity|].
  split; [intros k H1; rewrite spec_script_get, str_eqb_neq by congruence; reflexivity|].
  intros H. split; [apply spec_sheet_NoDup; exact H|].
  unfold dict_ok. rewrite spec_script_keys. exact H.
Qed.

Lemma tag_of_item_general name it :
  tag_of_item name it = spec_tag name it /\
  (forall t, tag_of_item name it = Ok t ->
     exists a, attrs_of_call [] (item_kwargs it) = Ok a /\ t = TagN name (item_ws it) a []) /\
  (forall e, tag_of_item name it = Err e -> e = TypeError).
Proof.
  split; [apply tag_of_item_is_spec|]. split.
  - intros t H. destruct (tag_of_item_for name it t H) as (a & Ha & ->).
    exists a. rewrite <- attrs_new_call. split; [exact Ha|reflexivity].
  - intros e. apply tag_of_item_err.
Qed.

Lemma render_generated :
  (mem_str n_meta void_names = true /\ mem_str n_link void_names = true /\
   mem_str n_script void_names = false) /\
  (forall i eol ws a,
     render_tag (M:=dep) i eol (TagN n_meta ws a []) = Ok [PWs (indent_str i); PSelf n_meta a ws] /\
     render_tag (M:=dep) i eol (TagN n_link ws a []) = Ok [PWs (indent_str i); PSelf n_link a ws] /\
     render_tag (M:=dep) i eol (TagN n_script ws a [])
     = Ok [PWs (indent_str i); POpen n_script a ws; PClose n_script ws] /\
     tag_html (M:=dep) i eol (TagN n_meta ws a [])
     = Ok (indent_str i ++ [60] ++ n_meta ++ attrs_str a ++ [47; 62]) /\
     tag_html (M:=dep) i eol (TagN n_link ws a [])
     = Ok (indent_str i ++ [60] ++ n_link ++ attrs_str a ++ [47; 62]) /\
     tag_html (M:=dep) i eol (TagN n_script ws a [])
     = Ok (indent_str i ++ ([60] ++ n_script ++ attrs_str a ++ [62]) ++ [60; 47] ++ n_script ++ [62])) /\
  (forall l,
     attrs_str (plain_attrs l)
     = flat_map (fun kv => [32] ++ fst kv ++ [61; 34] ++ html_escape true (snd kv) ++ [34]) l).
Proof.
  split; [exact void_meta_link|]. split; [|exact attrs_str_plain].
  intros i eol ws a. rewrite !render_leaf, !tag_html_leaf. unfold tag_pieces.
  destruct void_meta_link as (-> & -> & ->). repeat split; reflexivity.
Qed.

Lemma dep_render_list d lp iv tags i eol esc :
  Forall dict_ok (dd_sheets d) -> Forall dict_ok (dd_scripts d) ->
  Forall (fun it => item_ws it = true) (dd_meta d ++ dd_sheets d ++ dd_scripts d) ->
  dep_html_tags d lp iv = Ok tags ->
  exists gen,
    tags = gen ++ head_items d /\ Forall (fun t => block_leaf t = true) gen /\
    render_list i eol true esc tags =
    match render_list i eol true esc (head_items d) with
    | Err e => Err e
    | Ok pp =>
      Ok (lines_pieces eol true (map (tag_pieces i) gen)
          ++ (if nil_b gen || forallb is_meta (head_items d) then [] else [PWs eol]) ++ pp)
    end.
Proof.
  intros H1 H2 Hw H.
  destruct (dep_html_tags_block d lp iv tags H1 H2 Hw H) as (gen & -> & Hg & _).
  exists gen. split; [reflexivity|]. split; [exact Hg|]. apply render_dep_list. exact Hg.
Qed.

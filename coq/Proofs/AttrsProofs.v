(* Proofs for C15 (attribute normalisation and merging). *)
From Coq Require Import Lia.
From HT Require Import Model.Str Model.Tree Model.Escape Model.Attrs Spec.CharMap
     Spec.AttrsSpec Proofs.EscapeProofs.

(* ---- string equality ------------------------------------------------------------ *)
Lemma str_eqb_refl a : str_eqb a a = true.
Proof. induction a as [|x a IH]; simpl; [reflexivity|]. rewrite N.eqb_refl, IH. reflexivity. Qed.

Lemma str_eqb_eq a b : str_eqb a b = true <-> a = b.
Proof.
  split.
  - revert b. induction a as [|x a IH]; intros [|y b] H; simpl in H; try discriminate.
    + reflexivity.
    + apply andb_true_iff in H. destruct H as [H1 H2].
      apply N.eqb_eq in H1. apply IH in H2. subst. reflexivity.
  - intros ->. apply str_eqb_refl.
Qed.

Lemma str_eqb_spec a b : reflect (a = b) (str_eqb a b).
Proof.
  destruct (str_eqb a b) eqn:E; constructor.
  - apply str_eqb_eq. exact E.
  - intros H. apply str_eqb_eq in H. congruence.
Qed.

Lemma str_eqb_neq a b : a <> b -> str_eqb a b = false.
Proof. intros H. destruct (str_eqb_spec a b); [contradiction|reflexivity]. Qed.

Lemma str_eqb_sym a b : str_eqb a b = str_eqb b a.
Proof.
  destruct (str_eqb_spec a b) as [->|H].
  - symmetry. apply str_eqb_refl.
  - symmetry. apply str_eqb_neq. congruence.
Qed.

Lemma mem_str_In s l : mem_str s l = true <-> In s l.
Proof.
  unfold mem_str. rewrite existsb_exists. split.
  - intros [x [Hx E]]. apply str_eqb_eq in E. subst. exact Hx.
  - intros H. exists s. split; [exact H|apply str_eqb_refl].
Qed.

Lemma mem_str_spec s l : reflect (In s l) (mem_str s l).
Proof.
  destruct (mem_str s l) eqn:E; constructor.
  - apply mem_str_In. exact E.
  - intros H. apply mem_str_In in H. congruence.
Qed.

(* ---- names ---------------------------------------------------------------------- *)
Lemma replace1_us s : replace1 95 [45] s = map us_to_hyphen s.
Proof.
  unfold replace1. induction s as [|c s IH]; simpl; [reflexivity|].
  rewrite IH. unfold us_to_hyphen. destruct (c =? 95); reflexivity.
Qed.

Lemma strip_model x :
  (if ends_with_us x then removelast x else x) = strip_one_trailing_us x.
Proof.
  induction x as [|c x IH]; [reflexivity|].
  destruct x as [|d x'].
  - simpl. destruct (c =? 95); reflexivity.
  - change (ends_with_us (c :: d :: x')) with (ends_with_us (d :: x')).
    change (removelast (c :: d :: x')) with (c :: removelast (d :: x')).
    change (strip_one_trailing_us (c :: d :: x')) with (c :: strip_one_trailing_us (d :: x')).
    rewrite <- IH. destruct (ends_with_us (d :: x')); reflexivity.
Qed.

Lemma norm_name_spec x : norm_name x = spec_name x.
Proof. unfold norm_name, spec_name. rewrite replace1_us, strip_model. reflexivity. Qed.

Lemma strip_snoc_us y : strip_one_trailing_us (y ++ [95]) = y.
Proof.
  induction y as [|c y IH]; [reflexivity|].
  destruct y as [|d y'].
  - reflexivity.
  - change ((c :: d :: y') ++ [95]) with (c :: (d :: y') ++ [95]).
    simpl app in *. simpl strip_one_trailing_us in *.
    destruct (y' ++ [95]) eqn:E.
    + destruct y'; discriminate.
    + rewrite IH. reflexivity.
Qed.

Lemma strip_no_trailing x : (forall y, x <> y ++ [95]) -> strip_one_trailing_us x = x.
Proof.
  induction x as [|c x IH]; intros H; [reflexivity|].
  destruct x as [|d x'].
  - simpl. destruct (N.eqb_spec c 95) as [->|Hc]; [|reflexivity].
    exfalso. apply (H []). reflexivity.
  - change (strip_one_trailing_us (c :: d :: x')) with (c :: strip_one_trailing_us (d :: x')).
    rewrite IH; [reflexivity|].
    intros y Hy. apply (H (c :: y)). simpl. rewrite Hy. reflexivity.
Qed.

Lemma spec_name_no_us x : ~ In 95 (spec_name x).
Proof.
  unfold spec_name. intros H. apply in_map_iff in H. destruct H as [c [Hc _]].
  unfold us_to_hyphen in Hc. destruct (N.eqb_spec c 95); [discriminate|congruence].
Qed.

Lemma strip_id_no_us x : ~ In 95 x -> strip_one_trailing_us x = x.
Proof.
  intros H. apply strip_no_trailing. intros y ->. apply H. apply in_or_app. right. left. reflexivity.
Qed.

Lemma spec_name_id x : ~ In 95 x -> spec_name x = x.
Proof.
  intros H. unfold spec_name. rewrite strip_id_no_us by exact H.
  induction x as [|c x IH]; [reflexivity|]. simpl.
  rewrite IH by (intros H'; apply H; right; exact H').
  unfold us_to_hyphen. destruct (N.eqb_spec c 95) as [->|_]; [|reflexivity].
  exfalso. apply H. left. reflexivity.
Qed.

(* ---- values --------------------------------------------------------------------- *)
Lemma norm_value_spec v : norm_value v = spec_value v.
Proof. destruct v as [| [|] | | | | |]; reflexivity. Qed.

(* ---- join, escape and the declarative merge -------------------------------------- *)
Lemma join_snoc sep l x : l <> [] -> join sep (l ++ [x]) = join sep l ++ sep ++ x.
Proof.
  induction l as [|a l IH]; intros H; [congruence|].
  destruct l as [|b l'].
  - reflexivity.
  - change (join sep ((a :: b :: l') ++ [x])) with (a ++ sep ++ join sep ((b :: l') ++ [x])).
    rewrite IH by discriminate.
    change (join sep (a :: b :: l')) with (a ++ sep ++ join sep (b :: l')).
    rewrite <- !app_assoc. reflexivity.
Qed.

Lemma flat_map_join (f : N -> str) sep l :
  flat_map f (join sep l) = join (flat_map f sep) (map (flat_map f) l).
Proof.
  induction l as [|a l IH]; [reflexivity|].
  destruct l as [|b l'].
  - reflexivity.
  - change (join sep (a :: b :: l')) with (a ++ sep ++ join sep (b :: l')).
    rewrite !flat_map_app, IH. reflexivity.
Qed.

Lemma esc_space attr : spec_escape attr [32] = [32].
Proof. destruct attr; reflexivity. Qed.

Lemma no_html_seg vs :
  existsb is_html vs = false ->
  map (seg_text true) vs = map (spec_escape true) (map (seg_text false) vs).
Proof.
  induction vs as [|v vs IH]; intros H; [reflexivity|].
  simpl in H. apply orb_false_iff in H. destruct H as [H1 H2].
  destruct v; [|discriminate]. simpl. rewrite IH by exact H2. reflexivity.
Qed.

Lemma merged_single v : merged [v] = v.
Proof. destruct v; reflexivity. Qed.

Lemma merged_kind vs : aval_is_html (merged vs) = existsb is_html vs.
Proof. unfold merged. destruct (existsb is_html vs); reflexivity. Qed.

(* the declarative merge is what the code computes: coercion of the plain operand when
   either side is HTML, then (old + space) + val *)
Lemma merged_snoc vs v :
  vs <> [] -> merged (vs ++ [v]) = merge_vals (merged vs) v.
Proof.
  intros Hne. unfold merge_vals. rewrite merged_kind.
  unfold merged. rewrite existsb_app, !map_app. simpl map. simpl existsb.
  assert (Hm : forall b, map (seg_text b) vs <> []) by (intros b; destruct vs; [congruence|discriminate]).
  rewrite !join_snoc by apply Hm.
  destruct (existsb is_html vs) eqn:E; destruct v as [s|h]; unfold space; simpl;
    rewrite ?escape_is_charmap, ?esc_space, <- ?app_assoc; try reflexivity.
  unfold spec_escape at 1. rewrite flat_map_join.
  change (flat_map esc_attr_char [32]) with [32].
  rewrite (no_html_seg vs E). reflexivity.
Qed.

(* left-to-right reading of the same thing *)
Definition merge_left (v : aval) (vs : list aval) : aval := fold_left merge_vals vs v.

Lemma merged_fold v vs : merged (v :: vs) = merge_left v vs.
Proof.
  unfold merge_left. revert v. induction vs as [|x vs IH] using rev_ind; intros v.
  - apply merged_single.
  - rewrite fold_left_app. simpl. rewrite <- IH.
    change (v :: vs ++ [x]) with ((v :: vs) ++ [x]). apply merged_snoc. discriminate.
Qed.

Lemma merged_plain vs :
  existsb is_html vs = false -> merged vs = AStr (join [32] (map aval_text vs)).
Proof.
  intros H. unfold merged. rewrite H.
  replace (map (seg_text false) vs) with (map aval_text vs); [reflexivity|].
  apply map_ext. intros [s|s]; reflexivity.
Qed.

(* ---- the model loops as a fold over the kept pairs ------------------------------- *)
Definition acc_pair (acc : attrs) (p : str * aval) : attrs :=
  set_item (fst p)
    (match lookup (fst p) acc with
     | Some old => merge_vals old (snd p)
     | None => snd p
     end) acc.

Lemma update_items_fold items attrz :
  update_items items attrz =
  match kept_pairs items with
  | Err e => Err e
  | Ok ps => Ok (fold_left acc_pair ps attrz)
  end.
Proof.
  revert attrz. induction items as [|[k v] rest IH]; intros attrz; [reflexivity|].
  simpl. rewrite norm_value_spec. destruct (spec_value v) as [[a|]|e]; try reflexivity.
  - rewrite IH, norm_name_spec. destruct (kept_pairs rest); reflexivity.
  - apply IH.
Qed.

Lemma kept_pairs_app a b :
  kept_pairs (a ++ b) =
  match kept_pairs a with
  | Err e => Err e
  | Ok pa => match kept_pairs b with Err e => Err e | Ok pb => Ok (pa ++ pb) end
  end.
Proof.
  induction a as [|[k v] a IH].
  - simpl. destruct (kept_pairs b); reflexivity.
  - simpl. destruct (spec_value v) as [[x|]|e]; try reflexivity.
    + rewrite IH. destruct (kept_pairs a); [|reflexivity]. destruct (kept_pairs b); reflexivity.
    + exact IH.
Qed.

Lemma update_args_fold args attrz :
  update_args args attrz =
  match kept_pairs (concat args) with
  | Err e => Err e
  | Ok ps => Ok (fold_left acc_pair ps attrz)
  end.
Proof.
  revert attrz. induction args as [|d rest IH]; intros attrz; [reflexivity|].
  simpl. rewrite update_items_fold, kept_pairs_app.
  destruct (kept_pairs d) as [pd|e]; [|reflexivity].
  rewrite IH. destruct (kept_pairs (concat rest)); [|reflexivity].
  rewrite fold_left_app. reflexivity.
Qed.

(* ---- ordered-map lemmas ----------------------------------------------------------- *)
Lemma lookup_None k m : lookup k m = None <-> ~ In k (keys m).
Proof.
  induction m as [|[k' v] m IH]; simpl.
  - tauto.
  - destruct (str_eqb_spec k k') as [->|Hn].
    + split; [discriminate|]. intros H. exfalso. apply H. left. reflexivity.
    + rewrite IH. split; intros H; [intros [E|E]; [congruence|tauto]|tauto].
Qed.

Lemma lookup_In k m : In k (keys m) -> exists v, lookup k m = Some v.
Proof.
  intros H. destruct (lookup k m) eqn:E; [eauto|]. apply lookup_None in E. contradiction.
Qed.

Lemma set_item_absent k v m : ~ In k (keys m) -> set_item k v m = m ++ [(k, v)].
Proof.
  induction m as [|[k' v'] m IH]; intros H; simpl; [reflexivity|].
  simpl in H. rewrite str_eqb_neq by (intros E; apply H; left; congruence).
  rewrite IH by tauto. reflexivity.
Qed.

Lemma keys_set_item k v m :
  keys (set_item k v m) = if mem_str k (keys m) then keys m else keys m ++ [k].
Proof.
  induction m as [|[k' v'] m IH]; simpl; [reflexivity|].
  rewrite (str_eqb_sym k k') at 2. rewrite str_eqb_sym.
  destruct (str_eqb_spec k' k) as [->|Hn]; simpl.
  - reflexivity.
  - rewrite IH. unfold mem_str. destruct (existsb (str_eqb k) (keys m)); reflexivity.
Qed.

Lemma lookup_set_item k v m k' :
  lookup k' (set_item k v m) = if str_eqb k' k then Some v else lookup k' m.
Proof.
  induction m as [|[k0 v0] m IH]; simpl.
  - destruct (str_eqb k' k); reflexivity.
  - destruct (str_eqb_spec k k0) as [->|Hn]; simpl.
    + destruct (str_eqb k' k0); reflexivity.
    + rewrite IH. destruct (str_eqb_spec k' k0) as [->|Hn'].
      * rewrite str_eqb_neq by congruence. reflexivity.
      * reflexivity.
Qed.

(* with distinct keys, set_item on a present key is a pointwise replacement *)
Lemma set_item_present k v m :
  NoDup (keys m) -> In k (keys m) ->
  set_item k v m = map (fun kv => if str_eqb (fst kv) k then (fst kv, v) else kv) m.
Proof.
  induction m as [|[k' v'] m IH]; intros Hnd Hin; [destruct Hin|].
  simpl in *. apply NoDup_cons_iff in Hnd. destruct Hnd as [Hni Hnd].
  rewrite (str_eqb_sym k k').
  destruct (str_eqb_spec k' k) as [->|Hn].
  - f_equal. rewrite <- (map_id m) at 1. apply map_ext_in. intros [k1 v1] H1. simpl.
    rewrite str_eqb_neq; [reflexivity|]. intros ->. apply Hni.
    apply in_map_iff. exists (k, v1). split; [reflexivity|exact H1].
  - f_equal. apply IH; [exact Hnd|]. destruct Hin; [congruence|assumption].
Qed.

(* ---- first_names / values_of ------------------------------------------------------- *)
Lemma first_names_In x l : In x (first_names l) <-> In x l.
Proof.
  induction l as [|a l IH]; simpl; [tauto|].
  rewrite filter_In, IH. destruct (str_eqb_spec a x) as [->|Hn]; simpl.
  - split; [intros [H|[H _]]; tauto | intros _; left; reflexivity].
  - split; [intros [H|[H _]]; tauto | intros [H|H]; [congruence|right; tauto]].
Qed.

Lemma first_names_NoDup l : NoDup (first_names l).
Proof.
  induction l as [|a l IH]; simpl; [constructor|].
  constructor.
  - intros H. apply filter_In in H. destruct H as [_ H]. rewrite str_eqb_refl in H. discriminate.
  - apply NoDup_filter. exact IH.
Qed.

Lemma first_names_snoc l n :
  first_names (l ++ [n]) = if mem_str n l then first_names l else first_names l ++ [n].
Proof.
  induction l as [|a l IH]; [reflexivity|].
  simpl. rewrite IH. rewrite (str_eqb_sym n a).
  destruct (str_eqb_spec a n) as [->|Hn]; simpl.
  - destruct (mem_str n l); [reflexivity|].
    rewrite filter_app. simpl. rewrite str_eqb_refl. simpl. rewrite app_nil_r. reflexivity.
  - destruct (mem_str n l); [reflexivity|].
    rewrite filter_app. simpl. rewrite str_eqb_neq by exact Hn. reflexivity.
Qed.

Lemma first_names_nodup_id l : NoDup l -> first_names l = l.
Proof.
  induction l as [|a l IH]; intros H; [reflexivity|].
  apply NoDup_cons_iff in H. destruct H as [Hni Hnd]. simpl. rewrite IH by exact Hnd.
  f_equal. rewrite <- (app_nil_r l) at 2. rewrite <- (app_nil_r (filter _ _)).
  clear IH Hnd. induction l as [|b l IH]; [reflexivity|]. simpl.
  rewrite str_eqb_neq by (intros ->; apply Hni; left; reflexivity). simpl.
  f_equal. apply IH. intros H. apply Hni. right. exact H.
Qed.

Lemma values_of_snoc n' ps n v :
  values_of n' (ps ++ [(n, v)]) = values_of n' ps ++ (if str_eqb n' n then [v] else []).
Proof.
  unfold values_of. rewrite filter_app, map_app. simpl. destruct (str_eqb n' n); reflexivity.
Qed.

Lemma values_of_absent n ps : ~ In n (map fst ps) -> values_of n ps = [].
Proof.
  unfold values_of. induction ps as [|[k v] ps IH]; intros H; [reflexivity|].
  simpl in *. rewrite str_eqb_neq by (intros E; apply H; left; congruence).
  apply IH. tauto.
Qed.

Lemma values_of_present n ps : In n (map fst ps) -> values_of n ps <> [].
Proof.
  unfold values_of. induction ps as [|[k v] ps IH]; intros H; [destruct H|].
  simpl in *. destruct (str_eqb_spec n k) as [->|Hn]; [discriminate|].
  apply IH. destruct H; [congruence|assumption].
Qed.

Lemma keys_group ps : keys (group ps) = first_names (map fst ps).
Proof. unfold keys, group. rewrite map_map. simpl. apply map_id. Qed.

Lemma lookup_group n ps :
  lookup n (group ps) =
  if mem_str n (map fst ps) then Some (merged (values_of n ps)) else None.
Proof.
  destruct (mem_str_spec n (map fst ps)) as [Hin|Hni].
  - apply first_names_In in Hin. unfold group.
    induction (first_names (map fst ps)) as [|a l IH]; [destruct Hin|].
    simpl. destruct (str_eqb_spec n a) as [->|Hn]; [reflexivity|].
    apply IH. destruct Hin; [congruence|assumption].
  - apply lookup_None. rewrite keys_group, first_names_In. exact Hni.
Qed.

Lemma group_snoc ps n v : group (ps ++ [(n, v)]) = acc_pair (group ps) (n, v).
Proof.
  unfold acc_pair. simpl fst. simpl snd. rewrite lookup_group.
  replace (group (ps ++ [(n, v)])) with
    (map (fun n' => (n', merged (values_of n' (ps ++ [(n, v)])))) (first_names (map fst ps ++ [n])))
    by (unfold group; rewrite map_app; reflexivity).
  rewrite first_names_snoc.
  destruct (mem_str_spec n (map fst ps)) as [Hin|Hni].
  - rewrite set_item_present.
    2:{ rewrite keys_group. apply first_names_NoDup. }
    2:{ rewrite keys_group. apply first_names_In. exact Hin. }
    unfold group. rewrite map_map. apply map_ext_in. intros n' Hn'. simpl.
    rewrite values_of_snoc.
    destruct (str_eqb_spec n' n) as [->|Hn].
    + rewrite merged_snoc by (apply values_of_present; exact Hin). reflexivity.
    + rewrite app_nil_r. reflexivity.
  - rewrite set_item_absent by (rewrite keys_group, first_names_In; exact Hni).
    unfold group. rewrite map_app. f_equal.
    + apply map_ext_in. intros n' Hn'. rewrite values_of_snoc.
      rewrite str_eqb_neq; [rewrite app_nil_r; reflexivity|].
      intros ->. apply Hni. apply first_names_In. exact Hn'.
    + simpl. rewrite values_of_snoc, str_eqb_refl, values_of_absent by exact Hni.
      simpl. rewrite merged_single. reflexivity.
Qed.

Lemma fold_acc_group ps : fold_left acc_pair ps [] = group ps.
Proof.
  induction ps as [|[n v] ps IH] using rev_ind; [reflexivity|].
  rewrite fold_left_app. simpl. rewrite IH. symmetry. apply group_snoc.
Qed.

(* ---- dict.update is replace-in-place-or-append -------------------------------------- *)
Lemma replace_merge_nil self : replace_merge self [] = self.
Proof.
  unfold replace_merge. simpl. rewrite app_nil_r. rewrite <- (map_id self) at 2.
  apply map_ext. intros [k v]. reflexivity.
Qed.

Lemma NoDup_snoc {A} (l : list A) k : NoDup l -> ~ In k l -> NoDup (l ++ [k]).
Proof.
  induction l as [|a l IH]; intros Hnd Hni; simpl.
  - constructor; [tauto|constructor].
  - apply NoDup_cons_iff in Hnd. destruct Hnd as [Ha Hnd]. constructor.
    + intros H. apply in_app_or in H. destruct H as [H|[H|[]]]; [tauto|].
      apply Hni. left. symmetry. exact H.
    + apply IH; [exact Hnd|]. intros H. apply Hni. right. exact H.
Qed.

Lemma set_item_NoDup k v m : NoDup (keys m) -> NoDup (keys (set_item k v m)).
Proof.
  intros H. rewrite keys_set_item. destruct (mem_str_spec k (keys m)) as [Hin|Hni]; [exact H|].
  apply NoDup_snoc; assumption.
Qed.

Lemma mem_str_app_single x l k : x <> k -> mem_str x (l ++ [k]) = mem_str x l.
Proof.
  intros H. unfold mem_str. rewrite existsb_app. simpl.
  rewrite str_eqb_neq by exact H. rewrite !orb_false_r. reflexivity.
Qed.

Lemma dict_update_spec new : forall self,
  NoDup (keys self) -> NoDup (keys new) -> dict_update self new = replace_merge self new.
Proof.
  induction new as [|[k v] new IH]; intros self Hs Hn.
  - symmetry. apply replace_merge_nil.
  - change (dict_update self ((k, v) :: new)) with (dict_update (set_item k v self) new).
    simpl in Hn. apply NoDup_cons_iff in Hn. destruct Hn as [Hk Hn].
    rewrite IH; [|apply set_item_NoDup; exact Hs|exact Hn].
    assert (Hlk : lookup k new = None) by (apply lookup_None; exact Hk).
    unfold replace_merge. rewrite keys_set_item.
    destruct (mem_str_spec k (keys self)) as [Hin|Hni].
    + rewrite set_item_present by assumption.
      simpl filter. apply mem_str_In in Hin. rewrite Hin. simpl negb. cbv iota.
      f_equal. rewrite map_map. apply map_ext_in. intros [k1 v1] H1. simpl.
      destruct (str_eqb_spec k1 k) as [->|Hne]; simpl.
      * rewrite Hlk. reflexivity.
      * reflexivity.
    + rewrite set_item_absent by exact Hni.
      rewrite map_app. simpl map at 2. rewrite Hlk. rewrite <- app_assoc.
      f_equal.
      * apply map_ext_in. intros [k1 v1] H1. simpl.
        rewrite str_eqb_neq; [reflexivity|]. intros ->. apply Hni.
        apply in_map_iff. exists (k, v1). split; [reflexivity|exact H1].
      * simpl. destruct (mem_str_spec k (keys self)) as [Hin|_]; [contradiction|]. simpl.
        f_equal. apply filter_ext_in. intros [k1 v1] H1. simpl.
        rewrite mem_str_app_single; [reflexivity|]. intros ->. apply Hk.
        apply in_map_iff. exists (k, v1). split; [reflexivity|exact H1].
Qed.

Lemma concat_kwargs (args : list pydict) (kw : pydict) :
  concat (match kw with [] => args | _ => args ++ [kw] end) = concat args ++ kw.
Proof.
  destruct kw as [|p kw].
  - rewrite app_nil_r. reflexivity.
  - rewrite concat_app. simpl. rewrite app_nil_r. reflexivity.
Qed.

(* the accumulated dict of one call is the grouped pairs of the call *)
Lemma update_args_call args kw :
  update_args (match kw with [] => args | _ => args ++ [kw] end) [] = attrs_of_call args kw.
Proof.
  rewrite update_args_fold, concat_kwargs. unfold attrs_of_call.
  destruct (kept_pairs (concat args ++ kw)); simpl; [rewrite fold_acc_group|]; reflexivity.
Qed.

Lemma attrs_update_spec self args kw :
  NoDup (keys self) -> attrs_update self args kw = spec_step self (OpUpdate args kw).
Proof.
  intros H. unfold attrs_update, spec_step. rewrite update_args_call.
  unfold attrs_of_call. destruct (kept_pairs (concat args ++ kw)) as [ps|e]; simpl; [|reflexivity].
  rewrite dict_update_spec; [reflexivity|exact H|].
  rewrite keys_group. apply first_names_NoDup.
Qed.

Lemma attrs_setitem_spec self k v :
  NoDup (keys self) -> attrs_setitem self k v = spec_step self (OpSet k v).
Proof.
  intros H. unfold attrs_setitem, spec_step. rewrite norm_value_spec.
  destruct (spec_value v) as [[a|]|e]; try reflexivity.
  rewrite norm_name_spec.
  rewrite <- dict_update_spec; [reflexivity|exact H|].
  simpl. constructor; [tauto|constructor].
Qed.

Lemma step_spec st o : NoDup (keys st) -> step st o = spec_step st o.
Proof.
  intros H. destruct o as [args kw|k v]; [apply attrs_update_spec|apply attrs_setitem_spec]; exact H.
Qed.

(* ---- invariant ------------------------------------------------------------------------ *)
Lemma wf_nil : wf_attrs [].
Proof. split; constructor. Qed.

Lemma set_item_wf k v m : wf_attrs m -> normalised k -> wf_attrs (set_item k v m).
Proof.
  intros [Hnd Hall] Hk. split; [apply set_item_NoDup; exact Hnd|].
  rewrite keys_set_item. destruct (mem_str k (keys m)); [exact Hall|].
  apply Forall_app. split; [exact Hall|]. constructor; [exact Hk|constructor].
Qed.

Lemma dict_update_wf new : forall self,
  wf_attrs self -> Forall normalised (keys new) -> wf_attrs (dict_update self new).
Proof.
  induction new as [|[k v] new IH]; intros self Hs Hn; [exact Hs|].
  change (dict_update self ((k, v) :: new)) with (dict_update (set_item k v self) new).
  simpl in Hn. inversion Hn as [|? ? Hk Hn']; subst.
  apply IH; [apply set_item_wf; assumption|exact Hn'].
Qed.

Lemma kept_pairs_names items : forall ps,
  kept_pairs items = Ok ps -> Forall normalised (map fst ps).
Proof.
  induction items as [|[k v] rest IH]; intros ps H; simpl in H.
  - inversion H. constructor.
  - destruct (spec_value v) as [[a|]|e]; [|apply IH; exact H|discriminate].
    destruct (kept_pairs rest) as [l|e]; [|discriminate].
    inversion H. subst. simpl. constructor; [apply spec_name_no_us|apply IH; reflexivity].
Qed.

Lemma group_names ps : Forall normalised (map fst ps) -> Forall normalised (keys (group ps)).
Proof.
  intros H. rewrite keys_group. rewrite Forall_forall in *. intros x Hx.
  apply H. apply first_names_In. exact Hx.
Qed.

Lemma step_wf st o : wf_attrs st -> wf_attrs (fst (step st o)).
Proof.
  intros H. destruct o as [args kw|k v]; simpl.
  - unfold attrs_update. rewrite update_args_call. unfold attrs_of_call.
    destruct (kept_pairs (concat args ++ kw)) as [ps|e] eqn:E; simpl; [|exact H].
    apply dict_update_wf; [exact H|]. apply group_names. apply (kept_pairs_names _ _ E).
  - unfold attrs_setitem. destruct (norm_value v) as [[a|]|e]; simpl; try exact H.
    apply set_item_wf; [exact H|]. rewrite norm_name_spec. apply spec_name_no_us.
Qed.

Lemma final_state_wf ops : forall st, wf_attrs st -> wf_attrs (final_state st ops).
Proof.
  unfold final_state. induction ops as [|o ops IH]; intros st H; [exact H|].
  simpl. apply IH. apply step_wf. exact H.
Qed.

Lemma run_ops_spec ops : forall st, wf_attrs st -> run_ops st ops = spec_run st ops.
Proof.
  induction ops as [|o ops IH]; intros st H; [reflexivity|].
  simpl. rewrite <- (step_spec st o) by apply H. f_equal. apply IH. apply step_wf. exact H.
Qed.

Lemma run_ops_wf ops : forall st,
  wf_attrs st -> Forall (fun r => wf_attrs (fst r)) (run_ops st ops).
Proof.
  induction ops as [|o ops IH]; intros st H; simpl; constructor.
  - apply step_wf. exact H.
  - apply IH. apply step_wf. exact H.
Qed.

(* ---- atomicity -------------------------------------------------------------------------- *)
Lemma step_atomic st o e : snd (step st o) = Some e -> fst (step st o) = st.
Proof.
  destruct o as [args kw|k v]; simpl.
  - unfold attrs_update. destruct (update_args _ []); simpl; [discriminate|reflexivity].
  - unfold attrs_setitem. destruct (norm_value v) as [[a|]|e']; simpl; try discriminate; reflexivity.
Qed.

(* an exception is raised exactly when some value of the call has an unsupported type,
   wherever it stands (also after values that were already merged) *)
Lemma kept_pairs_err items :
  (exists e, kept_pairs items = Err e) <-> In VBad (map snd items).
Proof.
  induction items as [|[k v] rest IH]; simpl.
  - split; [intros [e H]; discriminate|tauto].
  - assert (Hkeep : forall a, (exists e, match kept_pairs rest with
                                         | Err e0 => Err e0
                                         | Ok l => Ok ((spec_name k, a) :: l)
                                         end = Err e) <-> (exists e, kept_pairs rest = Err e)).
    { intros a. destruct (kept_pairs rest) as [l|e0].
      - split; intros [e H]; discriminate.
      - split; intros _; eauto. }
    destruct v as [| [|] | r | r | s | s |]; simpl; rewrite ?Hkeep, ?IH;
      try (split; [intros H; right; exact H|intros [H|H]; [discriminate|exact H]]).
    split; [intros _; left; reflexivity|intros _; eauto].
Qed.

(* ---- consolidate_attrs -------------------------------------------------------------------- *)
Lemma kept_pairs_dict_of_attrs a :
  Forall normalised (keys a) -> kept_pairs (dict_of_attrs a) = Ok a.
Proof.
  induction a as [|[k v] a IH]; intros H; [reflexivity|].
  simpl in H. inversion H as [|? ? Hk Ha]; subst.
  simpl. destruct v as [s|s]; simpl; rewrite (IH Ha), (spec_name_id k Hk); reflexivity.
Qed.

Lemma fold_acc_fresh a : forall acc,
  NoDup (keys acc ++ keys a) -> fold_left acc_pair a acc = acc ++ a.
Proof.
  induction a as [|[k v] a IH]; intros acc H; [rewrite app_nil_r; reflexivity|].
  simpl in H. simpl. unfold acc_pair at 2. simpl fst. simpl snd.
  assert (Hk : ~ In k (keys acc)).
  { apply NoDup_remove_2 in H. intros Hin. apply H. apply in_or_app. left. exact Hin. }
  apply lookup_None in Hk. rewrite Hk. apply lookup_None in Hk.
  rewrite set_item_absent by exact Hk. rewrite IH.
  - rewrite <- app_assoc. reflexivity.
  - unfold keys. rewrite map_app. simpl. rewrite <- app_assoc. exact H.
Qed.

Lemma group_id a : NoDup (keys a) -> group a = a.
Proof. intros H. rewrite <- fold_acc_group. apply (fold_acc_fresh a []). exact H. Qed.

Lemma filter_all {A} (f : A -> bool) l : (forall x, f x = true) -> filter f l = l.
Proof. intros H. induction l as [|x l IH]; simpl; [reflexivity|]. rewrite H, IH. reflexivity. Qed.

Lemma attrs_new_of_attrs a : wf_attrs a -> attrs_new [dict_of_attrs a] [] = Ok a.
Proof.
  intros [Hnd Hall]. unfold attrs_new. rewrite attrs_update_spec by constructor.
  unfold spec_step, attrs_of_call. simpl concat. rewrite !app_nil_r.
  rewrite kept_pairs_dict_of_attrs by exact Hall. simpl. rewrite group_id by exact Hnd.
  unfold replace_merge. simpl. rewrite filter_all by reflexivity. reflexivity.
Qed.

Lemma attrs_new_wf args kw a : attrs_new args kw = Ok a -> wf_attrs a.
Proof.
  unfold attrs_new. intros H.
  pose proof (step_wf [] (OpUpdate args kw) wf_nil) as W. simpl in W.
  destruct (attrs_update [] args kw) as [a' [e|]]; [discriminate|]. inversion H. subst. exact W.
Qed.

Lemma dict_args_rebuild {C} d (ch : list C) : dict_args (PDict d :: map PChild ch) = [d].
Proof. simpl. f_equal. induction ch as [|c ch IH]; [reflexivity|exact IH]. Qed.

Lemma kid_args_rebuild {C} d (ch : list C) : kid_args (PDict d :: map PChild ch) = ch.
Proof. simpl. induction ch as [|c ch IH]; [reflexivity|]. simpl. rewrite IH. reflexivity. Qed.

Lemma consolidate_rebuild {C} (args : list (posarg C)) kw a ch :
  consolidate args kw = Ok (a, ch) ->
  tag_new args kw = Ok (a, ch) /\
  tag_new (PDict (dict_of_attrs a) :: map PChild ch) [] = Ok (a, ch).
Proof.
  unfold consolidate, tag_new. intros H.
  destruct (attrs_new (dict_args args) kw) as [a0|e] eqn:E; [|discriminate].
  inversion H. subst. split; [reflexivity|].
  rewrite dict_args_rebuild, kid_args_rebuild.
  rewrite attrs_new_of_attrs by (apply (attrs_new_wf _ _ _ E)). reflexivity.
Qed.

Lemma consolidate_err {C} (args : list (posarg C)) kw e :
  consolidate args kw = Err e <-> tag_new args kw = Err e.
Proof.
  unfold consolidate. destruct (tag_new args kw) as [[a ch]|e']; split; intros H; try discriminate; exact H.
Qed.

(* ---- what replace_merge means, name by name ------------------------------------------------ *)
Lemma keys_replace_merge self new :
  keys (replace_merge self new) =
  keys self ++ filter (fun k => negb (mem_str k (keys self))) (keys new).
Proof.
  unfold replace_merge, keys. rewrite map_app, map_map. simpl. f_equal.
  induction new as [|[k v] new IH]; [reflexivity|]. simpl.
  destruct (negb (mem_str k (map fst self))); simpl; rewrite IH; reflexivity.
Qed.

Lemma lookup_app k a b :
  lookup k (a ++ b) = match lookup k a with Some v => Some v | None => lookup k b end.
Proof.
  induction a as [|[k' v'] a IH]; [reflexivity|]. simpl.
  destruct (str_eqb k k'); [reflexivity|exact IH].
Qed.

Lemma lookup_replace_merge k self new :
  lookup k (replace_merge self new) =
  match lookup k new with Some v => Some v | None => lookup k self end.
Proof.
  unfold replace_merge. rewrite lookup_app.
  destruct (mem_str_spec k (keys self)) as [Hin|Hni].
  - induction self as [|[k' v'] self IH]; [destruct Hin|]. simpl.
    destruct (str_eqb_spec k k') as [->|Hn].
    + destruct (lookup k' new); reflexivity.
    + assert (Hin' : In k (keys self)) by (destruct Hin as [E|E]; [simpl in E; congruence|exact E]).
      specialize (IH Hin').
      destruct (lookup k (map (fun kv => (fst kv, match lookup (fst kv) new with
                                                    | Some v => v | None => snd kv end)) self)) eqn:E.
      * exact IH.
      * apply lookup_None in E. exfalso. apply E. unfold keys. rewrite map_map. exact Hin'.
  - assert (E : lookup k (map (fun kv => (fst kv, match lookup (fst kv) new with
                                                    | Some v => v | None => snd kv end)) self) = None).
    { apply lookup_None. unfold keys. rewrite map_map. exact Hni. }
    rewrite E. apply lookup_None in Hni. rewrite Hni.
    apply lookup_None in Hni. clear E.
    induction new as [|[k' v'] new IH]; [reflexivity|]. simpl.
    destruct (str_eqb_spec k k') as [->|Hn].
    + destruct (mem_str_spec k' (keys self)) as [H|_]; [contradiction|]. simpl.
      rewrite str_eqb_refl. reflexivity.
    + destruct (negb (mem_str k' (keys self))); simpl; [rewrite str_eqb_neq by exact Hn|]; exact IH.
Qed.

Lemma last_not_us x : last x 0 <> 95 -> forall y, x <> y ++ [95].
Proof. intros H y ->. apply H. apply last_last. Qed.

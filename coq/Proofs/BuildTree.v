(* C01, layer C (first half): algebra of the canonical form, and the tree builder on a
   token stream with merged character data versus the same stream unmerged. *)
From Coq Require Import Lia.
From HT Require Import Model.Str Spec.CharMap Spec.Tokenizer Spec.TreeElems
     Proofs.TokenizeLemmas.

(* ------------------------------------------------------------------ *)
(* whitespace and trim                                                  *)
(* ------------------------------------------------------------------ *)
Lemma ws_only_app a b : ws_only (a ++ b) = ws_only a && ws_only b.
Proof. unfold ws_only. apply forallb_app. Qed.

Lemma ws_only_rev w : ws_only w = true -> ws_only (rev w) = true.
Proof.
  unfold ws_only. rewrite !forallb_forall. intros H x Hx. apply H, in_rev, Hx.
Qed.

Lemma ws_only_indent i : ws_only (indent_str i) = true.
Proof. induction i as [|i IH]; [reflexivity|]. cbn [indent_str]. exact IH. Qed.

Lemma skip_ws_all w : ws_only w = true -> skip_ws w = [].
Proof.
  induction w as [|c w IH]; [reflexivity|]. cbn [ws_only forallb skip_ws]. intros H.
  apply andb_true_iff in H as [Hc Hw]. rewrite Hc. exact (IH Hw).
Qed.

Lemma skip_ws_app_l w t : ws_only w = true -> skip_ws (w ++ t) = skip_ws t.
Proof.
  induction w as [|c w IH]; [reflexivity|]. cbn [ws_only forallb app skip_ws]. intros H.
  apply andb_true_iff in H as [Hc Hw]. rewrite Hc. exact (IH Hw).
Qed.

Lemma skip_ws_app_r t w :
  ws_only w = true ->
  skip_ws (t ++ w) = match skip_ws t with [] => [] | _ :: _ => skip_ws t ++ w end.
Proof.
  intros Hw. induction t as [|c t IH]; cbn [app skip_ws].
  - apply skip_ws_all, Hw.
  - destruct (is_ws c); [exact IH|reflexivity].
Qed.

Lemma trim_ws_l w t : ws_only w = true -> trim (w ++ t) = trim t.
Proof. intros H. unfold trim. rewrite skip_ws_app_l by exact H. reflexivity. Qed.

Lemma trim_ws_r t w : ws_only w = true -> trim (t ++ w) = trim t.
Proof.
  intros H. unfold trim. rewrite skip_ws_app_r by exact H.
  destruct (skip_ws t) as [|c r]; [reflexivity|].
  rewrite rev_app_distr, skip_ws_app_l; [reflexivity|]. apply ws_only_rev, H.
Qed.

(* what a completed text run contributes to the canonical form *)
Definition flush_run (t : str) : list elem :=
  match trim t with [] => [] | t' => [EText t'] end.

Lemma flush_run_ws w t w' :
  ws_only w = true -> ws_only w' = true -> flush_run (w ++ t ++ w') = flush_run t.
Proof.
  intros H H'. unfold flush_run. rewrite trim_ws_l, trim_ws_r by assumption. reflexivity.
Qed.

Lemma flush_run_ws_only w : ws_only w = true -> flush_run w = [].
Proof.
  intros H. rewrite <- (app_nil_r w). change (w ++ []) with (w ++ [] ++ []).
  rewrite (flush_run_ws w [] []); [reflexivity|exact H|reflexivity].
Qed.

(* ------------------------------------------------------------------ *)
(* canon_list as a state machine: output so far and pending text        *)
(* ------------------------------------------------------------------ *)
Definition cl (t : str) (l : list elem) : list elem := canon_list canon_elem (Some t) l.

Lemma cl_None l : canon_list canon_elem None l = cl [] l.
Proof. destruct l as [|[s|n a k] l]; reflexivity. Qed.

Lemma cl_nil t : cl t [] = flush_run t.
Proof. reflexivity. Qed.
Lemma cl_text t s l : cl t (EText s :: l) = cl (t ++ s) l.
Proof. reflexivity. Qed.
Lemma cl_elem t n a k l :
  cl t (EElem n a k :: l) = flush_run t ++ EElem n a (canon k) :: cl [] l.
Proof. unfold cl at 1. cbn [canon_list]. rewrite cl_None. reflexivity. Qed.

Lemma canon_cl l : canon l = cl [] l.
Proof. unfold canon. apply cl_None. Qed.

Fixpoint cl_out (t : str) (l : list elem) : list elem :=
  match l with
  | [] => []
  | EText s :: l' => cl_out (t ++ s) l'
  | EElem n a k :: l' => flush_run t ++ EElem n a (canon k) :: cl_out [] l'
  end.
Fixpoint cl_pend (t : str) (l : list elem) : str :=
  match l with
  | [] => t
  | EText s :: l' => cl_pend (t ++ s) l'
  | EElem _ _ _ :: l' => cl_pend [] l'
  end.

Lemma cl_split l : forall t H, cl t (l ++ H) = cl_out t l ++ cl (cl_pend t l) H.
Proof.
  induction l as [|[s|n a k] l IH]; intros t H; cbn [app cl_out cl_pend].
  - reflexivity.
  - rewrite cl_text. apply IH.
  - rewrite cl_elem, IH, <- app_assoc. reflexivity.
Qed.

Lemma cl_out_app l : forall t H, cl_out t (l ++ H) = cl_out t l ++ cl_out (cl_pend t l) H.
Proof.
  induction l as [|[s|n a k] l IH]; intros t H; cbn [app cl_out cl_pend].
  - reflexivity.
  - apply IH.
  - rewrite IH, <- app_assoc. reflexivity.
Qed.

Lemma cl_pend_app l : forall t H, cl_pend t (l ++ H) = cl_pend (cl_pend t l) H.
Proof.
  induction l as [|[s|n a k] l IH]; intros t H; cbn [app cl_pend]; [reflexivity|apply IH|apply IH].
Qed.

Lemma canon_split l : canon l = cl_out [] l ++ flush_run (cl_pend [] l).
Proof. rewrite canon_cl, <- (app_nil_r l), cl_split, app_nil_r. reflexivity. Qed.

(* ------------------------------------------------------------------ *)
(* contextual equivalence of forests                                    *)
(* ------------------------------------------------------------------ *)
Definition feq (F G : list elem) : Prop :=
  forall t, cl_out t F = cl_out t G /\ cl_pend t F = cl_pend t G.

Lemma feq_refl F : feq F F.
Proof. intros t. split; reflexivity. Qed.
Lemma feq_sym F G : feq F G -> feq G F.
Proof. intros H t. destruct (H t). split; congruence. Qed.
Lemma feq_trans F G H : feq F G -> feq G H -> feq F H.
Proof. intros H1 H2 t. destruct (H1 t), (H2 t). split; congruence. Qed.

Lemma feq_app A B C D : feq A B -> feq C D -> feq (A ++ C) (B ++ D).
Proof.
  intros H1 H2 t. destruct (H1 t) as [O1 P1].
  rewrite !cl_out_app, !cl_pend_app, O1, P1.
  destruct (H2 (cl_pend t B)) as [O2 P2]. rewrite O2, P2. split; reflexivity.
Qed.

Lemma feq_canon F G : feq F G -> canon F = canon G.
Proof. intros H. rewrite !canon_split. destruct (H []) as [-> ->]. reflexivity. Qed.

Lemma feq_elem n a K K' : canon K = canon K' -> feq [EElem n a K] [EElem n a K'].
Proof. intros H t. cbn [cl_out cl_pend]. rewrite H. split; reflexivity. Qed.

Lemma feq_text_split a b : feq [EText (a ++ b)] [EText a; EText b].
Proof. intros t. cbn [cl_out cl_pend]. rewrite app_assoc. split; reflexivity. Qed.

Lemma feq_text_nil : feq [EText []] [].
Proof. intros t. cbn [cl_out cl_pend]. rewrite app_nil_r. split; reflexivity. Qed.

(* ------------------------------------------------------------------ *)
(* the builder on merged versus unmerged character data                 *)
(* ------------------------------------------------------------------ *)
Definition flushE (p : str) : list elem := match p with [] => [] | _ => [EText p] end.

Lemma feq_flushE p : feq (flushE p) [EText p].
Proof. destruct p; [apply feq_sym, feq_text_nil|apply feq_refl]. Qed.

Lemma rev_flushE p : rev (flushE p) = flushE p.
Proof. destruct p; reflexivity. Qed.

Lemma build_flush p ts cur stack :
  build_stack (flush_chars p ++ ts) cur stack = build_stack ts (flushE p ++ cur) stack.
Proof. destruct p; reflexivity. Qed.

Definition frame_rel (x y : frame) : Prop :=
  fst (fst x) = fst (fst y) /\ snd (fst x) = snd (fst y) /\ feq (rev (snd x)) (rev (snd y)).

Definition ores_rel (x y : option (list elem)) : Prop :=
  match x, y with
  | Some F, Some G => feq F G
  | None, None => True
  | _, _ => False
  end.

Lemma feq_cur p cm cu :
  feq (rev cm ++ [EText p]) (rev cu) -> feq (rev (flushE p ++ cm)) (rev cu).
Proof.
  intros H. rewrite rev_app_distr, rev_flushE.
  eapply feq_trans; [|exact H]. apply feq_app; [apply feq_refl|apply feq_flushE].
Qed.

Lemma feq_push X Y E E' :
  feq (rev X) (rev Y) -> feq [E] [E'] -> feq (rev (E :: X) ++ [EText []]) (rev (E' :: Y)).
Proof.
  intros H1 H2. cbn [rev]. rewrite <- (app_nil_r (rev Y ++ [E'])).
  apply feq_app; [|apply feq_text_nil]. apply feq_app; assumption.
Qed.

Lemma build_merge ts :
  forall p cm cu sm su,
    feq (rev cm ++ [EText p]) (rev cu) -> Forall2 frame_rel sm su ->
    ores_rel (build_stack (merge_from p ts) cm sm) (build_stack ts cu su).
Proof.
  induction ts as [|tok ts IH]; intros p cm cu sm su Hc Hs.
  - cbn [merge_from]. rewrite <- (app_nil_r (flush_chars p)), build_flush.
    cbn [build_stack]. destruct Hs; cbn [ores_rel]; [|exact I].
    apply feq_cur, Hc.
  - destruct tok as [n a [|]|n|s]; cbn [merge_from].
    + rewrite build_flush. cbn [build_stack]. apply IH; [|exact Hs].
      apply feq_push; [apply feq_cur, Hc|apply feq_refl].
    + rewrite build_flush. cbn [build_stack]. apply IH.
      * cbn [rev app]. apply feq_text_nil.
      * constructor; [|exact Hs]. unfold frame_rel. cbn [fst snd].
        split; [reflexivity|]. split; [reflexivity|]. apply feq_cur, Hc.
    + rewrite build_flush. cbn [build_stack].
      destruct Hs as [|[[n1 a1] o1] [[n2 a2] o2] sm su (Hn & Ha & Ho) Hs]; [exact I|].
      cbn [fst snd] in Hn, Ha, Ho. subst n2 a2.
      destruct (str_eqb n n1); [|exact I].
      apply IH; [|exact Hs].
      apply feq_push; [exact Ho|]. apply feq_elem, feq_canon, feq_cur, Hc.
    + cbn [build_stack]. apply IH; [|exact Hs].
      cbn [rev]. apply feq_trans with ((rev cm ++ [EText p]) ++ [EText s]).
      * rewrite <- app_assoc. apply feq_app; [apply feq_refl|apply feq_text_split].
      * apply feq_app; [exact Hc|apply feq_refl].
Qed.

Theorem build_merge_chars ts :
  option_map canon (build (merge_chars ts)) = option_map canon (build ts).
Proof.
  unfold build, merge_chars.
  pose proof (build_merge ts [] [] [] [] [] feq_text_nil (Forall2_nil _)) as H.
  destruct (build_stack (merge_from [] ts) [] []), (build_stack ts [] []); cbn [ores_rel] in H;
    try contradiction; [|reflexivity].
  cbn [option_map]. f_equal. apply feq_canon, H.
Qed.

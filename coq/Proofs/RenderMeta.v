(* C07: metadata nodes leave no trace in the rendering. *)
From HT Require Import Model.Str Model.Tree Model.Escape Model.Render Gen.Tables Spec.StripMeta.

Section Meta.
  Context {M : Type}.
  Implicit Types (n : node M) (l : list (node M)).

  Lemma strip_non_meta n : is_meta n = false -> is_meta (strip_meta n) = false.
  Proof. destruct n; cbn; congruence. Qed.

  Lemma filter_strip_list l :
    filter (fun c => negb (is_meta c)) (strip_list l) = strip_list l.
  Proof.
    induction l as [|k l IH]; [reflexivity|]. cbn [strip_list].
    destruct (is_meta k) eqn:E; [exact IH|].
    cbn [filter]. rewrite (strip_non_meta k E). cbn [negb]. f_equal. exact IH.
  Qed.

  Lemma strip_list_filter l :
    strip_list l = map strip_meta (filter (fun c => negb (is_meta c)) l).
  Proof.
    induction l as [|k l IH]; [reflexivity|]. cbn [strip_list filter].
    destruct (is_meta k); cbn [negb map]; [exact IH|]. f_equal. exact IH.
  Qed.

  (* the empty / single-text decisions look at the filtered children only *)
  Lemma single_text_strip noesc l :
    single_text noesc (map strip_meta (filter (fun c => negb (is_meta c)) l))
    = single_text noesc (filter (fun c => negb (is_meta c)) l).
  Proof.
    destruct (filter _ l) as [|x [|y r]]; [reflexivity| |].
    - destruct x; reflexivity.
    - destruct x; reflexivity.
  Qed.

  (* the sibling loop skips metadata before touching first_child / prev_was_add_ws *)
  Lemma loop_strip (rt : nat -> str -> node M -> res (list piece)) l :
    Forall (fun k => forall i eol, rt i eol (strip_meta k) = rt i eol k) l ->
    forall i eol esc first prev,
      loop rt i eol esc first prev (strip_list l) = loop rt i eol esc first prev l.
  Proof.
    induction 1 as [|k l Hk Hl IH]; intros i eol esc first prev; [reflexivity|].
    cbn [strip_list].
    destruct k as [s|s|s|m|name ws a kids|sh exp]; cbn [is_meta].
    - cbn [strip_meta loop]. rewrite !IH. reflexivity.
    - cbn [strip_meta loop]. rewrite !IH. reflexivity.
    - cbn [strip_meta loop]. rewrite !IH. reflexivity.
    - cbn [loop]. apply IH.
    - rewrite strip_meta_tag. cbn [loop].
      rewrite <- strip_meta_tag. rewrite !Hk, !IH. reflexivity.
    - cbn [strip_meta loop]. rewrite !IH. reflexivity.
  Qed.

  Theorem render_strip_meta n : forall i eol, render_tag i eol (strip_meta n) = render_tag i eol n.
  Proof.
    induction n as [s|s|s|m|name ws a kids IH|sh exp _] using node_ind'; intros i eol;
      try reflexivity.
    rewrite strip_meta_tag. cbn [render_tag].
    rewrite filter_strip_list.
    rewrite (loop_strip render_tag kids IH).
    rewrite strip_list_filter, single_text_strip.
    destruct (filter (fun c => negb (is_meta c)) kids) as [|x r] eqn:Ef;
      cbn [map]; reflexivity.
  Qed.

  Theorem render_list_strip_meta l i eol aw esc :
    render_list i eol aw esc (strip_list l) = render_list i eol aw esc l.
  Proof.
    unfold render_list. apply loop_strip.
    apply Forall_forall. intros k _. apply render_strip_meta.
  Qed.

  Lemma strip_meta_free n : is_meta n = false -> meta_free (strip_meta n) = true.
  Proof.
    induction n as [s|s|s|m|name ws a kids IH|sh exp _] using node_ind'; intros Hm;
      try reflexivity; try discriminate.
    rewrite strip_meta_tag. cbn [meta_free]. clear Hm.
    induction IH as [|k l Hk _ IHl]; [reflexivity|]. cbn [strip_list].
    destruct (is_meta k) eqn:E; [exact IHl|]. cbn [forallb].
    rewrite (Hk eq_refl), IHl. reflexivity.
  Qed.

  Lemma strip_list_meta_free l : forallb meta_free (strip_list l) = true.
  Proof.
    induction l as [|k l IH]; [reflexivity|]. cbn [strip_list].
    destruct (is_meta k) eqn:E; [exact IH|]. cbn [forallb].
    rewrite (strip_meta_free k E), IH. reflexivity.
  Qed.
End Meta.

Section MetaCorollaries.
  Context {M : Type}.
  Implicit Types (n : node M) (l : list (node M)).

  Lemma strip_list_app l1 l2 : strip_list (l1 ++ l2) = strip_list l1 ++ strip_list l2.
  Proof.
    induction l1 as [|k l1 IH]; [reflexivity|]. cbn [app strip_list].
    destruct (is_meta k); [exact IH|]. cbn [app]. f_equal. exact IH.
  Qed.

  Lemma strip_list_insert l1 (m : M) l2 : strip_list (l1 ++ Meta m :: l2) = strip_list (l1 ++ l2).
  Proof. rewrite !strip_list_app. reflexivity. Qed.

  Theorem same_after_strip n1 n2 i eol :
    strip_meta n1 = strip_meta n2 -> render_tag i eol n1 = render_tag i eol n2.
  Proof.
    intros H. rewrite <- (render_strip_meta n1), <- (render_strip_meta n2), H. reflexivity.
  Qed.

  Theorem insert_child name ws a l1 (m : M) l2 i eol :
    render_tag i eol (TagN name ws a (l1 ++ Meta m :: l2))
    = render_tag i eol (TagN name ws a (l1 ++ l2)).
  Proof.
    apply same_after_strip. rewrite !strip_meta_tag, strip_list_insert. reflexivity.
  Qed.

  Theorem insert_item l1 (m : M) l2 i eol aw esc :
    render_list i eol aw esc (l1 ++ Meta m :: l2) = render_list i eol aw esc (l1 ++ l2).
  Proof.
    rewrite <- (render_list_strip_meta (l1 ++ Meta m :: l2)),
            <- (render_list_strip_meta (l1 ++ l2)), strip_list_insert.
    reflexivity.
  Qed.
End MetaCorollaries.

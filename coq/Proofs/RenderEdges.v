(* C05, last clause: within a rendered tag, layout whitespace only ever appears immediately
   inside or immediately outside the opening or closing tag of a whitespace-enabled (block)
   tag.  Proved for all trees (block-inside-inline nestings included), every indent and
   every eol, at the level of pieces.

   Method: a boolean scanner chk lb ps ba that walks the pieces, remembering whether the last
   solid (non-whitespace) piece seen so far is a block tag piece (lb for what precedes ps) and
   looking ahead for the next solid piece (ba for what follows ps).  chk splits over ++, so
   the renderings of the parts of a tree compose; chk is equivalent to the stated property. *)
From HT Require Import Model.Str Model.Tree Model.Escape Model.Render Gen.Tables
  Proofs.RenderLoop.

Local Arguments mem_str : simpl never.

(* ---------- the statement ---------- *)

(* a tag piece of a whitespace-enabled element *)
Definition is_blk (p : piece) : bool :=
  match p with POpen _ _ b | PSelf _ _ b | PClose _ b => b | _ => false end.
Definition is_wsp (p : piece) : bool := match p with PWs _ => true | _ => false end.

(* the nearest non-whitespace piece to the right / to the left *)
Fixpoint first_solid (l : list piece) : option piece :=
  match l with [] => None | p :: l' => if is_wsp p then first_solid l' else Some p end.
Definition last_solid (l : list piece) : option piece := first_solid (rev l).

Definition at_block_edge (a b : list piece) : Prop :=
  (exists p, last_solid a = Some p /\ is_blk p = true)
  \/ (exists p, first_solid b = Some p /\ is_blk p = true).

(* every non-empty whitespace piece of ps is at a block edge *)
Definition ws_edges_ok (ps : list piece) : Prop :=
  forall a s b, ps = a ++ PWs s :: b -> s <> [] -> at_block_edge a b.

(* ---------- the scanner ---------- *)

Definition str_nil (s : str) : bool := match s with [] => true | _ :: _ => false end.

(* is the next solid piece of l (or of what follows l: ba) a block tag piece *)
Fixpoint nxt (l : list piece) (ba : bool) : bool :=
  match l with [] => ba | p :: r => if is_wsp p then nxt r ba else is_blk p end.

(* is the last solid piece of l (or of what precedes l: lb) a block tag piece *)
Fixpoint lst (lb : bool) (l : list piece) : bool :=
  match l with [] => lb | p :: r => lst (if is_wsp p then lb else is_blk p) r end.

Fixpoint chk (lb : bool) (l : list piece) (ba : bool) : bool :=
  match l with
  | [] => true
  | p :: r =>
    match p with
    | PWs s => (str_nil s || (lb || nxt r ba)) && chk lb r ba
    | _ => chk (is_blk p) r ba
    end
  end.

(* the boolean form of ws_edges_ok *)
Definition ws_edges_okb (ps : list piece) : bool := chk false ps false.

Lemma nxt_first_solid l ba :
  nxt l ba = match first_solid l with Some p => is_blk p | None => ba end.
Proof.
  induction l as [|p r IH]; [reflexivity|]. cbn [nxt first_solid].
  destruct (is_wsp p); [exact IH|reflexivity].
Qed.

Lemma nxt_app a b ba : nxt (a ++ b) ba = nxt a (nxt b ba).
Proof.
  induction a as [|p r IH]; [reflexivity|]. cbn [app nxt].
  destruct (is_wsp p); [exact IH|reflexivity].
Qed.

Lemma lst_app lb a b : lst lb (a ++ b) = lst (lst lb a) b.
Proof.
  revert lb. induction a as [|p r IH]; intros lb; [reflexivity|]. cbn [app lst]. apply IH.
Qed.

Lemma lst_last_solid lb l :
  lst lb l = match last_solid l with Some p => is_blk p | None => lb end.
Proof.
  unfold last_solid. induction l as [|p r IH] using rev_ind; [reflexivity|].
  rewrite lst_app, rev_app_distr. cbn [rev app lst first_solid].
  destruct (is_wsp p); [exact IH|reflexivity].
Qed.

Lemma nxt_mono l ba ba' : (ba = true -> ba' = true) -> nxt l ba = true -> nxt l ba' = true.
Proof.
  intros Hb. induction l as [|p r IH]; cbn [nxt]; [exact Hb|].
  destruct (is_wsp p); [exact IH|trivial].
Qed.

Lemma lst_mono l lb lb' : (lb = true -> lb' = true) -> lst lb l = true -> lst lb' l = true.
Proof.
  revert lb lb'. induction l as [|p r IH]; intros lb lb' Hb; cbn [lst]; [exact Hb|].
  apply IH. destruct (is_wsp p); [exact Hb|trivial].
Qed.

Lemma chk_mono l lb lb' ba ba' :
  (lb = true -> lb' = true) -> (ba = true -> ba' = true) ->
  chk lb l ba = true -> chk lb' l ba' = true.
Proof.
  revert lb lb'. induction l as [|p r IH]; intros lb lb' Hl Hb H; [reflexivity|].
  destruct p as [s|n a k|n a k|n k|s|s]; cbn [chk] in *;
    try (apply (IH _ _ (fun e => e) Hb); exact H).
  apply andb_true_iff in H as [H1 H2]. apply andb_true_iff. split.
  - apply orb_true_iff in H1 as [H1|H1]; [rewrite H1; reflexivity|].
    apply orb_true_iff in H1 as [H1|H1].
    + rewrite (Hl H1). rewrite orb_true_l, orb_true_r. reflexivity.
    + rewrite (nxt_mono _ _ _ Hb H1). rewrite !orb_true_r. reflexivity.
  - exact (IH _ _ Hl Hb H2).
Qed.

Lemma chk_weaken l lb ba : chk false l false = true -> chk lb l ba = true.
Proof. apply chk_mono; discriminate. Qed.

Lemma chk_app lb a b ba :
  chk lb (a ++ b) ba = chk lb a (nxt b ba) && chk (lst lb a) b ba.
Proof.
  revert lb. induction a as [|p r IH]; intros lb; [reflexivity|].
  destruct p as [s|n a k|n a k|n k|s|s]; cbn [app chk lst is_wsp]; rewrite IH, ?nxt_app;
    [|reflexivity..].
  rewrite andb_assoc. reflexivity.
Qed.

Lemma chk_ws_true s r ba : chk true (PWs s :: r) ba = chk true r ba.
Proof. cbn [chk]. rewrite orb_true_l, orb_true_r. reflexivity. Qed.

Lemma chk_ws_nil lb r ba : chk lb (PWs [] :: r) ba = chk lb r ba.
Proof. reflexivity. Qed.

Lemma chk_ws_nxt lb s r ba : nxt r ba = true -> chk lb (PWs s :: r) ba = chk lb r ba.
Proof. intros H. cbn [chk]. rewrite H, !orb_true_r. reflexivity. Qed.

(* chk is exactly the property, relative to the context (lb, ba) *)
Lemma chk_sound lb l ba :
  chk lb l ba = true ->
  forall a s b, l = a ++ PWs s :: b -> s <> [] -> lst lb a = true \/ nxt b ba = true.
Proof.
  intros H a s b -> Hs. rewrite chk_app in H. apply andb_true_iff in H as [_ H].
  cbn [chk] in H. apply andb_true_iff in H as [H _].
  destruct s as [|c s]; [contradiction Hs; reflexivity|]. cbn [str_nil orb] in H.
  apply orb_true_iff in H. exact H.
Qed.

Lemma chk_complete l : forall lb ba,
  (forall a s b, l = a ++ PWs s :: b -> s <> [] -> lst lb a = true \/ nxt b ba = true) ->
  chk lb l ba = true.
Proof.
  induction l as [|p r IH]; intros lb ba H; [reflexivity|].
  assert (Hr : forall lb', lb' = (if is_wsp p then lb else is_blk p) -> chk lb' r ba = true).
  { intros lb' ->. apply IH. intros a s b -> Hs.
    exact (H (p :: a) s b eq_refl Hs). }
  destruct p as [s|n a k|n a k|n k|s|s]; cbn [chk]; try (apply Hr; reflexivity).
  apply andb_true_iff. split; [|apply Hr; reflexivity].
  destruct s as [|c s]; [reflexivity|]. cbn [str_nil orb].
  apply orb_true_iff. apply (H [] (c :: s) r eq_refl). discriminate.
Qed.

Lemma lst_false_edge a : lst false a = true -> exists p, last_solid a = Some p /\ is_blk p = true.
Proof.
  rewrite lst_last_solid. destruct (last_solid a) as [p|]; [|discriminate].
  intros H. exists p. split; [reflexivity|exact H].
Qed.

Lemma nxt_false_edge b : nxt b false = true -> exists p, first_solid b = Some p /\ is_blk p = true.
Proof.
  rewrite nxt_first_solid. destruct (first_solid b) as [p|]; [|discriminate].
  intros H. exists p. split; [reflexivity|exact H].
Qed.

Lemma edge_of_scan a b : lst false a = true \/ nxt b false = true -> at_block_edge a b.
Proof.
  intros [H|H]; [left; exact (lst_false_edge a H)|right; exact (nxt_false_edge b H)].
Qed.

Theorem ws_edges_okb_spec ps : ws_edges_okb ps = true <-> ws_edges_ok ps.
Proof.
  unfold ws_edges_okb, ws_edges_ok. split.
  - intros H a s b E Hs. apply edge_of_scan. exact (chk_sound _ _ _ H a s b E Hs).
  - intros H. apply chk_complete. intros a s b E Hs.
    destruct (H a s b E Hs) as [[p [E1 E2]]|[p [E1 E2]]].
    + left. rewrite lst_last_solid, E1. exact E2.
    + right. rewrite nxt_first_solid, E1. exact E2.
Qed.

(* ---------- the shape of a rendered tag ---------- *)

(* the requested indentation, then pieces that begin and end with the tag pieces of the
   element itself (flag ws) and whose whitespace is all at block edges *)
Definition tag_shape (i : nat) (ws : bool) (ps : list piece) : Prop :=
  exists ps', ps = PWs (indent_str i) :: ps'
              /\ (forall ba, nxt ps' ba = ws)
              /\ (forall lb, lst lb ps' = ws)
              /\ chk false ps' false = true.

Lemma tag_shape_nxt i ws pk r ba : tag_shape i ws pk -> nxt (pk ++ r) ba = ws.
Proof.
  intros [ps' [-> [Hn _]]]. cbn [app nxt is_wsp]. rewrite nxt_app. apply Hn.
Qed.

(* a rendered tag followed by the rest of the sibling loop *)
Lemma chk_tag_shape i ws pk r lb :
  tag_shape i ws pk -> (i = O \/ lb || ws = true) ->
  chk ws r false = true -> chk lb (pk ++ r) false = true.
Proof.
  intros [ps' [-> [Hn [Hl Hc]]]] Hi Hr. cbn [app].
  assert (Hrest : chk lb (ps' ++ r) false = true).
  { rewrite chk_app, Hl, Hr, andb_true_r. apply chk_weaken. exact Hc. }
  destruct Hi as [->|Hi]; [exact Hrest|].
  cbn [chk]. rewrite nxt_app, Hn, Hi, orb_true_r, Hrest. reflexivity.
Qed.

Section Edges.
  Context {M : Type}.
  Implicit Types (n k : node M) (l : list (node M)).

  Definition ws_of n : bool := match n with TagN _ ws _ _ => ws | _ => false end.

  Definition tag_ok (rt : nat -> str -> node M -> res (list piece)) n : Prop :=
    forall i eol ps, rt i eol n = Ok ps -> tag_shape i (ws_of n) ps.

  (* the sibling loop: when prev_was_add_ws is set, the caller guarantees that the solid
     piece before the loop output is a block tag piece *)
  Lemma loop_edges (rt : nat -> str -> node M -> res (list piece)) l :
    Forall (tag_ok rt) l ->
    forall i eol esc first prev ps,
      loop rt i eol esc first prev l = Ok ps -> chk prev ps false = true.
  Proof.
    induction 1 as [|k l Hk Hl IH]; intros i eol esc first prev ps H.
    - cbn [loop] in H. injection H as <-. reflexivity.
    - destruct k as [s|s|s|m|name ws a kids|[sh|] exp]; cbn [loop] in H.
      + destruct (loop rt i eol esc false false l) as [r|] eqn:E; [|discriminate].
        injection H as <-. apply IH in E.
        destruct first, prev, esc; cbn [app]; rewrite ?chk_ws_true; exact E.
      + destruct (loop rt i eol esc false false l) as [r|] eqn:E; [|discriminate].
        injection H as <-. apply IH in E.
        destruct first, prev; cbn [app]; rewrite ?chk_ws_true; exact E.
      + destruct (loop rt i eol esc false false l) as [r|] eqn:E; [|discriminate].
        injection H as <-. apply IH in E.
        destruct first, prev; cbn [app]; rewrite ?chk_ws_true; exact E.
      + exact (IH _ _ _ _ _ _ H).
      + destruct (prev || ws) eqn:Ep.
        * destruct (rt i eol (TagN name ws a kids)) as [pk|] eqn:Ek; [|discriminate].
          destruct (loop rt i eol esc false ws l) as [r|] eqn:E; [|discriminate].
          injection H as <-. apply IH in E. apply Hk in Ek. cbn [ws_of] in Ek.
          assert (Hpk : chk prev (pk ++ r) false = true).
          { apply (chk_tag_shape i ws); [exact Ek|right; exact Ep|exact E]. }
          destruct first; cbn [app]; [exact Hpk|].
          cbn [chk]. rewrite (tag_shape_nxt _ _ _ _ _ Ek), Ep, orb_true_r, Hpk. reflexivity.
        * destruct (rt O [] (TagN name ws a kids)) as [pk|] eqn:Ek; [|discriminate].
          destruct (loop rt i eol esc false ws l) as [r|] eqn:E; [|discriminate].
          injection H as <-. apply IH in E. apply Hk in Ek. cbn [ws_of] in Ek.
          destruct first; cbn [app];
            (apply (chk_tag_shape O ws); [exact Ek|left; reflexivity|exact E]).
      + destruct (loop rt i eol esc false false l) as [r|] eqn:E; [|discriminate].
        injection H as <-. apply IH in E.
        destruct first, prev; cbn [app]; rewrite ?chk_ws_true; exact E.
      + discriminate H.
  Qed.

  (* the beginning of a loop started with first_child set: no separator is written, so the
     only piece that can be away from a block edge is the very first one, and then it is the
     indentation requested by the caller *)
  Definition head_ok (i : nat) (p : piece) : Prop :=
    match p with PWs s => s = [] \/ s = indent_str i | _ => is_blk p = false end.

  Definition first_ok (i : nat) (ps : list piece) : Prop :=
    match ps with [] => True | p :: r => head_ok i p /\ chk false r false = true end.

  Lemma first_ok_tag i j ws pk r :
    tag_shape j ws pk -> (j = i \/ j = O) -> chk ws r false = true -> first_ok i (pk ++ r).
  Proof.
    intros [ps' [-> [Hn [Hl Hc]]]] Hj Hr. cbn [app first_ok head_ok]. split.
    - destruct Hj as [->| ->]; [right; reflexivity|left; reflexivity].
    - rewrite chk_app, Hl, Hr, andb_true_r. apply chk_weaken. exact Hc.
  Qed.

  Lemma loop_first_edges (rt : nat -> str -> node M -> res (list piece)) l :
    Forall (tag_ok rt) l ->
    forall i eol esc prev ps,
      loop rt i eol esc true prev l = Ok ps -> first_ok i ps.
  Proof.
    induction 1 as [|k l Hk Hl IH]; intros i eol esc prev ps H.
    - cbn [loop] in H. injection H as <-. exact I.
    - destruct k as [s|s|s|m|name ws a kids|[sh|] exp]; cbn [loop] in H.
      + destruct (loop rt i eol esc false false l) as [r|] eqn:E; [|discriminate].
        injection H as <-. apply (loop_edges rt l Hl) in E.
        destruct prev, esc; cbn [app first_ok head_ok is_blk]; (split; [|exact E]); auto.
      + destruct (loop rt i eol esc false false l) as [r|] eqn:E; [|discriminate].
        injection H as <-. apply (loop_edges rt l Hl) in E.
        destruct prev; cbn [app first_ok head_ok is_blk]; (split; [|exact E]); auto.
      + destruct (loop rt i eol esc false false l) as [r|] eqn:E; [|discriminate].
        injection H as <-. apply (loop_edges rt l Hl) in E.
        destruct prev; cbn [app first_ok head_ok is_blk]; (split; [|exact E]); auto.
      + exact (IH _ _ _ _ _ H).
      + destruct (prev || ws) eqn:Ep.
        * destruct (rt i eol (TagN name ws a kids)) as [pk|] eqn:Ek; [|discriminate].
          destruct (loop rt i eol esc false ws l) as [r|] eqn:E; [|discriminate].
          injection H as <-. apply (loop_edges rt l Hl) in E. apply Hk in Ek.
          cbn [ws_of app] in *. exact (first_ok_tag i i ws pk r Ek (or_introl eq_refl) E).
        * destruct (rt O [] (TagN name ws a kids)) as [pk|] eqn:Ek; [|discriminate].
          destruct (loop rt i eol esc false ws l) as [r|] eqn:E; [|discriminate].
          injection H as <-. apply (loop_edges rt l Hl) in E. apply Hk in Ek.
          cbn [ws_of app] in *. exact (first_ok_tag i O ws pk r Ek (or_intror eq_refl) E).
      + destruct (loop rt i eol esc false false l) as [r|] eqn:E; [|discriminate].
        injection H as <-. apply (loop_edges rt l Hl) in E.
        destruct prev; cbn [app first_ok head_ok is_blk]; (split; [|exact E]); auto.
      + discriminate H.
  Qed.

  (* at indent 0 the requested indentation is empty: nothing to except *)
  Lemma first_ok_0 ps : first_ok O ps -> chk false ps false = true.
  Proof.
    destruct ps as [|p r]; [reflexivity|]. intros [Hp Hc].
    destruct p as [s|n a k|n a k|n k|s|s]; cbn [head_ok is_blk chk] in *;
      try (rewrite Hp; exact Hc); try exact Hc.
    assert (s = []) as -> by (destruct Hp as [Hp|Hp]; exact Hp). exact Hc.
  Qed.

  (* in general: every piece but the first *)
  Lemma first_ok_tl i ps : first_ok i ps -> chk false (tl ps) false = true.
  Proof. destruct ps as [|p r]; [reflexivity|]. intros [_ Hc]. exact Hc. Qed.

  (* ---------- render_tag ---------- *)

  Lemma single_text_solid b l p :
    single_text (M:=M) b l = Some p -> is_wsp p = false /\ is_blk p = false.
  Proof.
    destruct l as [|x r]; [discriminate|].
    destruct x as [s|s|s|m|n2 w2 a2 k2|sh2 e2]; destruct r; try discriminate;
      cbn [single_text]; intros H; injection H as <-; destruct b; split; reflexivity.
  Qed.

  Theorem render_tag_shape n : tag_ok render_tag n.
  Proof.
    induction n as [s|s|s|m|name ws a kids IH|sh exp _] using node_ind'; intros i eol ps H;
      try discriminate H.
    cbn [render_tag ws_of] in *.
    destruct (filter (fun c => negb (is_meta c)) kids) as [|x r] eqn:Ef.
    - destruct (mem_str name void_names); injection H as <-;
        (eexists; split; [reflexivity|]); (split; [|split]); intros; reflexivity.
    - destruct (single_text (mem_str name no_escape_names) (x :: r)) as [p|] eqn:Es.
      + injection H as <-. apply single_text_solid in Es as [Hw Hb].
        eexists; split; [reflexivity|]. (split; [|split]); intros.
        * reflexivity.
        * destruct p; try discriminate Hw; reflexivity.
        * destruct p; try discriminate Hw; reflexivity.
      + destruct (loop render_tag (S i) eol (negb (mem_str name no_escape_names)) true ws kids)
          as [body|] eqn:E; [|discriminate].
        injection H as <-. apply (loop_edges render_tag kids IH) in E.
        eexists; split; [reflexivity|]. (split; [|split]); intros.
        * reflexivity.
        * cbn [lst is_wsp is_blk]. rewrite !lst_app. destruct ws; reflexivity.
        * cbn [chk is_blk]. destruct ws; cbn [app].
          -- rewrite chk_ws_true, chk_app. apply andb_true_iff. split.
             ++ revert E. apply chk_mono; trivial.
             ++ cbn [chk nxt is_wsp is_blk]. rewrite !orb_true_r. reflexivity.
          -- rewrite chk_app. apply andb_true_iff. split; [|reflexivity].
             revert E. apply chk_mono; trivial.
  Qed.

  (* ---------- the theorems ---------- *)

  (* general indent: every non-empty whitespace piece other than the first piece of the
     output (the indentation requested by the caller) is at a block edge; so is the first
     piece when the tag itself has whitespace enabled *)
  Theorem tag_ws_at_block_edges (t : node M) (i : nat) (eol : str) (ps : list piece) :
    render_tag i eol t = Ok ps ->
    forall a s b, ps = a ++ PWs s :: b -> s <> [] ->
      (a <> [] \/ ws_of t = true \/ i = O) -> at_block_edge a b.
  Proof.
    intros H a s b E Hs Hx. apply render_tag_shape in H as [ps' [-> [Hn [Hl Hc]]]].
    apply edge_of_scan.
    destruct a as [|p a'].
    - cbn [app] in E. injection E as <- <-.
      destruct Hx as [Hx|[Hx|Hx]]; [contradiction Hx; reflexivity| |].
      + right. rewrite Hn. exact Hx.
      + subst i. contradiction Hs. reflexivity.
    - cbn [app] in E. injection E as <- E.
      destruct (chk_sound _ _ _ Hc a' s b E Hs) as [H1|H1]; [left|right; exact H1].
      exact H1.
  Qed.

  Theorem ws_at_block_edges (t : node M) (eol : str) (ps : list piece) :
    render_tag 0 eol t = Ok ps ->
    forall a s b, ps = a ++ PWs s :: b -> s <> [] -> at_block_edge a b.
  Proof.
    intros H a s b E Hs. apply (tag_ws_at_block_edges t O eol ps H a s b E Hs).
    right. right. reflexivity.
  Qed.

  (* TagList rendering.  With add_ws = False, or at indent 0, there is no exception; with
     add_ws = True at a non-zero indent the one possible exception is the first piece of the
     output (the indentation of the first item requested by the caller). *)
  Theorem list_ws_at_block_edges (l : list (node M)) (i : nat) (eol : str) (aw esc : bool)
          (ps : list piece) :
    render_list i eol aw esc l = Ok ps ->
    forall a s b, ps = a ++ PWs s :: b -> s <> [] ->
      (a <> [] \/ aw = false \/ i = O) -> at_block_edge a b.
  Proof.
    unfold render_list. intros H a s b E Hs Hx.
    assert (HF : Forall (tag_ok render_tag) l).
    { apply Forall_forall. intros k _. apply render_tag_shape. }
    apply edge_of_scan.
    destruct Hx as [Hx|[Hx|Hx]]; [|subst aw|subst i].
    - apply (loop_first_edges render_tag l HF) in H. apply first_ok_tl in H.
      destruct a as [|p a']; [contradiction Hx; reflexivity|].
      subst ps. cbn [app tl] in H.
      destruct (chk_sound _ _ _ H a' s b eq_refl Hs) as [H1|H1]; [left|right; exact H1].
      cbn [lst]. revert H1. apply lst_mono. discriminate.
    - apply (loop_edges render_tag l HF) in H. exact (chk_sound _ _ _ H a s b E Hs).
    - apply (loop_first_edges render_tag l HF) in H. apply first_ok_0 in H.
      exact (chk_sound _ _ _ H a s b E Hs).
  Qed.

  Corollary list_ws_at_block_edges_0 (l : list (node M)) (eol : str) (aw esc : bool)
            (ps : list piece) :
    render_list 0 eol aw esc l = Ok ps ->
    forall a s b, ps = a ++ PWs s :: b -> s <> [] -> at_block_edge a b.
  Proof.
    intros H a s b E Hs. apply (list_ws_at_block_edges l O eol aw esc ps H a s b E Hs).
    right. right. reflexivity.
  Qed.
End Edges.

(* ---------- non-vacuity ---------- *)

Definition nonempty_ws (ps : list piece) : nat :=
  length (filter (fun p => match p with PWs (_ :: _) => true | _ => false end) ps).

(* div(block)[ x, span(inline)[ y, p(block)[ z, i(inline)[w] ], v ], b(inline)[u], hr(block) ]
   rendered at indent 0 with eol = newline: nine non-empty whitespace pieces, four of them
   indentations written by or after the block tag that sits inside the inline tag (which is
   itself rendered with indent 0 and an empty eol); all at block edges *)
Definition edges_example : node unit :=
  TagN [100;105;118] true []
    [Text [120];
     TagN [115;112;97;110] false []
       [Text [121];
        TagN [112] true [] [Text [122]; TagN [105] false [] [Text [119]]];
        Text [118]];
     TagN [98] false [] [Text [117]];
     TagN [104;114] true [] []].

Example edges_example_ok :
  exists ps, render_tag 0 [10] edges_example = Ok ps
             /\ nonempty_ws ps = 9%nat
             /\ ws_edges_okb ps = true
             /\ pieces_str ps =
                [60;100;105;118;62;10;32;32;120;60;115;112;97;110;62;121;32;32;60;112;62;
                 32;32;32;32;122;60;105;62;119;60;47;105;62;32;32;60;47;112;62;32;32;118;
                 60;47;115;112;97;110;62;60;98;62;117;60;47;98;62;10;32;32;60;104;114;47;62;
                 10;60;47;100;105;118;62].
Proof. eexists. vm_compute. split; [reflexivity|]. split; [reflexivity|]. split; reflexivity. Qed.

(* the checker does reject whitespace between two pieces of inline content *)
Example edges_checker_rejects :
  ws_edges_okb [POpen [98] [] false; PTxt [120]; PWs [10]; PTxt [121]; PClose [98] false] = false.
Proof. reflexivity. Qed.

(* C05: an inline-only subtree, and any run of adjacent inline-only siblings, appears
   contiguously in the output wherever it is placed. *)
From HT Require Import Model.Str Model.Tree Model.Escape Model.Render Gen.Tables Spec.Layout
     Proofs.RenderInline Proofs.RenderLoop.

Local Arguments mem_str : simpl never.
Local Arguments html_escape : simpl never.

Definition sub_of (x s : str) : Prop := exists pre post, s = pre ++ x ++ post.

Lemma pieces_str_cons p ps : pieces_str (p :: ps) = piece_str p ++ pieces_str ps.
Proof. reflexivity. Qed.

Lemma sub_of_refl x : sub_of x x.
Proof. exists [], []. rewrite app_nil_r. reflexivity. Qed.
Lemma sub_of_nil s : sub_of [] s.
Proof. exists [], s. reflexivity. Qed.
Lemma sub_of_trans x y z : sub_of x y -> sub_of y z -> sub_of x z.
Proof.
  intros [p1 [q1 ->]] [p2 [q2 ->]]. exists (p2 ++ p1), (q1 ++ q2).
  rewrite <- !app_assoc. reflexivity.
Qed.
Lemma sub_of_app_l x a b : sub_of x a -> sub_of x (a ++ b).
Proof. intros [p [q ->]]. exists p, (q ++ b). rewrite <- !app_assoc. reflexivity. Qed.
Lemma sub_of_app_r x a b : sub_of x b -> sub_of x (a ++ b).
Proof. intros [p [q ->]]. exists (a ++ p), q. rewrite <- !app_assoc. reflexivity. Qed.

Section Contig.
  Context {M : Type}.
  Implicit Types (n : node M) (l : list (node M)).

  (* what one sibling contributes to the loop output: a Tag is rendered by rt under some
     (indent, eol); anything else contributes its flat form *)
  Definition contrib (rt : nat -> str -> node M -> res (list piece)) (esc : bool)
             (k : node M) (s : str) : Prop :=
    match k with
    | TagN _ _ _ _ => exists j e pk, rt j e k = Ok pk /\ s = pieces_str pk
    | _ => s = flat esc k
    end.

  Lemma step_contrib (rt : nat -> str -> node M -> res (list piece)) i eol esc first prev (k : node M) pk f' p' :
    step rt i eol esc first prev k = Ok (pk, f', p') ->
    exists pre s, pieces_str pk = pre ++ s /\ contrib rt esc k s.
  Proof.
    destruct k as [s|s|s|m|name ws a kids|[sh|] exp]; cbn [step]; intros H;
      try (injection H as <- _ _; eexists _, _; split;
           [rewrite app_assoc, pieces_str_app; reflexivity|];
           cbn [contrib flat pieces_str flat_map piece_str]; rewrite app_nil_r;
           try reflexivity; destruct esc; reflexivity).
    - injection H as <- _ _. exists [], []. split; reflexivity.
    - destruct (prev || ws).
      + destruct (rt i eol (TagN name ws a kids)) as [p0|] eqn:E; [|discriminate].
        injection H as <- _ _. eexists _, _. split; [apply pieces_str_app|].
        exists i, eol, p0. split; [exact E|reflexivity].
      + destruct (rt O [] (TagN name ws a kids)) as [p0|] eqn:E; [|discriminate].
        injection H as <- _ _. eexists _, _. split; [apply pieces_str_app|].
        exists O, [], p0. split; [exact E|reflexivity].
    - discriminate.
  Qed.

  Lemma step_inline (rt : nat -> str -> node M -> res (list piece)) i eol esc first (k : node M) :
    renders_flat rt k -> inline_only k = true ->
    exists pk, step rt i eol esc first false k
               = Ok (pk, if is_meta k then first else false, false)
               /\ pieces_str pk = flat esc k.
  Proof.
    intros Hk Hin.
    destruct k as [s|s|s|m|name ws a kids|[sh|] exp]; cbn [step is_meta];
      try (eexists; split; [reflexivity|]; destruct first;
           cbn [app pieces_str flat_map piece_str flat]; rewrite ?app_nil_r;
           try reflexivity; destruct esc; reflexivity).
    - assert (ws = false) as ->.
      { cbn [inline_only] in Hin. apply andb_true_iff in Hin as [Hw _].
        destruct ws; [discriminate|reflexivity]. }
      destruct (Hk eq_refl Hin O []) as [p0 [E P]]. cbn [orb]. rewrite E.
      eexists. split; [reflexivity|].
      destruct first; cbn [app]; rewrite P; reflexivity.
    - discriminate Hin.
  Qed.

  (* skipping a prefix of the sibling list *)
  Lemma loop_suffix (rt : nat -> str -> node M -> res (list piece)) i eol esc l1 : forall first prev l2 ps,
    loop rt i eol esc first prev (l1 ++ l2) = Ok ps ->
    exists first' prev' ps' pre,
      loop rt i eol esc first' prev' l2 = Ok ps' /\ pieces_str ps = pre ++ pieces_str ps'.
  Proof.
    induction l1 as [|k l1 IH]; intros first prev l2 ps H.
    - exists first, prev, ps, []. split; [exact H|reflexivity].
    - cbn [app] in H. apply loop_cons_inv in H as (pk & f' & p' & r & _ & E & ->).
      destruct (IH _ _ _ _ E) as (f2 & p2 & ps2 & pre2 & E2 & P2).
      exists f2, p2, ps2, (pieces_str pk ++ pre2). split; [exact E2|].
      rewrite pieces_str_app, P2, <- app_assoc. reflexivity.
  Qed.

  (* any sibling's contribution is contiguous in the loop output *)
  Lemma loop_contains (rt : nat -> str -> node M -> res (list piece)) i eol esc l : forall first prev ps k,
    loop rt i eol esc first prev l = Ok ps -> In k l ->
    exists s, contrib rt esc k s /\ sub_of s (pieces_str ps).
  Proof.
    induction l as [|c l IH]; intros first prev ps k H Hin; [destruct Hin|].
    apply loop_cons_inv in H as (pk & f' & p' & r & St & E & ->).
    rewrite pieces_str_app.
    destruct Hin as [<-|Hin].
    - destruct (step_contrib _ _ _ _ _ _ _ _ _ _ St) as (pre & s & P & C).
      exists s. split; [exact C|]. apply sub_of_app_l. rewrite P. apply sub_of_app_r, sub_of_refl.
    - destruct (IH _ _ _ _ E Hin) as (s' & C' & S'). exists s'. split; [exact C'|].
      apply sub_of_app_r, S'.
  Qed.

  (* a run of inline-only siblings, once prev_was_add_ws is false: flat forms only *)
  Lemma loop_inline_prefix (rt : nat -> str -> node M -> res (list piece)) i eol esc mid :
    Forall (renders_flat rt) mid -> forallb inline_only mid = true ->
    forall first l2 ps,
      loop rt i eol esc first false (mid ++ l2) = Ok ps ->
      exists first' ps', loop rt i eol esc first' false l2 = Ok ps'
                         /\ pieces_str ps = flat_map (flat esc) mid ++ pieces_str ps'.
  Proof.
    induction 1 as [|k mid Hk Hmid IH]; intros Hin first l2 ps H.
    - exists first, ps. split; [exact H|reflexivity].
    - cbn [forallb] in Hin. apply andb_true_iff in Hin as [Hki Hmi].
      cbn [app] in H. rewrite loop_step in H.
      destruct (step_inline rt i eol esc first k Hk Hki) as (pk & St & P).
      rewrite St in H.
      destruct (loop rt i eol esc (if is_meta k then first else false) false (mid ++ l2))
        as [r|] eqn:E; [|discriminate].
      injection H as <-.
      destruct (IH Hmi _ _ _ E) as (f2 & ps2 & E2 & P2).
      exists f2, ps2. split; [exact E2|].
      rewrite pieces_str_app, P, P2. cbn [flat_map]. rewrite <- app_assoc. reflexivity.
  Qed.

  (* a run of adjacent inline-only siblings appears contiguously, whatever precedes and
     follows it and whatever the loop state is when it is reached *)
  Lemma loop_run (rt : nat -> str -> node M -> res (list piece)) i eol esc mid :
    Forall (renders_flat rt) mid -> forallb inline_only mid = true ->
    forall first prev l2 ps,
      loop rt i eol esc first prev (mid ++ l2) = Ok ps ->
      sub_of (flat_map (flat esc) mid) (pieces_str ps).
  Proof.
    induction 1 as [|k mid Hk Hmid IH]; intros Hin first prev l2 ps H; [apply sub_of_nil|].
    cbn [forallb] in Hin. apply andb_true_iff in Hin as [Hki Hmi].
    destruct prev.
    2:{ destruct (loop_inline_prefix rt i eol esc (k :: mid)
                    (Forall_cons _ Hk Hmid)
                    ltac:(cbn [forallb]; rewrite Hki, Hmi; reflexivity) _ _ _ H)
          as (f2 & ps2 & _ & P).
        rewrite P. apply sub_of_app_l, sub_of_refl. }
    cbn [app] in H. apply loop_cons_inv in H as (pk & f' & p' & r & St & E & ->).
    rewrite pieces_str_app. cbn [flat_map].
    destruct (is_meta k) eqn:Em.
    - (* metadata: contributes nothing, state unchanged *)
      destruct k; try discriminate Em. cbn [step] in St. injection St as <- <- <-.
      cbn [flat app pieces_str flat_map]. exact (IH Hmi _ _ _ _ E).
    - (* first element of the run: after it prev is false *)
      assert (p' = false) as ->.
      { destruct k as [s|s|s|m|name ws a kids|[sh|] exp]; cbn [step] in St;
          try (injection St as _ _ <-; reflexivity); try discriminate.
        cbn [inline_only] in Hki. apply andb_true_iff in Hki as [Hw _].
        destruct ws; [discriminate|].
        destruct (if true || false then rt i eol (TagN name false a kids)
                  else rt O [] (TagN name false a kids)); [|discriminate].
        injection St as _ _ <-. reflexivity. }
      destruct (loop_inline_prefix rt i eol esc mid Hmid Hmi _ _ _ E) as (f2 & ps2 & _ & P2).
      rewrite P2.
      destruct (step_contrib _ _ _ _ _ _ _ _ _ _ St) as (pre & s & P & C).
      rewrite P.
      assert (exists pre', s = pre' ++ flat esc k) as [pre' ->].
      { destruct k as [t|t|t|m|name ws a kids|sh exp]; cbn [contrib] in C;
          try (exists []; exact C).
        destruct C as (j & e & p0 & E0 & ->).
        destruct (Hk eq_refl Hki j e) as (p1 & E1 & P1).
        rewrite E0 in E1. injection E1 as <-. rewrite P1.
        exists (indent_str j). reflexivity. }
      exists (pre ++ pre'), (pieces_str ps2). rewrite <- !app_assoc. reflexivity.
  Qed.

  (* ---- lifted to tags ---- *)
  Definition all_render_flat : forall l, Forall (renders_flat (M:=M) render_tag) l :=
    fun l => proj2 (Forall_forall _ _) (fun k _ => render_inline_flat k).

  (* a run of adjacent inline-only children of any tag appears contiguously *)
  Theorem tag_run_contiguous name ws a l1 mid l2 i eol ps :
    render_tag i eol (TagN name ws a (l1 ++ mid ++ l2)) = Ok ps ->
    forallb inline_only mid = true ->
    sub_of (flat_map (flat (negb (mem_str name no_escape_names))) mid) (pieces_str ps).
  Proof.
    intros H Hin. cbn [render_tag] in H.
    set (esc := negb (mem_str name no_escape_names)) in *.
    rewrite <- (flat_map_flat_filter esc mid).
    destruct (filter (fun c => negb (is_meta c)) (l1 ++ mid ++ l2)) as [|x r] eqn:Ef.
    - (* no visible children: the run consists of metadata only *)
      rewrite !filter_app in Ef. apply app_eq_nil in Ef as [_ Ef].
      apply app_eq_nil in Ef as [Ef _]. rewrite Ef. apply sub_of_nil.
    - destruct (single_text (mem_str name no_escape_names) (x :: r)) as [p|] eqn:Es.
      + (* single text child: the run is empty or that child *)
        injection H as <-.
        assert (r = []) as ->.
        { destruct x; destruct r; try discriminate Es; reflexivity. }
        rewrite !filter_app in Ef.
        destruct (filter (fun c => negb (is_meta c)) mid) as [|y [|z q]] eqn:Em;
          [apply sub_of_nil| |].
        * assert (y = x) as ->.
          { destruct (filter (fun c => negb (is_meta c)) l1) as [|u v];
              cbn [app] in Ef; [injection Ef as -> _; reflexivity|].
            injection Ef as _ Ef. destruct v; discriminate Ef. }
          cbn [flat_map]. rewrite app_nil_r.
          cbn [pieces_str flat_map piece_str]. rewrite app_nil_r.
          apply sub_of_app_r, sub_of_app_r, sub_of_app_l.
          destruct x; try discriminate Es; cbn [single_text] in Es; injection Es as <-;
            subst esc; destruct (mem_str name no_escape_names); apply sub_of_refl.
        * exfalso. destruct (filter (fun c => negb (is_meta c)) l1) as [|u v];
            cbn [app] in Ef; [discriminate Ef|].
          injection Ef as _ Ef. destruct v; discriminate Ef.
      + destruct (loop render_tag (S i) eol esc true ws (l1 ++ mid ++ l2)) as [bd|] eqn:E;
          [|discriminate].
        injection H as <-.
        destruct (loop_suffix _ _ _ _ _ _ _ _ _ E) as (f' & p' & ps' & pre & E' & P').
        pose proof (loop_run render_tag (S i) eol esc mid (all_render_flat mid) Hin _ _ _ _ E') as HS.
        rewrite flat_map_flat_filter.
        rewrite !pieces_str_cons, !pieces_str_app, P'.
        apply sub_of_app_r, sub_of_app_r, sub_of_app_r, sub_of_app_l, sub_of_app_r, HS.
  Qed.

  (* the same for a top-level list *)
  Theorem list_run_contiguous l1 mid l2 i eol aw esc ps :
    render_list i eol aw esc (l1 ++ mid ++ l2) = Ok ps ->
    forallb inline_only mid = true ->
    sub_of (flat_map (flat esc) mid) (pieces_str ps).
  Proof.
    unfold render_list. intros E Hin.
    destruct (loop_suffix _ _ _ _ _ _ _ _ _ E) as (f' & p' & ps' & pre & E' & P').
    rewrite P'. apply sub_of_app_r.
    exact (loop_run render_tag i eol esc mid (all_render_flat mid) Hin _ _ _ _ E').
  Qed.

  (* every child's rendering is contiguous in its parent's rendering *)
  Theorem child_contiguous name ws a kids i eol ps k :
    render_tag i eol (TagN name ws a kids) = Ok ps -> In k kids ->
    exists s, contrib render_tag (negb (mem_str name no_escape_names)) k s
              /\ sub_of s (pieces_str ps).
  Proof.
    intros H Hin. apply in_split in Hin as (l1 & l2 & ->).
    destruct k as [t|t|t|m|n2 w2 a2 k2|[sh|] e2].
    1-4,6-7: (eexists; split; [reflexivity|];
      pose proof (tag_run_contiguous name ws a l1 [_] l2 i eol ps H) as HS;
      cbn [flat_map forallb inline_only andb] in HS; rewrite app_nil_r in HS).
    1-5: try (apply HS; reflexivity).
    - (* un-expanded object: rendering fails, nothing to show; flat is empty *)
      cbn [flat]. apply sub_of_nil.
    - (* a tag child *)
      cbn [render_tag] in H.
      destruct (filter (fun c => negb (is_meta c)) (l1 ++ TagN n2 w2 a2 k2 :: l2)) as [|x r] eqn:Ef.
      { rewrite filter_app in Ef. cbn [filter is_meta negb] in Ef.
        apply app_eq_nil in Ef as [_ Ef]. discriminate Ef. }
      destruct (single_text (mem_str name no_escape_names) (x :: r)) as [p|] eqn:Es.
      { exfalso. assert (r = []) as ->.
        { destruct x; destruct r; try discriminate Es; reflexivity. }
        rewrite filter_app in Ef. cbn [filter is_meta negb] in Ef.
        destruct (filter (fun c => negb (is_meta c)) l1) as [|u v]; cbn [app] in Ef.
        - injection Ef as <- _. discriminate Es.
        - injection Ef as _ Ef. destruct v; discriminate Ef. }
      destruct (loop render_tag (S i) eol (negb (mem_str name no_escape_names)) true ws
                     (l1 ++ TagN n2 w2 a2 k2 :: l2)) as [bd|] eqn:E; [|discriminate].
      injection H as <-.
      destruct (loop_contains render_tag _ _ _ _ _ _ _ (TagN n2 w2 a2 k2) E
                  ltac:(apply in_or_app; right; left; reflexivity)) as (s & C & HS).
      exists s. split; [exact C|].
      rewrite !pieces_str_cons, !pieces_str_app.
      apply sub_of_app_r, sub_of_app_r, sub_of_app_r, sub_of_app_l, HS.
  Qed.
End Contig.

Section Occurs.
  Context {M : Type}.

  (* n occurs in t as a (direct or deeper) child; the flag says whether plain text is
     escaped at that position (false directly inside script/style) *)
  Inductive occurs : bool -> node M -> node M -> Prop :=
  | occ_kid name ws a kids k :
      In k kids -> occurs (negb (mem_str name no_escape_names)) k (TagN name ws a kids)
  | occ_deep name ws a kids k e n :
      In k kids -> occurs e n k -> occurs e n (TagN name ws a kids).

  Theorem subtree_contiguous e n t :
    occurs e n t -> inline_only n = true ->
    forall i eol ps, render_tag i eol t = Ok ps -> sub_of (flat e n) (pieces_str ps).
  Proof.
    induction 1 as [name ws a kids k Hin | name ws a kids k e n Hin Hocc IH];
      intros Hi i eol ps H.
    - destruct (child_contiguous _ _ _ _ _ _ _ _ H Hin) as (s & C & HS).
      apply (sub_of_trans _ s); [|exact HS].
      destruct k as [t|t|t|m|n2 w2 a2 k2|sh e2]; cbn [contrib] in C;
        try (rewrite C; apply sub_of_refl).
      destruct C as (j & e' & pk & E & ->).
      destruct (render_inline_flat (TagN n2 w2 a2 k2) eq_refl Hi j e') as (pk' & E' & P').
      rewrite E in E'. injection E' as <-. rewrite P'.
      apply sub_of_app_r, sub_of_refl.
    - destruct (child_contiguous _ _ _ _ _ _ _ _ H Hin) as (s & C & HS).
      apply (sub_of_trans _ s); [|exact HS].
      inversion Hocc; subst; cbn [contrib] in C;
        destruct C as (j & e' & pk & E & ->); exact (IH Hi _ _ _ E).
  Qed.
End Occurs.

(* C17: proofs about Model/WithProg.v against Spec/WithSpec.v. *)
From Coq Require Import Lia PeanoNat.
From HT Require Import Model.Str Model.Tree Model.WithProg Spec.WithSpec.
Local Open Scope nat_scope.

(* ---- induction principles for the nested types ---------------------------------------- *)
Section DvalInd.
  Variable P : dval -> Prop.
  Hypothesis HNone_ : P DNone.
  Hypothesis HEll : P DEllipsis.
  Hypothesis HText : forall s, P (DText s).
  Hypothesis HNum : forall s, P (DNum s).
  Hypothesis HHtml : forall s, P (DHtml s).
  Hypothesis HRepr : forall s, P (DRepr s).
  Hypothesis HTagRef : forall t, P (DTagRef t).
  Hypothesis HCustom : forall k, P (DCustom k).
  Hypothesis HMeta : forall k, P (DMeta k).
  Hypothesis HList : forall l, Forall P l -> P (DList l).
  Hypothesis HBad : P DBad.
  Fixpoint dval_ind' (v : dval) : P v :=
    match v with
    | DNone => HNone_ | DEllipsis => HEll | DText s => HText s | DNum s => HNum s
    | DHtml s => HHtml s | DRepr s => HRepr s | DTagRef t => HTagRef t
    | DCustom k => HCustom k | DMeta k => HMeta k | DBad => HBad
    | DList l =>
      HList l ((fix go (l : list dval) : Forall P l :=
                  match l with
                  | [] => Forall_nil P
                  | x :: r => Forall_cons x (dval_ind' x) (go r)
                  end) l)
    end.
End DvalInd.

Section StmtInd.
  Variable P : stmt -> Prop.
  Hypothesis HDisplay : forall v, P (Display v).
  Hypothesis HRaise : P Raise.
  Hypothesis HWith : forall t body, Forall P body -> P (With t body).
  Fixpoint stmt_ind' (st : stmt) : P st :=
    match st with
    | Display v => HDisplay v
    | Raise => HRaise
    | With t body =>
      HWith t body ((fix go (l : list stmt) : Forall P l :=
                       match l with
                       | [] => Forall_nil P
                       | x :: r => Forall_cons x (stmt_ind' x) (go r)
                       end) body)
    end.
End StmtInd.

(* ---- unfolding the nested fixpoints ---------------------------------------------------- *)
Lemma run_stmt_with : forall t body s,
  run_stmt (With t body) s =
  match enter t s with
  | Err e => (s, Raised e)
  | Ok s1 =>
    let (s2, o) := run body s1 in
    let (s3, r) := exit_ t s2 in
    match r with Some e => (s3, Raised e) | None => (s3, o) end
  end.
Proof.
  intros t body s. cbn [run_stmt]. destruct (enter t s) as [s1|e]; [|reflexivity].
  match goal with |- (let (_, _) := ?f body s1 in _) = _ =>
    assert (E : forall p x, f p x = run p x) end.
  { intros p x. reflexivity. }
  rewrite E. reflexivity.
Qed.

Lemma sem_stmt_with : forall r t body x,
  sem_stmt r (With t body) x =
  if used x t then (x, Raised RuntimeError)
  else let (x2, o) := sem (RTag t) body (s_mark t x) in (s_give r t x2, o).
Proof.
  intros r t body x. cbn [sem_stmt]. destruct (used x t); [reflexivity|].
  match goal with |- (let (_, _) := ?f body ?x0 in _) = _ =>
    assert (E : forall p x, f p x = sem (RTag t) p x) end.
  { induction p as [|y q IH]; intros z; [reflexivity|].
    simpl. destruct (sem_stmt (RTag t) y z) as [z' o]. destruct o; try reflexivity. apply IH. }
  rewrite E. reflexivity.
Qed.

Lemma flatten_item_list : forall l, flatten_item (DList l) = flat_map flatten_item l.
Proof.
  intros l. cbn [flatten_item]. induction l as [|x r IH]; [reflexivity|].
  cbn [flat_map]. rewrite <- IH. reflexivity.
Qed.

Fixpoint rule_all (l : list dval) : option (list child) :=
  match l with
  | [] => Some []
  | x :: r => match child_rule x, rule_all r with
              | Some a, Some b => Some (a ++ b)
              | _, _ => None
              end
  end.
Lemma child_rule_list : forall l, child_rule (DList l) = rule_all l.
Proof.
  intros l. cbn [child_rule]. induction l as [|x r IH]; [reflexivity|].
  cbn [rule_all]. rewrite <- IH. reflexivity.
Qed.

Lemma run_app : forall p q s,
  run (p ++ q) s =
  match snd (run p s) with
  | Normal => run q (fst (run p s))
  | _ => run p s
  end.
Proof.
  induction p as [|x p IH]; intros q s; [reflexivity|].
  cbn [app run]. destruct (run_stmt x s) as [s' o]. destruct o; cbn [fst snd].
  - apply IH.
  - reflexivity.
  - reflexivity.
Qed.

(* ---- the child rules: flatten + loop = the declarative rule ---------------------------- *)
Definition of_opt (o : option (list child)) : res (list child) :=
  match o with Some x => Ok x | None => Err TypeError end.

Lemma nodes_loop_app : forall a b,
  nodes_loop (a ++ b) =
  match nodes_loop a with
  | Err e => Err e
  | Ok x => match nodes_loop b with Err e => Err e | Ok y => Ok (x ++ y) end
  end.
Proof.
  induction a as [|v a IH]; intros b.
  - cbn. destruct (nodes_loop b); reflexivity.
  - cbn [app nodes_loop]. destruct (to_node v) as [c|e]; [|reflexivity].
    rewrite IH. destruct (nodes_loop a) as [x|e]; [|reflexivity].
    destruct (nodes_loop b) as [y|e]; reflexivity.
Qed.

Lemma nodes_flatten_item : forall v, nodes_loop (flatten_item v) = of_opt (child_rule v).
Proof.
  induction v as [| |s|s|s|s|t|k|k|l IH|] using dval_ind'; try reflexivity.
  rewrite flatten_item_list, child_rule_list.
  induction IH as [|x r Hx _ IHr]; [reflexivity|].
  cbn [flat_map rule_all]. rewrite nodes_loop_app, Hx, IHr.
  destruct (child_rule x) as [a|]; [|reflexivity].
  destruct (rule_all r) as [b|]; reflexivity.
Qed.

Lemma tagchilds_one : forall v, tagchilds_to_tagnodes [v] = of_opt (child_rule v).
Proof.
  intros v. unfold tagchilds_to_tagnodes, flatten. cbn [flat_map].
  rewrite app_nil_r. apply nodes_flatten_item.
Qed.

Lemma tag_append_spec : forall t v s,
  tag_append t v s =
  match child_rule v with
  | Some cs => Ok (add_children t cs s)
  | None => Err TypeError
  end.
Proof.
  intros t v s. unfold tag_append. rewrite tagchilds_one.
  destruct (child_rule v); reflexivity.
Qed.

(* wrap_displayhook_handler(tag.append) implements `shown` *)
Definition ignored (v : dval) : bool :=
  match v with DNone | DEllipsis => true | _ => false end.

Lemma handler_wrapper_spec : forall t v s,
  handler_wrapper t v s =
  if ignored v then Ok s
  else match shown v with
       | Some cs => Ok (add_children t cs s)
       | None => Err TypeError
       end.
Proof.
  intros t v s. destruct v; cbn [handler_wrapper shown ignored]; try rewrite tag_append_spec;
    try reflexivity.
Qed.

Lemma ignored_shown : forall v, ignored v = true -> shown v = Some [].
Proof. destruct v; cbn; intros H; try discriminate; reflexivity. Qed.

(* the same, without committing to which of two extensionally equal states is returned *)
Lemma hw_cases : forall t v s,
  (exists cs s', shown v = Some cs /\ handler_wrapper t v s = Ok s' /\
                 hook_ s' = hook_ s /\ prev s' = prev s /\ log s' = log s /\
                 forall u, children s' u = children (add_children t cs s) u)
  \/ (shown v = None /\ handler_wrapper t v s = Err TypeError).
Proof.
  intros t v s. rewrite handler_wrapper_spec. destruct (ignored v) eqn:I.
  - left. exists [], s. rewrite (ignored_shown v I). repeat split; auto.
    intros u. cbn. destruct (Nat.eqb u t); [rewrite app_nil_r|]; reflexivity.
  - destruct (shown v) as [cs|].
    + left. exists cs, (add_children t cs s). repeat split; auto.
    + right. auto.
Qed.

(* ---- what calling a hook can and cannot change ----------------------------------------- *)
Lemma call_hook_frame : forall h v s s',
  call_hook h v s = Ok s' -> hook_ s' = hook_ s /\ prev s' = prev s.
Proof.
  intros h v s s' H. destruct h as [| |t]; cbn [call_hook] in H.
  - discriminate.
  - inversion H. split; reflexivity.
  - destruct (hw_cases t v s) as [(cs & s2 & _ & E & A & B & _)|[_ E]]; rewrite E in H.
    + inversion H. subst. auto.
    + discriminate.
Qed.

Lemma call_hook_tagref : forall h t s,
  h <> HNone ->
  call_hook h (DTagRef t) s =
  Ok (match h with
      | HTag u => add_children u [CTag t] s
      | _ => add_log (DTagRef t) s
      end).
Proof.
  intros h t s Hh. destruct h as [| |u]; [congruence|reflexivity|].
  cbn [call_hook]. rewrite handler_wrapper_spec. reflexivity.
Qed.

Lemma enter_ok : forall t s s1,
  enter t s = Ok s1 ->
  prev s t = HNone /\ s1 = set_hook (HTag t) (set_prev t (hook_ s) s).
Proof.
  intros t s s1 H. unfold enter in H. destruct (prev s t); cbn in H; try discriminate.
  inversion H. split; reflexivity.
Qed.

Lemma enter_fresh : forall t s,
  prev s t = HNone -> enter t s = Ok (set_hook (HTag t) (set_prev t (hook_ s) s)).
Proof. intros t s H. unfold enter. rewrite H. reflexivity. Qed.

Lemma enter_used : forall t s, prev s t <> HNone -> enter t s = Err RuntimeError.
Proof. intros t s H. unfold enter. destruct (prev s t); [congruence|reflexivity|reflexivity]. Qed.

Lemma exit_prev : forall t s, prev (fst (exit_ t s)) = prev s.
Proof.
  intros t s. unfold exit_.
  destruct (call_hook _ _ _) as [s2|e] eqn:E; cbn [fst]; [|reflexivity].
  apply call_hook_frame in E. destruct E as [_ E]. rewrite E. reflexivity.
Qed.

(* prev_displayhook is write-once: a tag that has been entered keeps its saved hook *)
Lemma prev_keep_stmt : forall st s u,
  prev s u <> HNone -> prev (fst (run_stmt st s)) u = prev s u.
Proof.
  induction st as [v| |t body IH] using stmt_ind'; intros s u Hu.
  - cbn [run_stmt]. destruct (call_hook (hook_ s) v s) as [s'|e] eqn:E; cbn [fst]; [|reflexivity].
    apply call_hook_frame in E. destruct E as [_ E]. rewrite E. reflexivity.
  - reflexivity.
  - rewrite run_stmt_with. destruct (enter t s) as [s1|e] eqn:E; [|reflexivity].
    apply enter_ok in E. destruct E as [Ht ->].
    assert (Hut : Nat.eqb u t = false).
    { destruct (Nat.eqb u t) eqn:Q; [|reflexivity]. apply Nat.eqb_eq in Q. congruence. }
    assert (R : forall p x, Forall (fun st => forall s u, prev s u <> HNone ->
                                  prev (fst (run_stmt st s)) u = prev s u) p ->
                prev x u <> HNone -> prev (fst (run p x)) u = prev x u).
    { induction p as [|y q IHq]; intros x Hall Hx; [reflexivity|].
      inversion Hall as [|? ? Hy Hq]; subst. cbn [run].
      destruct (run_stmt y x) as [x' o] eqn:E. pose proof (Hy x u Hx) as K.
      rewrite E in K. cbn [fst] in K.
      destruct o; cbn [fst]; try exact K.
      rewrite IHq; [exact K|exact Hq|congruence]. }
    set (s1 := set_hook (HTag t) (set_prev t (hook_ s) s)).
    assert (H1 : prev s1 u = prev s u) by (cbn; rewrite Hut; reflexivity).
    specialize (R body s1 IH). rewrite H1 in R. specialize (R Hu).
    destruct (run body s1) as [s2 o]. cbn [fst] in R.
    pose proof (exit_prev t s2) as X.
    destruct (exit_ t s2) as [s3 r]. cbn [fst] in X.
    destruct r; cbn [fst]; rewrite X; exact R.
Qed.

Lemma prev_keep : forall p s u,
  prev s u <> HNone -> prev (fst (run p s)) u = prev s u.
Proof.
  induction p as [|y q IH]; intros s u Hu; [reflexivity|].
  cbn [run]. pose proof (prev_keep_stmt y s u Hu) as K.
  destruct (run_stmt y s) as [s' o]. cbn [fst] in K.
  destruct o; cbn [fst]; try exact K.
  rewrite IH; [exact K|congruence].
Qed.

(* ---- the refinement: hook save/restore implements lexical scoping ----------------------- *)
Lemma hook_of_not_none : forall r, hook_of r <> HNone.
Proof. destruct r; discriminate. Qed.

Lemma agree_display : forall r v s x,
  agree s x -> hook_ s = hook_of r ->
  match call_hook (hook_ s) v s, s_display r v x with
  | Ok s', Ok x' => agree s' x' /\ hook_ s' = hook_of r
  | Err e, Err e' => e = e'
  | _, _ => False
  end.
Proof.
  intros r v s x (Hu & Hk & Hl) Hh. rewrite Hh. destruct r as [|t]; cbn [hook_of call_hook s_display].
  - split; [|exact Hh]. repeat split; cbn; auto. rewrite Hl. reflexivity.
  - destruct (hw_cases t v s) as [(cs & s2 & Es & E & A & B & C & D)|[Es E]]; rewrite E, Es.
    + split; [|rewrite A; exact Hh]. repeat split; cbn.
      * intros u. rewrite B. apply Hu.
      * intros u. rewrite D, Hk. reflexivity.
      * congruence.
    + reflexivity.
Qed.

Definition refines_stmt (st : stmt) : Prop :=
  forall r s x, agree s x -> hook_ s = hook_of r ->
    agree (fst (run_stmt st s)) (fst (sem_stmt r st x)) /\
    snd (run_stmt st s) = snd (sem_stmt r st x) /\
    hook_ (fst (run_stmt st s)) = hook_of r.

Lemma refines_list : forall p, Forall refines_stmt p ->
  forall r s x, agree s x -> hook_ s = hook_of r ->
    agree (fst (run p s)) (fst (sem r p x)) /\
    snd (run p s) = snd (sem r p x) /\
    hook_ (fst (run p s)) = hook_of r.
Proof.
  induction p as [|y q IH]; intros Hall r s x Ha Hh.
  - cbn. auto.
  - inversion Hall as [|? ? Hy Hq]; subst. cbn [run sem].
    destruct (Hy r s x Ha Hh) as (A1 & A2 & A3).
    destruct (run_stmt y s) as [s' o]. destruct (sem_stmt r y x) as [x' o'].
    cbn [fst snd] in *. subst o'. destruct o; cbn [fst snd]; auto.
Qed.

Lemma refines_all_stmt : forall st, refines_stmt st.
Proof.
  induction st as [v| |t body IH] using stmt_ind'; intros r s x Ha Hh.
  - cbn [run_stmt sem_stmt]. pose proof (agree_display r v s x Ha Hh) as K.
    destruct (call_hook (hook_ s) v s) as [s'|e]; destruct (s_display r v x) as [x'|e'];
      cbn [fst snd]; try contradiction.
    + destruct K as [K1 K2]. auto.
    + subst. auto.
  - cbn. auto.
  - rewrite run_stmt_with, sem_stmt_with.
    destruct Ha as (Hu & Hk & Hl).
    rewrite (Hu t). unfold enter.
    destruct (is_none (prev s t)) eqn:Hn; cbn [negb].
    2:{ cbn [fst snd]. repeat split; auto. }
    set (s1 := set_hook (HTag t) (set_prev t (hook_ s) s)).
    assert (Ha1 : agree s1 (s_mark t x)).
    { repeat split; cbn; auto. intros u. destruct (Nat.eqb u t).
      - rewrite Hh. destruct r; reflexivity.
      - apply Hu. }
    destruct (refines_list body IH (RTag t) s1 (s_mark t x) Ha1 eq_refl) as (B1 & B2 & B3).
    assert (P1 : prev s1 t = hook_of r).
    { cbn. rewrite Nat.eqb_refl. exact Hh. }
    pose proof (prev_keep body s1 t) as PK. rewrite P1 in PK.
    specialize (PK (hook_of_not_none r)).
    destruct (run body s1) as [s2 o]. destruct (sem (RTag t) body (s_mark t x)) as [x2 o'].
    cbn [fst snd] in *. subst o'.
    unfold exit_. cbn [set_hook hook_]. rewrite PK.
    rewrite call_hook_tagref by apply hook_of_not_none.
    destruct B1 as (Cu & Ck & Cl).
    assert (G : agree (match hook_of r with
                       | HTag u => add_children u [CTag t] (set_hook (hook_of r) s2)
                       | _ => add_log (DTagRef t) (set_hook (hook_of r) s2)
                       end) (s_give r t x2) /\
                hook_ (match hook_of r with
                       | HTag u => add_children u [CTag t] (set_hook (hook_of r) s2)
                       | _ => add_log (DTagRef t) (set_hook (hook_of r) s2)
                       end) = hook_of r).
    { destruct r as [|u]; cbn [hook_of s_give]; (split; [|reflexivity]).
      - repeat split; cbn; auto. rewrite Cl. reflexivity.
      - repeat split; cbn; auto. intros w. rewrite Ck. reflexivity. }
    destruct G as [G1 G2]. cbn [fst snd]. auto.
Qed.

Theorem run_refines : forall p r s x,
  agree s x -> hook_ s = hook_of r ->
  agree (fst (run p s)) (fst (sem r p x)) /\
  snd (run p s) = snd (sem r p x) /\
  hook_ (fst (run p s)) = hook_of r.
Proof.
  intros p. apply refines_list. apply Forall_forall. intros st _. apply refines_all_stmt.
Qed.

Lemma agree_abs : forall s, agree s (abs s).
Proof. intros s. repeat split. Qed.

Lemma recv_of_hook : forall h, h <> HNone -> exists r, h = hook_of r.
Proof.
  intros [| |t] H; [congruence|exists RBase; reflexivity|exists (RTag t); reflexivity].
Qed.

(* ---- restoration ----------------------------------------------------------------------- *)
Theorem hook_restored : forall p s,
  hook_ s <> HNone -> hook_ (fst (run p s)) = hook_ s.
Proof.
  intros p s H. destruct (recv_of_hook _ H) as [r Hr].
  destruct (run_refines p r s (abs s) (agree_abs s) Hr) as (_ & _ & K). congruence.
Qed.

Theorem hook_restored_stmt : forall st s,
  hook_ s <> HNone -> hook_ (fst (run_stmt st s)) = hook_ s.
Proof.
  intros st s H. destruct (recv_of_hook _ H) as [r Hr].
  destruct (refines_all_stmt st r s (abs s) (agree_abs s) Hr) as (_ & _ & K). congruence.
Qed.

(* the invariant is preserved, so the statement applies again to whatever runs next *)
Lemma hook_not_none_kept : forall p s,
  hook_ s <> HNone -> hook_ (fst (run p s)) <> HNone.
Proof. intros p s H. rewrite hook_restored; assumption. Qed.

(* ---- a block, entered: exact shape of the result --------------------------------------- *)
Definition entered (t : nat) (s : state) : state :=
  set_hook (HTag t) (set_prev t (hook_ s) s).
Definition deliver_tag (h : hook) (t : nat) (s : state) : state :=
  match h with
  | HTag u => add_children u [CTag t] (set_hook h s)
  | _ => add_log (DTagRef t) (set_hook h s)
  end.

Lemma with_entered : forall t body s,
  prev s t = HNone -> hook_ s <> HNone ->
  run_stmt (With t body) s =
  (deliver_tag (hook_ s) t (fst (run body (entered t s))), snd (run body (entered t s))).
Proof.
  intros t body s Ht Hh. rewrite run_stmt_with, (enter_fresh t s Ht).
  fold (entered t s).
  assert (P1 : prev (entered t s) t = hook_ s) by (cbn; rewrite Nat.eqb_refl; reflexivity).
  pose proof (prev_keep body (entered t s) t) as PK. rewrite P1 in PK. specialize (PK Hh).
  destruct (run body (entered t s)) as [s2 o]. cbn [fst snd] in *.
  unfold exit_. cbn [set_hook hook_]. rewrite PK. rewrite call_hook_tagref by exact Hh.
  unfold deliver_tag. destruct (hook_ s); reflexivity.
Qed.

(* ---- frame lemmas ---------------------------------------------------------------------- *)
(* a tag that has been entered and whose hook is not the current one receives nothing *)
Definition frame_stmt (st : stmt) : Prop :=
  forall s u, prev s u <> HNone -> hook_ s <> HTag u -> hook_ s <> HNone ->
    children (fst (run_stmt st s)) u = children s u.

Lemma add_children_other : forall t cs s u, u <> t -> children (add_children t cs s) u = children s u.
Proof.
  intros t cs s u H. cbn. destruct (Nat.eqb u t) eqn:Q; [|reflexivity].
  apply Nat.eqb_eq in Q. congruence.
Qed.

Lemma call_hook_children_other : forall h v s s' u,
  call_hook h v s = Ok s' -> h <> HTag u -> children s' u = children s u.
Proof.
  intros h v s s' u H Hh. destruct h as [| |t]; cbn [call_hook] in H.
  - discriminate.
  - inversion H. reflexivity.
  - destruct (hw_cases t v s) as [(cs & s2 & _ & E & _ & _ & _ & D)|[_ E]]; rewrite E in H.
    + inversion H. subst. rewrite D. apply add_children_other. congruence.
    + discriminate.
Qed.

Lemma frame_list : forall p, Forall frame_stmt p ->
  forall s u, prev s u <> HNone -> hook_ s <> HTag u -> hook_ s <> HNone ->
    children (fst (run p s)) u = children s u.
Proof.
  induction p as [|y q IH]; intros Hall s u Hp Hh Hn; [reflexivity|].
  inversion Hall as [|? ? Hy Hq]; subst. cbn [run].
  pose proof (Hy s u Hp Hh Hn) as K.
  pose proof (prev_keep_stmt y s u Hp) as K2.
  pose proof (hook_restored_stmt y s Hn) as K3.
  destruct (run_stmt y s) as [s' o]. cbn [fst] in *.
  destruct o; cbn [fst]; try exact K.
  rewrite IH; [exact K|exact Hq|congruence|congruence|congruence].
Qed.

Lemma frame_all_stmt : forall st, frame_stmt st.
Proof.
  induction st as [v| |t body IH] using stmt_ind'; intros s u Hp Hh Hn.
  - cbn [run_stmt]. destruct (call_hook (hook_ s) v s) as [s'|e] eqn:E; cbn [fst]; [|reflexivity].
    eapply call_hook_children_other; eauto.
  - reflexivity.
  - destruct (is_none (prev s t)) eqn:Q.
    + assert (Ht : prev s t = HNone) by (destruct (prev s t); [reflexivity|discriminate|discriminate]).
      rewrite (with_entered t body s Ht Hn). cbn [fst].
      assert (Hut : u <> t) by congruence.
      assert (E1 : children (fst (run body (entered t s))) u = children s u).
      { rewrite (frame_list body IH).
        - reflexivity.
        - cbn. destruct (Nat.eqb u t) eqn:Q2; [apply Nat.eqb_eq in Q2; congruence|exact Hp].
        - cbn. congruence.
        - cbn. discriminate. }
      unfold deliver_tag. destruct (hook_ s) as [| |w] eqn:Hw.
      * congruence.
      * cbn. exact E1.
      * rewrite add_children_other by congruence. cbn. exact E1.
    + rewrite run_stmt_with, enter_used; [reflexivity|].
      destruct (prev s t); [discriminate|discriminate|discriminate].
Qed.

Lemma children_frame : forall p s u,
  prev s u <> HNone -> hook_ s <> HTag u -> hook_ s <> HNone ->
  children (fst (run p s)) u = children s u.
Proof.
  intros p. apply frame_list. apply Forall_forall. intros st _. apply frame_all_stmt.
Qed.

(* nothing reaches the base hook while a tag's hook is current *)
Definition logframe_stmt (st : stmt) : Prop :=
  forall s, hook_ s <> HBase -> hook_ s <> HNone -> log (fst (run_stmt st s)) = log s.

Lemma logframe_list : forall p, Forall logframe_stmt p ->
  forall s, hook_ s <> HBase -> hook_ s <> HNone -> log (fst (run p s)) = log s.
Proof.
  induction p as [|y q IH]; intros Hall s Hb Hn; [reflexivity|].
  inversion Hall as [|? ? Hy Hq]; subst. cbn [run].
  pose proof (Hy s Hb Hn) as K. pose proof (hook_restored_stmt y s Hn) as K3.
  destruct (run_stmt y s) as [s' o]. cbn [fst] in *.
  destruct o; cbn [fst]; try exact K.
  rewrite IH; [exact K|exact Hq|congruence|congruence].
Qed.

Lemma logframe_all_stmt : forall st, logframe_stmt st.
Proof.
  induction st as [v| |t body IH] using stmt_ind'; intros s Hb Hn.
  - cbn [run_stmt]. destruct (hook_ s) as [| |u] eqn:Hh; try congruence.
    cbn [call_hook].
    destruct (hw_cases u v s) as [(cs & s2 & _ & E & _ & _ & C & _)|[_ E]]; rewrite E; cbn [fst].
    + exact C.
    + reflexivity.
  - reflexivity.
  - destruct (is_none (prev s t)) eqn:Q.
    + assert (Ht : prev s t = HNone) by (destruct (prev s t); [reflexivity|discriminate|discriminate]).
      rewrite (with_entered t body s Ht Hn). cbn [fst].
      assert (E1 : log (fst (run body (entered t s))) = log s).
      { rewrite (logframe_list body IH); [reflexivity|cbn; discriminate|cbn; discriminate]. }
      unfold deliver_tag. destruct (hook_ s) as [| |w]; try congruence. cbn. exact E1.
    + rewrite run_stmt_with, enter_used; [reflexivity|].
      destruct (prev s t); [discriminate|discriminate|discriminate].
Qed.

Lemma log_frame : forall p s,
  hook_ s <> HBase -> hook_ s <> HNone -> log (fst (run p s)) = log s.
Proof.
  intros p. apply logframe_list. apply Forall_forall. intros st _. apply logframe_all_stmt.
Qed.

(* ---- counting: a tag that is not displayed explicitly and cannot be entered (again)
        is delivered nowhere ----------------------------------------------------------- *)
Lemma count_tag_app : forall t a b, count_tag t (a ++ b) = count_tag t a + count_tag t b.
Proof.
  induction a as [|c a IH]; intros b; [reflexivity|].
  cbn [app count_tag]. rewrite IH. destruct c; try reflexivity. lia.
Qed.
Lemma count_ref_app : forall t a b, count_ref t (a ++ b) = count_ref t a + count_ref t b.
Proof.
  induction a as [|c a IH]; intros b; [reflexivity|].
  cbn [app count_ref]. rewrite IH. destruct c; try reflexivity. lia.
Qed.

Lemma mentions_list : forall t l, mentions t (DList l) = existsb (mentions t) l.
Proof.
  intros t l. cbn [mentions]. induction l as [|x r IH]; [reflexivity|].
  cbn [existsb]. rewrite <- IH. reflexivity.
Qed.

Lemma child_rule_count : forall t v cs,
  mentions t v = false -> child_rule v = Some cs -> count_tag t cs = 0%nat.
Proof.
  intros t. induction v as [| |s|s|s|s|u|k|k|l IH|] using dval_ind'; intros cs Hm Hc;
    try (cbn in Hc; inversion Hc; reflexivity).
  - cbn in Hm, Hc. inversion Hc. cbn. rewrite Hm. reflexivity.
  - rewrite mentions_list in Hm. rewrite child_rule_list in Hc.
    revert cs Hm Hc. induction IH as [|x r Hx _ IHr]; intros cs Hm Hc.
    + inversion Hc. reflexivity.
    + cbn [existsb] in Hm. apply orb_false_iff in Hm. destruct Hm as [Hm1 Hm2].
      destruct (child_rule x) as [a|] eqn:Ea; [|cbn [rule_all] in Hc; rewrite Ea in Hc; discriminate].
      cbn [rule_all] in Hc. rewrite Ea in Hc.
      destruct (rule_all r) as [b|] eqn:Eb; [|discriminate].
      inversion Hc. rewrite count_tag_app, (Hx a Hm1 eq_refl), (IHr b Hm2 eq_refl). reflexivity.
Qed.

Lemma shown_count : forall t v cs,
  mentions t v = false -> shown v = Some cs -> count_tag t cs = 0%nat.
Proof.
  intros t v cs Hm Hs. destruct v; cbn [shown] in Hs;
    try (inversion Hs; reflexivity); try (eapply child_rule_count; eassumption).
Qed.

Lemma displays_with : forall t u body, displays t (With u body) = displays_any t body.
Proof.
  intros t u body. cbn [displays]. unfold displays_any.
  induction body as [|x r IH]; [reflexivity|]. cbn [existsb]. rewrite <- IH. reflexivity.
Qed.

Definition counts_same (t : nat) (s s' : state) : Prop :=
  (forall u, count_tag t (children s' u) = count_tag t (children s u)) /\
  count_ref t (log s') = count_ref t (log s).

Lemma counts_same_refl : forall t s, counts_same t s s.
Proof. intros; split; auto. Qed.
Lemma counts_same_trans : forall t a b c, counts_same t a b -> counts_same t b c -> counts_same t a c.
Proof. intros t a b c [A1 A2] [B1 B2]. split; [intros u; rewrite B1; apply A1|congruence]. Qed.

Lemma call_hook_counts : forall t h v s s',
  mentions t v = false -> call_hook h v s = Ok s' -> counts_same t s s'.
Proof.
  intros t h v s s' Hm H. destruct h as [| |w]; cbn [call_hook] in H.
  - discriminate.
  - inversion H. split; [auto|]. cbn. rewrite count_ref_app. cbn.
    destruct v; cbn; try lia. cbn in Hm. rewrite Hm. lia.
  - destruct (hw_cases w v s) as [(cs & s2 & Es & E & _ & _ & C & D)|[_ E]]; rewrite E in H.
    + inversion H. subst. split; [|congruence]. intros u. rewrite D. cbn.
      destruct (Nat.eqb u w); [|reflexivity].
      rewrite count_tag_app, (shown_count t v cs Hm Es). lia.
    + discriminate.
Qed.

Definition quiet_stmt (t : nat) (st : stmt) : Prop :=
  forall s, displays t st = false -> prev s t <> HNone ->
    counts_same t s (fst (run_stmt st s)).

Lemma quiet_list : forall t p, Forall (quiet_stmt t) p ->
  forall s, displays_any t p = false -> prev s t <> HNone ->
    counts_same t s (fst (run p s)).
Proof.
  induction p as [|y q IH]; intros Hall s Hd Hp; [apply counts_same_refl|].
  inversion Hall as [|? ? Hy Hq]; subst. unfold displays_any in Hd. cbn [existsb] in Hd.
  apply orb_false_iff in Hd. destruct Hd as [Hd1 Hd2]. cbn [run].
  pose proof (Hy s Hd1 Hp) as K. pose proof (prev_keep_stmt y s t Hp) as K2.
  destruct (run_stmt y s) as [s' o]. cbn [fst] in *.
  destruct o; cbn [fst]; try exact K.
  eapply counts_same_trans; [exact K|]. apply IH; [exact Hq|exact Hd2|congruence].
Qed.

Lemma quiet_all_stmt : forall t st, quiet_stmt t st.
Proof.
  intros t. induction st as [v| |w body IH] using stmt_ind'; intros s Hd Hp.
  - cbn [run_stmt]. cbn [displays] in Hd.
    destruct (call_hook (hook_ s) v s) as [s'|e] eqn:E; cbn [fst]; [|apply counts_same_refl].
    eapply call_hook_counts; eauto.
  - apply counts_same_refl.
  - rewrite displays_with in Hd. rewrite run_stmt_with.
    destruct (enter w s) as [s1|e] eqn:E; [|apply counts_same_refl].
    apply enter_ok in E. destruct E as [Hw ->].
    assert (Hwt : w <> t) by congruence.
    set (s1 := set_hook (HTag w) (set_prev w (hook_ s) s)).
    assert (Hp1 : prev s1 t <> HNone).
    { cbn. destruct (Nat.eqb t w) eqn:Q; [apply Nat.eqb_eq in Q; congruence|exact Hp]. }
    pose proof (quiet_list t body IH s1 Hd Hp1) as K.
    destruct (run body s1) as [s2 o]. cbn [fst] in K.
    assert (K0 : counts_same t s s1) by (split; auto).
    assert (X : counts_same t s2 (fst (exit_ w s2))).
    { unfold exit_. destruct (call_hook _ _ _) as [s3|e] eqn:E; cbn [fst].
      - eapply counts_same_trans; [|eapply call_hook_counts; [|exact E]].
        + split; auto.
        + cbn. destruct (Nat.eqb w t) eqn:Q; [apply Nat.eqb_eq in Q; congruence|reflexivity].
      - split; auto. }
    destruct (exit_ w s2) as [s3 r]. cbn [fst] in X.
    assert (Y : counts_same t s s3).
    { eapply counts_same_trans; [exact K0|]. eapply counts_same_trans; [exact K|exact X]. }
    destruct r; exact Y.
Qed.

Lemma quiet : forall t p s,
  displays_any t p = false -> prev s t <> HNone -> counts_same t s (fst (run p s)).
Proof.
  intros t p. apply quiet_list. apply Forall_forall. intros st _. apply quiet_all_stmt.
Qed.

(* ---- exactly once ---------------------------------------------------------------------- *)
Theorem delivered_once : forall t body s,
  prev s t = HNone -> hook_ s <> HNone ->
  let s' := fst (run_stmt (With t body) s) in
  let sb := fst (run body (entered t s)) in
  (* on exit: after everything the body did, to the hook current at entry, which is
     also the hook in force afterwards; the outcome of the body propagates *)
  s' = deliver_tag (hook_ s) t sb /\
  hook_ s' = hook_ s /\
  snd (run_stmt (With t body) s) = snd (run body (entered t s)) /\
  (* and nowhere else, unless the program itself displays the tag *)
  (displays_any t body = false ->
   (forall u, count_tag t (children s' u) =
              count_tag t (children s u) + (match hook_ s with
                                            | HTag w => if Nat.eqb u w then 1 else 0
                                            | _ => 0 end)) /\
   count_ref t (log s') =
   count_ref t (log s) + (match hook_ s with HBase => 1 | _ => 0 end)).
Proof.
  intros t body s Ht Hh. cbn zeta. rewrite (with_entered t body s Ht Hh). cbn [fst snd].
  split; [reflexivity|]. split.
  { unfold deliver_tag. destruct (hook_ s); reflexivity. }
  split; [reflexivity|]. intros Hd.
  assert (Hp1 : prev (entered t s) t <> HNone).
  { cbn. rewrite Nat.eqb_refl. exact Hh. }
  destruct (quiet t body (entered t s) Hd Hp1) as [Q1 Q2]. cbn [entered set_hook set_prev children log] in Q1, Q2.
  unfold deliver_tag. destruct (hook_ s) as [| |w] eqn:Hw; [congruence| |].
  - split.
    + intros u. cbn. rewrite Q1. lia.
    + cbn. rewrite count_ref_app, Q2. cbn. rewrite Nat.eqb_refl. lia.
  - split.
    + intros u. cbn. destruct (Nat.eqb u w).
      * rewrite count_tag_app, Q1. cbn. rewrite Nat.eqb_refl. lia.
      * rewrite Q1. lia.
    + cbn. rewrite Q2. lia.
Qed.

(* the enclosing tag (entered earlier, its hook current) gets exactly the new tag appended,
   whatever happened inside; at top level the base hook receives exactly the tag *)
Theorem delivered_to_enclosing : forall t body s,
  prev s t = HNone ->
  let s' := fst (run_stmt (With t body) s) in
  match hook_ s with
  | HTag u => prev s u <> HNone -> children s' u = children s u ++ [CTag t] /\ log s' = log s
  | HBase => log s' = log s ++ [DTagRef t] /\
             (forall u, prev s u <> HNone -> children s' u = children s u)
  | HNone => True
  end.
Proof.
  intros t body s Ht. cbn zeta. destruct (hook_ s) as [| |u] eqn:Hh; [exact I| |].
  - assert (Hn : hook_ s <> HNone) by congruence.
    rewrite (with_entered t body s Ht Hn). cbn [fst]. rewrite Hh. unfold deliver_tag. split.
    + cbn. rewrite log_frame; [reflexivity|cbn; discriminate|cbn; discriminate].
    + intros u Hu. cbn. rewrite children_frame; [reflexivity| |cbn; congruence|cbn; discriminate].
      cbn. destruct (Nat.eqb u t) eqn:Q; [apply Nat.eqb_eq in Q; congruence|exact Hu].
  - intros Hu. assert (Hn : hook_ s <> HNone) by congruence.
    rewrite (with_entered t body s Ht Hn). cbn [fst]. rewrite Hh. unfold deliver_tag. split.
    + cbn. rewrite Nat.eqb_refl. rewrite children_frame; [reflexivity| |cbn; congruence|cbn; discriminate].
      cbn. destruct (Nat.eqb u t) eqn:Q; [apply Nat.eqb_eq in Q; congruence|exact Hu].
    + cbn. rewrite log_frame; [reflexivity|cbn; discriminate|cbn; discriminate].
Qed.

(* ---- a run of displays inside a block --------------------------------------------------- *)
Theorem displays_collected : forall vs t s,
  hook_ s = HTag t ->
  let r := run (map Display vs) s in
  children (fst r) t = children s t ++ fst (shown_all vs) /\
  (forall u, u <> t -> children (fst r) u = children s u) /\
  snd r = (if snd (shown_all vs) then Normal else Raised TypeError) /\
  hook_ (fst r) = HTag t /\ log (fst r) = log s /\ prev (fst r) = prev s.
Proof.
  induction vs as [|v vs IH]; intros t s Hh; cbn zeta.
  - cbn. rewrite app_nil_r. auto 10.
  - cbn [map run run_stmt shown_all]. rewrite Hh. cbn [call_hook].
    destruct (hw_cases t v s) as [(cs & s2 & Es & E & A & B & C & D)|[Es E]]; rewrite E, Es.
    + assert (Hh2 : hook_ s2 = HTag t) by congruence.
      specialize (IH t s2 Hh2). cbn zeta in IH.
      destruct IH as (I1 & I2 & I3 & I4 & I5 & I6).
      destruct (shown_all vs) as [cs' ok]. cbn [fst snd] in *.
      rewrite I1, D. cbn [add_children children]. rewrite Nat.eqb_refl, app_assoc.
      repeat split; auto; try congruence.
      intros u Hu. rewrite (I2 u Hu), D. apply add_children_other. exact Hu.
    + cbn. rewrite app_nil_r. auto 10.
Qed.

(* ---- re-entering --------------------------------------------------------------------- *)
Theorem reenter_rejected : forall t body s,
  prev s t <> HNone -> run_stmt (With t body) s = (s, Raised RuntimeError).
Proof. intros t body s H. rewrite run_stmt_with, (enter_used t s H). reflexivity. Qed.

(* during its own block (however deep) a tag has prev <> None, so the above applies *)
Theorem active_has_prev : forall t s p,
  hook_ s <> HNone -> prev (fst (run p (entered t s))) t <> HNone.
Proof.
  intros t s p Hh.
  assert (P1 : prev (entered t s) t = hook_ s) by (cbn; rewrite Nat.eqb_refl; reflexivity).
  rewrite prev_keep; rewrite P1; exact Hh.
Qed.

Theorem reenter_active : forall t pre inner post s,
  prev s t = HNone -> hook_ s <> HNone ->
  snd (run pre (entered t s)) = Normal ->
  let sp := fst (run pre (entered t s)) in
  (* at the point of re-entry: RuntimeError, nothing changed *)
  run_stmt (With t inner) sp = (sp, Raised RuntimeError) /\
  (* the enclosing block still exits: hook restored, tag delivered, error propagates *)
  run_stmt (With t (pre ++ With t inner :: post)) s =
  (deliver_tag (hook_ s) t sp, Raised RuntimeError) /\
  hook_ (deliver_tag (hook_ s) t sp) = hook_ s.
Proof.
  intros t pre inner post s Ht Hh Hpre. cbn zeta.
  assert (R : run_stmt (With t inner) (fst (run pre (entered t s))) =
              (fst (run pre (entered t s)), Raised RuntimeError)).
  { apply reenter_rejected. apply active_has_prev. exact Hh. }
  split; [exact R|]. split.
  - rewrite (with_entered _ _ s Ht Hh). rewrite run_app, Hpre. cbn [run]. rewrite R.
    reflexivity.
  - unfold deliver_tag. destruct (hook_ s); reflexivity.
Qed.

(* what the code does after a block has finished: prev_displayhook is never reset, so the
   same Tag object cannot be used in a second with-statement *)
Theorem reenter_after_exit : forall t body body2 s,
  prev s t = HNone -> hook_ s <> HNone ->
  let s' := fst (run_stmt (With t body) s) in
  run_stmt (With t body2) s' = (s', Raised RuntimeError).
Proof.
  intros t body body2 s Ht Hh. cbn zeta. apply reenter_rejected.
  pose proof (prev_keep_stmt (With t body) s) as K.
  rewrite (with_entered t body s Ht Hh). cbn [fst].
  assert (E : prev (deliver_tag (hook_ s) t (fst (run body (entered t s)))) =
              prev (fst (run body (entered t s)))).
  { unfold deliver_tag. destruct (hook_ s); reflexivity. }
  rewrite E. apply active_has_prev. exact Hh.
Qed.

(* ---- why the hypothesis hook <> None is there ------------------------------------------ *)
(* with sys.displayhook = None, __enter__ stores None in prev_displayhook, which it reads as
   `not entered`: the tag can be entered twice and the outer exit does not restore None *)
Definition s_none : state := init_state HNone (fun _ => []).
Lemma restored_needs_hook :
  hook_ (fst (run [With 0 [With 0 []]] s_none)) = HTag 0 /\ hook_ s_none = HNone.
Proof. vm_compute. split; reflexivity. Qed.

(* ---- sessions: statements interleaved with copies of tags ------------------------------- *)
Lemma agree_copy : forall src dst s x, agree s x -> agree (copy_tag src dst s) (s_copy src dst x).
Proof.
  intros src dst s x (Hu & Hk & Hl). repeat split; cbn; auto; intros u; destruct (Nat.eqb u dst); auto.
Qed.

Theorem session_refines : forall l r s x,
  agree s x -> hook_ s = hook_of r ->
  agree (fst (run_top l s)) (fst (sem_top r l x)) /\
  snd (run_top l s) = snd (sem_top r l x) /\
  hook_ (fst (run_top l s)) = hook_of r.
Proof.
  induction l as [|[st|src dst] l IH]; intros r s x Ha Hh.
  - cbn. auto.
  - cbn [run_top sem_top]. destruct (refines_all_stmt st r s x Ha Hh) as (A1 & A2 & A3).
    destruct (run_stmt st s) as [s' o]. destruct (sem_stmt r st x) as [x' o'].
    cbn [fst snd] in *. subst o'. destruct o; cbn [fst snd]; auto.
  - cbn [run_top sem_top]. apply IH; [apply agree_copy; exact Ha|exact Hh].
Qed.

Theorem session_restored : forall l s,
  hook_ s <> HNone -> hook_ (fst (run_top l s)) = hook_ s.
Proof.
  intros l s H. destruct (recv_of_hook _ H) as [r Hr].
  destruct (session_refines l r s (abs s) (agree_abs s) Hr) as (_ & _ & K). congruence.
Qed.

(* a copy taken before the original was ever entered is an independent tag: what is displayed
   inside the copy's block goes to the copy, the original does not grow, and the object handed
   to the enclosing hook is the copy *)
Theorem copy_independent : forall src dst vs s,
  src <> dst -> prev s src = HNone -> hook_ s = HBase ->
  let s' := fst (run_stmt (With dst (map Display vs)) (copy_tag src dst s)) in
  children s' dst = children s src ++ fst (shown_all vs) /\
  children s' src = children s src /\
  log s' = log s ++ [DTagRef dst] /\
  hook_ s' = HBase.
Proof.
  intros src dst vs s Hne Hp Hh. cbn zeta.
  set (s0 := copy_tag src dst s).
  assert (P0 : prev s0 dst = HNone) by (cbn; rewrite Nat.eqb_refl; exact Hp).
  assert (H0 : hook_ s0 <> HNone) by (cbn; congruence).
  rewrite (with_entered dst _ s0 P0 H0). cbn [fst].
  destruct (displays_collected vs dst (entered dst s0) eq_refl) as (D1 & D2 & _ & _ & D5 & _).
  assert (Hs : hook_ s0 = HBase) by exact Hh. rewrite Hs. unfold deliver_tag.
  cbn [add_log set_hook children log hook_].
  rewrite D1, D5, (D2 src Hne). cbn. rewrite Nat.eqb_refl.
  destruct (Nat.eqb src dst) eqn:Q; [apply Nat.eqb_eq in Q; congruence|]. auto.
Qed.

(* C12: proofs about the abstract filesystem and copy_to. *)
From Coq Require Import NArith List Bool Lia.
From HT Require Import Model.Str Model.Tree Model.Paths Model.FS Spec.PathsSpec Proofs.PathsProofs.

(* ---------------------------------------------------------------------------------- *)
(* equality tests, prefixes                                                            *)
(* ---------------------------------------------------------------------------------- *)
Lemma str_eqb_refl : forall s, str_eqb s s = true.
Proof. induction s as [|c s IH]; [reflexivity|]. cbn [str_eqb]. rewrite N.eqb_refl, IH. reflexivity. Qed.

Lemma str_eqb_eq : forall a b, str_eqb a b = true -> a = b.
Proof.
  induction a as [|x a IH]; intros [|y b] H; try discriminate; [reflexivity|].
  cbn [str_eqb] in H. apply andb_true_iff in H. destruct H as [H1 H2].
  apply N.eqb_eq in H1. subst y. f_equal. apply IH. assumption.
Qed.

Lemma path_eqb_refl : forall p, path_eqb p p = true.
Proof. induction p as [|s p IH]; [reflexivity|]. cbn [path_eqb]. rewrite str_eqb_refl, IH. reflexivity. Qed.

Lemma path_eqb_eq : forall a b, path_eqb a b = true -> a = b.
Proof.
  induction a as [|x a IH]; intros [|y b] H; try discriminate; [reflexivity|].
  cbn [path_eqb] in H. apply andb_true_iff in H. destruct H as [H1 H2].
  apply str_eqb_eq in H1. subst y. f_equal. apply IH. assumption.
Qed.

Lemma path_eqb_neq : forall a b, a <> b -> path_eqb a b = false.
Proof.
  intros a b H. destruct (path_eqb a b) eqn:E; [|reflexivity].
  exfalso. apply H. apply path_eqb_eq. assumption.
Qed.

Lemma strip_dir_app : forall d r, strip_dir d (d ++ r) = Some r.
Proof.
  induction d as [|x d IH]; intros r; [reflexivity|].
  cbn [app strip_dir]. rewrite str_eqb_refl. apply IH.
Qed.

Lemma strip_dir_some : forall d p r, strip_dir d p = Some r -> p = d ++ r.
Proof.
  induction d as [|x d IH]; intros p r H.
  - cbn [strip_dir] in H. injection H as H. subst. reflexivity.
  - destruct p as [|y p]; [discriminate|]. cbn [strip_dir] in H.
    destruct (str_eqb x y) eqn:E; [|discriminate].
    apply str_eqb_eq in E. subst y. cbn [app]. f_equal. apply IH. assumption.
Qed.

Lemma strip_dir_app2 : forall a b q,
  strip_dir (a ++ b) q = match strip_dir a q with Some r => strip_dir b r | None => None end.
Proof.
  induction a as [|x a IH]; intros b q; [reflexivity|].
  destruct q as [|y q]; [reflexivity|].
  cbn [app strip_dir]. destruct (str_eqb x y); [apply IH|reflexivity].
Qed.

Lemma strip_dir_none_app : forall d r, strip_dir d (d ++ r) <> None.
Proof. intros d r. rewrite strip_dir_app. discriminate. Qed.

Lemma under_app : forall d r, under d (d ++ r) = true.
Proof. intros d r. unfold under. rewrite strip_dir_app. reflexivity. Qed.

Lemma under_refl : forall d, under d d = true.
Proof. intros d. rewrite <- (app_nil_r d) at 2. apply under_app. Qed.

Lemma under_some : forall d p, under d p = true -> exists r, p = d ++ r.
Proof.
  intros d p H. unfold under in H. destruct (strip_dir d p) as [r|] eqn:E; [|discriminate].
  exists r. apply strip_dir_some. assumption.
Qed.

(* two prefixes of the same path are comparable *)
Lemma app_eq_comparable : forall (a b x y : path), a ++ x = b ++ y ->
  (exists z, b = a ++ z) \/ (exists z, a = b ++ z).
Proof.
  induction a as [|s a IH]; intros b x y H.
  - left. exists b. reflexivity.
  - destruct b as [|t b].
    + right. exists (s :: a). reflexivity.
    + cbn [app] in H. injection H as H1 H2. subst t.
      destruct (IH b x y H2) as [[z E]|[z E]]; subst.
      * left. exists z. reflexivity.
      * right. exists z. reflexivity.
Qed.

Lemma disjoint_not_under : forall src tgt r, disjoint src tgt = true ->
  strip_dir tgt (src ++ r) = None.
Proof.
  intros src tgt r H. unfold disjoint in H. apply andb_true_iff in H. destruct H as [H1 H2].
  apply negb_true_iff in H1. apply negb_true_iff in H2.
  destruct (strip_dir tgt (src ++ r)) as [r'|] eqn:E; [|reflexivity].
  apply strip_dir_some in E. symmetry in E.
  destruct (app_eq_comparable tgt src r' r E) as [[z Ez]|[z Ez]]; subst.
  - rewrite under_app in H2. discriminate.
  - rewrite under_app in H1. discriminate.
Qed.

(* ---------------------------------------------------------------------------------- *)
(* lookup after each primitive                                                         *)
(* ---------------------------------------------------------------------------------- *)
Lemma lookup_In : forall f q b, lookup f q = Some b -> In (q, b) f.
Proof.
  induction f as [|[p b0] f IH]; intros q b H; [discriminate|].
  cbn [lookup] in H. destruct (path_eqb p q) eqn:E.
  - apply path_eqb_eq in E. injection H as H. subst. left. reflexivity.
  - right. apply IH. assumption.
Qed.

Lemma In_lookup : forall f q b, In (q, b) f -> exists b', lookup f q = Some b'.
Proof.
  induction f as [|[p b0] f IH]; intros q b H; [contradiction|].
  cbn [lookup]. destruct (path_eqb p q) eqn:E; [eexists; reflexivity|].
  destruct H as [H|H].
  - injection H as H1 H2. subst. rewrite path_eqb_refl in E. discriminate.
  - eapply IH. eassumption.
Qed.

Lemma lookup_filter : forall (g : path -> bool) f q,
  lookup (filter (fun e => g (fst e)) f) q = if g q then lookup f q else None.
Proof.
  intros g. induction f as [|[p b] f IH]; intros q.
  - cbn. destruct (g q); reflexivity.
  - cbn [filter fst]. destruct (g p) eqn:Eg.
    + cbn [lookup]. destruct (path_eqb p q) eqn:E.
      * apply path_eqb_eq in E. subst q. rewrite Eg. reflexivity.
      * apply IH.
    + rewrite IH. cbn [lookup]. destruct (path_eqb p q) eqn:E; [|reflexivity].
      apply path_eqb_eq in E. subst q. rewrite Eg. reflexivity.
Qed.

Lemma lookup_rmtree : forall f d q,
  lookup (rmtree f d) q = if under d q then None else lookup f q.
Proof.
  intros f d q. unfold rmtree.
  rewrite (lookup_filter (fun p => negb (under d p))). destruct (under d q); reflexivity.
Qed.

Lemma lookup_write : forall f p b q,
  lookup (write f p b) q = if path_eqb p q then Some b else lookup f q.
Proof.
  intros f p b q. unfold write. cbn [lookup]. destruct (path_eqb p q) eqn:E; [reflexivity|].
  rewrite (lookup_filter (fun x => negb (path_eqb p x))). rewrite E. reflexivity.
Qed.

Lemma is_dir_true : forall f p, is_dir f p = true ->
  exists q b, strictly_under p q = true /\ lookup f q = Some b.
Proof.
  intros f p H. unfold is_dir in H. apply existsb_exists in H. destruct H as [[q b] [Hin Hs]].
  cbn [fst] in Hs. destruct (In_lookup f q b Hin) as [b' Hb']. exists q, b'. tauto.
Qed.

Lemma is_dir_intro : forall f p q b, strictly_under p q = true -> lookup f q = Some b ->
  is_dir f p = true.
Proof.
  intros f p q b Hs Hl. unfold is_dir. apply existsb_exists. exists (q, b).
  split; [apply lookup_In; assumption|assumption].
Qed.

Lemma strictly_under_app : forall p c r, strictly_under p (p ++ c :: r) = true.
Proof. intros p c r. unfold strictly_under. rewrite strip_dir_app. reflexivity. Qed.

Lemma strictly_under_some : forall p q, strictly_under p q = true ->
  exists c r, q = p ++ c :: r.
Proof.
  intros p q H. unfold strictly_under in H.
  destruct (strip_dir p q) as [[|c r]|] eqn:E; try discriminate.
  exists c, r. apply strip_dir_some. assumption.
Qed.

(* the copytree fold *)
Definition ct_step (src dst : path) (e : path * bytes) (acc : fs) : fs :=
  match strip_dir src (fst e) with
  | Some r => write acc (dst ++ r) (snd e)
  | None => acc
  end.

Lemma lookup_copy_fold : forall src dst l acc q,
  lookup (fold_right (ct_step src dst) acc l) q =
  match strip_dir dst q with
  | Some r => match lookup l (src ++ r) with Some b => Some b | None => lookup acc q end
  | None => lookup acc q
  end.
Proof.
  intros src dst. induction l as [|[p b] l IH]; intros acc q.
  - cbn [fold_right lookup]. destruct (strip_dir dst q); reflexivity.
  - cbn [fold_right]. unfold ct_step at 1. cbn [fst snd].
    destruct (strip_dir src p) as [r0|] eqn:Ep.
    + apply strip_dir_some in Ep. subst p.
      rewrite lookup_write. rewrite IH.
      destruct (strip_dir dst q) as [r|] eqn:Eq.
      * apply strip_dir_some in Eq. subst q. cbn [lookup].
        destruct (path_eqb (dst ++ r0) (dst ++ r)) eqn:E1.
        -- apply path_eqb_eq in E1. apply app_inv_head in E1. subst r0.
           rewrite path_eqb_refl. reflexivity.
        -- rewrite path_eqb_neq; [reflexivity|].
           intros E. apply app_inv_head in E. subst r0. rewrite path_eqb_refl in E1. discriminate.
      * rewrite path_eqb_neq; [reflexivity|].
        intros E. subst q. rewrite strip_dir_app in Eq. discriminate.
    + rewrite IH. destruct (strip_dir dst q) as [r|] eqn:Eq; [|reflexivity].
      cbn [lookup]. rewrite path_eqb_neq; [reflexivity|].
      intros E. subst p. rewrite strip_dir_app in Ep. discriminate.
Qed.

(* ---------------------------------------------------------------------------------- *)
(* the copy loop: what the filesystem looks like after copying a list of entries       *)
(* ---------------------------------------------------------------------------------- *)
Definition spec_lookup (f0 : fs) (src tgt : path) (done : list path) (q : path) : option bytes :=
  match strip_dir tgt q with
  | Some r => if covered done r then lookup f0 (src ++ r) else None
  | None => lookup f0 q
  end.

Definition inv (f0 : fs) (src tgt : path) (done : list path) (acc : fs) : Prop :=
  forall q, lookup acc q = spec_lookup f0 src tgt done q.

Lemma covered_app : forall a b r, covered (a ++ b) r = covered a r || covered b r.
Proof. intros a b r. unfold covered. apply existsb_app. Qed.

Lemma covered_one : forall x r, covered [x] r = under x r.
Proof. intros x r. unfold covered. cbn [existsb]. apply orb_false_r. Qed.

Section Loop.
  Variables (f0 : fs) (src tgt : path).
  Hypothesis Hdis : disjoint src tgt = true.
  Hypothesis Hpf : prefix_free f0.

  Lemma inv_src : forall done acc r, inv f0 src tgt done acc ->
    lookup acc (src ++ r) = lookup f0 (src ++ r).
  Proof.
    intros done acc r H. rewrite H. unfold spec_lookup.
    rewrite disjoint_not_under by assumption. reflexivity.
  Qed.

  Lemma copy_one_inv : forall done acc x o f1,
    inv f0 src tgt done acc -> copy_one acc src tgt x = (Ok o, f1) ->
    inv f0 src tgt (done ++ [x]) f1.
  Proof.
    intros done acc x o f1 Hinv Hc. unfold copy_one in Hc.
    pose proof (inv_src done acc) as Hsrc. specialize (fun r => Hsrc r Hinv).
    destruct (lookup acc (src ++ x)) as [b|] eqn:El.
    - (* a regular file: copy2 *)
      injection Hc as _ Hc. subst f1. intros q. rewrite lookup_write.
      unfold spec_lookup.
      destruct (strip_dir tgt q) as [r|] eqn:Eq.
      + rewrite covered_app, covered_one. apply strip_dir_some in Eq. subst q.
        destruct (path_eqb (tgt ++ x) (tgt ++ r)) eqn:E1.
        * apply path_eqb_eq in E1. apply app_inv_head in E1. subst r.
          rewrite under_refl, orb_true_r. rewrite <- Hsrc. symmetry. assumption.
        * rewrite Hinv. unfold spec_lookup. rewrite strip_dir_app.
          destruct (covered done r); [reflexivity|]. cbn [orb].
          destruct (under x r) eqn:Eu; [|reflexivity].
          apply under_some in Eu. destruct Eu as [r' Er]. subst r.
          destruct r' as [|c r'].
          -- rewrite app_nil_r, path_eqb_refl in E1. discriminate.
          -- symmetry.
             assert (Hf : is_file f0 (src ++ x) = true).
             { unfold is_file. rewrite <- Hsrc, El. reflexivity. }
             pose proof (Hpf (src ++ x) (src ++ x ++ c :: r') Hf) as Hq.
             rewrite app_assoc in Hq. rewrite strictly_under_app in Hq.
             specialize (Hq eq_refl). unfold is_file in Hq. rewrite <- app_assoc in Hq.
             destruct (lookup f0 (src ++ x ++ c :: r')); [discriminate|reflexivity].
      + rewrite path_eqb_neq.
        * rewrite Hinv. unfold spec_lookup. rewrite Eq. reflexivity.
        * intros E. subst q. rewrite strip_dir_app in Eq. discriminate.
    - destruct (is_dir acc (src ++ x)) eqn:Ed.
      + (* a directory: copytree *)
        unfold copy_tree in Hc. destruct (exists_ acc (tgt ++ x)); [discriminate|].
        injection Hc as _ Hc. subst f1. intros q.
        change (fold_right _ acc acc) with (fold_right (ct_step (src ++ x) (tgt ++ x)) acc acc).
        rewrite lookup_copy_fold. unfold spec_lookup.
        rewrite strip_dir_app2.
        destruct (strip_dir tgt q) as [r|] eqn:Eq.
        * rewrite covered_app, covered_one. unfold under. destruct (strip_dir x r) as [r'|] eqn:Er.
          -- apply strip_dir_some in Er. subst r. rewrite orb_true_r.
             rewrite <- app_assoc. rewrite Hsrc.
             destruct (lookup f0 (src ++ x ++ r')) eqn:E0; [reflexivity|].
             rewrite Hinv. unfold spec_lookup. rewrite Eq.
             destruct (covered done (x ++ r')); [assumption|reflexivity].
          -- rewrite orb_false_r. rewrite Hinv. unfold spec_lookup. rewrite Eq. reflexivity.
        * rewrite Hinv. unfold spec_lookup. rewrite Eq. reflexivity.
      + (* neither a file nor a directory: nothing is copied *)
        injection Hc as _ Hc. subst f1. intros q. rewrite Hinv.
        unfold spec_lookup.
        destruct (strip_dir tgt q) as [r|] eqn:Eq; [|reflexivity].
        rewrite covered_app, covered_one.
        destruct (covered done r); [reflexivity|]. cbn [orb].
        destruct (under x r) eqn:Eu; [|reflexivity].
        apply under_some in Eu. destruct Eu as [r' Er]. subst r.
        rewrite <- Hsrc. destruct r' as [|c r'].
        * rewrite app_nil_r. symmetry. assumption.
        * destruct (lookup acc (src ++ x ++ c :: r')) as [b|] eqn:E0; [|reflexivity].
          exfalso. rewrite app_assoc in E0.
          rewrite (is_dir_intro acc (src ++ x) _ b (strictly_under_app _ c r') E0) in Ed.
          discriminate.
  Qed.

  Lemma copy_all_inv : forall l done acc o f1,
    inv f0 src tgt done acc -> copy_all acc src tgt l = (Ok o, f1) ->
    inv f0 src tgt (done ++ l) f1.
  Proof.
    induction l as [|x l IH]; intros done acc o f1 Hinv Hc.
    - cbn [copy_all] in Hc. injection Hc as _ Hc. subst f1. rewrite app_nil_r. assumption.
    - cbn [copy_all] in Hc. destruct (copy_one acc src tgt x) as [[o1|e1] f2] eqn:E1.
      + change (x :: l) with ([x] ++ l). rewrite app_assoc.
        eapply IH; [|eassumption]. eapply copy_one_inv; eassumption.
      + discriminate.
  Qed.
End Loop.

(* ---------------------------------------------------------------------------------- *)
(* copy_to                                                                             *)
(* ---------------------------------------------------------------------------------- *)
(* the complete description of the filesystem after a successful copy_to *)
Theorem copy_to_spec : forall f src af listed tgt o f',
  disjoint src tgt = true -> prefix_free f ->
  copy_to f src af listed tgt = (Ok o, f') ->
  forall q, lookup f' q = spec_lookup f src tgt (src_files f src af listed) q.
Proof.
  intros f src af listed tgt o f' Hdis Hpf Hc. unfold copy_to in Hc.
  destruct (negb (forallb (fun x => exists_ f (src ++ x)) (src_files f src af listed)));
    [discriminate|].
  destruct (is_file f tgt) eqn:Ef; [discriminate|].
  change (src_files f src af listed) with ([] ++ src_files f src af listed).
  eapply copy_all_inv; try eassumption.
  (* the cleared target *)
  intros q. unfold spec_lookup. cbn [covered existsb].
  destruct (exists_ f tgt) eqn:Ee.
  - rewrite lookup_rmtree. unfold under. destruct (strip_dir tgt q); reflexivity.
  - destruct (strip_dir tgt q) as [r|] eqn:Eq; [|reflexivity].
    apply strip_dir_some in Eq. subst q.
    unfold exists_ in Ee. apply orb_false_iff in Ee. destruct Ee as [_ Ed].
    destruct r as [|c r].
    + rewrite app_nil_r. unfold is_file in Ef. destruct (lookup f tgt); [discriminate|reflexivity].
    + destruct (lookup f (tgt ++ c :: r)) as [b|] eqn:E0; [|reflexivity].
      rewrite (is_dir_intro f tgt _ b (strictly_under_app _ c r) E0) in Ed. discriminate.
Qed.

Lemma covered_in : forall l x r, In x l -> covered l (x ++ r) = true.
Proof.
  intros l x r H. unfold covered. apply existsb_exists. exists x. split; [assumption|apply under_app].
Qed.

Lemma copied_identical_listed : forall f src listed tgt o f' x r,
  disjoint src tgt = true -> prefix_free f ->
  copy_to f src false listed tgt = (Ok o, f') -> In x listed ->
  lookup f' (tgt ++ x ++ r) = lookup f (src ++ x ++ r).
Proof.
  intros f src listed tgt o f' x r Hdis Hpf Hc Hin.
  rewrite (copy_to_spec _ _ _ _ _ _ _ Hdis Hpf Hc). unfold spec_lookup.
  rewrite strip_dir_app. cbn [src_files]. rewrite covered_in by assumption. reflexivity.
Qed.

Lemma in_dedup : forall l x, In x l -> In x (dedup l).
Proof.
  induction l as [|y l IH]; intros x H; [contradiction|].
  cbn [dedup]. destruct (str_eqb y x) eqn:E.
  - left. apply str_eqb_eq. assumption.
  - right. apply filter_In. split.
    + apply IH. destruct H as [H|H]; [|assumption]. subst. rewrite str_eqb_refl in E. discriminate.
    + rewrite E. reflexivity.
Qed.

Lemma top_entries_cover : forall f src c r b,
  lookup f (src ++ c :: r) = Some b -> covered (top_entries f src) (c :: r) = true.
Proof.
  intros f src c r b H. change (c :: r) with ([c] ++ r). apply covered_in.
  unfold top_entries. apply (in_map (fun x : str => [x]) _ c). apply in_dedup. unfold top_names.
  apply in_flat_map. exists (src ++ c :: r, b). split; [apply lookup_In; assumption|].
  cbn [fst]. rewrite strip_dir_app. left. reflexivity.
Qed.

Lemma copied_identical_all : forall f src listed tgt o f' c r b,
  disjoint src tgt = true -> prefix_free f ->
  copy_to f src true listed tgt = (Ok o, f') ->
  lookup f (src ++ c :: r) = Some b -> lookup f' (tgt ++ c :: r) = Some b.
Proof.
  intros f src listed tgt o f' c r b Hdis Hpf Hc Hl.
  rewrite (copy_to_spec _ _ _ _ _ _ _ Hdis Hpf Hc). unfold spec_lookup.
  rewrite strip_dir_app. cbn [src_files]. rewrite (top_entries_cover _ _ _ _ _ Hl). assumption.
Qed.

(* whatever is below the target directory afterwards was copied from the source *)
Lemma stale_gone : forall f src af listed tgt o f' r b,
  disjoint src tgt = true -> prefix_free f ->
  copy_to f src af listed tgt = (Ok o, f') ->
  lookup f' (tgt ++ r) = Some b ->
  covered (src_files f src af listed) r = true /\ lookup f (src ++ r) = Some b.
Proof.
  intros f src af listed tgt o f' r b Hdis Hpf Hc Hl.
  rewrite (copy_to_spec _ _ _ _ _ _ _ Hdis Hpf Hc) in Hl. unfold spec_lookup in Hl.
  rewrite strip_dir_app in Hl.
  destruct (covered (src_files f src af listed) r); [tauto|discriminate].
Qed.

Lemma outside_untouched : forall f src af listed tgt o f' q,
  disjoint src tgt = true -> prefix_free f ->
  copy_to f src af listed tgt = (Ok o, f') ->
  under tgt q = false -> lookup f' q = lookup f q.
Proof.
  intros f src af listed tgt o f' q Hdis Hpf Hc Hu.
  rewrite (copy_to_spec _ _ _ _ _ _ _ Hdis Hpf Hc). unfold spec_lookup.
  unfold under in Hu. destruct (strip_dir tgt q); [discriminate|reflexivity].
Qed.

Lemma forallb_false_in : forall {T} (g : T -> bool) l x, In x l -> g x = false ->
  forallb g l = false.
Proof.
  intros T g. induction l as [|y l IH]; intros x Hin Hg; [contradiction|].
  cbn [forallb]. destruct Hin as [E|Hin].
  - subst y. rewrite Hg. reflexivity.
  - rewrite (IH x Hin Hg). apply andb_false_r.
Qed.

Lemma missing_atomic : forall f src listed tgt x,
  In x listed -> exists_ f (src ++ x) = false ->
  copy_to f src false listed tgt = (Err RuntimeError, f).
Proof.
  intros f src listed tgt x Hin Hx. unfold copy_to. cbn [src_files].
  rewrite (forallb_false_in _ _ x Hin Hx). reflexivity.
Qed.

Lemma copy_to_dep_nothing : forall f d dest iv,
  (d_source d = SrcNone \/ exists h, d_source d = SrcUrl h) ->
  copy_to_dep f d dest iv = (Ok tt, f).
Proof.
  intros f d dest iv [H|[h H]]; unfold copy_to_dep, source_path_map; rewrite H; reflexivity.
Qed.

Lemma copy_deps_nothing : forall deps f dest iv,
  Forall (fun d => d_source d = SrcNone \/ exists h, d_source d = SrcUrl h) deps ->
  copy_deps f deps dest iv = (Ok tt, f).
Proof.
  induction deps as [|d deps IH]; intros f dest iv H; [reflexivity|].
  inversion H as [|? ? Hd Hds]; subst. cbn [copy_deps].
  rewrite copy_to_dep_nothing by assumption. apply IH. assumption.
Qed.

(* ---------------------------------------------------------------------------------- *)
(* from the string-level copy_to to the abstract one, and the end-to-end statement      *)
(* ---------------------------------------------------------------------------------- *)
Lemma copy_to_dep_local : forall f name version pkg sub scripts styles af dest iv,
  plain_seg name = true -> forallb seg_char version = true ->
  fst (source_path_map (mk_pdep name version (SrcLocal pkg sub) scripts styles af) None iv) <> [] ->
  copy_to_dep f (mk_pdep name version (SrcLocal pkg sub) scripts styles af) dest iv =
  copy_to f
    (path_of_str (fst (source_path_map (mk_pdep name version (SrcLocal pkg sub) scripts styles af)
                                       None iv)))
    af (map path_of_str (scripts ++ styles))
    (path_of_str dest ++ [name_ver name version iv]).
Proof.
  intros f name version pkg sub scripts styles af dest iv Hn Hv Hs.
  unfold copy_to_dep.
  destruct (fst (source_path_map (mk_pdep name version (SrcLocal pkg sub) scripts styles af) None iv))
    as [|c0 s0] eqn:E; [congruence|].
  cbn [d_all_files d_scripts d_styles]. f_equal.
  unfold target_dir_str. cbn [source_path_map d_source snd d_name d_version].
  unfold href_of. cbn [truthy].
  pose proof (name_ver_plain name version iv Hn Hv) as Hnv. apply plain_seg_facts in Hnv.
  destruct Hnv as [_ [Hk [_ Hns]]].
  rewrite path_of_str_pjoin by (apply starts_with_slash_no_slash; assumption).
  rewrite (path_of_str_seg (name_ver name version iv)) by assumption. reflexivity.
Qed.

(* The main sentence of C12 on the model: the file a local URL of the written document
   resolves to holds, after the copy, the bytes of its source file. *)
Lemma url_names_copied_file :
  forall f f' o name version pkg sub scripts styles af dir libdir iv fsegs b,
  let d := mk_pdep name version (SrcLocal pkg sub) scripts styles af in
  let source := fst (source_path_map d None iv) in
  plain_seg name = true -> forallb seg_char version = true -> libdir_ok libdir = true ->
  fsegs <> [] -> forallb file_seg fsegs = true ->
  In (join [47] fsegs) (scripts ++ styles) ->
  source <> [] ->
  disjoint (path_of_str source)
           (path_of_str (destdir_of dir libdir) ++ [name_ver name version iv]) = true ->
  prefix_free f ->
  copy_to_dep f d (destdir_of dir libdir) iv = (Ok o, f') ->
  lookup f (path_of_str source ++ fsegs) = Some b ->
  lookup f' (resolve_url dir (url_of d libdir iv (join [47] fsegs))) = Some b.
Proof.
  intros f f' o name version pkg sub scripts styles af dir libdir iv fsegs b d source
         Hn Hv Hl Hne Hfs Hin Hsrc Hdis Hpf Hc Hb.
  unfold d in *. rewrite agree by assumption.
  rewrite (target_path name version pkg sub scripts styles af dir libdir iv fsegs) by assumption.
  rewrite copy_to_dep_local in Hc by assumption. fold source in Hc.
  assert (Ht : path_of_str (destdir_of dir libdir) = path_of_str dir ++ libsegs libdir).
  { unfold destdir_of, libsegs, libdir_ok in *. destruct (truthy libdir) as [l|].
    - apply andb_true_iff in Hl. destruct Hl as [Hl Hl3]. apply andb_true_iff in Hl.
      destruct Hl as [Hl1 Hl2]. apply negb_true_iff in Hl1.
      rewrite path_of_str_pjoin by assumption. f_equal.
      unfold path_of_str. apply filter_keep_all. eapply forallb_impl; [|eassumption].
      intros s Hs. apply plain_seg_facts in Hs. tauto.
    - symmetry. apply app_nil_r. }
  rewrite Ht in Hc, Hdis.
  replace (path_of_str dir ++ libsegs libdir ++ [name_ver name version iv] ++ fsegs)
    with ((path_of_str dir ++ libsegs libdir ++ [name_ver name version iv]) ++ fsegs)
    by (rewrite <- !app_assoc; reflexivity).
  rewrite <- app_assoc in Hc, Hdis.
  destruct af.
  - destruct fsegs as [|c r]; [congruence|].
    eapply copied_identical_all; eassumption.
  - rewrite <- (app_nil_r fsegs) at 1.
    erewrite copied_identical_listed; try eassumption.
    + rewrite app_nil_r. assumption.
    + apply in_map_iff. exists (join [47] fsegs). split; [|assumption].
      apply agree_file_path; assumption.
Qed.

Lemma prefix_free_b_sound : forall f, prefix_free_b f = true -> prefix_free f.
Proof.
  intros f H p q Hp Hs. unfold is_file in *.
  destruct (lookup f p) as [b|] eqn:Ep; [|discriminate].
  destruct (lookup f q) as [b'|] eqn:Eq; [|reflexivity].
  apply lookup_In in Ep. apply lookup_In in Eq.
  unfold prefix_free_b in H. rewrite forallb_forall in H. specialize (H _ Ep).
  rewrite forallb_forall in H. specialize (H _ Eq). cbn [fst] in H.
  rewrite Hs in H. discriminate.
Qed.

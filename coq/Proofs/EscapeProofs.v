(* html_escape (sequential str.replace over an ordered table, behind a regex fast path)
   is a per-character map; inertness and decode/encode round trip. *)
From Coq Require Import Lia.
From HT Require Import Model.Str Model.Escape Gen.Tables Spec.CharMap.

Definition charmap_of (table : list (N * str)) (c : N) : str :=
  match find (fun kv => N.eqb c (fst kv)) table with
  | Some kv => snd kv
  | None => [c]
  end.

(* no key of a later entry occurs in the replacement text of an earlier one *)
Fixpoint table_ok (table : list (N * str)) : bool :=
  match table with
  | [] => true
  | (_, v) :: t =>
    negb (existsb (fun c => existsb (fun kv => N.eqb c (fst kv)) t) v) && table_ok t
  end.

Lemma charmap_no_key t v :
  existsb (fun c => existsb (fun kv => N.eqb c (fst kv)) t) v = false ->
  flat_map (charmap_of t) v = v.
Proof.
  induction v as [|c v IH]; cbn [existsb flat_map]; intros H; [reflexivity|].
  apply orb_false_iff in H as [Hc Hv].
  rewrite IH by exact Hv.
  unfold charmap_of.
  replace (find (fun kv => c =? fst kv) t) with (@None (N * str)); [reflexivity|].
  symmetry. clear -Hc.
  induction t as [|kv t IHt]; cbn [find existsb] in *; [reflexivity|].
  apply orb_false_iff in Hc as [H1 H2]. rewrite H1. apply IHt, H2.
Qed.

Lemma flat_map_flat_map {A B C} (f : A -> list B) (g : B -> list C) l :
  flat_map g (flat_map f l) = flat_map (fun x => flat_map g (f x)) l.
Proof.
  induction l as [|x l IH]; cbn [flat_map]; [reflexivity|].
  rewrite flat_map_app, IH. reflexivity.
Qed.

Lemma apply_table_charmap table :
  table_ok table = true ->
  forall s, apply_table table s = flat_map (charmap_of table) s.
Proof.
  unfold apply_table.
  induction table as [|[k v] t IH]; cbn [table_ok fold_left]; intros Hok s.
  - induction s as [|c s IHs]; cbn [flat_map]; [reflexivity|].
    unfold charmap_of at 1; cbn [find app]. f_equal. exact IHs.
  - apply andb_true_iff in Hok as [Hv Ht]. apply negb_true_iff in Hv.
    cbn [fst snd]. rewrite IH by exact Ht.
    unfold replace1. rewrite flat_map_flat_map.
    apply flat_map_ext. intros c.
    unfold charmap_of at 2. cbn [find fst snd].
    destruct (c =? k) eqn:E.
    + apply charmap_no_key, Hv.
    + cbn [flat_map]. rewrite app_nil_r. reflexivity.
Qed.

Lemma no_key_id table s :
  has_key table s = false -> flat_map (charmap_of table) s = s.
Proof.
  unfold has_key. induction s as [|c s IH]; cbn [existsb flat_map]; intros H; [reflexivity|].
  apply orb_false_iff in H as [Hc Hs]. rewrite IH by exact Hs.
  unfold charmap_of.
  replace (find (fun kv => c =? fst kv) table) with (@None (N * str)); [reflexivity|].
  symmetry. clear -Hc.
  induction table as [|kv t IHt]; cbn [find existsb] in *; [reflexivity|].
  apply orb_false_iff in Hc as [H1 H2]. rewrite H1. apply IHt, H2.
Qed.

Lemma escape_with_charmap table :
  table_ok table = true ->
  forall s, html_escape_with table s = flat_map (charmap_of table) s.
Proof.
  intros Hok s. unfold html_escape_with.
  destruct (has_key table s) eqn:E.
  - apply apply_table_charmap, Hok.
  - symmetry. apply no_key_id, E.
Qed.

(* The regenerated tables satisfy the side condition, and their char maps are the ones
   the property states.  Both are computations on Gen.Tables: editing or re-ordering
   a table in /repo breaks them. *)
Lemma text_table_ok : table_ok text_table = true.
Proof. vm_compute. reflexivity. Qed.
Lemma attr_table_ok : table_ok attr_table = true.
Proof. vm_compute. reflexivity. Qed.

Lemma text_charmap c : charmap_of text_table c = esc_text_char c.
Proof.
  unfold charmap_of, esc_text_char, text_table. cbn [find fst snd].
  destruct (c =? 38) eqn:E1; [reflexivity|].
  destruct (c =? 62) eqn:E2; destruct (c =? 60) eqn:E3; try reflexivity.
  apply N.eqb_eq in E2, E3. congruence.
Qed.

Lemma attr_charmap c : charmap_of attr_table c = esc_attr_char c.
Proof.
  unfold charmap_of, esc_attr_char, attr_table. cbn [find fst snd].
  destruct (c =? 38) eqn:E1; [reflexivity|].
  destruct (c =? 62) eqn:E2; destruct (c =? 60) eqn:E3;
    try (apply N.eqb_eq in E2, E3; congruence); try reflexivity.
  destruct (c =? 34); [reflexivity|]. destruct (c =? 39); [reflexivity|].
  destruct (c =? 13); [reflexivity|]. destruct (c =? 10); reflexivity.
Qed.

Theorem escape_is_charmap attr s : html_escape attr s = spec_escape attr s.
Proof.
  unfold html_escape, spec_escape. destruct attr.
  - rewrite escape_with_charmap by exact attr_table_ok.
    apply flat_map_ext, attr_charmap.
  - rewrite escape_with_charmap by exact text_table_ok.
    apply flat_map_ext, text_charmap.
Qed.

Lemma escape_app attr a b : html_escape attr (a ++ b) = html_escape attr a ++ html_escape attr b.
Proof. rewrite !escape_is_charmap. unfold spec_escape. apply flat_map_app. Qed.

(* ---------- inertness ---------- *)
Ltac case_char c :=
  repeat match goal with
         | |- context [c =? ?k] => let E := fresh "E" in destruct (c =? k) eqn:E
         end.

Definition none_of (bad : list N) (s : str) : bool :=
  forallb (fun x => negb (existsb (N.eqb x) bad)) s.

Lemma none_of_flat_map bad (f : N -> str) s :
  (forall c, none_of bad (f c) = true) -> none_of bad (flat_map f s) = true.
Proof.
  intros Hf. unfold none_of in *. induction s as [|c s IH]; cbn [flat_map]; [reflexivity|].
  rewrite forallb_app, Hf, IH. reflexivity.
Qed.

Lemma none_of_In bad s : none_of bad s = true -> forall x, In x bad -> ~ In x s.
Proof.
  unfold none_of. intros H x Hx Hin.
  rewrite forallb_forall in H. specialize (H x Hin).
  apply negb_true_iff in H.
  assert (existsb (N.eqb x) bad = true) as E.
  { apply existsb_exists. exists x. split; [exact Hx | apply N.eqb_refl]. }
  congruence.
Qed.

Lemma text_no_lt_gt s : none_of [60; 62] (spec_escape false s) = true.
Proof.
  apply none_of_flat_map. intros c. unfold esc_text_char.
  case_char c; try reflexivity.
  cbn [none_of forallb existsb]. rewrite E0, E1. reflexivity.
Qed.

Lemma attr_no_special s : none_of [34; 39; 60; 62; 13; 10] (spec_escape true s) = true.
Proof.
  apply none_of_flat_map. intros c. unfold esc_attr_char.
  case_char c; try reflexivity.
  cbn [none_of forallb existsb]. rewrite E0, E1, E2, E3, E4, E5. reflexivity.
Qed.

Lemma amp_ok_cons_other allowed c s : c <> 38 -> amp_ok allowed (c :: s) = amp_ok allowed s.
Proof. intros H. cbn [amp_ok]. apply N.eqb_neq in H. rewrite H. reflexivity. Qed.

Lemma text_amp_ok s : amp_ok text_refs (spec_escape false s) = true.
Proof.
  unfold spec_escape. induction s as [|c s IH]; cbn [flat_map]; [reflexivity|].
  unfold esc_text_char. case_char c; cbn [app]; try exact IH.
  rewrite amp_ok_cons_other; [exact IH|]. apply N.eqb_neq; assumption.
Qed.

Lemma attr_amp_ok s : amp_ok refs (spec_escape true s) = true.
Proof.
  unfold spec_escape. induction s as [|c s IH]; cbn [flat_map]; [reflexivity|].
  unfold esc_attr_char. case_char c; cbn [app]; try exact IH.
  rewrite amp_ok_cons_other; [exact IH|]. apply N.eqb_neq; assumption.
Qed.

(* ---------- round trip ---------- *)
Lemma unesc_plain c s : c <> 38 -> unesc 0 (c :: s) = c :: unesc 0 s.
Proof.
  intros H. cbn [unesc].
  replace (match_ref refs (c :: s)) with (@None (N * nat)); [reflexivity|].
  apply N.eqb_neq in H. rewrite N.eqb_sym in H.
  unfold refs. cbn [match_ref]. unfold starts_with. cbn [strip_prefix].
  rewrite !H. reflexivity.
Qed.

Theorem unescape_escape attr s : unescape (spec_escape attr s) = s.
Proof.
  unfold unescape, spec_escape.
  induction s as [|c s IH]; cbn [flat_map]; [reflexivity|].
  destruct attr; [unfold esc_attr_char | unfold esc_text_char]; case_char c;
    repeat match goal with E : (_ =? _) = true |- _ => apply N.eqb_eq in E; subst end;
    try (cbn; f_equal; exact IH);
    (cbn [app]; rewrite unesc_plain; [f_equal; exact IH | apply N.eqb_neq; assumption]).
Qed.

(* C04 core: the content pieces of a rendering, in order, are exactly the leaves of the
   tree -- plain text as PTxt (written escaped, once) unless directly inside script/style,
   HTML() and _repr_html_ leaves as PRaw (written as is) -- on every path of the renderer. *)
From HT Require Import Model.Str Model.Tree Model.Escape Model.Render Gen.Tables
     Proofs.RenderLoop.

Local Arguments mem_str : simpl never.
Local Arguments html_escape : simpl never.

(* a piece that carries child content (as opposed to layout whitespace and tag markup) *)
Definition is_content (p : piece) : bool :=
  match p with PTxt _ | PRaw _ => true | _ => false end.

(* the plain strings written escaped / the strings written verbatim, in output order *)
Definition texts_of (ps : list piece) : list str :=
  flat_map (fun p => match p with PTxt s => [s] | _ => [] end) ps.
Definition raws_of (ps : list piece) : list str :=
  flat_map (fun p => match p with PRaw s => [s] | _ => [] end) ps.

Section Content.
  Context {M : Type}.
  Implicit Types (n k : node M) (l : list (node M)).

  (* the leaves in document order; esc = whether plain text at this level is escaped *)
  Fixpoint leaf_pieces (esc : bool) (n : node M) : list piece :=
    match n with
    | Text s => [if esc then PTxt s else PRaw s]
    | Html s => [PRaw s]
    | Repr s => [PRaw s]
    | Custom (Some s) _ => [PRaw s]
    | Custom None _ => []
    | Meta _ => []
    | TagN name _ _ kids => flat_map (leaf_pieces (negb (mem_str name no_escape_names))) kids
    end.

  (* the plain-text leaves that are not direct children of a script/style tag and not
     inside an un-expanded object, in document order *)
  Fixpoint text_leaves (esc : bool) (n : node M) : list str :=
    match n with
    | Text s => if esc then [s] else []
    | TagN name _ _ kids => flat_map (text_leaves (negb (mem_str name no_escape_names))) kids
    | _ => []
    end.
  Definition escaped_text_leaves (n : node M) : list str := text_leaves true n.

  (* the leaves written verbatim: HTML(), _repr_html_ results, and plain text directly
     inside script/style, in document order *)
  Fixpoint raw_leaves (esc : bool) (n : node M) : list str :=
    match n with
    | Text s => if esc then [] else [s]
    | Html s => [s]
    | Repr s => [s]
    | Custom (Some s) _ => [s]
    | Custom None _ => []
    | Meta _ => []
    | TagN name _ _ kids => flat_map (raw_leaves (negb (mem_str name no_escape_names))) kids
    end.
  Definition verbatim_leaves (n : node M) : list str := raw_leaves true n.

  Lemma filter_app {A} (f : A -> bool) (a b : list A) :
    filter f (a ++ b) = filter f a ++ filter f b.
  Proof. induction a as [|x a IH]; [reflexivity|]. cbn [app filter]. destruct (f x); cbn [app]; rewrite IH; reflexivity. Qed.

  Lemma leaf_pieces_tag_esc e1 e2 name ws a kids :
    leaf_pieces e1 (TagN name ws a kids) = leaf_pieces e2 (TagN name ws a kids).
  Proof. reflexivity. Qed.

  Lemma leaf_pieces_filter_meta esc l :
    flat_map (leaf_pieces esc) (filter (fun c => negb (is_meta c)) l) = flat_map (leaf_pieces esc) l.
  Proof.
    induction l as [|k l IH]; [reflexivity|]. cbn [filter flat_map].
    destruct k; cbn [is_meta negb flat_map leaf_pieces app]; rewrite ?IH; reflexivity.
  Qed.

  Definition content_ok (rt : nat -> str -> node M -> res (list piece)) (k : node M) : Prop :=
    forall i eol ps, rt i eol k = Ok ps -> filter is_content ps = leaf_pieces true k.

  (* one iteration contributes exactly the leaves of the child *)
  Lemma step_content rt i eol esc first prev k pk f' p' :
    content_ok rt k ->
    step rt i eol esc first prev k = Ok (pk, f', p') ->
    filter is_content pk = leaf_pieces esc k.
  Proof.
    intros Hk H.
    destruct k as [s|s|s|m|name ws a kids|[sh|] exp]; cbn [step] in H.
    - injection H as <- _ _. destruct first, prev, esc; reflexivity.
    - injection H as <- _ _. destruct first, prev; reflexivity.
    - injection H as <- _ _. destruct first, prev; reflexivity.
    - injection H as <- _ _. reflexivity.
    - rewrite (leaf_pieces_tag_esc esc true).
      destruct (prev || ws) eqn:Epoc.
      + destruct (rt i eol (TagN name ws a kids)) as [ps|] eqn:E; [|discriminate H].
        injection H as <- _ _. rewrite filter_app, (Hk _ _ _ E).
        destruct first; reflexivity.
      + destruct (rt 0%nat [] (TagN name ws a kids)) as [ps|] eqn:E; [|discriminate H].
        injection H as <- _ _. rewrite filter_app, (Hk _ _ _ E).
        destruct first; reflexivity.
    - injection H as <- _ _. destruct first, prev; reflexivity.
    - discriminate H.
  Qed.

  Lemma loop_content rt l :
    Forall (content_ok rt) l ->
    forall i eol esc first prev ps,
      loop rt i eol esc first prev l = Ok ps ->
      filter is_content ps = flat_map (leaf_pieces esc) l.
  Proof.
    induction 1 as [|k l Hk Hl IH]; intros i eol esc first prev ps H.
    - cbn [loop] in H. injection H as <-. reflexivity.
    - apply loop_cons_inv in H as (pk & f' & p' & r & Es & El & ->).
      rewrite filter_app. cbn [flat_map].
      rewrite (step_content _ _ _ _ _ _ _ _ _ _ Hk Es), (IH _ _ _ _ _ _ El). reflexivity.
  Qed.

  Theorem render_content n : content_ok render_tag n.
  Proof.
    induction n as [s|s|s|m|name ws a kids IH|sh exp _] using node_ind'; intros i eol ps H;
      try discriminate H.
    cbn [render_tag] in H. cbn [leaf_pieces].
    destruct (filter (fun c => negb (is_meta c)) kids) as [|x r] eqn:Ef.
    - rewrite <- (leaf_pieces_filter_meta _ kids), Ef.
      destruct (mem_str name void_names); injection H as <-; reflexivity.
    - destruct (single_text (mem_str name no_escape_names) (x :: r)) as [p|] eqn:Es.
      + injection H as <-.
        rewrite <- (leaf_pieces_filter_meta _ kids), Ef.
        destruct x as [s|s|s|m|n2 w2 a2 k2|sh2 e2]; destruct r; try discriminate Es;
          cbn [single_text] in Es; injection Es as <-;
          destruct (mem_str name no_escape_names); reflexivity.
      + destruct (loop render_tag (S i) eol (negb (mem_str name no_escape_names)) true ws kids)
          as [body|] eqn:El; [|discriminate H].
        injection H as <-.
        cbn [filter is_content].
        rewrite !filter_app, (loop_content _ _ IH _ _ _ _ _ _ El).
        destruct ws; cbn [filter is_content app]; rewrite ?app_nil_r; reflexivity.
  Qed.

  Theorem render_list_content l i eol aw esc ps :
    render_list i eol aw esc l = Ok ps ->
    filter is_content ps = flat_map (leaf_pieces esc) l.
  Proof.
    unfold render_list. apply loop_content.
    apply Forall_forall. intros k _. apply render_content.
  Qed.

  (* ---- projections: the escaped strings and the verbatim strings ---- *)
  Lemma texts_of_app a b : texts_of (a ++ b) = texts_of a ++ texts_of b.
  Proof. apply flat_map_app. Qed.
  Lemma raws_of_app a b : raws_of (a ++ b) = raws_of a ++ raws_of b.
  Proof. apply flat_map_app. Qed.

  Lemma texts_of_content ps : texts_of (filter is_content ps) = texts_of ps.
  Proof.
    induction ps as [|p ps IH]; [reflexivity|].
    unfold texts_of in *.
    destruct p; cbn [filter is_content flat_map app]; rewrite IH; reflexivity.
  Qed.
  Lemma raws_of_content ps : raws_of (filter is_content ps) = raws_of ps.
  Proof.
    induction ps as [|p ps IH]; [reflexivity|].
    unfold raws_of in *.
    destruct p; cbn [filter is_content flat_map app]; rewrite IH; reflexivity.
  Qed.

  Lemma texts_of_flat_map (f : node M -> list piece) (g : node M -> list str) l :
    Forall (fun k => texts_of (f k) = g k) l -> texts_of (flat_map f l) = flat_map g l.
  Proof.
    induction 1 as [|k l Hk _ IH]; [reflexivity|].
    cbn [flat_map]. rewrite texts_of_app, Hk, IH. reflexivity.
  Qed.
  Lemma raws_of_flat_map (f : node M -> list piece) (g : node M -> list str) l :
    Forall (fun k => raws_of (f k) = g k) l -> raws_of (flat_map f l) = flat_map g l.
  Proof.
    induction 1 as [|k l Hk _ IH]; [reflexivity|].
    cbn [flat_map]. rewrite raws_of_app, Hk, IH. reflexivity.
  Qed.

  Lemma texts_of_leaf_pieces n : forall esc, texts_of (leaf_pieces esc n) = text_leaves esc n.
  Proof.
    induction n as [s|s|s|m|name ws a kids IH|sh exp _] using node_ind'; intros esc;
      try reflexivity.
    - destruct esc; reflexivity.
    - cbn [leaf_pieces text_leaves]. apply texts_of_flat_map.
      apply Forall_forall. intros k Hk. exact (proj1 (Forall_forall _ _) IH k Hk _).
    - destruct sh; reflexivity.
  Qed.
  Lemma raws_of_leaf_pieces n : forall esc, raws_of (leaf_pieces esc n) = raw_leaves esc n.
  Proof.
    induction n as [s|s|s|m|name ws a kids IH|sh exp _] using node_ind'; intros esc;
      try reflexivity.
    - destruct esc; reflexivity.
    - cbn [leaf_pieces raw_leaves]. apply raws_of_flat_map.
      apply Forall_forall. intros k Hk. exact (proj1 (Forall_forall _ _) IH k Hk _).
    - destruct sh; reflexivity.
  Qed.

  (* the strings written through html_escape are exactly the escaped text leaves *)
  Corollary text_pieces n i eol ps :
    render_tag i eol n = Ok ps -> texts_of ps = escaped_text_leaves n.
  Proof.
    intros H. rewrite <- texts_of_content, (render_content n _ _ _ H).
    apply texts_of_leaf_pieces.
  Qed.

  (* the strings written as is are exactly the HTML / _repr_html_ / script-text leaves *)
  Corollary raw_pieces n i eol ps :
    render_tag i eol n = Ok ps -> raws_of ps = verbatim_leaves n.
  Proof.
    intros H. rewrite <- raws_of_content, (render_content n _ _ _ H).
    apply raws_of_leaf_pieces.
  Qed.

  Corollary list_text_pieces l i eol aw esc ps :
    render_list i eol aw esc l = Ok ps -> texts_of ps = flat_map (text_leaves esc) l.
  Proof.
    intros H. rewrite <- texts_of_content, (render_list_content _ _ _ _ _ _ H).
    apply texts_of_flat_map, Forall_forall. intros k _. apply texts_of_leaf_pieces.
  Qed.
  Corollary list_raw_pieces l i eol aw esc ps :
    render_list i eol aw esc l = Ok ps -> raws_of ps = flat_map (raw_leaves esc) l.
  Proof.
    intros H. rewrite <- raws_of_content, (render_list_content _ _ _ _ _ _ H).
    apply raws_of_flat_map, Forall_forall. intros k _. apply raws_of_leaf_pieces.
  Qed.
End Content.

(* C18: proofs about head_content names and their fate in _resolve_dependencies. *)
From Coq Require Import Lia.
From HT Require Import Model.Str Model.Tree Model.Render Model.Deps Model.HeadContent
     Spec.StripMeta Spec.ResolveSpec Proofs.RenderMeta Proofs.DepsProofs.

(* ---- counting the entries of one name in a list without repeated names ------------- *)
Lemma filter_name_nil : forall (l : list dep) n,
  ~ In n (map dname l) -> filter (fun d => str_eqb (dname d) n) l = [].
Proof.
  induction l as [|d l IH]; intros n Hn; [reflexivity|]. cbn [filter].
  destruct (str_eqb (dname d) n) eqn:E.
  - exfalso. apply Hn. left. apply str_eqb_eq. exact E.
  - apply IH. intros Hin. apply Hn. right. exact Hin.
Qed.

Lemma nodup_name_once : forall (l : list dep) n,
  NoDup (map dname l) -> In n (map dname l) ->
  length (filter (fun d => str_eqb (dname d) n) l) = 1%nat.
Proof.
  induction l as [|d l IH]; intros n Hnd Hin; [destruct Hin|].
  cbn [map] in Hnd. inversion Hnd as [|x xs Hx Hxs]; subst. cbn [filter].
  destruct (str_eqb (dname d) n) eqn:E.
  - apply str_eqb_eq in E. subst n. rewrite (filter_name_nil l (dname d) Hx). reflexivity.
  - apply IH; [exact Hxs|]. destruct Hin as [Hd|Hl]; [|exact Hl].
    exfalso. apply str_eqb_neq in E. apply E. exact Hd.
Qed.

(* a name that occurs in the input occupies exactly one entry of the resolution *)
Lemma resolve_name_once : forall (l : list dep) d,
  In d l -> length (filter (fun r => str_eqb (dname r) (dname d)) (resolve l)) = 1%nat.
Proof.
  intros l d Hd. apply nodup_name_once; [apply ver_resolve_unique|].
  rewrite ver_resolve_names. apply first_occ_In. apply in_map. exact Hd.
Qed.

Section Hash.
  Variable H : str -> str.

  (* ---- the name is a function of the rendered content ------------------------------- *)
  Lemma hc_name_spec : forall (M : Type) (args : list (node M)),
    hc_name H args = res_map (fun s => hc_prefix ++ H s) (list_html 0 [10] true true args).
  Proof. reflexivity. Qed.

  Lemma head_content_spec : forall (M : Type) (args : list (node M)),
    head_content H args =
    match list_html 0 [10] true true args with
    | Ok s => Ok (mkhdep (hc_prefix ++ H s) [0; 0] args)
    | Err e => Err e
    end.
  Proof. reflexivity. Qed.

  Lemma head_content_name : forall (M : Type) (args : list (node M)),
    res_map h_name (head_content H args) = hc_name H args.
  Proof.
    intros M args. unfold head_content, hc_name. destruct (hc_render args); reflexivity.
  Qed.

  Lemma hc_name_content : forall (M : Type) (a b : list (node M)),
    list_html 0 [10] true true a = list_html 0 [10] true true b -> hc_name H a = hc_name H b.
  Proof. intros M a b E. unfold hc_name, hc_render. rewrite E. reflexivity. Qed.

  (* equal rendered content: the two dependencies occupy one entry of the resolution *)
  Lemma hc_equal_content_once : forall (M : Type) (a b : list (node M)) na nb l da db,
    list_html 0 [10] true true a = list_html 0 [10] true true b ->
    hc_name H a = Ok na -> hc_name H b = Ok nb ->
    In da l -> In db l -> dname da = na -> dname db = nb ->
    na = nb /\ length (filter (fun r => str_eqb (dname r) na) (resolve l)) = 1%nat.
  Proof.
    intros M a b na nb l da db E Ha Hb Ia Ib Na Nb.
    rewrite (hc_name_content M a b E) in Ha. rewrite Ha in Hb.
    split; [congruence|]. subst na. apply resolve_name_once. exact Ia.
  Qed.

  (* ---- metadata nodes do not reach the name ------------------------------------------ *)
  Lemma hc_render_strip : forall (M : Type) (a : list (node M)),
    hc_render (strip_list a) = hc_render a.
  Proof.
    intros M a. unfold hc_render, list_html. rewrite render_list_strip_meta. reflexivity.
  Qed.

  Lemma hc_name_strip : forall (M : Type) (a b : list (node M)),
    strip_list a = strip_list b -> hc_name H a = hc_name H b.
  Proof.
    intros M a b E. apply hc_name_content. fold (hc_render a). fold (hc_render b).
    rewrite <- (hc_render_strip M a), <- (hc_render_strip M b), E. reflexivity.
  Qed.

  (* ---- injective hash: different content is never merged ---------------------------- *)
  Hypothesis H_inj : forall x y, H x = H y -> x = y.

  Lemma hc_name_of_inj : forall x y, hc_name_of H x = hc_name_of H y -> x = y.
  Proof.
    intros x y E. unfold hc_name_of in E. apply app_inv_head in E. apply H_inj. exact E.
  Qed.

  Lemma hc_distinct : forall (M : Type) (a b : list (node M)) sa sb,
    list_html 0 [10] true true a = Ok sa -> list_html 0 [10] true true b = Ok sb ->
    sa <> sb -> hc_name H a <> hc_name H b.
  Proof.
    intros M a b sa sb Ea Eb Hne. unfold hc_name, hc_render. rewrite Ea, Eb. cbn [res_map].
    intros E. apply Hne. apply hc_name_of_inj. congruence.
  Qed.

  (* ... and both are kept by the resolution, as different entries *)
  Lemma hc_distinct_both_kept : forall (M : Type) (a b : list (node M)) sa sb l da db,
    list_html 0 [10] true true a = Ok sa -> list_html 0 [10] true true b = Ok sb ->
    sa <> sb ->
    In da l -> In db l -> hc_name H a = Ok (dname da) -> hc_name H b = Ok (dname db) ->
    exists ra rb, In ra (resolve l) /\ In rb (resolve l) /\
                  dname ra = dname da /\ dname rb = dname db /\ dname ra <> dname rb.
  Proof.
    intros M a b sa sb l da db Ea Eb Hne Ia Ib Na Nb.
    destruct (ver_resolve_complete l da Ia) as [ra [Hra Era]].
    destruct (ver_resolve_complete l db Ib) as [rb [Hrb Erb]].
    exists ra, rb. repeat split; try assumption.
    rewrite Era, Erb. intros E. apply (hc_distinct M a b sa sb Ea Eb Hne).
    rewrite Na, Nb, E. reflexivity.
  Qed.

  (* a whole document: head_content dependencies of pairwise different content come back
     from the resolution unchanged (all kept, same objects, same order) *)
  Lemma hc_names_nodup : forall (cs : list (str * N)),
    NoDup (map fst cs) -> NoDup (map dname (map (fun c => hc_dep H (fst c) (snd c)) cs)).
  Proof.
    induction cs as [|c cs IH]; intros Hnd; [constructor|].
    cbn [map] in *. inversion Hnd as [|x xs Hx Hxs]; subst. constructor; [|apply IH; exact Hxs].
    intros Hin. apply Hx. rewrite map_map in Hin. apply in_map_iff in Hin.
    destruct Hin as [c' [E Hc']]. cbn [hc_dep dname] in E. apply hc_name_of_inj in E.
    rewrite <- E. apply in_map. exact Hc'.
  Qed.

  Lemma hc_all_kept : forall (cs : list (str * N)),
    NoDup (map fst cs) ->
    resolve (map (fun c => hc_dep H (fst c) (snd c)) cs) = map (fun c => hc_dep H (fst c) (snd c)) cs.
  Proof. intros cs Hnd. apply (resolve_nodup_id ver_gtb). apply hc_names_nodup. exact Hnd. Qed.
End Hash.

(* C12: proofs about quote / unquote / UTF-8, posixpath.join, and the agreement between the
   URL the writer emits and the path the copier writes. *)
From Coq Require Import NArith ZArith List Bool Lia.
From HT Require Import Model.Str Model.Tree Model.Paths Spec.PathsSpec.

(* lia with division / remainder by constants (N./ and N.modulo become Z.quot / Z.rem) *)
Ltac Zify.zify_post_hook ::= Z.to_euclidean_division_equations.

Ltac b2p :=
  repeat match goal with
  | H : (_ && _) = true |- _ => apply andb_true_iff in H; destruct H
  | H : (_ || _) = false |- _ => apply orb_false_iff in H; destruct H
  | H : (_ && _) = false |- _ => apply andb_false_iff in H; destruct H
  | H : (_ || _) = true |- _ => apply orb_true_iff in H; destruct H
  | H : negb _ = true |- _ => apply negb_true_iff in H
  | H : negb _ = false |- _ => apply negb_false_iff in H
  | H : (_ <? _) = true |- _ => apply N.ltb_lt in H
  | H : (_ <? _) = false |- _ => apply N.ltb_ge in H
  | H : (_ <=? _) = true |- _ => apply N.leb_le in H
  | H : (_ <=? _) = false |- _ => apply N.leb_gt in H
  | H : (_ =? _) = true |- _ => apply N.eqb_eq in H
  | H : (_ =? _) = false |- _ => apply N.eqb_neq in H
  end.

Ltac unf :=
  unfold cont, second_ok, scalar, seg_char, safe in *;
  unfold always_safe, uhex, hexval, hexd in *; unfold is_alnum in *;
  unfold is_surrogate in *; unfold in_rng in *.

(* case analysis on every arithmetic comparison of the goal, pruning impossible branches *)
Ltac cmp_cases :=
  repeat (match goal with
          | |- context [?x =? ?y] => let E := fresh "E" in destruct (x =? y) eqn:E
          | |- context [?x <? ?y] => let E := fresh "E" in destruct (x <? y) eqn:E
          | |- context [?x <=? ?y] => let E := fresh "E" in destruct (x <=? y) eqn:E
          end; b2p; try (exfalso; lia); cbv beta iota; cbn [andb orb negb]).

Ltac bdec := unf; b2p; cmp_cases; try reflexivity; try (exfalso; lia); try lia.

(* ---------------------------------------------------------------------------------- *)
(* UTF-8: decode (encode c) = c for every scalar value                                 *)
(* ---------------------------------------------------------------------------------- *)
Lemma dec_utf8_1 : forall c rest, c < 128 -> utf8_decode (c :: rest) = c :: utf8_decode rest.
Proof.
  intros c rest H. cbn [utf8_decode].
  assert (A : (c <? 128) = true) by bdec. rewrite A. reflexivity.
Qed.

Lemma dec_utf8_2 : forall c rest, 128 <= c -> c < 2048 ->
  utf8_decode ([192 + c / 64; 128 + c mod 64] ++ rest) = c :: utf8_decode rest.
Proof.
  intros c rest H1 H2. cbn [app utf8_decode].
  assert (A0 : (192 + c / 64 <? 128) = false) by bdec.
  assert (A1 : in_rng 194 223 (192 + c / 64) = true) by bdec.
  assert (A2 : cont (128 + c mod 64) = true) by bdec.
  rewrite A0, A1, A2. f_equal. lia.
Qed.

Lemma dec_utf8_3 : forall c rest, 2048 <= c -> c < 65536 -> is_surrogate c = false ->
  utf8_decode ([224 + c / 4096; 128 + (c / 64) mod 64; 128 + c mod 64] ++ rest)
  = c :: utf8_decode rest.
Proof.
  intros c rest H1 H2 H3. cbn [app utf8_decode].
  assert (A0 : (224 + c / 4096 <? 128) = false) by bdec.
  assert (A1 : in_rng 194 223 (224 + c / 4096) = false) by bdec.
  assert (A2 : in_rng 224 239 (224 + c / 4096) = true) by bdec.
  assert (A3 : second_ok (224 + c / 4096) (128 + (c / 64) mod 64) = true) by bdec.
  assert (A4 : cont (128 + c mod 64) = true) by bdec.
  rewrite A0, A1, A2, A3, A4. f_equal. lia.
Qed.

Lemma dec_utf8_4 : forall c rest, 65536 <= c -> c < 1114112 ->
  utf8_decode ([240 + c / 262144; 128 + (c / 4096) mod 64; 128 + (c / 64) mod 64;
                128 + c mod 64] ++ rest)
  = c :: utf8_decode rest.
Proof.
  intros c rest H1 H2. cbn [app utf8_decode].
  assert (A0 : (240 + c / 262144 <? 128) = false) by bdec.
  assert (A1 : in_rng 194 223 (240 + c / 262144) = false) by bdec.
  assert (A2 : in_rng 224 239 (240 + c / 262144) = false) by bdec.
  assert (A3 : in_rng 240 244 (240 + c / 262144) = true) by bdec.
  assert (A4 : second_ok (240 + c / 262144) (128 + (c / 4096) mod 64) = true) by bdec.
  assert (A5 : cont (128 + (c / 64) mod 64) = true) by bdec.
  assert (A6 : cont (128 + c mod 64) = true) by bdec.
  rewrite A0, A1, A2, A3, A4, A5, A6. f_equal. lia.
Qed.

Lemma utf8_decode_utf8 : forall c rest, scalar c = true ->
  utf8_decode (utf8 c ++ rest) = c :: utf8_decode rest.
Proof.
  intros c rest H. unfold utf8.
  destruct (c <? 128) eqn:E1.
  { apply dec_utf8_1. b2p. assumption. }
  destruct (c <? 2048) eqn:E2.
  { b2p. apply dec_utf8_2; assumption. }
  destruct (c <? 65536) eqn:E3.
  { unfold scalar in H. b2p. apply dec_utf8_3; assumption. }
  unfold scalar in H. b2p. apply dec_utf8_4; assumption.
Qed.

Lemma utf8_decode_encode_app : forall s rest, forallb scalar s = true ->
  utf8_decode (encode_utf8 s ++ rest) = s ++ utf8_decode rest.
Proof.
  induction s as [|c s IH]; intros rest H.
  - reflexivity.
  - cbn [forallb] in H. apply andb_true_iff in H. destruct H as [Hc Hs].
    unfold encode_utf8. cbn [flat_map]. rewrite <- app_assoc.
    rewrite utf8_decode_utf8 by assumption.
    cbn [app]. f_equal. apply IH. assumption.
Qed.

Lemma utf8_decode_encode : forall s, forallb scalar s = true ->
  utf8_decode (encode_utf8 s) = s.
Proof.
  intros s H. rewrite <- (app_nil_r (encode_utf8 s)).
  rewrite utf8_decode_encode_app by assumption. cbn [utf8_decode]. apply app_nil_r.
Qed.

(* every byte of an encoded code point below 0x110000 is below 256 *)
Lemma utf8_bytes_small : forall c, c < 1114112 -> Forall (fun b => b < 256) (utf8 c).
Proof.
  intros c H. unfold utf8.
  destruct (c <? 128) eqn:E1; [b2p; repeat constructor; lia|].
  destruct (c <? 2048) eqn:E2; [b2p; repeat constructor; lia|].
  destruct (c <? 65536) eqn:E3; b2p; repeat constructor; lia.
Qed.

Lemma scalar_lt : forall c, scalar c = true -> c < 1114112.
Proof. intros c H. unfold scalar in H. b2p. assumption. Qed.

Lemma encode_bytes_small : forall s, forallb (fun c => c <? 1114112) s = true ->
  Forall (fun b => b < 256) (encode_utf8 s).
Proof.
  induction s as [|c s IH]; intros H.
  - constructor.
  - cbn [forallb] in H. b2p. unfold encode_utf8. cbn [flat_map].
    apply Forall_app. split; [apply utf8_bytes_small; assumption | apply IH; assumption].
Qed.

Lemma scalar_all_lt : forall s, forallb scalar s = true ->
  forallb (fun c => c <? 1114112) s = true.
Proof.
  induction s as [|c s IH]; intros H; [reflexivity|].
  cbn [forallb] in *. apply andb_true_iff in H. destruct H as [Hc Hs].
  apply andb_true_iff. split; [|apply IH; assumption].
  apply N.ltb_lt. apply scalar_lt. assumption.
Qed.

(* ---------------------------------------------------------------------------------- *)
(* quote: output alphabet                                                              *)
(* ---------------------------------------------------------------------------------- *)
Lemma hexd_uhex : forall n, n < 16 -> uhex (hexd n) = true.
Proof. intros n H. bdec. Qed.

Lemma hexval_hexd : forall n, n < 16 -> hexval (hexd n) = Some n.
Proof. intros n H. unf. cmp_cases; try (exfalso; lia); f_equal; lia. Qed.

Lemma safe_not_pct : forall c, safe c = true -> (c =? 37) = false /\ (c <? 128) = true.
Proof. intros c H. split; bdec. Qed.

Lemma quoted_wf_app_byte : forall b rest, b < 256 ->
  quoted_wf rest = true -> quoted_wf (quote_byte b ++ rest) = true.
Proof.
  intros b rest Hb Hr. unfold quote_byte. destruct (safe b) eqn:Es.
  - cbn [app quoted_wf]. destruct (safe_not_pct b Es) as [E1 _]. rewrite E1, Es, Hr. reflexivity.
  - unfold pct. cbn [app quoted_wf]. rewrite N.eqb_refl.
    rewrite !hexd_uhex, Hr; [reflexivity| lia | lia].
Qed.

Lemma quoted_wf_quote_bytes : forall bs, Forall (fun b => b < 256) bs ->
  quoted_wf (quote_bytes bs) = true.
Proof.
  induction bs as [|b bs IH]; intros H; [reflexivity|].
  inversion H as [|? ? Hb Hbs]; subst.
  unfold quote_bytes. cbn [flat_map]. apply quoted_wf_app_byte; [assumption|].
  apply IH. assumption.
Qed.

Lemma quote_safe : forall s, forallb (fun c => c <? 1114112) s = true ->
  quoted_wf (quote s) = true.
Proof.
  intros s H. unfold quote. apply quoted_wf_quote_bytes. apply encode_bytes_small. assumption.
Qed.

(* ---------------------------------------------------------------------------------- *)
(* unquote after quote                                                                 *)
(* ---------------------------------------------------------------------------------- *)
Lemma unquote_toks_byte : forall b rest, b < 256 ->
  unquote_toks (quote_byte b ++ rest) = TB b :: unquote_toks rest.
Proof.
  intros b rest Hb. unfold quote_byte. destruct (safe b) eqn:Es.
  - cbn [app unquote_toks]. destruct (safe_not_pct b Es) as [E1 E2]. rewrite E1, E2. reflexivity.
  - unfold pct. cbn [app unquote_toks]. rewrite N.eqb_refl.
    rewrite !hexval_hexd by lia. f_equal. f_equal. lia.
Qed.

Lemma unquote_toks_quote_bytes : forall bs rest, Forall (fun b => b < 256) bs ->
  unquote_toks (quote_bytes bs ++ rest) = map TB bs ++ unquote_toks rest.
Proof.
  induction bs as [|b bs IH]; intros rest H; [reflexivity|].
  inversion H as [|? ? Hb Hbs]; subst.
  unfold quote_bytes. cbn [flat_map]. rewrite <- app_assoc.
  rewrite unquote_toks_byte by assumption. cbn [map app]. f_equal. apply IH. assumption.
Qed.

(* the byte-level round trip: unquote_to_bytes (quote_from_bytes bs) = bs *)
Lemma unquote_bytes_quote_bytes : forall bs, Forall (fun b => b < 256) bs ->
  unquote_bytes (quote_bytes bs) = bs.
Proof.
  intros bs H. unfold unquote_bytes. rewrite <- (app_nil_r (quote_bytes bs)).
  rewrite unquote_toks_quote_bytes by assumption. cbn [unquote_toks]. rewrite app_nil_r.
  rewrite map_map. cbn [tok_byte]. apply map_id.
Qed.

Lemma decode_toks_bytes : forall bs pending,
  decode_toks pending (map TB bs) = utf8_decode (rev pending ++ bs).
Proof.
  induction bs as [|b bs IH]; intros pending.
  - cbn [map decode_toks]. rewrite app_nil_r. reflexivity.
  - cbn [map decode_toks]. rewrite IH. cbn [rev]. rewrite <- app_assoc. reflexivity.
Qed.

Lemma unquote_quote_bytes : forall bs, Forall (fun b => b < 256) bs ->
  unquote (quote_bytes bs) = utf8_decode bs.
Proof.
  intros bs H. unfold unquote. rewrite <- (app_nil_r (quote_bytes bs)).
  rewrite unquote_toks_quote_bytes by assumption. cbn [unquote_toks]. rewrite app_nil_r.
  rewrite decode_toks_bytes. reflexivity.
Qed.

Lemma unquote_quote : forall s, forallb scalar s = true -> unquote (quote s) = s.
Proof.
  intros s H. unfold quote. rewrite unquote_quote_bytes.
  - apply utf8_decode_encode. assumption.
  - apply encode_bytes_small. apply scalar_all_lt. assumption.
Qed.

(* ---------------------------------------------------------------------------------- *)
(* quote and the slash structure                                                       *)
(* ---------------------------------------------------------------------------------- *)
Lemma quote_app : forall a b, quote (a ++ b) = quote a ++ quote b.
Proof.
  intros a b. unfold quote, quote_bytes, encode_utf8. rewrite !flat_map_app. reflexivity.
Qed.

Lemma quote_slash : quote [47] = [47].
Proof. reflexivity. Qed.

Lemma quote_join : forall segs, quote (join [47] segs) = join [47] (map quote segs).
Proof.
  induction segs as [|x l IH]; [reflexivity|].
  destruct l as [|y l']; [reflexivity|].
  change (join [47] (x :: y :: l')) with (x ++ [47] ++ join [47] (y :: l')).
  change (map quote (x :: y :: l')) with (quote x :: map quote (y :: l')).
  change (join [47] (quote x :: map quote (y :: l')))
    with (quote x ++ [47] ++ join [47] (map quote (y :: l'))).
  rewrite !quote_app, quote_slash, IH. reflexivity.
Qed.

Lemma utf8_slash : forall c, In 47 (utf8 c) -> c = 47.
Proof.
  intros c H. unfold utf8 in H.
  destruct (c <? 128) eqn:E1; [cbn [In] in H; intuition|].
  destruct (c <? 2048) eqn:E2; [cbn [In] in H; b2p; intuition lia|].
  destruct (c <? 65536) eqn:E3; cbn [In] in H; b2p; intuition lia.
Qed.

Lemma hexd_ge : forall n, 48 <= hexd n.
Proof. intros n. unfold hexd. destruct (n <? 10); lia. Qed.

Lemma quote_byte_slash : forall b, In 47 (quote_byte b) -> b = 47.
Proof.
  intros b H. unfold quote_byte in H. destruct (safe b).
  - cbn [In] in H. intuition.
  - unfold pct in H. cbn [In] in H.
    pose proof (hexd_ge (b / 16)). pose proof (hexd_ge (b mod 16)).
    destruct H as [H|[H|[H|[]]]]; try discriminate; exfalso; lia.
Qed.

Lemma quote_no_new_slash : forall s, In 47 (quote s) -> In 47 s.
Proof.
  intros s H. unfold quote, quote_bytes, encode_utf8 in H.
  apply in_flat_map in H. destruct H as [b [Hb H47]].
  apply quote_byte_slash in H47. subst b.
  apply in_flat_map in Hb. destruct Hb as [c [Hc H47]].
  apply utf8_slash in H47. subst c. assumption.
Qed.

Lemma utf8_head : forall c, exists b bs, utf8 c = b :: bs /\ (b = 47 -> c = 47).
Proof.
  intros c. unfold utf8.
  destruct (c <? 128) eqn:E1; [eexists; eexists; split; [reflexivity|tauto]|].
  destruct (c <? 2048) eqn:E2; [eexists; eexists; split; [reflexivity|b2p; lia]|].
  destruct (c <? 65536) eqn:E3; eexists; eexists; (split; [reflexivity|b2p; lia]).
Qed.

Lemma quote_starts_with_slash : forall s, starts_with_slash (quote s) = starts_with_slash s.
Proof.
  intros [|c r]; [reflexivity|].
  change (c :: r) with ([c] ++ r). rewrite quote_app.
  unfold quote at 1, encode_utf8. cbn [flat_map]. rewrite app_nil_r.
  destruct (utf8_head c) as [b [bs [Hu Hb]]]. rewrite Hu.
  unfold quote_bytes. cbn [flat_map]. unfold quote_byte at 1.
  destruct (N.eq_dec c 47) as [Hc|Hc].
  - subst c. cbn in Hu. injection Hu as Hb' Hbs. subst b bs. reflexivity.
  - assert (Hb47 : b <> 47) by tauto.
    assert (R : starts_with_slash ([c] ++ r) = false).
    { cbn [app starts_with_slash]. destruct c as [|p]; [reflexivity|].
      repeat (destruct p as [p|p|]; try reflexivity). exfalso. apply Hc. reflexivity. }
    rewrite R.
    destruct (safe b).
    + cbn [app starts_with_slash]. destruct b as [|p]; [reflexivity|].
      repeat (destruct p as [p|p|]; try reflexivity). exfalso. apply Hb47. reflexivity.
    + reflexivity.
Qed.

(* ---------------------------------------------------------------------------------- *)
(* split and posixpath.join                                                            *)
(* ---------------------------------------------------------------------------------- *)
Lemma split_on_nonempty : forall d s, exists x xs, split_on d s = x :: xs.
Proof.
  intros d s. induction s as [|c s [x [xs IH]]]; [eexists; eexists; reflexivity|].
  cbn [split_on]. destruct (c =? d); [eexists; eexists; reflexivity|].
  rewrite IH. eexists; eexists; reflexivity.
Qed.

Lemma split_on_app_sep : forall d a b,
  split_on d (a ++ d :: b) = split_on d a ++ split_on d b.
Proof.
  intros d a b. induction a as [|c a IH].
  - cbn [app split_on]. rewrite N.eqb_refl. reflexivity.
  - cbn [app split_on]. destruct (c =? d); [rewrite IH; reflexivity|].
    rewrite IH. destruct (split_on_nonempty d a) as [x [xs E]]. rewrite E. reflexivity.
Qed.

Lemma split_on_no_sep : forall d s, ~ In d s -> split_on d s = [s].
Proof.
  intros d s. induction s as [|c s IH]; intros H; [reflexivity|].
  cbn [split_on]. destruct (c =? d) eqn:E.
  - exfalso. apply H. left. apply N.eqb_eq in E. assumption.
  - rewrite IH; [reflexivity|]. intros Hin. apply H. right. assumption.
Qed.

Lemma split_on_join : forall d segs, segs <> [] -> Forall (fun s => ~ In d s) segs ->
  split_on d (join [d] segs) = segs.
Proof.
  intros d segs. induction segs as [|x l IH]; intros Hne H; [congruence|].
  inversion H as [|? ? Hx Hl]; subst.
  destruct l as [|y l'].
  - cbn [join]. apply split_on_no_sep. assumption.
  - change (join [d] (x :: y :: l')) with (x ++ d :: join [d] (y :: l')).
    rewrite split_on_app_sep, split_on_no_sep by assumption.
    rewrite IH; [reflexivity|discriminate|assumption].
Qed.

Lemma path_of_str_app_sep : forall a b,
  path_of_str (a ++ 47 :: b) = path_of_str a ++ path_of_str b.
Proof. intros a b. unfold path_of_str. rewrite split_on_app_sep, filter_app. reflexivity. Qed.

Lemma path_of_str_trailing : forall a, path_of_str (a ++ [47]) = path_of_str a.
Proof. intros a. rewrite path_of_str_app_sep. cbn. apply app_nil_r. Qed.

Lemma ends_with_slash_snoc : forall a, a <> [] -> ends_with_slash a = true ->
  exists a', a = a' ++ [47].
Proof.
  intros a Hne H. destruct (exists_last Hne) as [a' [x E]]. subst a.
  unfold ends_with_slash in H. rewrite last_last in H. apply N.eqb_eq in H. subst x.
  exists a'. reflexivity.
Qed.

Lemma pjoin_nil : forall b, pjoin [] b = b.
Proof. intros b. unfold pjoin. destruct (starts_with_slash b); reflexivity. Qed.

Lemma pjoin_plain : forall a b, starts_with_slash b = false -> a <> [] ->
  ends_with_slash a = false -> pjoin a b = a ++ 47 :: b.
Proof.
  intros a b Hb Ha He. unfold pjoin. rewrite Hb, He.
  destruct a; [congruence|reflexivity].
Qed.

Lemma pjoin_trailing : forall a b, starts_with_slash b = false ->
  pjoin (a ++ [47]) b = a ++ 47 :: b.
Proof.
  intros a b Hb. unfold pjoin. rewrite Hb.
  unfold ends_with_slash. rewrite last_last. cbn [N.eqb Pos.eqb]. rewrite orb_true_r.
  rewrite <- app_assoc. reflexivity.
Qed.

(* os.path.join followed by the kernel's reading of the string is path concatenation *)
Lemma path_of_str_pjoin : forall a b, starts_with_slash b = false ->
  path_of_str (pjoin a b) = path_of_str a ++ path_of_str b.
Proof.
  intros a b Hb. destruct a as [|c a'].
  - rewrite pjoin_nil. reflexivity.
  - destruct (ends_with_slash (c :: a')) eqn:E.
    + destruct (ends_with_slash_snoc (c :: a')) as [a0 E0]; [discriminate|assumption|].
      rewrite E0, pjoin_trailing by assumption.
      rewrite path_of_str_app_sep, path_of_str_trailing. reflexivity.
    + rewrite pjoin_plain by (assumption || discriminate).
      apply path_of_str_app_sep.
Qed.

Lemma ends_with_slash_app : forall a c b,
  ends_with_slash (a ++ c :: b) = ends_with_slash (c :: b).
Proof.
  intros a c b. unfold ends_with_slash. f_equal.
  induction a as [|x a IH]; [reflexivity|].
  cbn [app]. destruct (a ++ c :: b) eqn:E; [destruct a; discriminate|].
  cbn [last]. cbn [last] in IH. rewrite <- IH. reflexivity.
Qed.

Lemma no_slash_not_ends : forall s, ~ In 47 s -> ends_with_slash s = false.
Proof.
  intros s H. destruct s as [|c r]; [reflexivity|].
  destruct (exists_last (l := c :: r)) as [a' [x E]]; [discriminate|].
  rewrite E in *. unfold ends_with_slash. rewrite last_last.
  apply N.eqb_neq. intros Hx. apply H. apply in_or_app. right. left. assumption.
Qed.

Lemma ends_with_slash_app_seg : forall a s, s <> [] -> ~ In 47 s ->
  ends_with_slash (a ++ 47 :: s) = false.
Proof.
  intros a s Hs Hn. destruct s as [|c r]; [congruence|].
  change (a ++ 47 :: c :: r) with (a ++ [47] ++ c :: r). rewrite app_assoc.
  rewrite ends_with_slash_app. apply no_slash_not_ends. assumption.
Qed.

(* splitting a join of two slash-free-at-the-joint strings *)
Lemma split_pjoin : forall a b, starts_with_slash b = false -> a <> [] ->
  ends_with_slash a = false ->
  split_on 47 (pjoin a b) = split_on 47 a ++ split_on 47 b.
Proof.
  intros a b Hb Ha He. rewrite pjoin_plain by assumption. apply split_on_app_sep.
Qed.

(* ---------------------------------------------------------------------------------- *)
(* the domain predicates                                                               *)
(* ---------------------------------------------------------------------------------- *)
Lemma seg_char_facts : forall c, seg_char c = true ->
  (c =? 37) = false /\ (c <? 128) = true /\ c <> 47.
Proof. intros c H. repeat split; bdec. Qed.

Lemma seg_chars_no_slash : forall s, forallb seg_char s = true -> ~ In 47 s.
Proof.
  intros s H Hin. rewrite forallb_forall in H. apply H in Hin.
  apply seg_char_facts in Hin. destruct Hin as [_ [_ Hc]]. apply Hc. reflexivity.
Qed.

Lemma unquote_toks_plain : forall s, forallb seg_char s = true -> unquote_toks s = map TB s.
Proof.
  induction s as [|c s IH]; intros H; [reflexivity|].
  cbn [forallb] in H. apply andb_true_iff in H. destruct H as [Hc Hs].
  destruct (seg_char_facts c Hc) as [E1 [E2 _]].
  cbn [unquote_toks map]. rewrite E1, E2, IH by assumption. reflexivity.
Qed.

Lemma utf8_decode_ascii : forall s, forallb (fun c => c <? 128) s = true -> utf8_decode s = s.
Proof.
  induction s as [|c s IH]; intros H; [reflexivity|].
  cbn [forallb] in H. apply andb_true_iff in H. destruct H as [Hc Hs].
  cbn [utf8_decode]. rewrite Hc, IH by assumption. reflexivity.
Qed.

(* names, versions and libdir components are their own percent-decoding *)
Lemma unquote_plain : forall s, forallb seg_char s = true -> unquote s = s.
Proof.
  intros s H. unfold unquote. rewrite unquote_toks_plain, decode_toks_bytes by assumption.
  cbn [rev app]. apply utf8_decode_ascii.
  rewrite forallb_forall in *. intros c Hc. apply H in Hc. apply seg_char_facts in Hc. tauto.
Qed.

Lemma plain_seg_facts : forall s, plain_seg s = true ->
  forallb seg_char s = true /\ keep_seg s = true /\ s <> [] /\ ~ In 47 s.
Proof.
  intros s H. unfold plain_seg, real_seg in H. b2p.
  repeat split; try assumption.
  - intros E. subst s. discriminate.
  - apply seg_chars_no_slash. assumption.
Qed.

Lemma file_seg_facts : forall s, file_seg s = true ->
  forallb scalar s = true /\ keep_seg s = true /\ s <> [] /\ ~ In 47 s.
Proof.
  intros s H. unfold file_seg, real_seg in H. b2p.
  repeat split; try assumption.
  - intros E. subst s. discriminate.
  - intros Hin.
    assert (E : existsb (N.eqb 47) s = true).
    { apply existsb_exists. exists 47. split; [assumption|reflexivity]. }
    congruence.
Qed.

Lemma keep_seg_cons2 : forall a b r, keep_seg (a :: b :: r) = true.
Proof.
  intros a b r. cbn [keep_seg]. destruct a as [|p]; [reflexivity|].
  repeat (destruct p as [p|p|]; try reflexivity).
Qed.

Lemma name_ver_plain : forall name version iv,
  plain_seg name = true -> forallb seg_char version = true ->
  plain_seg (name_ver name version iv) = true.
Proof.
  intros name version iv Hn Hv. unfold name_ver. destruct iv; [|assumption].
  unfold plain_seg, real_seg in *. b2p.
  apply andb_true_iff. split.
  - rewrite forallb_app. cbn [forallb]. rewrite Hv.
    match goal with H : forallb seg_char name = true |- _ => rewrite H end. reflexivity.
  - destruct name as [|c [|c2 [|c3 r]]]; try discriminate.
    + cbn [app]. rewrite keep_seg_cons2. cbn [str_eqb].
      change (45 =? 46) with false. rewrite andb_false_l, andb_false_r. reflexivity.
    + cbn [app]. rewrite keep_seg_cons2. cbn [str_eqb]. rewrite !andb_false_r. reflexivity.
    + cbn [app]. rewrite keep_seg_cons2. cbn [str_eqb]. rewrite !andb_false_r. reflexivity.
Qed.

Lemma starts_with_slash_no_slash : forall s, ~ In 47 s -> starts_with_slash s = false.
Proof.
  intros [|c r] H; [reflexivity|].
  cbn [starts_with_slash]. destruct c as [|p]; [reflexivity|].
  repeat (destruct p as [p|p|]; try reflexivity). exfalso. apply H. left. reflexivity.
Qed.

Lemma filter_keep_all : forall {T} (f : T -> bool) l, forallb f l = true -> filter f l = l.
Proof.
  intros T f. induction l as [|x l IH]; intros H; [reflexivity|].
  cbn [forallb] in H. apply andb_true_iff in H. destruct H as [Hx Hl].
  cbn [filter]. rewrite Hx, IH by assumption. reflexivity.
Qed.

Lemma forallb_impl : forall {T} (f g : T -> bool) l,
  (forall x, f x = true -> g x = true) -> forallb f l = true -> forallb g l = true.
Proof.
  intros T f g l Hfg H. rewrite forallb_forall in *. intros x Hx. apply Hfg, H, Hx.
Qed.

Lemma path_of_str_seg : forall s, keep_seg s = true -> ~ In 47 s -> path_of_str s = [s].
Proof.
  intros s Hk Hs. unfold path_of_str. rewrite split_on_no_sep by assumption.
  cbn [filter]. rewrite Hk. reflexivity.
Qed.

Lemma join_starts : forall segs x l, segs = x :: l -> x <> [] -> ~ In 47 x ->
  starts_with_slash (join [47] segs) = false.
Proof.
  intros segs x l E Hx Hs. subst segs.
  destruct x as [|c r]; [congruence|].
  assert (Hc : c <> 47) by (intros Hc; apply Hs; left; assumption).
  assert (R : forall t, starts_with_slash ((c :: r) ++ t) = false).
  { intros t. cbn [app starts_with_slash]. destruct c as [|p]; [reflexivity|].
    repeat (destruct p as [p|p|]; try reflexivity). exfalso. apply Hc. reflexivity. }
  destruct l as [|y l'].
  - cbn [join]. rewrite <- (app_nil_r (c :: r)). apply R.
  - change (join [47] ((c :: r) :: y :: l')) with ((c :: r) ++ [47] ++ join [47] (y :: l')).
    apply R.
Qed.

(* ---------------------------------------------------------------------------------- *)
(* C12_agree: writer and copier name the same file                                     *)
(* ---------------------------------------------------------------------------------- *)
Section Agree.
  Variables (name version : str) (pkg : option str) (sub : str) (scripts styles : list str)
            (af : bool) (dir : str) (libdir : option str) (iv : bool) (fsegs : list str).
  Let d := mk_pdep name version (SrcLocal pkg sub) scripts styles af.
  Let file := join [47] fsegs.
  Let nv := name_ver name version iv.
  Hypothesis Hname : plain_seg name = true.
  Hypothesis Hver : forallb seg_char version = true.
  Hypothesis Hlib : libdir_ok libdir = true.
  Hypothesis Hne : fsegs <> [].
  Hypothesis Hfs : forallb file_seg fsegs = true.

  Lemma agree_nv : plain_seg nv = true.
  Proof. apply name_ver_plain; assumption. Qed.

  Lemma agree_file_rel : starts_with_slash file = false.
  Proof.
    destruct fsegs as [|x l] eqn:E; [congruence|].
    cbn [forallb] in Hfs. apply andb_true_iff in Hfs. destruct Hfs as [Hx _].
    apply file_seg_facts in Hx. destruct Hx as [_ [_ [Hx1 Hx2]]].
    unfold file. eapply join_starts; [reflexivity|assumption|assumption].
  Qed.

  Lemma agree_fsegs_noslash : Forall (fun s => ~ In 47 s) fsegs.
  Proof.
    apply Forall_forall. intros s Hs. rewrite forallb_forall in Hfs.
    apply Hfs in Hs. apply file_seg_facts in Hs. tauto.
  Qed.

  Lemma agree_file_path : path_of_str file = fsegs.
  Proof.
    unfold path_of_str, file. rewrite split_on_join by (assumption || apply agree_fsegs_noslash).
    apply filter_keep_all. eapply forallb_impl; [|exact Hfs].
    intros s Hs. apply file_seg_facts in Hs. tauto.
  Qed.

  (* the copier: dirname(file) [/ libdir] / name[-version] / path *)
  Lemma target_path :
    path_of_str (target_file_str d (destdir_of dir libdir) iv file)
    = path_of_str dir ++ libsegs libdir ++ [nv] ++ fsegs.
  Proof.
    pose proof agree_nv as Hnv. apply plain_seg_facts in Hnv.
    destruct Hnv as [Hnv1 [Hnv2 [Hnv3 Hnv4]]].
    unfold target_file_str, target_dir_str. cbn [source_path_map d d_source snd d_name d_version].
    unfold href_of. cbn [truthy]. fold nv.
    rewrite path_of_str_pjoin by apply agree_file_rel.
    rewrite path_of_str_pjoin by (apply starts_with_slash_no_slash; assumption).
    rewrite agree_file_path, (path_of_str_seg nv) by assumption.
    rewrite <- !app_assoc. 
    unfold destdir_of, libsegs, libdir_ok in *. destruct (truthy libdir) as [l|].
    - b2p. rewrite path_of_str_pjoin by assumption.
      rewrite <- app_assoc. f_equal. f_equal.
      unfold path_of_str. apply filter_keep_all.
      eapply forallb_impl; [|eassumption].
      intros s Hs. apply plain_seg_facts in Hs. tauto.
    - reflexivity.
  Qed.

  (* the writer: the URL, split on slash *)
  Lemma url_segments :
    split_on 47 (url_of d libdir iv file) = libsegs libdir ++ [nv] ++ map quote fsegs.
  Proof.
    pose proof agree_nv as Hnv. apply plain_seg_facts in Hnv.
    destruct Hnv as [Hnv1 [Hnv2 [Hnv3 Hnv4]]].
    assert (Hq : starts_with_slash (quote file) = false)
      by (rewrite quote_starts_with_slash; apply agree_file_rel).
    assert (Hqs : split_on 47 (quote file) = map quote fsegs).
    { unfold file. rewrite quote_join. apply split_on_join.
      - destruct fsegs; [congruence|discriminate].
      - apply Forall_forall. intros s Hs. apply in_map_iff in Hs. destruct Hs as [s0 [E Hs0]].
        subst s. intros Hin. apply quote_no_new_slash in Hin.
        pose proof agree_fsegs_noslash as F. rewrite Forall_forall in F. exact (F s0 Hs0 Hin). }
    unfold url_of. cbn [source_path_map d d_source snd d_name d_version].
    unfold href_of. fold nv.
    unfold libsegs, libdir_ok in *. destruct (truthy libdir) as [l|] eqn:El.
    - b2p.
      assert (Hl : l <> []).
      { destruct libdir as [[|c s]|]; cbn in El; try discriminate. injection El as El. subst l.
        discriminate. }
      rewrite (pjoin_plain l nv) by
          (assumption || (apply starts_with_slash_no_slash; assumption)).
      rewrite split_pjoin.
      + rewrite split_on_app_sep, (split_on_no_sep 47 nv), Hqs by assumption.
        rewrite <- app_assoc. reflexivity.
      + assumption.
      + destruct l; [congruence|discriminate].
      + apply ends_with_slash_app_seg; assumption.
    - rewrite split_pjoin.
      + rewrite (split_on_no_sep 47 nv), Hqs by assumption. reflexivity.
      + assumption.
      + assumption.
      + apply no_slash_not_ends. assumption.
  Qed.

  Lemma agree :
    resolve_url dir (url_of d libdir iv file)
    = path_of_str (target_file_str d (destdir_of dir libdir) iv file).
  Proof.
    rewrite target_path. unfold resolve_url. rewrite url_segments. f_equal.
    rewrite !map_app. f_equal; [|f_equal].
    - unfold libsegs, libdir_ok in *. destruct (truthy libdir) as [l|]; [|reflexivity].
      b2p. 
      match goal with H : forallb plain_seg _ = true |- _ => revert H end.
      generalize (split_on 47 l). intros segs. induction segs as [|s segs IH]; intros Hp;
        [reflexivity|].
      cbn [forallb] in Hp. apply andb_true_iff in Hp. destruct Hp as [Hs Hl0].
      cbn [map]. rewrite IH by assumption. f_equal.
      apply unquote_plain. apply plain_seg_facts in Hs. tauto.
    - cbn [map]. f_equal. apply unquote_plain.
      pose proof agree_nv as Hnv. apply plain_seg_facts in Hnv. tauto.
    - rewrite map_map. clear Hne. induction fsegs as [|s l IH]; [reflexivity|].
      cbn [forallb] in Hfs. apply andb_true_iff in Hfs. destruct Hfs as [Hs Hl].
      cbn [map]. f_equal.
      + apply unquote_quote. apply file_seg_facts in Hs. tauto.
      + apply IH. assumption.
  Qed.
End Agree.

(* ---------------------------------------------------------------------------------- *)
(* C12_url_shape                                                                       *)
(* ---------------------------------------------------------------------------------- *)
Lemma pjoin_sans_slash : forall a a' b, sans_slash a a' -> starts_with_slash b = false ->
  pjoin a b = a' ++ 47 :: b.
Proof.
  intros a a' b [[E [Hne He]]|E] Hb; subst a.
  - apply pjoin_plain; assumption.
  - apply pjoin_trailing; assumption.
Qed.

Lemma url_shape_url : forall d lp iv file h h',
  d_source d = SrcUrl h -> sans_slash h h' -> starts_with_slash file = false ->
  url_of d lp iv file = h' ++ 47 :: quote file.
Proof.
  intros d lp iv file h h' Hs Hh Hf. unfold url_of, source_path_map. rewrite Hs. cbn [snd].
  apply pjoin_sans_slash; [assumption|]. rewrite quote_starts_with_slash. assumption.
Qed.

Lemma url_shape_local_noprefix : forall d lp iv file pkg sub,
  d_source d = SrcLocal pkg sub -> truthy lp = None ->
  name_ver (d_name d) (d_version d) iv <> [] ->
  ends_with_slash (name_ver (d_name d) (d_version d) iv) = false ->
  starts_with_slash file = false ->
  url_of d lp iv file = name_ver (d_name d) (d_version d) iv ++ 47 :: quote file.
Proof.
  intros d lp iv file pkg sub Hs Hlp Hne He Hf.
  unfold url_of, source_path_map. rewrite Hs. cbn [snd]. unfold href_of. rewrite Hlp.
  apply pjoin_plain; [|assumption|assumption]. rewrite quote_starts_with_slash. assumption.
Qed.

Lemma url_shape_local_prefix : forall d lp iv file pkg sub p p',
  d_source d = SrcLocal pkg sub -> truthy lp = Some p -> sans_slash p p' ->
  name_ver (d_name d) (d_version d) iv <> [] ->
  starts_with_slash (name_ver (d_name d) (d_version d) iv) = false ->
  ends_with_slash (name_ver (d_name d) (d_version d) iv) = false ->
  starts_with_slash file = false ->
  url_of d lp iv file
  = p' ++ 47 :: name_ver (d_name d) (d_version d) iv ++ 47 :: quote file.
Proof.
  intros d lp iv file pkg sub p p' Hs Hlp Hp Hne Hst He Hf.
  unfold url_of, source_path_map. rewrite Hs. cbn [snd]. unfold href_of. rewrite Hlp.
  rewrite (pjoin_sans_slash p p') by assumption.
  rewrite pjoin_plain.
  - rewrite <- app_assoc. reflexivity.
  - rewrite quote_starts_with_slash. assumption.
  - destruct p'; discriminate.
  - destruct (name_ver (d_name d) (d_version d) iv) as [|c r] eqn:En; [congruence|].
    change (p' ++ 47 :: c :: r) with (p' ++ [47] ++ c :: r). rewrite app_assoc.
    rewrite ends_with_slash_app. assumption.
Qed.

(* the directory part of a URL-sourced dependency ignores lib_prefix and include_version *)
Lemma url_source_ignores_prefix : forall d lp iv lp' iv' file h,
  d_source d = SrcUrl h -> url_of d lp iv file = url_of d lp' iv' file.
Proof. intros. unfold url_of, source_path_map. rewrite H. reflexivity. Qed.

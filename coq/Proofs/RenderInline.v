(* C05 core: a subtree without whitespace-enabled tags renders as its flat form. *)
From HT Require Import Model.Str Model.Tree Model.Escape Model.Render Gen.Tables Spec.Layout.

Local Arguments mem_str : simpl never.
Local Arguments html_escape : simpl never.

Lemma pieces_str_app a b : pieces_str (a ++ b) = pieces_str a ++ pieces_str b.
Proof. apply flat_map_app. Qed.

Section Inline.
  Context {M : Type}.
  Implicit Types (n : node M) (l : list (node M)).

  Lemma flat_tag_esc e1 e2 name ws a kids :
    flat e1 (TagN (M:=M) name ws a kids) = flat e2 (TagN name ws a kids).
  Proof. reflexivity. Qed.

  Lemma flat_map_flat_filter esc l :
    flat_map (flat esc) (filter (fun c => negb (is_meta c)) l) = flat_map (flat esc) l.
  Proof.
    induction l as [|k l IH]; [reflexivity|]. cbn [filter flat_map].
    destruct k; cbn [is_meta negb flat_map flat app]; rewrite ?IH; reflexivity.
  Qed.

  Definition renders_flat (rt : nat -> str -> node M -> res (list piece)) (k : node M) : Prop :=
    is_tag k = true -> inline_only k = true ->
    forall i eol, exists ps, rt i eol k = Ok ps /\ pieces_str ps = indent_str i ++ flat true k.

  (* in the sibling loop, once prev_was_add_ws is false and every remaining sibling is
     inline, nothing but the flat forms is emitted *)
  Lemma loop_inline (rt : nat -> str -> node M -> res (list piece)) l :
    Forall (renders_flat rt) l ->
    forallb inline_only l = true ->
    forall i eol esc first,
    exists ps, loop rt i eol esc first false l = Ok ps
               /\ pieces_str ps = flat_map (flat esc) l.
  Proof.
    induction 1 as [|k l Hk Hl IH]; intros Hin i eol esc first.
    - exists []. split; reflexivity.
    - cbn [forallb] in Hin. apply andb_true_iff in Hin as [Hk_in Hl_in].
      specialize (IH Hl_in).
      destruct k as [s|s|s|m|name ws a kids|[sh|] exp].
      + destruct (IH i eol esc false) as [ps [E P]]. cbn [loop]. rewrite E.
        eexists. split; [reflexivity|].
        destruct first; cbn [app]; rewrite ?pieces_str_app; cbn [flat_map];
          destruct esc; cbn [pieces_str flat_map piece_str flat app];
          rewrite ?app_nil_r; fold (pieces_str ps); rewrite P; reflexivity.
      + destruct (IH i eol esc false) as [ps [E P]]. cbn [loop]. rewrite E.
        eexists. split; [reflexivity|].
        destruct first; cbn [app pieces_str flat_map piece_str flat];
          fold (pieces_str ps); rewrite P; reflexivity.
      + destruct (IH i eol esc false) as [ps [E P]]. cbn [loop]. rewrite E.
        eexists. split; [reflexivity|].
        destruct first; cbn [app pieces_str flat_map piece_str flat];
          fold (pieces_str ps); rewrite P; reflexivity.
      + destruct (IH i eol esc first) as [ps [E P]]. cbn [loop]. rewrite E.
        eexists. split; [reflexivity|]. cbn [flat_map flat app]. exact P.
      + assert (ws = false) as ->.
        { cbn [inline_only] in Hk_in. apply andb_true_iff in Hk_in as [Hw _].
          destruct ws; [discriminate|reflexivity]. }
        destruct (Hk eq_refl Hk_in O []) as [pk [Ek Pk]].
        destruct (IH i eol esc false) as [ps [E P]].
        cbn [loop orb]. rewrite Ek, E.
        eexists. split; [reflexivity|].
        destruct first; cbn [app]; rewrite pieces_str_app, Pk, P;
          cbn [indent_str app flat_map]; rewrite (flat_tag_esc true esc); reflexivity.
      + destruct (IH i eol esc false) as [ps [E P]]. cbn [loop]. rewrite E.
        eexists. split; [reflexivity|].
        destruct first; cbn [app pieces_str flat_map piece_str flat];
          fold (pieces_str ps); rewrite P; reflexivity.
      + discriminate Hk_in.
  Qed.

  Theorem render_inline_flat n : renders_flat render_tag n.
  Proof.
    induction n as [s|s|s|m|name ws a kids IH|sh exp _] using node_ind'; intros Ht Hin i eol;
      try discriminate Ht.
    cbn [inline_only] in Hin. apply andb_true_iff in Hin as [Hw Hkids].
    destruct ws; [discriminate Hw|]. clear Hw.
    cbn [render_tag flat].
    destruct (filter (fun c => negb (is_meta c)) kids) as [|x r] eqn:Ef.
    - destruct (mem_str name void_names); eexists; (split; [reflexivity|]);
        cbn [pieces_str flat_map piece_str]; unfold self_str, open_str, close_str;
        rewrite ?app_nil_r, <- ?app_assoc; reflexivity.
    - destruct (single_text (mem_str name no_escape_names) (x :: r)) as [p|] eqn:Es.
      + eexists. split; [reflexivity|].
        rewrite <- (flat_map_flat_filter _ kids), Ef.
        cbn [pieces_str flat_map piece_str]. unfold open_str, close_str.
        rewrite ?app_nil_r, <- ?app_assoc. do 4 f_equal.
        destruct x as [s|s|s|m|n2 w2 a2 k2|sh2 e2]; destruct r; try discriminate Es;
          cbn [single_text] in Es; injection Es as <-;
          destruct (mem_str name no_escape_names); cbn [negb flat flat_map piece_str app];
          rewrite ?app_nil_r; reflexivity.
      + destruct (loop_inline render_tag kids IH Hkids (S i) eol
                   (negb (mem_str name no_escape_names)) true) as [ps [E P]].
        rewrite E. eexists. split; [reflexivity|].
        rewrite !pieces_str_app, P. cbn [pieces_str flat_map piece_str].
        unfold open_str, close_str. rewrite ?app_nil_r, <- ?app_assoc. reflexivity.
  Qed.

  (* C05_inline_flat, as a statement about the rendered string *)
  Corollary inline_flat_html name ws a kids i eol :
    inline_only (TagN (M:=M) name ws a kids) = true ->
    tag_html i eol (TagN name ws a kids) = Ok (indent_str i ++ flat true (TagN name ws a kids)).
  Proof.
    intros H. destruct (render_inline_flat (TagN name ws a kids) eq_refl H i eol) as [ps [E P]].
    unfold tag_html. rewrite E. cbn [res_map]. rewrite P. reflexivity.
  Qed.

  (* adjacent inline siblings / a whole inline list: nothing in between *)
  Corollary inline_list_flat l i eol esc :
    forallb inline_only l = true ->
    list_html i eol false esc l = Ok (flat_map (flat esc) l).
  Proof.
    intros H. unfold list_html, render_list.
    destruct (loop_inline render_tag l
                (proj2 (Forall_forall _ _) (fun k _ => render_inline_flat k)) H i eol esc true)
      as [ps [E P]].
    rewrite E. cbn [res_map]. rewrite P. reflexivity.
  Qed.
End Inline.

(* One iteration of the sibling loop as a function, and the unfolding lemma.  Shared by
   the proofs about rendering (C02, C04, C05). *)
From HT Require Import Model.Str Model.Tree Model.Escape Model.Render Gen.Tables.

Section Step.
  Context {M : Type}.
  Variable rt : nat -> str -> node M -> res (list piece).

  Definition step (i : nat) (eol : str) (esc first prev : bool) (k : node M)
    : res (list piece * bool * bool) :=
    match k with
    | Meta _ => Ok ([], first, prev)
    | TagN _ cws _ _ =>
      let poc := prev || cws in
      match (if poc then rt i eol k else rt 0 [] k) with
      | Err e => Err e
      | Ok ps => Ok ((if first then [] else if poc then [PWs eol] else []) ++ ps, false, cws)
      end
    | Custom None _ => Err NotTagified
    | Html s | Repr s | Custom (Some s) _ =>
      Ok ((if first then [] else if prev then [PWs eol] else [])
            ++ (if prev then [PWs (indent_str i)] else []) ++ [PRaw s], false, false)
    | Text s =>
      Ok ((if first then [] else if prev then [PWs eol] else [])
            ++ (if prev then [PWs (indent_str i)] else [])
            ++ [if esc then PTxt s else PRaw s], false, false)
    end.

  Lemma loop_step i eol esc first prev k l :
    loop rt i eol esc first prev (k :: l) =
    match step i eol esc first prev k with
    | Err e => Err e
    | Ok (pk, f', p') =>
      match loop rt i eol esc f' p' l with
      | Err e => Err e
      | Ok r => Ok (pk ++ r)
      end
    end.
  Proof.
    destruct k as [s|s|s|m|name ws a kids|[sh|] exp]; cbn [loop step].
    - destruct (loop rt i eol esc false false l); [|reflexivity].
      rewrite <- !app_assoc. reflexivity.
    - destruct (loop rt i eol esc false false l); [|reflexivity].
      rewrite <- !app_assoc. reflexivity.
    - destruct (loop rt i eol esc false false l); [|reflexivity].
      rewrite <- !app_assoc. reflexivity.
    - destruct (loop rt i eol esc first prev l); reflexivity.
    - destruct (if prev || ws then rt i eol (TagN name ws a kids) else rt 0 [] (TagN name ws a kids));
        [|reflexivity].
      destruct (loop rt i eol esc false ws l); [|reflexivity].
      rewrite <- !app_assoc. reflexivity.
    - destruct (loop rt i eol esc false false l); [|reflexivity].
      rewrite <- !app_assoc. reflexivity.
    - reflexivity.
  Qed.

  (* inversion form *)
  Lemma loop_cons_inv i eol esc first prev k l ps :
    loop rt i eol esc first prev (k :: l) = Ok ps ->
    exists pk f' p' r,
      step i eol esc first prev k = Ok (pk, f', p')
      /\ loop rt i eol esc f' p' l = Ok r /\ ps = pk ++ r.
  Proof.
    rewrite loop_step.
    destruct (step i eol esc first prev k) as [[[pk f'] p']|]; [|discriminate].
    destruct (loop rt i eol esc f' p' l) as [r|] eqn:E; [|discriminate].
    intros H. injection H as <-. exists pk, f', p', r. split; [reflexivity|]. split; [exact E|reflexivity].
  Qed.
End Step.

(* C13  A JSON string literal decodes to the string that was written whatever text follows its
   closing quote, also after the end-tag neutralisation has been applied to the whole text:
   the compositional form of the string round trip (the step needed for any enclosing JSON
   structure: keys and values of the serialised dictionary are such literals in context). *)
From Coq Require Import ZArith Lia.
From HT Require Import Model.Str Model.SerializeFns Spec.SerializeSpec Proofs.SerializeProofs.


Lemma roundtrip_body_ctx : forall n s,
  (length s <= n)%nat -> Forall scalar s -> forall r z,
  ins (flat_map json_enc_char s ++ 34 :: r) z ->
  exists z', ins r z' /\ dec_body z = Some (s, z').
Proof.
  assert (Hnil : forall r z, ins (34 :: r) z -> exists z', ins r z' /\ dec_body z = Some ([], z')).
  { intros r z Hi. apply (ins_no60_prefix [34]) with (y := r) in Hi as (z' & -> & Hi).
    - exists z'. split; [exact Hi|reflexivity].
    - cbn. intros [H|H]; [discriminate H|exact H]. }
  induction n as [|n IH]; intros s Hl Hs r z Hi.
  - destruct s as [|c s]; [|cbn in Hl; lia]. apply Hnil, Hi.
  - destruct s as [|c s]; [apply Hnil, Hi|].
    inversion Hs as [|c0 s0 Hc Hs']; subst.
    cbn [flat_map] in Hi. rewrite <- app_assoc in Hi.
    destruct (N.eq_dec c 60) as [->|Hne].
    + change (json_enc_char 60) with [60] in Hi. cbn [app] in Hi.
      apply ins_60 in Hi as [(z1 & -> & Hi)|(y2 & z2 & Hy & -> & Hi)].
      * rewrite dec_plain by reflexivity.
        destruct (IH s) with (r := r) (z := z1) as (z' & Hr & Hd);
          [cbn in Hl; lia|exact Hs'|exact Hi|].
        exists z'. split; [exact Hr|]. rewrite Hd. reflexivity.
      * destruct s as [|d s]; [discriminate Hy|].
        cbn [flat_map] in Hy. rewrite <- app_assoc in Hy.
        pose proof (enc_hd47 _ _ _ Hy) as ->.
        change (json_enc_char 47) with [47] in Hy. cbn [app] in Hy. injection Hy as <-.
        inversion Hs' as [|c1 s1 Hc1 Hs'']; subst.
        rewrite dec_plain by reflexivity.
        rewrite (dec_simple 47 47) by reflexivity.
        destruct (IH s) with (r := r) (z := z2) as (z' & Hr & Hd);
          [cbn in Hl; lia|exact Hs''|exact Hi|].
        exists z'. split; [exact Hr|]. rewrite Hd. reflexivity.
    + apply ins_no60_prefix in Hi as (z' & -> & Hi); [|apply enc_no60; exact Hne].
      rewrite dec_enc_char by exact Hc.
      destruct (IH s) with (r := r) (z := z') as (z'' & Hr & Hd);
        [cbn in Hl; lia|exact Hs'|exact Hi|].
      exists z''. split; [exact Hr|]. rewrite Hd. reflexivity.
Qed.

(* json.dumps(s) followed by any text r, the whole text neutralised: the literal is read back
   as s, and what remains is r with (some of) its end-tag openers escaped, i.e. again a text to
   which this lemma and the structural scanners apply *)
Lemma json_string_in_context_with f t :
  neutralise_shape f t = true ->
  forall s r, Forall scalar s ->
  exists r', ins r r' /\ read_string (neutralise_with f t (json_str_enc s ++ r)) = Some (s, r').
Proof.
  intros Hsh s r Hs. destruct (shape_inv f t Hsh) as (tl & -> & ->).
  unfold neutralise_with, replace_all.
  pose proof (ins_replace tl (S (length (json_str_enc s ++ r))) (json_str_enc s ++ r)) as Hi.
  unfold json_str_enc in Hi at 1. cbn [app] in Hi. rewrite <- app_assoc in Hi. cbn [app] in Hi.
  apply (ins_no60_prefix [34]) in Hi as (z' & Hz & Hi).
  - rewrite Hz. cbn [app read_string].
    destruct (roundtrip_body_ctx (length s) s (le_n _) Hs r z' Hi) as (r' & Hr & Hd).
    exists r'. split; [exact Hr|exact Hd].
  - cbn. intros [H|H]; [discriminate H|exact H].
Qed.

(* two literals in a row with a separator that contains no less-than sign, e.g. a key, the
   colon-space of json.dumps, and its string value: both are read back *)
Lemma json_key_value_in_context_with f t :
  neutralise_shape f t = true ->
  forall k sep v r, Forall scalar k -> Forall scalar v -> ~ In 60 sep ->
  exists r', ins r r' /\ match read_string (neutralise_with f t (json_str_enc k ++ sep ++ json_str_enc v ++ r)) with
    | Some (k', rest) =>
      k' = k /\ exists rest', rest = sep ++ rest' /\ read_string rest' = Some (v, r')
    | None => False
    end.
Proof.
  intros Hsh k sep v r Hk Hv Hsep. destruct (shape_inv f t Hsh) as (tl & -> & ->).
  unfold neutralise_with, replace_all.
  set (whole := json_str_enc k ++ sep ++ json_str_enc v ++ r).
  pose proof (ins_replace tl (S (length whole)) whole) as Hi.
  unfold whole in *. clear whole. unfold json_str_enc in Hi at 1. cbn [app] in Hi. rewrite <- app_assoc in Hi. cbn [app] in Hi.
  apply (ins_no60_prefix [34]) in Hi as (z' & Hz & Hi);
    [|cbn; intros [H|H]; [discriminate H|exact H]].
  rewrite Hz. cbn [app read_string].
  destruct (roundtrip_body_ctx (length k) k (le_n _) Hk _ z' Hi) as (r1 & Hr1 & Hd1).
  rewrite Hd1.
  apply ins_no60_prefix in Hr1 as (z2 & -> & Hr1); [|exact Hsep].
  unfold json_str_enc in Hr1. cbn [app] in Hr1. rewrite <- app_assoc in Hr1. cbn [app] in Hr1.
  apply (ins_no60_prefix [34]) in Hr1 as (z3 & -> & Hr1);
    [|cbn; intros [H|H]; [discriminate H|exact H]].
  destruct (roundtrip_body_ctx (length v) v (le_n _) Hv _ z3 Hr1) as (r' & Hr' & Hd').
  exists r'. split; [exact Hr'|]. split; [reflexivity|].
  exists (34 :: z3). split; [reflexivity|]. cbn [app read_string]. exact Hd'.
Qed.

(* ------------------------------------------------------------------------------------ *)
(* a flat object of string values in context                                              *)
(* ------------------------------------------------------------------------------------ *)
Lemma read_string_ctx s r z :
  Forall scalar s -> ins (json_str_enc s ++ r) z ->
  exists z', ins r z' /\ read_string z = Some (s, z').
Proof.
  intros Hs Hi. unfold json_str_enc in Hi. cbn [app] in Hi. rewrite <- app_assoc in Hi. cbn [app] in Hi.
  apply (ins_no60_prefix [34]) in Hi as (z1 & -> & Hi);
    [|cbn; intros [H|H]; [discriminate H|exact H]].
  cbn [app read_string]. exact (roundtrip_body_ctx (length s) s (le_n _) Hs r z1 Hi).
Qed.

Lemma ins_length s s' : ins s s' -> (length s <= length s')%nat.
Proof. induction 1; cbn; lia. Qed.

Definition scalar_pair (kv : str * str) : Prop := Forall scalar (fst kv) /\ Forall scalar (snd kv).

Lemma enc_members_length l : (length l <= length (enc_members l))%nat.
Proof.
  induction l as [|[k v] l IH]; [cbn; lia|].
  cbn [enc_members]. unfold json_str_enc. rewrite !app_length. cbn [length].
  destruct l as [|kv l']; [cbn [length]; lia|].
  rewrite !app_length. cbn [length] in IH |- *. lia.
Qed.

Lemma not60_2 a b : a <> 60 -> b <> 60 -> ~ In 60 [a; b].
Proof. intros Ha Hb [H|[H|H]]; [apply Ha; exact H|apply Hb; exact H|exact H]. Qed.

Lemma dec_members_ctx : forall l kv0 fuel,
  Forall scalar_pair (kv0 :: l) -> (length (kv0 :: l) <= fuel)%nat -> forall r z,
  ins (enc_members (kv0 :: l) ++ 125 :: r) z ->
  exists r1, ins r r1 /\ dec_members fuel z = Some (kv0 :: l, r1).
Proof.
  induction l as [|kv1 l IH]; intros [k v] fuel Hf Hl r z Hi;
    (destruct fuel as [|f]; [cbn in Hl; lia|]);
    inversion Hf as [|x xs [Hk Hv] Hf']; subst; cbn [fst snd] in Hk, Hv.
  - cbn [enc_members] in Hi. rewrite app_nil_r in Hi. rewrite <- !app_assoc in Hi.
    apply (read_string_ctx k) in Hi as (z1 & Hi & Hr1); [|exact Hk].
    apply (ins_no60_prefix [58; 32]) in Hi as (z2 & -> & Hi); [|apply not60_2; discriminate].
    apply (read_string_ctx v) in Hi as (z3 & Hi & Hr2); [|exact Hv].
    apply (ins_no60_prefix [125]) with (y := r) in Hi as (z4 & -> & Hi);
      [|cbn; intros [H|H]; [discriminate H|exact H]].
    exists z4. split; [exact Hi|].
    cbn [dec_members]. rewrite Hr1. cbn [app strip2]. change ((58 =? 58) && (32 =? 32)) with true. cbn iota.
    rewrite Hr2. reflexivity.
  - cbn [enc_members] in Hi. fold (enc_members (kv1 :: l)) in Hi. rewrite <- !app_assoc in Hi.
    apply (read_string_ctx k) in Hi as (z1 & Hi & Hr1); [|exact Hk].
    apply (ins_no60_prefix [58; 32]) in Hi as (z2 & -> & Hi); [|apply not60_2; discriminate].
    apply (read_string_ctx v) in Hi as (z3 & Hi & Hr2); [|exact Hv].
    apply (ins_no60_prefix [44; 32]) in Hi as (z4 & -> & Hi); [|apply not60_2; discriminate].
    destruct (IH kv1 f Hf') with (r := r) (z := z4) as (r1 & Hr & Hd); [cbn [length] in *; lia|exact Hi|].
    exists r1. split; [exact Hr|].
    cbn [dec_members]. rewrite Hr1. cbn [app strip2]. change ((58 =? 58) && (32 =? 32)) with true. cbn iota.
    rewrite Hr2. cbn [app]. rewrite Hd. reflexivity.
Qed.

Lemma flat_obj_ctx l r z :
  Forall scalar_pair l -> ins (enc_flat_obj l ++ r) z ->
  exists r1, ins r r1 /\ dec_flat_obj z = Some (l, r1).
Proof.
  intros Hf Hi. unfold enc_flat_obj in Hi. cbn [app] in Hi. rewrite <- app_assoc in Hi. cbn [app] in Hi.
  apply (ins_no60_prefix [123]) in Hi as (z1 & -> & Hi);
    [|cbn; intros [H|H]; [discriminate H|exact H]].
  destruct l as [|kv0 l].
  - cbn [enc_members app] in Hi.
    apply (ins_no60_prefix [125]) with (y := r) in Hi as (z2 & -> & Hi);
      [|cbn; intros [H|H]; [discriminate H|exact H]].
    exists z2. split; [exact Hi|reflexivity].
  - pose proof (ins_length _ _ Hi) as Hlen. rewrite app_length in Hlen.
    pose proof (enc_members_length (kv0 :: l)) as Hm.
    destruct (dec_members_ctx l kv0 (length z1) Hf) with (r := r) (z := z1) as (r1 & Hr & Hd);
      [lia|exact Hi|].
    exists r1. split; [exact Hr|].
    (* the first character of z1 is the opening quote of the first key, not a closing brace *)
    destruct kv0 as [k v]. cbn [enc_members] in Hi. unfold json_str_enc in Hi at 1. cbn [app] in Hi.
    apply (ins_no60_prefix [34]) in Hi as (z2 & -> & _);
      [|cbn; intros [H|H]; [discriminate H|exact H]].
    cbn [app dec_flat_obj]. cbn [app] in Hd. exact Hd.
Qed.

Lemma flat_obj_in_context_with f t :
  neutralise_shape f t = true ->
  forall l r, Forall scalar_pair l ->
  exists r1, ins r r1 /\ dec_flat_obj (neutralise_with f t (enc_flat_obj l ++ r)) = Some (l, r1).
Proof.
  intros Hsh l r Hl. destruct (shape_inv f t Hsh) as (tl & -> & ->).
  unfold neutralise_with, replace_all.
  apply flat_obj_ctx; [exact Hl|apply ins_replace].
Qed.

(* ------------------------------------------------------------------------------------ *)
(* a list of flat objects in context                                                      *)
(* ------------------------------------------------------------------------------------ *)
Lemma enc_objs_length l : (length l <= length (enc_objs l))%nat.
Proof.
  induction l as [|o l IH]; [cbn; lia|].
  cbn [enc_objs]. unfold enc_flat_obj. rewrite !app_length. cbn [length]. rewrite !app_length. cbn [length].
  destruct l as [|o1 l']; [cbn [length]; lia|].
  rewrite !app_length. cbn [length] in IH |- *. lia.
Qed.

Lemma enc_objs_cons2 o0 o1 l :
  enc_objs (o0 :: o1 :: l) = enc_flat_obj o0 ++ [44; 32] ++ enc_objs (o1 :: l).
Proof. reflexivity. Qed.

Lemma dec_objs_ctx : forall l o0 fuel,
  Forall (Forall scalar_pair) (o0 :: l) -> (length (o0 :: l) <= fuel)%nat -> forall r z,
  ins (enc_objs (o0 :: l) ++ 93 :: r) z ->
  exists r1, ins r r1 /\ dec_objs fuel z = Some (o0 :: l, r1).
Proof.
  induction l as [|o1 l IH]; intros o0 fuel Hf Hl r z Hi;
    (destruct fuel as [|f]; [cbn in Hl; lia|]);
    inversion Hf as [|x xs Ho Hf']; subst.
  - cbn [enc_objs] in Hi. rewrite app_nil_r in Hi.
    apply (flat_obj_ctx o0) in Hi as (z1 & Hi & Hd); [|exact Ho].
    apply (ins_no60_prefix [93]) with (y := r) in Hi as (z2 & -> & Hi);
      [|cbn; intros [H|H]; [discriminate H|exact H]].
    exists z2. split; [exact Hi|]. cbn [dec_objs]. rewrite Hd. reflexivity.
  - rewrite enc_objs_cons2 in Hi. rewrite <- !app_assoc in Hi.
    apply (flat_obj_ctx o0) in Hi as (z1 & Hi & Hd); [|exact Ho].
    apply (ins_no60_prefix [44; 32]) in Hi as (z2 & -> & Hi); [|apply not60_2; discriminate].
    destruct (IH o1 f Hf') with (r := r) (z := z2) as (r1 & Hr & Hd2); [cbn [length] in *; lia|exact Hi|].
    exists r1. split; [exact Hr|]. cbn [dec_objs]. rewrite Hd. cbn [app]. rewrite Hd2. reflexivity.
Qed.

Lemma obj_list_ctx l r z :
  Forall (Forall scalar_pair) l -> ins (enc_obj_list l ++ r) z ->
  exists r1, ins r r1 /\ dec_obj_list z = Some (l, r1).
Proof.
  intros Hf Hi. unfold enc_obj_list in Hi. cbn [app] in Hi. rewrite <- app_assoc in Hi. cbn [app] in Hi.
  apply (ins_no60_prefix [91]) in Hi as (z1 & -> & Hi);
    [|cbn; intros [H|H]; [discriminate H|exact H]].
  destruct l as [|o0 l].
  - cbn [enc_objs app] in Hi.
    apply (ins_no60_prefix [93]) with (y := r) in Hi as (z2 & -> & Hi);
      [|cbn; intros [H|H]; [discriminate H|exact H]].
    exists z2. split; [exact Hi|reflexivity].
  - pose proof (ins_length _ _ Hi) as Hlen. rewrite app_length in Hlen.
    pose proof (enc_objs_length (o0 :: l)) as Hm.
    destruct (dec_objs_ctx l o0 (length z1) Hf) with (r := r) (z := z1) as (r1 & Hr & Hd);
      [lia|exact Hi|].
    exists r1. split; [exact Hr|].
    cbn [enc_objs] in Hi. unfold enc_flat_obj in Hi at 1. cbn [app] in Hi.
    apply (ins_no60_prefix [123]) in Hi as (z2 & -> & _);
      [|cbn; intros [H|H]; [discriminate H|exact H]].
    cbn [app dec_obj_list]. cbn [app] in Hd. exact Hd.
Qed.

Lemma obj_list_in_context_with f t :
  neutralise_shape f t = true ->
  forall l r, Forall (Forall scalar_pair) l ->
  exists r1, ins r r1 /\ dec_obj_list (neutralise_with f t (enc_obj_list l ++ r)) = Some (l, r1).
Proof.
  intros Hsh l r Hl. destruct (shape_inv f t Hsh) as (tl & -> & ->).
  unfold neutralise_with, replace_all.
  apply obj_list_ctx; [exact Hl|apply ins_replace].
Qed.

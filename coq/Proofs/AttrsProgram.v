(* Attribute maps flowing from one tag into another (C03): a stored map given back as a dict
   argument -- tag.attrs itself, dict(tag.attrs), the dict returned by consolidate_attrs, the
   map expanded into keywords -- contributes exactly its stored values, so what is written
   between the quotes is still every originally supplied plain value escaped once and every
   HTML value verbatim.  Every map a program of constructions and operations can reach is
   well-formed (distinct normalised names), which is all these facts need. *)
From HT Require Import Model.Str Model.Sx Model.Tree Model.Escape Model.Render Model.Attrs
     Model.DriverC15 Model.DriverC03 Spec.AttrsSpec Proofs.AttrsProofs Proofs.AttrsEmit.

(* a stored value handed back as an argument value is kept as it is, mark included *)
Lemma reuse_value v : norm_value (arg_of_aval v) = Ok (Some v).
Proof. destruct v; reflexivity. Qed.

Lemma reuse_emit v : emit_arg (arg_of_aval v) = emit_aval v.
Proof. destruct v; reflexivity. Qed.

(* ---- every reachable map is well-formed ------------------------------------------------- *)
Lemma helper_update_wf name v p st : wf_attrs st -> wf_attrs (fst (helper_update name v p st)).
Proof.
  intros H. unfold helper_update. destruct p.
  - exact (step_wf st (OpUpdate [[(name, v)]; [(name, get_arg name st)]] []) H).
  - exact (step_wf st (OpUpdate [[(name, get_arg name st)]; [(name, v)]] []) H).
Qed.

Lemma setall_wf items : forall st,
  wf_attrs st ->
  wf_attrs (fold_left (fun s kv => fst (attrs_setitem s (fst kv) (snd kv))) items st).
Proof.
  induction items as [|[k v] items IH]; intros st H; [exact H|].
  simpl. apply IH. exact (step_wf st (OpSet k v) H).
Qed.

Lemma pstep_wf earlier st o : wf_attrs st -> wf_attrs (pstep earlier st o).
Proof.
  intros H. destruct o as [ds kw|k v|c p|s p|k|k p]; simpl.
  - exact (step_wf st (OpUpdate _ _) H).
  - exact (step_wf st (OpSet k v) H).
  - apply helper_update_wf. exact H.
  - apply helper_update_wf. exact H.
  - apply setall_wf. exact H.
  - apply helper_update_wf. exact H.
Qed.

Lemma psteps_wf earlier ops : forall st,
  wf_attrs st -> wf_attrs (fold_left (pstep earlier) ops st).
Proof.
  induction ops as [|o ops IH]; intros st H; [exact H|].
  simpl. apply IH. apply pstep_wf. exact H.
Qed.

Lemma run_stage_wf earlier s a : run_stage earlier s = Ok a -> wf_attrs a.
Proof.
  unfold run_stage. intros H.
  destruct (attrs_new (map (resolve earlier) (st_dicts s)) (resolve earlier (st_kw s)))
    as [a0|e] eqn:E; [|discriminate].
  inversion H. subst. apply psteps_wf. exact (attrs_new_wf _ _ _ E).
Qed.

Lemma run_stages_wf ss : forall earlier,
  Forall (fun r => forall a, r = Ok a -> wf_attrs a) (run_stages earlier ss).
Proof.
  induction ss as [|s ss IH]; intros earlier; simpl; constructor.
  - intros a H. exact (run_stage_wf earlier s a H).
  - apply IH.
Qed.

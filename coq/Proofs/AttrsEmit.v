(* What the attribute writer puts between the quotes for a stored value, and the fact that
   merging (TagAttrDict.update) preserves it: every plain value is escaped exactly once with
   the attribute table and HTML values never, for every mixture, order and count.
   Used by C03. *)
From HT Require Import Model.Str Model.Tree Model.Escape Model.Attrs Spec.CharMap
     Spec.AttrsSpec Proofs.EscapeProofs Proofs.AttrsProofs.

(* the text emitted for a stored value: str through html_escape(attr=True), HTML as is *)
Definition emit_aval (v : aval) : str :=
  match v with AStr s => html_escape true s | AHtml s => s end.

(* the same for a kept argument value (dropped / unsupported values emit nothing) *)
Definition emit_arg (x : attrarg) : str :=
  match x with
  | VBool true => []
  | VInt r | VFloat r => html_escape true r
  | VStr s => html_escape true s
  | VHtml s => s
  | VNone | VBool false | VBad => []
  end.

Lemma emit_arg_kept x v : norm_value x = Ok (Some v) -> emit_arg x = emit_aval v.
Proof.
  destruct x as [| [|] | r | r | s | s |]; simpl; intros H; inversion H; reflexivity.
Qed.

Lemma escape_space attr : html_escape attr [32] = [32].
Proof. destruct attr; vm_compute; reflexivity. Qed.

(* one merge step, all four kind combinations *)
Theorem merge_emit old val :
  emit_aval (merge_vals old val) = emit_aval old ++ [32] ++ emit_aval val.
Proof.
  destruct old as [a|a]; destruct val as [b|b]; unfold merge_vals, space; simpl;
    rewrite ?escape_app, ?escape_space, <- ?app_assoc; reflexivity.
Qed.

(* any number of values of one name *)
Theorem merged_emit vs : emit_aval (merged vs) = join [32] (map emit_aval vs).
Proof.
  induction vs as [|v vs IH] using rev_ind; [reflexivity|].
  destruct vs as [|w vs'].
  - simpl app. rewrite merged_single. reflexivity.
  - rewrite merged_snoc by discriminate. rewrite merge_emit, IH.
    rewrite map_app. change (map emit_aval [v]) with [emit_aval v].
    rewrite join_snoc by discriminate. reflexivity.
Qed.

(* a whole call: the stored value of every name emits the emitted texts of the kept values
   given for that name, in argument order, joined by single spaces *)
Theorem call_emit dicts kw a ps :
  attrs_of_call dicts kw = Ok a ->
  kept_pairs (concat dicts ++ kw) = Ok ps ->
  forall k v, In (k, v) a ->
    emit_aval v = join [32] (map emit_aval (values_of k ps)).
Proof.
  unfold attrs_of_call. intros Ha Hps k v Hin. rewrite Hps in Ha. simpl in Ha.
  inversion Ha. subst a. unfold group in Hin. apply in_map_iff in Hin.
  destruct Hin as [n [E _]]. inversion E. subst. apply merged_emit.
Qed.

(* the same through the model of construction *)
Theorem new_emit dicts kw a ps :
  attrs_new dicts kw = Ok a ->
  kept_pairs (concat dicts ++ kw) = Ok ps ->
  forall k v, In (k, v) a ->
    emit_aval v = join [32] (map emit_aval (values_of k ps)).
Proof.
  intros Ha. apply call_emit. unfold attrs_new in Ha.
  rewrite attrs_update_spec in Ha by constructor. unfold spec_step in Ha.
  destruct (attrs_of_call dicts kw) as [a'|e]; [|discriminate].
  unfold replace_merge in Ha. simpl in Ha. rewrite filter_all in Ha by reflexivity. exact Ha.
Qed.

(* every name of the result comes from the call *)
Lemma call_names dicts kw a ps :
  attrs_of_call dicts kw = Ok a -> kept_pairs (concat dicts ++ kw) = Ok ps ->
  keys a = first_names (map fst ps).
Proof.
  unfold attrs_of_call. intros Ha Hps. rewrite Hps in Ha. inversion Ha. apply keys_group.
Qed.

(* a later update REPLACES: after attrs.update on an existing map, a name given in the call
   holds the merge of the call's own values (the stored value is not part of it); every
   other name is untouched *)
Theorem update_lookup st dicts kw ps :
  NoDup (keys st) ->
  kept_pairs (concat dicts ++ kw) = Ok ps ->
  forall k,
    lookup k (fst (attrs_update st dicts kw)) =
    if mem_str k (map fst ps) then Some (merged (values_of k ps)) else lookup k st.
Proof.
  intros Hnd Hps k. rewrite attrs_update_spec by exact Hnd.
  unfold spec_step, attrs_of_call. rewrite Hps. simpl.
  rewrite lookup_replace_merge, lookup_group.
  destruct (mem_str k (map fst ps)); reflexivity.
Qed.

Theorem update_emit st dicts kw ps :
  NoDup (keys st) ->
  kept_pairs (concat dicts ++ kw) = Ok ps ->
  forall k v,
    In k (map fst ps) ->
    lookup k (fst (attrs_update st dicts kw)) = Some v ->
    emit_aval v = join [32] (map emit_aval (values_of k ps)).
Proof.
  intros Hnd Hps k v Hin Hl. rewrite (update_lookup st dicts kw ps Hnd Hps) in Hl.
  apply mem_str_In in Hin. rewrite Hin in Hl. inversion Hl. apply merged_emit.
Qed.

(* attrs[k] = x with a kept value: the name holds that value alone *)
Theorem setitem_emit st k x v :
  norm_value x = Ok (Some v) ->
  lookup (norm_name k) (fst (attrs_setitem st k x)) = Some v /\
  emit_aval v = emit_arg x.
Proof.
  intros H. unfold attrs_setitem. rewrite H. simpl. rewrite lookup_set_item, str_eqb_refl.
  split; [reflexivity|]. symmetry. apply emit_arg_kept. exact H.
Qed.

(* C09: the splice loop of TagList.tagify is in-place substitution of expansions, and
   rendering an un-expanded tree raises. *)
From Coq Require Import PeanoNat Lia.
From HT Require Import Model.Str Model.Tree Model.Escape Model.Render Model.Tagify Gen.Tables
  Proofs.RenderLoop.

Section TagifyProofs.
  Context {M : Type}.
  Implicit Types (n k : node M) (l kids : list (node M)).

  (* ------------------------------------------------------------------ *)
  (* 1. the backwards index loop with slice assignment is flat_map       *)
  (* ------------------------------------------------------------------ *)

  Lemma nth_error_mid (pre : list (node M)) c rest :
    nth_error (pre ++ c :: rest) (length pre) = Some c.
  Proof. induction pre as [|x pre IH]; [reflexivity|]. cbn. exact IH. Qed.

  Lemma firstn_mid (pre : list (node M)) rest :
    firstn (length pre) (pre ++ rest) = pre.
  Proof. induction pre as [|x pre IH]; [reflexivity|]. cbn. f_equal. exact IH. Qed.

  Lemma skipn_mid (pre : list (node M)) c rest :
    skipn (S (length pre)) (pre ++ c :: rest) = rest.
  Proof. induction pre as [|x pre IH]; [reflexivity|]. cbn [length app]. exact IH. Qed.

  (* invariant: indices below (length pre) are still to be processed, the suffix is final *)
  Lemma splice_loop_app (f : node M -> list (node M)) (pre : list (node M)) :
    forall rest, splice_loop f (length pre) (pre ++ rest) = flat_map f pre ++ rest.
  Proof.
    induction pre as [|c pre IH] using rev_ind; intros rest; [reflexivity|].
    rewrite app_length. cbn [length]. rewrite Nat.add_1_r. cbn [splice_loop].
    rewrite <- app_assoc. cbn [app].
    rewrite nth_error_mid, firstn_mid, skipn_mid.
    rewrite IH, flat_map_app. cbn [flat_map]. rewrite app_nil_r, <- app_assoc. reflexivity.
  Qed.

  Theorem splice_loop_flat_map (f : node M -> list (node M)) l :
    splice_loop f (length l) l = flat_map f l.
  Proof.
    rewrite <- (app_nil_r l) at 2. rewrite splice_loop_app. apply app_nil_r.
  Qed.

  (* ------------------------------------------------------------------ *)
  (* 2./3. the fuelled model equals the declarative substitution         *)
  (* ------------------------------------------------------------------ *)

  Lemma flat_map_ext_in (f g : node M -> list (node M)) l :
    (forall k, In k l -> f k = g k) -> flat_map f l = flat_map g l.
  Proof.
    induction l as [|x l IH]; intros H; [reflexivity|]. cbn [flat_map].
    rewrite (H x (or_introl eq_refl)). f_equal. apply IH. intros k Hk. apply H. right. exact Hk.
  Qed.

  Lemma depth_In k l :
    In k l -> (depth k <= fold_right (fun k acc => Nat.max (depth k) acc) O l)%nat.
  Proof.
    induction l as [|x l IH]; intros H; [destruct H|]. cbn [fold_right].
    destruct H as [->|H]; [lia|]. specialize (IH H). lia.
  Qed.

  Theorem tagify_fuel_subst n :
    forall fuel, (depth n <= fuel)%nat -> tagify_fuel fuel n = subst n.
  Proof.
    induction n as [s|s|s|m|name ws a kids IH|sh exp _] using node_ind'; intros fuel Hd;
      (destruct fuel as [|f]; [cbn in Hd; lia|]); try reflexivity.
    cbn [tagify_fuel subst]. rewrite splice_loop_flat_map.
    f_equal. f_equal. apply flat_map_ext_in. intros k Hk.
    rewrite Forall_forall in IH. apply (IH k Hk).
    cbn [depth] in Hd. pose proof (depth_In k kids Hk). lia.
  Qed.

  Theorem taglist_tagify_subst l : taglist_tagify l = flat_map subst l.
  Proof.
    unfold taglist_tagify. rewrite splice_loop_flat_map.
    apply flat_map_ext_in. intros k Hk. apply tagify_fuel_subst.
    pose proof (depth_In k l Hk). lia.
  Qed.

  Theorem tag_tagify_subst n : tag_tagify n = subst n.
  Proof. unfold tag_tagify. apply tagify_fuel_subst. lia. Qed.

  (* ------------------------------------------------------------------ *)
  (* 4. facts about subst                                                *)
  (* ------------------------------------------------------------------ *)

  (* no object with tagify() anywhere in the tree *)
  Fixpoint no_custom (n : node M) : bool :=
    match n with
    | TagN _ _ _ kids => forallb no_custom kids
    | Custom _ _ => false
    | _ => true
    end.

  (* every expansion reachable through tag children is itself fully tagified: the
     documented contract of an object's tagify() *)
  Fixpoint exp_expanded (n : node M) : bool :=
    match n with
    | TagN _ _ _ kids => forallb exp_expanded kids
    | Custom _ exp => forallb no_custom exp
    | _ => true
    end.

  Lemma subst_tag_shape name ws a kids :
    subst (TagN name ws a kids) = [TagN name ws a (flat_map subst kids)].
  Proof. reflexivity. Qed.

  Lemma subst_app l1 l2 :
    flat_map subst (l1 ++ l2) = flat_map subst l1 ++ flat_map subst l2.
  Proof. apply flat_map_app. Qed.

  Theorem subst_no_custom n : no_custom n = true -> subst n = [n].
  Proof.
    induction n as [s|s|s|m|name ws a kids IH|sh exp _] using node_ind'; intros H;
      try reflexivity; try discriminate.
    cbn [subst]. cbn [no_custom] in H. f_equal. f_equal.
    induction IH as [|k l Hk _ IHl]; [reflexivity|].
    cbn [forallb] in H. apply andb_true_iff in H. destruct H as [H1 H2].
    cbn [flat_map]. rewrite (Hk H1), (IHl H2). reflexivity.
  Qed.

  Lemma subst_list_no_custom l : forallb no_custom l = true -> flat_map subst l = l.
  Proof.
    induction l as [|k l IH]; intros H; [reflexivity|].
    cbn [forallb] in H. apply andb_true_iff in H. destruct H as [H1 H2].
    cbn [flat_map]. rewrite (subst_no_custom k H1), (IH H2). reflexivity.
  Qed.

  (* after one application nothing with a tagify() is left *)
  Theorem subst_result_no_custom n :
    exp_expanded n = true -> forallb no_custom (subst n) = true.
  Proof.
    induction n as [s|s|s|m|name ws a kids IH|sh exp _] using node_ind'; intros H;
      try reflexivity.
    - cbn [subst forallb no_custom]. rewrite andb_true_r. cbn [exp_expanded] in H.
      induction IH as [|k l Hk _ IHl]; [reflexivity|].
      cbn [forallb] in H. apply andb_true_iff in H. destruct H as [H1 H2].
      cbn [flat_map]. rewrite forallb_app, (Hk H1), (IHl H2). reflexivity.
    - exact H.
  Qed.

  Theorem subst_idem_when_expansions_expanded n :
    exp_expanded n = true -> flat_map subst (subst n) = subst n.
  Proof. intros H. apply subst_list_no_custom, subst_result_no_custom, H. Qed.

  Lemma subst_list_result_no_custom l :
    forallb exp_expanded l = true -> forallb no_custom (flat_map subst l) = true.
  Proof.
    induction l as [|k l IH]; intros H; [reflexivity|].
    cbn [forallb] in H. apply andb_true_iff in H. destruct H as [H1 H2].
    cbn [flat_map]. rewrite forallb_app, (subst_result_no_custom k H1), (IH H2). reflexivity.
  Qed.

  Theorem subst_list_idem l :
    forallb exp_expanded l = true -> flat_map subst (flat_map subst l) = flat_map subst l.
  Proof. intros H. apply subst_list_no_custom, subst_list_result_no_custom, H. Qed.

  (* ------------------------------------------------------------------ *)
  (* 5. rendering: un-expanded raises NotTagified, expanded renders      *)
  (* ------------------------------------------------------------------ *)

  Lemma has_unexpanded_filter l :
    existsb has_unexpanded (filter (fun c => negb (is_meta c)) l) = existsb has_unexpanded l.
  Proof.
    induction l as [|k l IH]; [reflexivity|]. cbn [filter existsb].
    destruct k as [s|s|s|m|name ws a kids|sh exp]; cbn [is_meta negb existsb]; rewrite IH;
      reflexivity.
  Qed.

  Lemma single_text_expanded noesc l p :
    single_text noesc l = Some p -> existsb has_unexpanded l = false.
  Proof.
    destruct l as [|x [|y r]]; cbn [single_text]; [discriminate| |].
    - destruct x; intros H; try discriminate; reflexivity.
    - destruct x; intros H; discriminate.
  Qed.

  (* what the two renderers do, decided by has_unexpanded alone *)
  Definition tag_outcome n : Prop :=
    forall i eol, is_tag n = true ->
      (has_unexpanded n = true -> render_tag i eol n = Err NotTagified)
      /\ (has_unexpanded n = false -> exists ps, render_tag i eol n = Ok ps).

  Lemma loop_outcome l :
    Forall tag_outcome l ->
    forall i eol esc first prev,
      (existsb has_unexpanded l = true
       -> loop render_tag i eol esc first prev l = Err NotTagified)
      /\ (existsb has_unexpanded l = false
          -> exists ps, loop render_tag i eol esc first prev l = Ok ps).
  Proof.
    induction 1 as [|k l Hk Hl IH]; intros i eol esc first prev.
    - split; [discriminate|]. intros _. exists []. reflexivity.
    - rewrite loop_step. cbn [existsb].
      destruct k as [s|s|s|m|name ws a kids|[sh|] exp]; cbn [step has_unexpanded orb].
      + destruct (IH i eol esc false false) as [IH1 IH2]. split; intros H.
        * rewrite (IH1 H). reflexivity.
        * destruct (IH2 H) as [ps ->]. eexists. reflexivity.
      + destruct (IH i eol esc false false) as [IH1 IH2]. split; intros H.
        * rewrite (IH1 H). reflexivity.
        * destruct (IH2 H) as [ps ->]. eexists. reflexivity.
      + destruct (IH i eol esc false false) as [IH1 IH2]. split; intros H.
        * rewrite (IH1 H). reflexivity.
        * destruct (IH2 H) as [ps ->]. eexists. reflexivity.
      + destruct (IH i eol esc first prev) as [IH1 IH2]. split; intros H.
        * rewrite (IH1 H). reflexivity.
        * destruct (IH2 H) as [ps ->]. eexists. reflexivity.
      + set (t := TagN name ws a kids) in *.
        assert (Ht : forall j e,
                   (existsb has_unexpanded kids = true -> render_tag j e t = Err NotTagified)
                   /\ (existsb has_unexpanded kids = false -> exists ps, render_tag j e t = Ok ps)).
        { intros j e. exact (Hk j e eq_refl). }
        destruct (IH i eol esc false ws) as [IH1 IH2].
        destruct (existsb has_unexpanded kids) eqn:Eu; cbn [orb].
        * split; [|discriminate]. intros _.
          destruct (prev || ws).
          -- rewrite (proj1 (Ht i eol) eq_refl). reflexivity.
          -- rewrite (proj1 (Ht O []) eq_refl). reflexivity.
        * assert (Hr : exists ps, (if prev || ws then render_tag i eol t else render_tag O [] t)
                                  = Ok ps).
          { destruct (prev || ws).
            - exact (proj2 (Ht i eol) eq_refl).
            - exact (proj2 (Ht O []) eq_refl). }
          destruct Hr as [ps ->]. split; intros H.
          -- rewrite (IH1 H). reflexivity.
          -- destruct (IH2 H) as [r ->]. eexists. reflexivity.
      + destruct (IH i eol esc false false) as [IH1 IH2]. split; intros H.
        * rewrite (IH1 H). reflexivity.
        * destruct (IH2 H) as [ps ->]. eexists. reflexivity.
      + split; [reflexivity|discriminate].
  Qed.

  Lemma render_tag_outcome n : tag_outcome n.
  Proof.
    induction n as [s|s|s|m|name ws a kids IH|sh exp _] using node_ind'; intros i eol Ht;
      try discriminate.
    clear Ht. cbn [has_unexpanded render_tag].
    rewrite <- (has_unexpanded_filter kids).
    destruct (filter (fun c => negb (is_meta c)) kids) as [|c cs] eqn:Ef.
    - cbn [existsb]. split; [discriminate|]. intros _.
      destruct (mem_str name void_names); eexists; reflexivity.
    - destruct (single_text (mem_str name no_escape_names) (c :: cs)) as [p|] eqn:Es.
      + rewrite (single_text_expanded _ _ _ Es). split; [discriminate|]. intros _.
        eexists. reflexivity.
      + rewrite <- Ef, has_unexpanded_filter.
        destruct (loop_outcome kids IH (S i) eol (negb (mem_str name no_escape_names)) true ws)
          as [L1 L2].
        split; intros H.
        * rewrite (L1 H). reflexivity.
        * destruct (L2 H) as [ps ->]. eexists. reflexivity.
  Qed.

  Theorem render_unexpanded n i eol :
    is_tag n = true -> has_unexpanded n = true -> render_tag i eol n = Err NotTagified.
  Proof. intros Ht Hu. exact (proj1 (render_tag_outcome n i eol Ht) Hu). Qed.

  Theorem render_expanded_ok n i eol :
    is_tag n = true -> has_unexpanded n = false -> exists ps, render_tag i eol n = Ok ps.
  Proof. intros Ht Hu. exact (proj2 (render_tag_outcome n i eol Ht) Hu). Qed.

  Lemma all_tag_outcome l : Forall tag_outcome l.
  Proof. apply Forall_forall. intros k _. apply render_tag_outcome. Qed.

  Theorem render_list_unexpanded l i eol aw esc :
    existsb has_unexpanded l = true -> render_list i eol aw esc l = Err NotTagified.
  Proof.
    intros H. unfold render_list.
    exact (proj1 (loop_outcome l (all_tag_outcome l) i eol esc true aw) H).
  Qed.

  Theorem render_list_expanded_ok l i eol aw esc :
    existsb has_unexpanded l = false -> exists ps, render_list i eol aw esc l = Ok ps.
  Proof.
    intros H. unfold render_list.
    exact (proj2 (loop_outcome l (all_tag_outcome l) i eol esc true aw) H).
  Qed.

  (* NotTagified is the only failure mode of the renderers *)
  Theorem render_tag_err_only n i eol e :
    is_tag n = true -> render_tag i eol n = Err e -> e = NotTagified.
  Proof.
    intros Ht He. destruct (has_unexpanded n) eqn:Hu.
    - rewrite (render_unexpanded n i eol Ht Hu) in He. congruence.
    - destruct (render_expanded_ok n i eol Ht Hu) as [ps Hp]. congruence.
  Qed.

  Theorem render_list_err_only l i eol aw esc e :
    render_list i eol aw esc l = Err e -> e = NotTagified.
  Proof.
    intros He. destruct (existsb has_unexpanded l) eqn:Hu.
    - rewrite (render_list_unexpanded l i eol aw esc Hu) in He. congruence.
    - destruct (render_list_expanded_ok l i eol aw esc Hu) as [ps Hp]. congruence.
  Qed.

  (* ------------------------------------------------------------------ *)
  (* 6. tagify then render                                               *)
  (* ------------------------------------------------------------------ *)

  Theorem render_after_tagify name ws a kids :
    tag_tagify (TagN name ws a kids) = [TagN name ws a (flat_map subst kids)].
  Proof. rewrite tag_tagify_subst. reflexivity. Qed.

  Lemma no_custom_expanded n : no_custom n = true -> has_unexpanded n = false.
  Proof.
    induction n as [s|s|s|m|name ws a kids IH|sh exp _] using node_ind'; intros H;
      try reflexivity; try discriminate.
    cbn [no_custom] in H. cbn [has_unexpanded].
    induction IH as [|k l Hk _ IHl]; [reflexivity|].
    cbn [forallb] in H. apply andb_true_iff in H. destruct H as [H1 H2].
    cbn [existsb]. rewrite (Hk H1), (IHl H2). reflexivity.
  Qed.

  Lemma no_custom_list_expanded l :
    forallb no_custom l = true -> existsb has_unexpanded l = false.
  Proof.
    induction l as [|k l IH]; intros H; [reflexivity|].
    cbn [forallb] in H. apply andb_true_iff in H. destruct H as [H1 H2].
    cbn [existsb]. rewrite (no_custom_expanded k H1), (IH H2). reflexivity.
  Qed.

  (* when the objects honour the tagify() contract, the tagified tag / list renders *)
  Theorem tagified_tag_renders name ws a kids i eol :
    forallb exp_expanded kids = true ->
    exists ps, render_tag i eol (TagN name ws a (flat_map subst kids)) = Ok ps.
  Proof.
    intros H. apply render_expanded_ok; [reflexivity|].
    cbn [has_unexpanded]. apply no_custom_list_expanded, subst_list_result_no_custom, H.
  Qed.

  Theorem tagified_list_renders l i eol aw esc :
    forallb exp_expanded l = true ->
    exists ps, render_list i eol aw esc (taglist_tagify l) = Ok ps.
  Proof.
    intros H. rewrite taglist_tagify_subst. apply render_list_expanded_ok.
    apply no_custom_list_expanded, subst_list_result_no_custom, H.
  Qed.
End TagifyProofs.

(* C10: dependencies -- constructor validation, collection from a tree, resolution.

   Executable model of (htmltools/_core.py)
     TagList.get_dependencies   463-485      Tag.get_dependencies   942-946
     HTMLDependency.__init__    1573-1633    _validate_dicts / _validate_dict  1786-1801
     _resolve_dependencies      1813-1822
   and of the fragment of packaging.version.Version ordering the property talks about
   (dotted release numbers).  Definitions only.

   Modelled, not verified: packaging.version.Version.  Only versions that consist of a
   dotted release of numbers are modelled; then Version._key = (0, release with trailing
   zeros stripped, +inf markers...) and comparison is tuple comparison of the stripped
   release.  Epochs, pre/post/dev releases and local versions are outside the model. *)
From HT Require Import Model.Str Model.Tree.

(* ------------------------------------------------------------------------------------ *)
(* Versions                                                                             *)
(* ------------------------------------------------------------------------------------ *)

(* packaging: _cmpkey drops the trailing zeros of the release tuple *)
Fixpoint strip0 (v : list N) : list N :=
  match v with
  | [] => []
  | x :: v' => match strip0 v' with
               | [] => if x =? 0 then [] else [x]
               | r => x :: r
               end
  end.

(* Python tuple comparison of int tuples (also used on code points: str comparison) *)
Fixpoint lex_cmp (a b : list N) : comparison :=
  match a, b with
  | [], [] => Eq
  | [], _ :: _ => Lt
  | _ :: _, [] => Gt
  | x :: a', y :: b' => match x ?= y with Eq => lex_cmp a' b' | c => c end
  end.

Definition ver_cmp (a b : list N) : comparison := lex_cmp (strip0 a) (strip0 b).

(* a > b on Version objects *)
Definition ver_gtb (a b : list N) : bool :=
  match ver_cmp a b with Gt => true | _ => false end.

(* Version(s).release for s of the shape digits, dot, digits, ... ; None for any other string
   (which packaging may still accept: outside the model).  int() of a digit run drops
   leading zeros, so 01.2 parses as (1, 2). *)
Fixpoint parse_ver_go (s : str) (cur : option N) (acc : list N) : option (list N) :=
  match s with
  | [] => match cur with Some n => Some (rev (n :: acc)) | None => None end
  | c :: s' =>
    if c =? 46 then
      match cur with Some n => parse_ver_go s' None (n :: acc) | None => None end
    else if (48 <=? c) && (c <=? 57) then
      parse_ver_go s' (Some (10 * (match cur with Some n => n | None => 0 end) + (c - 48))) acc
    else None
  end.
Definition parse_ver (s : str) : option (list N) := parse_ver_go s None [].

(* ------------------------------------------------------------------------------------ *)
(* Dependencies as the resolution sees them                                             *)
(* ------------------------------------------------------------------------------------ *)

(* did is the identity of the Python object (two objects with equal name and version but
   different content have different did; the same object placed twice has the same). *)
Record dep := mkdep { dname : str; dver : list N; did : N }.

(* ------------------------------------------------------------------------------------ *)
(* _resolve_dependencies                                                                 *)
(* ------------------------------------------------------------------------------------ *)

(* An insertion-ordered dict[str, HTMLDependency] as an association list. *)
Definition dict := list (str * dep).

(* map[k]  /  k in map *)
Fixpoint dict_get (k : str) (m : dict) : option dep :=
  match m with
  | [] => None
  | (k', v) :: m' => if str_eqb k' k then Some v else dict_get k m'
  end.

(* map[k] = v : an existing key keeps its position (and its key object), a new key is
   appended *)
Fixpoint dict_set (k : str) (v : dep) (m : dict) : dict :=
  match m with
  | [] => [(k, v)]
  | (k', v') :: m' => if str_eqb k' k then (k', v) :: m' else (k', v') :: dict_set k v m'
  end.

Section Resolve.
  (* dep.version > map[dep.name].version *)
  Variable gtb : list N -> list N -> bool.

  (* one iteration of `for dep in deps:` *)
  Definition resolve_step (m : dict) (d : dep) : dict :=
    match dict_get (dname d) m with
    | None => dict_set (dname d) d m                      (* dep.name not in map *)
    | Some e => if gtb (dver d) (dver e)
                then dict_set (dname d) d m
                else m
    end.

  (* list(map.values()) *)
  Definition resolve_by (deps : list dep) : list dep :=
    map snd (fold_left resolve_step deps []).
End Resolve.

Definition resolve (deps : list dep) : list dep := resolve_by ver_gtb deps.

(* ------------------------------------------------------------------------------------ *)
(* TagList.get_dependencies / Tag.get_dependencies                                       *)
(* ------------------------------------------------------------------------------------ *)

(* the last statement: if dedup: return _resolve_dependencies(deps) else: return deps *)
Definition finish (dedup : bool) (deps : list dep) : list dep :=
  if dedup then resolve deps else deps.

(* What one iteration of `for x in self:` adds to deps:
     isinstance(x, HTMLDependency) -> deps.append(x)
     isinstance(x, Tag)            -> deps.extend(x.get_dependencies(dedup=False))
                                      = x.children.get_dependencies(dedup=False)
     anything else (str, HTML, objects with _repr_html_ or tagify that are not Tags)
                                   -> nothing *)
Fixpoint child_deps (x : node dep) : list dep :=
  match x with
  | Meta d => [d]
  | TagN _ _ _ kids =>
    finish false
      ((fix loop (l : list (node dep)) : list dep :=
          match l with
          | [] => []
          | k :: l' => child_deps k ++ loop l'
          end) kids)
  | _ => []
  end.

(* the loop of TagList.get_dependencies: deps after the for statement *)
Fixpoint collect (l : list (node dep)) : list dep :=
  match l with
  | [] => []
  | x :: l' => child_deps x ++ collect l'
  end.

(* TagList.get_dependencies(dedup=dedup) on a TagList with items l *)
Definition get_dependencies (dedup : bool) (l : list (node dep)) : list dep :=
  finish dedup (collect l).

(* Tag.get_dependencies(dedup) = self.children.get_dependencies(dedup=dedup) *)
Definition tag_get_dependencies (dedup : bool) (t : node dep) : res (list dep) :=
  match t with
  | TagN _ _ _ kids => Ok (get_dependencies dedup kids)
  | _ => Err NotATag
  end.

(* ------------------------------------------------------------------------------------ *)
(* HTMLDependency.__init__ : argument validation                                        *)
(* ------------------------------------------------------------------------------------ *)

(* A dict is seen through its key list (insertion order); values are irrelevant to the
   validation.  Everything that is not a dict is one anonymous value. *)
Inductive item := IDict (keys : list str) | INonDict.

(* source= *)
Inductive src_arg := SrcNone | SrcNonDict | SrcDict (keys : list str).

(* script= / stylesheet= / meta= :
     ANone       None
     ADict k     a single dict
     AIter l     any other iterable, seen as the sequence of its items: a list or tuple of
                 items; a str is iterated character by character, i.e. AIter of as many
                 INonDict as it has characters (so the empty string is AIter [])
     ANonIter    any other object (an int, ...): the for statement of _validate_dicts
                 raises TypeError *)
Inductive arg := ANone | ADict (keys : list str) | AIter (items : list item) | ANonIter.

Record dep_args := mkargs {
  a_name : str;
  a_ver : list N;          (* release of the Version (parse_ver models Version(str)) *)
  a_source : src_arg;
  a_script : arg;
  a_stylesheet : arg;
  a_meta : arg
}.

(* the attributes the constructed object ends up with (dicts as key lists) *)
Record dep_obj := mkobj {
  o_name : str;
  o_ver : list N;
  o_source : option (list str);
  o_script : list (list str);
  o_stylesheet : list (list str);
  o_meta : list (list str)
}.

Definition k_href : str := [104;114;101;102].
Definition k_subdir : str := [115;117;98;100;105;114].
Definition k_src : str := [115;114;99].
Definition k_name : str := [110;97;109;101].
Definition k_content : str := [99;111;110;116;101;110;116].
Definition k_rel : str := [114;101;108].

(* _validate_dict, second half: for a in req_attr: if a not in d: raise KeyError *)
Fixpoint validate_keys (keys : list str) (req : list str) : res unit :=
  match req with
  | [] => Ok tt
  | a :: req' => if mem_str a keys then validate_keys keys req' else Err KeyError
  end.

(* _validate_dict *)
Definition validate_dict (d : item) (req : list str) : res (list str) :=
  match d with
  | INonDict => Err TypeError
  | IDict keys => match validate_keys keys req with Ok _ => Ok keys | Err e => Err e end
  end.

(* _validate_dicts on an iterable; returns the key lists of the (all valid) items *)
Fixpoint validate_dicts (ld : list item) (req : list str) : res (list (list str)) :=
  match ld with
  | [] => Ok []
  | d :: ld' =>
    match validate_dict d req with
    | Err e => Err e
    | Ok k => match validate_dicts ld' req with Ok ks => Ok (k :: ks) | Err e => Err e end
    end
  end.

(* if x is None: x = []  elif isinstance(x, dict): x = [x] ; then _validate_dicts(x, req).
   A non-iterable makes the for statement raise TypeError. *)
Definition normalise (a : arg) : option (list item) :=
  match a with
  | ANone => Some []
  | ADict k => Some [IDict k]
  | AIter l => Some l
  | ANonIter => None
  end.
Definition validate_arg (a : arg) (req : list str) : res (list (list str)) :=
  match normalise a with
  | None => Err TypeError
  | Some ld => validate_dicts ld req
  end.

Definition check_source (s : src_arg) : res (option (list str)) :=
  match s with
  | SrcNone => Ok None
  | SrcNonDict => Err TypeError
  | SrcDict keys =>
    if mem_str k_href keys || mem_str k_subdir keys then Ok (Some keys) else Err TypeError
  end.

(* for s in self.stylesheet: if rel not in s: s[rel] = stylesheet  (a new key goes last;
   this mutates the caller's dict) *)
Definition add_rel (keys : list str) : list str :=
  if mem_str k_rel keys then keys else keys ++ [k_rel].

Definition mk_dep (a : dep_args) : res dep_obj :=
  match check_source (a_source a) with
  | Err e => Err e
  | Ok src =>
    match validate_arg (a_script a) [k_src] with
    | Err e => Err e
    | Ok script =>
      match validate_arg (a_stylesheet a) [k_href] with
      | Err e => Err e
      | Ok sheet =>
        let sheet' := map add_rel sheet in
        match validate_arg (a_meta a) [k_name; k_content] with
        | Err e => Err e
        | Ok meta =>
          Ok {| o_name := a_name a; o_ver := a_ver a; o_source := src;
                o_script := script; o_stylesheet := sheet'; o_meta := meta |}
        end
      end
    end
  end.

Definition set_script (a : dep_args) (x : arg) : dep_args :=
  mkargs (a_name a) (a_ver a) (a_source a) x (a_stylesheet a) (a_meta a).
Definition set_stylesheet (a : dep_args) (x : arg) : dep_args :=
  mkargs (a_name a) (a_ver a) (a_source a) (a_script a) x (a_meta a).
Definition set_meta (a : dep_args) (x : arg) : dep_args :=
  mkargs (a_name a) (a_ver a) (a_source a) (a_script a) (a_stylesheet a) x.

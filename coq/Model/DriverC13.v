(* Entry point of the extracted model for C13: run_c13 : sx -> sx, dispatching on an opcode. *)
From HT Require Import Model.Str Model.Sx Model.Serialize Spec.SerializeSpec Gen.Tables.

Definition sx_pair_str_list (p : str * list str) : sx :=
  L [sx_str (fst p); sx_list sx_str (snd p)].

Definition run_c13 (x : sx) : sx :=
  match x with
  (* 1: json.dumps output -> after .replace(FROM, TO) *)
  | L [A 1; s] =>
    match str_of_sx s with Some s' => sx_str (neutralise s') | None => sx_bad end
  (* 2: json.dumps(s) for a str *)
  | L [A 2; s] =>
    match str_of_sx s with Some s' => sx_str (json_str_enc s') | None => sx_bad end
  (* 3: json.loads(lit) for a string literal *)
  | L [A 3; s] =>
    match str_of_sx s with Some s' => sx_opt sx_str (json_str_dec s') | None => sx_bad end
  (* 4: _static_extract_serialized_html_deps: remaining text, kept payload texts *)
  | L [A 4; s] =>
    match str_of_sx s with Some s' => sx_pair_str_list (extract s') | None => sx_bad end
  (* 5: html.replace(pattern, markup, 1) *)
  | L [A 5; p; m; h] =>
    match str_of_sx p, str_of_sx m, str_of_sx h with
    | Some p', Some m', Some h' => sx_str (textdoc_render p' m' h')
    | _, _, _ => sx_bad
    end
  (* 6: specification: does the text contain an end-tag-like close tag in any letter case *)
  | L [A 6; s] =>
    match str_of_sx s with Some s' => sx_bool (has_close_tag s') | None => sx_bad end
  (* 7: the regenerated literals and the side conditions evaluated on them *)
  | L [A 7] =>
    L [sx_str neutralise_from; sx_str neutralise_to; sx_str extract_opener; sx_str extract_closer;
       sx_list sx_str serialise_keys;
       sx_bool (neutralise_ok neutralise_from neutralise_to);
       sx_bool (neutralise_shape neutralise_from neutralise_to)]
  (* 8: the whole serialised element for a given json.dumps output *)
  | L [A 8; s] =>
    match str_of_sx s with Some s' => sx_str (serialise_json s') | None => sx_bad end
  (* 9: specification: first occurrences in order *)
  | L [A 9; l] =>
    match list_of_sx str_of_sx l with Some l' => sx_list sx_str (stable_unique l') | None => sx_bad end
  (* 10: json.decoder.scanstring(text, 1): decoded literal and the remaining text *)
  | L [A 10; s] =>
    match str_of_sx s with
    | Some s' => sx_opt (fun p => L [sx_str (fst p); sx_str (snd p)]) (read_string s')
    | None => sx_bad
    end
  (* 11: json.dumps of a flat dict of str -> str *)
  | L [A 11; l] =>
    match list_of_sx (fun p => match p with
                               | L [k; v] => match str_of_sx k, str_of_sx v with
                                             | Some k', Some v' => Some (k', v') | _, _ => None end
                               | _ => None end) l with
    | Some l' => sx_str (enc_flat_obj l')
    | None => sx_bad
    end
  (* 12: raw_decode of a flat object: members in order and the remaining text *)
  | L [A 12; s] =>
    match str_of_sx s with
    | Some s' => sx_opt (fun p => L [sx_list (fun kv => L [sx_str (fst kv); sx_str (snd kv)]) (fst p);
                                     sx_str (snd p)]) (dec_flat_obj s')
    | None => sx_bad
    end
  (* 13: json.dumps of a list of flat dicts of str -> str *)
  | L [A 13; l] =>
    match list_of_sx (list_of_sx (fun p => match p with
                               | L [k; v] => match str_of_sx k, str_of_sx v with
                                             | Some k', Some v' => Some (k', v') | _, _ => None end
                               | _ => None end)) l with
    | Some l' => sx_str (enc_obj_list l')
    | None => sx_bad
    end
  (* 14: raw_decode of a list of flat objects *)
  | L [A 14; s] =>
    match str_of_sx s with
    | Some s' => sx_opt (fun p => L [sx_list (sx_list (fun kv => L [sx_str (fst kv); sx_str (snd kv)])) (fst p);
                                     sx_str (snd p)]) (dec_obj_list s')
    | None => sx_bad
    end
  | _ => sx_bad
  end.

(* Model of attribute handling in htmltools/_core.py:
     TagAttrDict.__init__ / __setitem__ / update / _normalize_attr_name /
     _normalize_attr_value (lines 514-586), Tag.__init__ (657-681, the split of the
     positional arguments), HTML.__add__ / __radd__ (1395-1412), consolidate_attrs
     (1882-1917).  Definitions only; statement by statement after the code. *)
From HT Require Import Model.Str Model.Tree Model.Escape.

(* A Python value given for an attribute.  Numbers carry Python's own str(x) text
   (number formatting is not modelled).  VBad = a value of any other type (list,
   object, ...), for which the code raises TypeError.  VBool is the two singletons
   True / False (tested with `is` before the isinstance(int) test, so the int 1 is
   VInt with text 1, not VBool true). *)
Inductive attrarg :=
| VNone
| VBool (b : bool)
| VInt (repr : str)
| VFloat (repr : str)
| VStr (s : str)
| VHtml (s : str)
| VBad.

(* A dict argument / the kwargs: items() in insertion order. *)
Definition pydict := list (str * attrarg).

(* ---- _normalize_attr_name ------------------------------------------------------ *)
(* x.endswith(_) *)
Fixpoint ends_with_us (x : str) : bool :=
  match x with
  | [] => false
  | [c] => N.eqb c 95
  | _ :: x' => ends_with_us x'
  end.

(* if x.endswith(_): x = x[:-1]
   return x.replace(_, -) *)
Definition norm_name (x : str) : str :=
  let x1 := if ends_with_us x then removelast x else x in
  replace1 95 [45] x1.

(* ---- _normalize_attr_value ----------------------------------------------------- *)
Definition norm_value (x : attrarg) : res (option aval) :=
  match x with
  | VNone => Ok None                        (* x is None            *)
  | VBool false => Ok None                  (* x is False           *)
  | VBool true => Ok (Some (AStr []))       (* x is True -> empty   *)
  | VStr s => Ok (Some (AStr s))            (* isinstance str       *)
  | VHtml s => Ok (Some (AHtml s))          (* isinstance HTML      *)
  | VInt r => Ok (Some (AStr r))            (* isinstance int: str(x)   *)
  | VFloat r => Ok (Some (AStr r))          (* isinstance float: str(x) *)
  | VBad => Err TypeError
  end.

(* ---- Python + between str and HTML --------------------------------------------- *)
(* str + str: concatenation.
   HTML + HTML: HTML.__add__, isinstance(other, HTML): plain concatenation.
   HTML + str:  HTML.__add__, else branch: HTML(self + html_escape(str(other))).
   str + HTML:  str.__add__ gives NotImplemented, so HTML.__radd__:
                HTML(html_escape(str(other)) + self).
   html_escape is called with attr=False (its default). *)
Definition py_add (a b : aval) : aval :=
  match a, b with
  | AStr x, AStr y => AStr (x ++ y)
  | AHtml x, AHtml y => AHtml (x ++ y)
  | AHtml x, AStr y => AHtml (x ++ html_escape false y)
  | AStr x, AHtml y => AHtml (html_escape false x ++ y)
  end.

Definition space : aval := AStr [32].

(* ---- insertion-ordered dict primitives ----------------------------------------- *)
(* d[k] lookup / `k in d` *)
Fixpoint lookup (k : str) (m : attrs) : option aval :=
  match m with
  | [] => None
  | (k', v) :: m' => if str_eqb k k' then Some v else lookup k m'
  end.

(* dict.__setitem__(d, k, v): existing key keeps its position, value replaced;
   a new key is appended *)
Fixpoint set_item (k : str) (v : aval) (m : attrs) : attrs :=
  match m with
  | [] => [(k, v)]
  | (k', v') :: m' => if str_eqb k k' then (k', v) :: m' else (k', v') :: set_item k v m'
  end.

(* dict.update(self, other) *)
Definition dict_update (self new : attrs) : attrs :=
  fold_left (fun m kv => set_item (fst kv) (snd kv) m) new self.

(* ---- TagAttrDict.update -------------------------------------------------------- *)
(* isinstance(v, HTML) *)
Definition aval_is_html (v : aval) : bool :=
  match v with AHtml _ => true | AStr _ => false end.

(* if not isinstance(v, HTML): v = HTML(html_escape(v, attr=True)) *)
Definition coerce_html (v : aval) : aval :=
  match v with
  | AStr s => AHtml (html_escape true s)
  | AHtml s => AHtml s
  end.

(* old = attrz[nm]
   if isinstance(old, HTML) or isinstance(val, HTML):
       if not isinstance(old, HTML): old = HTML(html_escape(old, attr=True))
       if not isinstance(val, HTML): val = HTML(html_escape(val, attr=True))
   val = old + space + val                      -- (old + space) + val, Python + *)
Definition merge_vals (old val : aval) : aval :=
  let old' := if aval_is_html old || aval_is_html val then coerce_html old else old in
  let val' := if aval_is_html old || aval_is_html val then coerce_html val else val in
  py_add (py_add old' space) val'.

(* for k, v in arg.items():
       val = normalize_value(v);  if val is None: continue
       nm = normalize_name(k)
       if nm in attrz: val = merge of attrz[nm] and val (above)
       attrz[nm] = val *)
Fixpoint update_items (items : pydict) (attrz : attrs) : res attrs :=
  match items with
  | [] => Ok attrz
  | (k, v) :: rest =>
    match norm_value v with
    | Err e => Err e
    | Ok None => update_items rest attrz
    | Ok (Some val) =>
      let nm := norm_name k in
      let val' := match lookup nm attrz with
                  | Some old => merge_vals old val
                  | None => val
                  end in
      update_items rest (set_item nm val' attrz)
    end
  end.

(* for arg in args: ... *)
Fixpoint update_args (args : list pydict) (attrz : attrs) : res attrs :=
  match args with
  | [] => Ok attrz
  | d :: rest =>
    match update_items d attrz with
    | Err e => Err e
    | Ok a => update_args rest a
    end
  end.

(* The state of a TagAttrDict after a method call, and the exception raised (if any).
   if kwargs: args = args + (kwargs,)
   attrz = {} ; loops ; super().update(attrz)
   An exception leaves the loops before super().update is reached. *)
Definition attrs_update (self : attrs) (args : list pydict) (kwargs : pydict)
  : attrs * option err :=
  let args' := match kwargs with [] => args | _ => args ++ [kwargs] end in
  match update_args args' [] with
  | Err e => (self, Some e)
  | Ok attrz => (dict_update self attrz, None)
  end.

(* val = normalize_value(value)
   if val is not None: nm = normalize_name(name); super().__setitem__(nm, val) *)
Definition attrs_setitem (self : attrs) (k : str) (v : attrarg) : attrs * option err :=
  match norm_value v with
  | Err e => (self, Some e)
  | Ok None => (self, None)
  | Ok (Some val) => (set_item (norm_name k) val self, None)
  end.

(* TagAttrDict( *args, **kwargs ): super().__init__(); self.update of the same arguments *)
Definition attrs_new (args : list pydict) (kwargs : pydict) : res attrs :=
  match attrs_update [] args kwargs with
  | (a, None) => Ok a
  | (_, Some e) => Err e
  end.

(* ---- operation sequences on one TagAttrDict ------------------------------------- *)
Inductive op :=
| OpUpdate (args : list pydict) (kwargs : pydict)     (* attrs.update( *args, **kwargs ) *)
| OpSet (k : str) (v : attrarg).                      (* attrs[k] = v                  *)

Definition step (st : attrs) (o : op) : attrs * option err :=
  match o with
  | OpUpdate args kw => attrs_update st args kw
  | OpSet k v => attrs_setitem st k v
  end.

(* each operation in its own try/except; the trace lists the state after every
   operation together with the exception it raised *)
Fixpoint run_ops (st : attrs) (ops : list op) : list (attrs * option err) :=
  match ops with
  | [] => []
  | o :: ops' => let r := step st o in r :: run_ops (fst r) ops'
  end.

Definition final_state (st : attrs) (ops : list op) : attrs :=
  fold_left (fun s o => fst (step s o)) ops st.

(* ---- Tag.__init__ (attribute part) and consolidate_attrs ------------------------ *)
(* A positional argument is an attribute dict (isinstance(x, dict)) or a child; children
   are opaque here (what TagList does with them is another property). *)
Inductive posarg (C : Type) := PDict (d : pydict) | PChild (c : C).
Arguments PDict {C} d.
Arguments PChild {C} c.

(* attrs = [x for x in args if isinstance(x, dict)] *)
Fixpoint dict_args {C} (args : list (posarg C)) : list pydict :=
  match args with
  | [] => []
  | PDict d :: r => d :: dict_args r
  | PChild _ :: r => dict_args r
  end.
(* kids = [x for x in args if not isinstance(x, dict)] *)
Fixpoint kid_args {C} (args : list (posarg C)) : list C :=
  match args with
  | [] => []
  | PDict _ :: r => kid_args r
  | PChild c :: r => c :: kid_args r
  end.

(* Tag(name, *args, **kwargs): (tag.attrs, the arguments handed to TagList) *)
Definition tag_new {C} (args : list (posarg C)) (kwargs : pydict) : res (attrs * list C) :=
  match attrs_new (dict_args args) kwargs with
  | Err e => Err e
  | Ok a => Ok (a, kid_args args)
  end.

(* tag = Tag(consolidate_attrs, *args, **kwargs); attrs = dict(tag.attrs)
   children = [child for child in args if not isinstance(child, dict)] *)
Definition consolidate {C} (args : list (posarg C)) (kwargs : pydict) : res (attrs * list C) :=
  match tag_new args kwargs with
  | Err e => Err e
  | Ok (a, _) => Ok (a, kid_args args)
  end.

(* the plain dict returned by consolidate_attrs, used again as a dict argument *)
Definition arg_of_aval (v : aval) : attrarg :=
  match v with AStr s => VStr s | AHtml s => VHtml s end.
Definition dict_of_attrs (a : attrs) : pydict :=
  map (fun kv => (fst kv, arg_of_aval (snd kv))) a.

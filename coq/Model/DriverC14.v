(* Entry point of the extracted C14 model: run_c14 : sx -> sx.
   Wire format (kept in sync with harness/props/C14.py):
     pyval  (0) None  (1 s) int with str()=s  (2 s) float  (3 b) bool  (4 s) str  (5 s) HTML
            (6 id) Tag  (7 id) MetadataNode  (8 id) _repr_html_ object  (9 id) tagify object
            (10 l) list  (11 l) tuple  (12 l) TagList  (13 id) unsupported object
     node   (0 s) text  (1 s) HTML  (2 kind id) object, kind 0 Tag 1 Meta 2 Repr 3 Custom
     Z      (0 n) = n   (1 n) = -n          option: () | (x)
     op     (0 args) construct  (1 item args) append  (2 x) extend  (3 z item) insert
            (4 x) +  (5 x) reflected +  (6 x) +=  (7 oz oz oz) slice  (8 z) *  (9 z) *=
            (10) copy()
   Opcodes:
     (1 state ops)  model trace: per step (receiver-after  res(result))
     (2 args)       spec: flat_spec args
     (3 x)          (is_tag_child x, is_tag_node x, spec flat_iterable x, model tagchilds_to_tagnodes x)
     (4 nodes ops)  spec trace: per step res(op_spec), threaded with step_spec
     (5)            the two repair flags of the model *)
From Coq Require Import ZArith.
From HT Require Import Model.Str Model.Sx Model.Tree Model.Codec Model.TagListOps
     Spec.FlattenSpec.

Fixpoint pyval_of_sx (x : sx) {struct x} : option pyval :=
  let items := fix go (l : list sx) : option (list pyval) :=
                 match l with
                 | [] => Some []
                 | k :: l' => match pyval_of_sx k, go l' with
                              | Some v, Some vs => Some (v :: vs)
                              | _, _ => None
                              end
                 end in
  match x with
  | A _ => None
  | L l =>
    match l with
    | [A 0] => Some PNone
    | [A 1; s] => option_map PInt (str_of_sx s)
    | [A 2; s] => option_map PFloat (str_of_sx s)
    | [A 3; b] => option_map PBool (bool_of_sx b)
    | [A 4; s] => option_map PStr (str_of_sx s)
    | [A 5; s] => option_map PHtml (str_of_sx s)
    | [A 6; A i] => Some (PNodeTag i)
    | [A 7; A i] => Some (PNodeMeta i)
    | [A 8; A i] => Some (PNodeRepr i)
    | [A 9; A i] => Some (PNodeCustom i)
    | [A 10; L its] => option_map PList (items its)
    | [A 11; L its] => option_map PTuple (items its)
    | [A 12; L its] => option_map PTagList (items its)
    | [A 13; A i] => Some (PBad i)
    | _ => None
    end
  end.

Fixpoint sx_pyval (v : pyval) : sx :=
  match v with
  | PNone => L [A 0]
  | PInt s => L [A 1; sx_str s]
  | PFloat s => L [A 2; sx_str s]
  | PBool b => L [A 3; sx_bool b]
  | PStr s => L [A 4; sx_str s]
  | PHtml s => L [A 5; sx_str s]
  | PNodeTag i => L [A 6; A i]
  | PNodeMeta i => L [A 7; A i]
  | PNodeRepr i => L [A 8; A i]
  | PNodeCustom i => L [A 9; A i]
  | PList l => L [A 10; L (map sx_pyval l)]
  | PTuple l => L [A 11; L (map sx_pyval l)]
  | PTagList l => L [A 12; L (map sx_pyval l)]
  | PBad i => L [A 13; A i]
  end.

Definition sx_state (st : list pyval) : sx := L (map sx_pyval st).

Definition kind_of_N (k : N) : option okind :=
  match k with 0 => Some KTag | 1 => Some KMeta | 2 => Some KRepr | 3 => Some KCustom | _ => None end.
Definition N_of_kind (k : okind) : N :=
  match k with KTag => 0 | KMeta => 1 | KRepr => 2 | KCustom => 3 end.

Definition tnode_of_sx (x : sx) : option node :=
  match x with
  | L [A 0; s] => option_map NText (str_of_sx s)
  | L [A 1; s] => option_map NHtml (str_of_sx s)
  | L [A 2; A k; A i] => option_map (fun k' => NObj k' i) (kind_of_N k)
  | _ => None
  end.
Definition sx_tnode (n : node) : sx :=
  match n with
  | NText s => L [A 0; sx_str s]
  | NHtml s => L [A 1; sx_str s]
  | NObj k i => L [A 2; A (N_of_kind k); A i]
  end.
Definition sx_tnodes (l : list node) : sx := L (map sx_tnode l).

Definition z_of_sx (x : sx) : option Z :=
  match x with
  | L [A 0; A n] => Some (Z.of_N n)
  | L [A 1; A n] => Some (- Z.of_N n)%Z
  | _ => None
  end.

Definition op_of_sx (x : sx) : option op :=
  match x with
  | L [A 0; args] => option_map OConstruct (list_of_sx pyval_of_sx args)
  | L [A 1; item; args] =>
      match pyval_of_sx item, list_of_sx pyval_of_sx args with
      | Some i, Some a => Some (OAppend i a)
      | _, _ => None
      end
  | L [A 2; v] => option_map OExtend (pyval_of_sx v)
  | L [A 3; z; v] =>
      match z_of_sx z, pyval_of_sx v with
      | Some i, Some v' => Some (OInsert i v')
      | _, _ => None
      end
  | L [A 4; v] => option_map OAdd (pyval_of_sx v)
  | L [A 5; v] => option_map ORadd (pyval_of_sx v)
  | L [A 6; v] => option_map OIadd (pyval_of_sx v)
  | L [A 7; a; b; s] =>
      match opt_of_sx z_of_sx a, opt_of_sx z_of_sx b, opt_of_sx z_of_sx s with
      | Some a', Some b', Some s' => Some (OSlice a' b' s')
      | _, _, _ => None
      end
  | L [A 8; z] => option_map OMul (z_of_sx z)
  | L [A 9; z] => option_map OImul (z_of_sx z)
  | L [A 10] => Some OCopy
  | _ => None
  end.

Fixpoint model_trace (ops : list op) (st : state) : list sx :=
  match ops with
  | [] => []
  | o :: ops' =>
      let r := exec_op o st in
      L [sx_state (fst r); sx_res sx_state (snd r)] :: model_trace ops' (step st o)
  end.

Fixpoint spec_trace (ops : list op) (ns : list node) : list sx :=
  match ops with
  | [] => []
  | o :: ops' => sx_res sx_tnodes (op_spec o ns) :: spec_trace ops' (step_spec ns o)
  end.

Definition run_c14 (x : sx) : sx :=
  match x with
  | L [A 1; st; ops] =>
    match list_of_sx pyval_of_sx st, list_of_sx op_of_sx ops with
    | Some st', Some ops' => L (model_trace ops' st')
    | _, _ => sx_bad
    end
  | L [A 2; args] =>
    match list_of_sx pyval_of_sx args with
    | Some a => sx_res sx_tnodes (flat_spec a)
    | None => sx_bad
    end
  | L [A 3; v] =>
    match pyval_of_sx v with
    | Some v' => L [sx_bool (is_tag_child v'); sx_bool (is_tag_node v');
                    sx_res sx_tnodes (flat_iterable v');
                    sx_res sx_state (tagchilds_to_tagnodes v')]
    | None => sx_bad
    end
  | L [A 4; ns; ops] =>
    match list_of_sx tnode_of_sx ns, list_of_sx op_of_sx ops with
    | Some ns', Some ops' => L (spec_trace ops' ns')
    | _, _ => sx_bad
    end
  | L [A 5] => L [sx_bool iadd_delegates_to_extend; sx_bool child_tuple_has_int]
  | _ => sx_bad
  end.

(* Model of the class/style helpers of htmltools._core.Tag (add_class, remove_class,
   has_class, add_style), of the part of TagAttrDict they use (update, get, pop) and of
   htmltools._util.css.  Definitions only.

   The tag state relevant to these helpers is the attribute map: a Python dict, i.e. an
   insertion-ordered association list with distinct keys, `attrs` of Model/Tree.v. *)
From HT Require Import Model.Str Model.Tree Model.Escape.

(* ------------------------------------------------------------------------------- *)
(* Python string primitives used by the helpers                                     *)
(* ------------------------------------------------------------------------------- *)

(* The code points c with chr(c).isspace(): what str.split() with no argument splits on
   and what str.strip() with no argument strips.  A literal list; the harness compares it
   with str.isspace over every code point. *)
Definition ws_list : list N :=
  [9; 10; 11; 12; 13; 28; 29; 30; 31; 32; 133; 160; 5760;
   8192; 8193; 8194; 8195; 8196; 8197; 8198; 8199; 8200; 8201; 8202;
   8232; 8233; 8239; 8287; 12288].
Definition is_ws (c : N) : bool := existsb (N.eqb c) ws_list.

Definition nonempty (s : str) : bool := match s with [] => false | _ => true end.

(* s.split(): maximal runs of non-whitespace characters, in order.  cur is the run being
   collected. *)
Fixpoint split_acc (cur : str) (s : str) : list str :=
  match s with
  | [] => if nonempty cur then [cur] else []
  | c :: s' =>
    if is_ws c
    then (if nonempty cur then cur :: split_acc [] s' else split_acc [] s')
    else split_acc (cur ++ [c]) s'
  end.
Definition split_ws (s : str) : list str := split_acc [] s.

(* s.lstrip(), s.rstrip(), s.strip() *)
Fixpoint lstrip (s : str) : str :=
  match s with
  | [] => []
  | c :: s' => if is_ws c then lstrip s' else s
  end.
Definition rstrip (s : str) : str := rev (lstrip (rev s)).
Definition strip (s : str) : str := rstrip (lstrip s).

(* s.endswith(c) for a one-character c *)
Fixpoint ends_with_char (c : N) (s : str) : bool :=
  match s with
  | [] => false
  | [x] => N.eqb x c
  | _ :: s' => ends_with_char c s'
  end.

(* ------------------------------------------------------------------------------- *)
(* str | HTML values and their `+`                                                  *)
(* ------------------------------------------------------------------------------- *)
Definition aval_str (v : aval) : str := match v with AStr s => s | AHtml s => s end.
Definition truthy (v : aval) : bool := nonempty (aval_str v).   (* bool(x) = len(x) != 0 *)

(* Which table the non-HTML operand of a merge involving HTML() is escaped with.
   TagAttrDict.update converts a plain operand with HTML(html_escape(x, attr=True)) before
   the + when either operand is HTML() (repaired code, fix for finding F1), so the merge
   behaves as Python + with the ATTRIBUTE table; the space in between escapes to itself. *)
Definition merge_attr_mode : bool := true.
Definition esc (s : str) : str := html_escape merge_attr_mode s.

(* x + y for x, y in str | HTML:
   str + str -> str; HTML + HTML -> HTML(concatenation);
   HTML + str -> HTML.__add__ -> HTML(x + html_escape(y));
   str + HTML -> str.__add__ gives NotImplemented -> HTML.__radd__ -> HTML(html_escape(x) + y) *)
Definition py_add (x y : aval) : aval :=
  match x, y with
  | AStr a, AStr b => AStr (a ++ b)
  | AHtml a, AHtml b => AHtml (a ++ b)
  | AHtml a, AStr b => AHtml (a ++ esc b)
  | AStr a, AHtml b => AHtml (esc a ++ b)
  end.

(* attrz[nm] + SPACE + val   (left associative) *)
Definition join_sp (old v : aval) : aval := py_add (py_add old (AStr [32])) v.

(* ------------------------------------------------------------------------------- *)
(* dict primitives on the association list                                          *)
(* ------------------------------------------------------------------------------- *)
Fixpoint attr_get (k : str) (a : attrs) : option aval :=          (* d.get(k) *)
  match a with
  | [] => None
  | (k', v) :: a' => if str_eqb k' k then Some v else attr_get k a'
  end.

(* d[k] = v : an existing key keeps its position, a new key goes to the end *)
Fixpoint attr_set (k : str) (v : aval) (a : attrs) : attrs :=
  match a with
  | [] => [(k, v)]
  | (k', v') :: a' => if str_eqb k' k then (k', v) :: a' else (k', v') :: attr_set k v a'
  end.

Definition attr_remove (k : str) (a : attrs) : attrs :=
  filter (fun kv => negb (str_eqb (fst kv) k)) a.

(* d.pop(k) with no default: KeyError when absent (the popped value is not used) *)
Definition attr_pop (k : str) (a : attrs) : res attrs :=
  match attr_get k a with
  | None => Err KeyError
  | Some _ => Ok (attr_remove k a)
  end.

(* ------------------------------------------------------------------------------- *)
(* TagAttrDict.update of several dicts                                                       *)
(* ------------------------------------------------------------------------------- *)

(* _normalize_attr_name: if x ends with an underscore drop it; then replace every
   underscore by a hyphen *)
Definition norm_attr_name (x : str) : str :=
  replace1 95 [45] (if ends_with_char 95 x then removelast x else x).

(* The values these helpers pass are None, str or HTML: _normalize_attr_value returns
   None for None and the value itself for str / HTML. *)
Definition norm_attr_value (v : option aval) : option aval := v.

(* for arg in args: for k, v in arg.items(): ... attrz[nm] = val *)
Fixpoint accumulate (attrz : attrs) (items : list (str * option aval)) : attrs :=
  match items with
  | [] => attrz
  | (k, v) :: rest =>
    match norm_attr_value v with
    | None => accumulate attrz rest                              (* continue *)
    | Some val =>
      let nm := norm_attr_name k in
      let val' := match attr_get nm attrz with
                  | Some old => join_sp old val                  (* attrz[nm] + SPACE + val *)
                  | None => val
                  end in
      accumulate (attr_set nm val' attrz) rest
    end
  end.

(* super().update(attrz) *)
Definition dict_update (st attrz : attrs) : attrs :=
  fold_left (fun s kv => attr_set (fst kv) (snd kv) s) attrz st.

Definition attrs_update (st : attrs) (dicts : list (list (str * option aval))) : attrs :=
  dict_update st (accumulate [] (concat dicts)).

(* ------------------------------------------------------------------------------- *)
(* Tag.add_class / remove_class / has_class / add_style                             *)
(* ------------------------------------------------------------------------------- *)
Definition k_class : str := [99; 108; 97; 115; 115].
Definition k_style : str := [115; 116; 121; 108; 101].

Definition add_class (st : attrs) (c : aval) (prepend : bool) : attrs :=
  if prepend
  then attrs_update st [[(k_class, Some c)]; [(k_class, attr_get k_class st)]]
  else attrs_update st [[(k_class, attr_get k_class st)]; [(k_class, Some c)]].

Definition remove_class (st : attrs) (c : str) : res attrs :=
  if negb (nonempty c) then Ok st                                 (* if not class_: return self *)
  else
    let cls := match attr_get k_class st with                     (* get(class) or empty str *)
               | Some v => if truthy v then v else AStr []
               | None => AStr []
               end in
    if negb (truthy cls) then Ok st                               (* if not cls: return self *)
    else
      let c' := strip c in                                        (* str(class_).strip() *)
      let new_classes := filter (fun t => negb (str_eqb t c')) (split_ws (aval_str cls)) in
      match new_classes with
      | _ :: _ => Ok (attrs_update st [[(k_class, Some (AStr (join [32] new_classes)))]])
      | [] => attr_pop k_class st
      end.

Definition has_class (st : attrs) (c : str) : bool :=
  match attr_get k_class st with
  | Some v => if truthy v then mem_str c (split_ws (aval_str v)) else false
  | None => false
  end.

(* style : None | str | HTML (None is what css() returns when nothing remains; it skips
   the isinstance guard and is then dropped by update) *)
Definition add_style (st : attrs) (style : option aval) (prepend : bool) : res attrs :=
  let bad := match style with
             | Some v => negb (ends_with_char 59 (aval_str v))
             | None => false
             end in
  if bad then Err ValueError
  else if prepend
  then Ok (attrs_update st [[(k_style, style)]; [(k_style, attr_get k_style st)]])
  else Ok (attrs_update st [[(k_style, attr_get k_style st)]; [(k_style, style)]]).

(* Histories: a caller that catches the ValueError and goes on. *)
Inductive op :=
| OAddClass (c : aval) (prepend : bool)
| ORemoveClass (c : str)
| OAddStyle (s : option aval) (prepend : bool).

Definition step (st : attrs) (o : op) : attrs :=
  match o with
  | OAddClass c p => add_class st c p
  | ORemoveClass c => match remove_class st c with Ok st' => st' | Err _ => st end
  | OAddStyle s p => match add_style st s p with Ok st' => st' | Err _ => st end
  end.
Definition run_ops (st : attrs) (ops : list op) : attrs := fold_left step ops st.

(* ------------------------------------------------------------------------------- *)
(* css(collapse_, **kwargs)                                                         *)
(* ------------------------------------------------------------------------------- *)

(* A keyword value after the `v is None` test: a list (items: Some s for a str item, None
   for an item str.join rejects) or anything else, given as its str() text. *)
Inductive cssval := CStr (s : str) | CList (l : list (option str)).

Fixpoint all_some {T} (l : list (option T)) : option (list T) :=
  match l with
  | [] => Some []
  | Some x :: l' => match all_some l' with Some r => Some (x :: r) | None => None end
  | None :: _ => None
  end.

(* SPACE.join(v) if isinstance(v, list) else str(v) *)
Definition css_value (v : cssval) : res str :=
  match v with
  | CStr s => Ok s
  | CList l => match all_some l with Some l' => Ok (join [32] l') | None => Err TypeError end
  end.

(* re.sub(underscore, hyphen, re.sub([A-Z], hyphen + the letter, k).lower()) for ASCII k *)
Definition is_upper (c : N) : bool := (65 <=? c) && (c <=? 90).
Definition hyphen_caps (k : str) : str :=
  flat_map (fun c => if is_upper c then [45; c] else [c]) k.
Definition norm_key (k : str) : str := replace1 95 [45] (lower (hyphen_caps k)).

Fixpoint css_loop (collapse acc : str) (kw : list (str * option cssval)) : res str :=
  match kw with
  | [] => Ok acc
  | (k, None) :: kw' => css_loop collapse acc kw'               (* continue *)
  | (k, Some v) :: kw' =>
    match css_value v with
    | Err e => Err e
    | Ok v' => css_loop collapse (acc ++ norm_key k ++ [58] ++ v' ++ [59] ++ collapse) kw'
    end
  end.

(* collapse = None stands for a collapse_ argument that is not a str *)
Definition css (collapse : option str) (kw : list (str * option cssval)) : res (option str) :=
  match collapse with
  | None => Err TypeError
  | Some c =>
    match css_loop c [] kw with
    | Err e => Err e
    | Ok r => Ok (if nonempty r then Some r else None)
    end
  end.

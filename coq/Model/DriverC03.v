(* Entry point of the extracted model for C03: run_c03 : sx -> sx.
   Opcodes (kept in sync with harness/props/C03.py):
     1  scenario: Tag(div, positional dicts, kwargs), then a sequence of operations
          0 attrs.update(dicts, kwargs)   1 attrs[k] = v
          2 add_class(c, prepend)         3 add_style(s, prepend)  (s must end with ;)
        returns (construction error or the text the attribute writer emits for the final
        attribute map, one entry per attribute)
     2  html_escape(s, attr=True): model, spec, decoded again
     3  program: several tags built one after the other; an attribute-dict argument of a later
        construction / update may be the attribute map of an earlier tag (given back as a
        mapping: tag.attrs itself, dict(tag.attrs), the dict returned by consolidate_attrs,
        the attrs of a copy, expanded into keywords ...), or that of the tag operated on.
        Additional operations: 4 item-assign every item of such a map, 5 add_class of the
        class value of such a map.  Returns, per tag, what opcode 1 returns. *)
From HT Require Import Model.Str Model.Sx Model.Tree Model.Codec Model.Escape Model.Render
     Model.Attrs Model.DriverC15 Spec.CharMap.

Inductive op3 :=
| O3Base (o : op)
| O3AddClass (c : attrarg) (prepend : bool)
| O3AddStyle (s : attrarg) (prepend : bool).

Definition op3_of_sx (x : sx) : option op3 :=
  match x with
  | L [A 2; c; p] => match attrarg_of_sx c, bool_of_sx p with
                     | Some c', Some p' => Some (O3AddClass c' p')
                     | _, _ => None
                     end
  | L [A 3; c; p] => match attrarg_of_sx c, bool_of_sx p with
                     | Some c', Some p' => Some (O3AddStyle c' p')
                     | _, _ => None
                     end
  | other => option_map O3Base (op_of_sx other)
  end.

(* self.attrs.get(name) as an attribute argument (None when absent) *)
Definition get_arg (name : str) (st : attrs) : attrarg :=
  match lookup name st with Some v => arg_of_aval v | None => VNone end.

(* add_class / add_style: attrs.update of two one-item dicts (htmltools/_core.py 747-751,
   838-842); the semicolon check of add_style is C16's subject, the harness only passes
   declarations that end with one *)
Definition helper_update (name : str) (v : attrarg) (prepend : bool) (st : attrs)
  : attrs * option err :=
  if prepend then attrs_update st [[(name, v)]; [(name, get_arg name st)]] []
  else attrs_update st [[(name, get_arg name st)]; [(name, v)]] [].

Definition step3 (st : attrs) (o : op3) : attrs * option err :=
  match o with
  | O3Base b => step st b
  | O3AddClass c p => helper_update [99;108;97;115;115] c p st
  | O3AddStyle s p => helper_update [115;116;121;108;101] s p st
  end.

Definition final3 (st : attrs) (ops : list op3) : attrs :=
  fold_left (fun s o => fst (step3 s o)) ops st.

(* ---- programs: attribute maps flowing from one tag into another ------------------------- *)
(* a dict argument: a literal dict, or the attribute map of tag number k of the program as a
   mapping (dict_of_attrs: the stored values, marks included) *)
Inductive darg := DLit (d : pydict) | DRef (k : nat).

Definition darg_of_sx (x : sx) : option darg :=
  match x with
  | L [A 0; d] => option_map DLit (pydict_of_sx d)
  | L [A 1; k] => option_map DRef (nat_of_sx k)
  | _ => None
  end.

Definition resolve (sts : list attrs) (d : darg) : pydict :=
  match d with
  | DLit d' => d'
  | DRef k => dict_of_attrs (nth k sts [])
  end.

Inductive pop :=
| PUpdate (ds : list darg) (kw : darg)
| PSet (k : str) (v : attrarg)
| PAddClass (c : attrarg) (prepend : bool)
| PAddStyle (s : attrarg) (prepend : bool)
| PSetAll (k : nat)                       (* for n, v in list(m.items()): t.attrs[n] = v *)
| PAddClassOf (k : nat) (prepend : bool). (* t.add_class(m.get(class), prepend=...)       *)

Definition pop_of_sx (x : sx) : option pop :=
  match x with
  | L [A 0; ds; kw] => match list_of_sx darg_of_sx ds, darg_of_sx kw with
                       | Some ds', Some kw' => Some (PUpdate ds' kw')
                       | _, _ => None
                       end
  | L [A 1; k; v] => match str_of_sx k, attrarg_of_sx v with
                     | Some k', Some v' => Some (PSet k' v')
                     | _, _ => None
                     end
  | L [A 2; c; p] => match attrarg_of_sx c, bool_of_sx p with
                     | Some c', Some p' => Some (PAddClass c' p')
                     | _, _ => None
                     end
  | L [A 3; c; p] => match attrarg_of_sx c, bool_of_sx p with
                     | Some c', Some p' => Some (PAddStyle c' p')
                     | _, _ => None
                     end
  | L [A 4; k] => option_map PSetAll (nat_of_sx k)
  | L [A 5; k; p] => match nat_of_sx k, bool_of_sx p with
                     | Some k', Some p' => Some (PAddClassOf k' p')
                     | _, _ => None
                     end
  | _ => None
  end.

Definition cls : str := [99;108;97;115;115].

(* earlier: the final maps of the tags built before; the tag operated on has the next
   number, so a reference to it sees its current map *)
Definition pstep (earlier : list attrs) (st : attrs) (o : pop) : attrs :=
  let sts := earlier ++ [st] in
  match o with
  | PUpdate ds kw => fst (attrs_update st (map (resolve sts) ds) (resolve sts kw))
  | PSet k v => fst (attrs_setitem st k v)
  | PAddClass c p => fst (helper_update cls c p st)
  | PAddStyle s p => fst (helper_update [115;116;121;108;101] s p st)
  | PSetAll k =>
    fold_left (fun s kv => fst (attrs_setitem s (fst kv) (snd kv))) (resolve sts (DRef k)) st
  | PAddClassOf k p => fst (helper_update cls (get_arg cls (nth k sts [])) p st)
  end.

Record stage := { st_dicts : list darg; st_kw : darg; st_ops : list pop }.

Definition stage_of_sx (x : sx) : option stage :=
  match x with
  | L [ds; kw; ops] =>
    match list_of_sx darg_of_sx ds, darg_of_sx kw, list_of_sx pop_of_sx ops with
    | Some ds', Some kw', Some ops' => Some {| st_dicts := ds'; st_kw := kw'; st_ops := ops' |}
    | _, _, _ => None
    end
  | _ => None
  end.

(* a construction that raises leaves no tag: the harness continues with an attribute-less one *)
Definition run_stage (earlier : list attrs) (s : stage) : res attrs :=
  match attrs_new (map (resolve earlier) (st_dicts s)) (resolve earlier (st_kw s)) with
  | Err e => Err e
  | Ok a => Ok (fold_left (pstep earlier) (st_ops s) a)
  end.

Fixpoint run_stages (earlier : list attrs) (ss : list stage) : list (res attrs) :=
  match ss with
  | [] => []
  | s :: ss' =>
    let r := run_stage earlier s in
    r :: run_stages (earlier ++ [match r with Ok a => a | Err _ => [] end]) ss'
  end.

Definition sx_emitted (a : attrs) : sx :=
  L (map (fun kv => L [sx_str (fst kv); sx_str (attr_str kv)]) a).

Definition run_c03 (x : sx) : sx :=
  match x with
  | L [A 3; ss] =>
    match list_of_sx stage_of_sx ss with
    | Some ss' => L (map (sx_res sx_emitted) (run_stages [] ss'))
    | None => sx_bad
    end
  | L [A 1; ds; kw; ops] =>
    match list_of_sx pydict_of_sx ds, pydict_of_sx kw, list_of_sx op3_of_sx ops with
    | Some ds', Some kw', Some ops' =>
      match attrs_new ds' kw' with
      | Err e => L [A 1; sx_err e]
      | Ok a =>
        let fin := final3 a ops' in
        L [A 0; L (map (fun kv => L [sx_str (fst kv); sx_str (attr_str kv)]) fin)]
      end
    | _, _, _ => sx_bad
    end
  | L [A 2; s] =>
    match str_of_sx s with
    | Some s' => L [sx_str (html_escape true s'); sx_str (spec_escape true s');
                    sx_str (unescape (html_escape true s'))]
    | None => sx_bad
    end
  | _ => sx_bad
  end.

(* Entry point of the extracted model for C03: run_c03 : sx -> sx.
   Opcodes (kept in sync with harness/props/C03.py):
     1  scenario: Tag(div, positional dicts, kwargs), then a sequence of operations
          0 attrs.update(dicts, kwargs)   1 attrs[k] = v
          2 add_class(c, prepend)         3 add_style(s, prepend)  (s must end with ;)
        returns (construction error or the text the attribute writer emits for the final
        attribute map, one entry per attribute)
     2  html_escape(s, attr=True): model, spec, decoded again *)
From HT Require Import Model.Str Model.Sx Model.Tree Model.Codec Model.Escape Model.Render
     Model.Attrs Model.DriverC15 Spec.CharMap.

Inductive op3 :=
| O3Base (o : op)
| O3AddClass (c : attrarg) (prepend : bool)
| O3AddStyle (s : attrarg) (prepend : bool).

Definition op3_of_sx (x : sx) : option op3 :=
  match x with
  | L [A 2; c; p] => match attrarg_of_sx c, bool_of_sx p with
                     | Some c', Some p' => Some (O3AddClass c' p')
                     | _, _ => None
                     end
  | L [A 3; c; p] => match attrarg_of_sx c, bool_of_sx p with
                     | Some c', Some p' => Some (O3AddStyle c' p')
                     | _, _ => None
                     end
  | other => option_map O3Base (op_of_sx other)
  end.

(* self.attrs.get(name) as an attribute argument (None when absent) *)
Definition get_arg (name : str) (st : attrs) : attrarg :=
  match lookup name st with Some v => arg_of_aval v | None => VNone end.

(* add_class / add_style: attrs.update of two one-item dicts (htmltools/_core.py 747-751,
   838-842); the semicolon check of add_style is C16's subject, the harness only passes
   declarations that end with one *)
Definition helper_update (name : str) (v : attrarg) (prepend : bool) (st : attrs)
  : attrs * option err :=
  if prepend then attrs_update st [[(name, v)]; [(name, get_arg name st)]] []
  else attrs_update st [[(name, get_arg name st)]; [(name, v)]] [].

Definition step3 (st : attrs) (o : op3) : attrs * option err :=
  match o with
  | O3Base b => step st b
  | O3AddClass c p => helper_update [99;108;97;115;115] c p st
  | O3AddStyle s p => helper_update [115;116;121;108;101] s p st
  end.

Definition final3 (st : attrs) (ops : list op3) : attrs :=
  fold_left (fun s o => fst (step3 s o)) ops st.

Definition run_c03 (x : sx) : sx :=
  match x with
  | L [A 1; ds; kw; ops] =>
    match list_of_sx pydict_of_sx ds, pydict_of_sx kw, list_of_sx op3_of_sx ops with
    | Some ds', Some kw', Some ops' =>
      match attrs_new ds' kw' with
      | Err e => L [A 1; sx_err e]
      | Ok a =>
        let fin := final3 a ops' in
        L [A 0; L (map (fun kv => L [sx_str (fst kv); sx_str (attr_str kv)]) fin)]
      end
    | _, _, _ => sx_bad
    end
  | L [A 2; s] =>
    match str_of_sx s with
    | Some s' => L [sx_str (html_escape true s'); sx_str (spec_escape true s');
                    sx_str (unescape (html_escape true s'))]
    | None => sx_bad
    end
  | _ => sx_bad
  end.

(* Single entry point of the extracted model: run : sx -> sx, dispatching on an opcode.
   Opcodes are documented in harness/ops.py (kept in sync by hand; an unknown opcode or a
   malformed argument yields sx_bad, which the harness treats as a harness error). *)
From HT Require Import Model.Str Model.Sx Model.Tree Model.Escape Model.Render Model.Codec
     Model.TagTable Gen.Tables Spec.Layout Spec.StripMeta Model.Concat Model.Tagify Spec.Tokenizer Spec.TreeElems.

Definition unit_of_sx (x : sx) : option unit := Some tt.
Definition sx_unit (u : unit) : sx := L [].
Definition unode_of_sx := node_of_sx unit_of_sx.

Definition run (x : sx) : sx :=
  match x with
  (* 1: html_escape(s, attr) *)
  | L [A 1; s; attr] =>
    match str_of_sx s, bool_of_sx attr with
    | Some s', Some a' => sx_str (html_escape a' s')
    | _, _ => sx_bad
    end
  (* 2: Tag.get_html_string(indent, eol) *)
  | L [A 2; n; i; eol] =>
    match unode_of_sx n, nat_of_sx i, str_of_sx eol with
    | Some n', Some i', Some e' => sx_res sx_str (tag_html i' e' n')
    | _, _, _ => sx_bad
    end
  (* 3: TagList.get_html_string(indent, eol, add_ws=, _escape_strings=) *)
  | L [A 3; L l; i; eol; aw; esc] =>
    match map_opt unode_of_sx l, nat_of_sx i, str_of_sx eol, bool_of_sx aw, bool_of_sx esc with
    | Some l', Some i', Some e', Some aw', Some esc' => sx_res sx_str (list_html i' e' aw' esc' l')
    | _, _, _, _, _ => sx_bad
    end
  (* 4: C06 specification: layout of a tag from its `lines`; also valid_nesting *)
  | L [A 4; n; i; eol] =>
    match unode_of_sx n, nat_of_sx i, str_of_sx eol with
    | Some n', Some i', Some e' =>
      L [sx_bool (valid_nesting n'); sx_str (spec_tag_layout i' e' n')]
    | _, _, _ => sx_bad
    end
  (* 5: C05 specification: flat form and inline_only *)
  | L [A 5; n; esc] =>
    match unode_of_sx n, bool_of_sx esc with
    | Some n', Some esc' => L [sx_bool (inline_only n'); sx_str (flat esc' n')]
    | _, _ => sx_bad
    end
  (* 6: C06 specification for a top-level list (add_ws = True) *)
  | L [A 6; L l; i; eol] =>
    match map_opt unode_of_sx l, nat_of_sx i, str_of_sx eol with
    | Some l', Some i', Some e' =>
      L [sx_bool (forallb valid_nesting l'); sx_str (spec_list_layout i' e' l')]
    | _, _, _ => sx_bad
    end
  (* 7: C04: value of a + expression (None = TypeError) and how it renders as a child *)
  | L [A 7; e] =>
    match cexpr_of_sx e with
    | Some e' => match eval e' with
                 | Some v => L [A 1; sx_cval v; sx_str (child_str v)]
                 | None => L [A 0]
                 end
    | None => sx_bad
    end
  (* 8: C09: Tag.tagify() then get_html_string(indent, eol): tagified tree and markup *)
  | L [A 8; n; i; eol] =>
    match unode_of_sx n, nat_of_sx i, str_of_sx eol with
    | Some n', Some i', Some e' =>
      match tag_tagify n' with
      | [t] => L [sx_node sx_unit t; sx_res sx_str (tag_html i' e' t)]
      | _ => sx_bad
      end
    | _, _, _ => sx_bad
    end
  (* 9: C09: TagList.tagify() then get_html_string *)
  | L [A 9; L l; i; eol] =>
    match map_opt unode_of_sx l, nat_of_sx i, str_of_sx eol with
    | Some l', Some i', Some e' =>
      let t := taglist_tagify l' in
      L [L (map (sx_node sx_unit) t); sx_res sx_str (list_html i' e' true true t)]
    | _, _, _ => sx_bad
    end
  (* 11: C01 specification: tokenize and parse a string *)
  | L [A 11; s] =>
    match str_of_sx s with
    | Some s' => L [sx_opt (fun ts => L (map sx_token ts)) (tokenize s');
                    sx_opt (fun f => L (map sx_elem (canon f))) (parse s')]
    | None => sx_bad
    end
  (* 12: C01 specification: ordinary?, canonical element forest of a tree *)
  | L [A 12; n; eol] =>
    match unode_of_sx n, str_of_sx eol with
    | Some n', Some e' =>
      L [sx_bool (ordinary n' && ws_only e'); L (map sx_elem (canon (elems_of n')))]
    | _, _ => sx_bad
    end
  (* 10: the regenerated wrapper tables and name sets *)
  | L [A 10] =>
    let rows := fun t => L (map (fun r : row =>
                    L [sx_str (row_fname r); sx_str (row_elem r); sx_bool (row_default_ws r);
                       sx_bool (row_conforming r)]) t) in
    L [rows html_tag_rows; rows svg_tag_rows; L (map sx_str inline_names);
       L (map sx_str init_from_tags); L (map sx_str void_names); L (map sx_str no_escape_names)]
  | _ => sx_bad
  end.

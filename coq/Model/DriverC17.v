(* Entry point of the extracted model for C17: run_c17 : sx -> sx.
   1: program   L [A 1; hook; L [L [child]]; L [stmt]]
        hook:   L [A 0] None | L [A 1] base | L [A 2; t] tag t's wrapper
        the second argument gives the number of tags and their initial children
        dval:   L [A 0] None | L [A 1] Ellipsis | L [A 2; s] str | L [A 3; s] number (its str())
                | L [A 4; s] HTML | L [A 5; s] _repr_html_ object | L [A 6; t] tag | L [A 7; k] tagifiable
                | L [A 8; k] metadata | L [A 9; L items] list | L [A 10] anything else
        child:  L [A 0; s] str | L [A 1; s] HTML | L [A 2; s] repr object | L [A 3; t] tag
                | L [A 4; k] tagifiable | L [A 5; k] metadata
        stmt:   L [A 0; dval] display | L [A 1; t; L body] with | L [A 2] raise
        the program is a list of top-level items: a stmt, or L [A 3; src; dst] = bind a copy of tag src
        as tag dst (top level only)
      ->  L [model; spec]
        model:  L [hook; L [L [prev hook; L children]]; L log; outcome]
        spec:   L [L [L [used; L children]]; L log; outcome]   (sem from abs of the initial state;
                L [] when the initial hook is None, where the specification does not apply)
        outcome: L [A 0] normal | L [A 1; err] | L [A 2] user exception *)
From HT Require Import Model.Str Model.Sx Model.Tree Model.Codec Model.WithProg Spec.WithSpec.

Fixpoint dval_of_sx (x : sx) {struct x} : option dval :=
  match x with
  | A _ => None
  | L l =>
    match l with
    | [A 0] => Some DNone
    | [A 1] => Some DEllipsis
    | [A 2; s] => option_map DText (str_of_sx s)
    | [A 3; s] => option_map DNum (str_of_sx s)
    | [A 4; s] => option_map DHtml (str_of_sx s)
    | [A 5; s] => option_map DRepr (str_of_sx s)
    | [A 6; t] => option_map DTagRef (nat_of_sx t)
    | [A 7; k] => option_map DCustom (nat_of_sx k)
    | [A 8; k] => option_map DMeta (nat_of_sx k)
    | [A 9; L items] =>
      option_map DList
        ((fix go (l : list sx) : option (list dval) :=
            match l with
            | [] => Some []
            | k :: l' => match dval_of_sx k, go l' with
                         | Some v, Some vs => Some (v :: vs)
                         | _, _ => None
                         end
            end) items)
    | [A 10] => Some DBad
    | _ => None
    end
  end.

Fixpoint sx_dval (v : dval) : sx :=
  match v with
  | DNone => L [A 0]
  | DEllipsis => L [A 1]
  | DText s => L [A 2; sx_str s]
  | DNum s => L [A 3; sx_str s]
  | DHtml s => L [A 4; sx_str s]
  | DRepr s => L [A 5; sx_str s]
  | DTagRef t => L [A 6; sx_nat t]
  | DCustom k => L [A 7; sx_nat k]
  | DMeta k => L [A 8; sx_nat k]
  | DList l => L [A 9; L (map sx_dval l)]
  | DBad => L [A 10]
  end.

Definition child_of_sx (x : sx) : option child :=
  match x with
  | L [A 0; s] => option_map CText (str_of_sx s)
  | L [A 1; s] => option_map CHtml (str_of_sx s)
  | L [A 2; s] => option_map CRepr (str_of_sx s)
  | L [A 3; t] => option_map CTag (nat_of_sx t)
  | L [A 4; k] => option_map CCustom (nat_of_sx k)
  | L [A 5; k] => option_map CMeta (nat_of_sx k)
  | _ => None
  end.
Definition sx_child (c : child) : sx :=
  match c with
  | CText s => L [A 0; sx_str s]
  | CHtml s => L [A 1; sx_str s]
  | CRepr s => L [A 2; sx_str s]
  | CTag t => L [A 3; sx_nat t]
  | CCustom k => L [A 4; sx_nat k]
  | CMeta k => L [A 5; sx_nat k]
  end.

Definition hook_of_sx (x : sx) : option hook :=
  match x with
  | L [A 0] => Some HNone
  | L [A 1] => Some HBase
  | L [A 2; t] => option_map HTag (nat_of_sx t)
  | _ => None
  end.
Definition sx_hook (h : hook) : sx :=
  match h with HNone => L [A 0] | HBase => L [A 1] | HTag t => L [A 2; sx_nat t] end.

Fixpoint stmt_of_sx (x : sx) {struct x} : option stmt :=
  match x with
  | A _ => None
  | L l =>
    match l with
    | [A 0; v] => option_map Display (dval_of_sx v)
    | [A 1; t; L body] =>
      match nat_of_sx t,
            (fix go (l : list sx) : option (list stmt) :=
               match l with
               | [] => Some []
               | k :: l' => match stmt_of_sx k, go l' with
                            | Some v, Some vs => Some (v :: vs)
                            | _, _ => None
                            end
               end) body with
      | Some t', Some body' => Some (With t' body')
      | _, _ => None
      end
    | [A 2] => Some Raise
    | _ => None
    end
  end.

Definition top_of_sx (x : sx) : option top :=
  match x with
  | L [A 3; a; b] => match nat_of_sx a, nat_of_sx b with
                     | Some a', Some b' => Some (TCopy a' b')
                     | _, _ => None
                     end
  | _ => option_map TStmt (stmt_of_sx x)
  end.

Definition sx_outcome (o : outcome) : sx :=
  match o with
  | Normal => L [A 0]
  | Raised e => L [A 1; sx_err e]
  | RaisedUser => L [A 2]
  end.

Definition run_c17 (x : sx) : sx :=
  match x with
  | L [A 1; h; ks; p] =>
    match hook_of_sx h, list_of_sx (list_of_sx child_of_sx) ks, list_of_sx top_of_sx p with
    | Some h', Some ks', Some p' =>
      let n := length ks' in
      let s0 := init_state h' (fun u => nth u ks' []) in
      let (s1, o) := run_top p' s0 in
      let model :=
        L [sx_hook (hook_ s1);
           L (map (fun u => L [sx_hook (prev s1 u); sx_list sx_child (children s1 u)]) (seq 0 n));
           sx_list sx_dval (log s1);
           sx_outcome o] in
      let spec :=
        match h' with
        | HNone => L []
        | HBase | HTag _ =>
          let r := match h' with HTag t => RTag t | _ => RBase end in
          let (x1, o') := sem_top r p' (abs s0) in
          L [L (map (fun u => L [sx_bool (used x1 u); sx_list sx_child (kids x1 u)]) (seq 0 n));
             sx_list sx_dval (slog x1);
             sx_outcome o']
        end in
      L [model; spec]
    | _, _, _ => sx_bad
    end
  | _ => sx_bad
  end.

(* The pure tree layer: what a Tag / TagList object graph denotes when identity is ignored. *)
From HT Require Import Model.Str.

Inductive aval := AStr (s : str) | AHtml (s : str).   (* str | HTML attribute value *)
Definition attrs := list (str * aval).

(* M = payload type of metadata nodes (dependencies, or unit when irrelevant). *)
Inductive node (M : Type) : Type :=
| Text (s : str)                      (* a plain str child                               *)
| Html (s : str)                      (* HTML(...)                                       *)
| Repr (s : str)                      (* object with _repr_html_() = s, no tagify()      *)
| Meta (m : M)                        (* MetadataNode (HTMLDependency, ...)              *)
| TagN (name : str) (ws : bool) (at_ : attrs) (kids : list (node M))
| Custom (self_html : option str) (exp : list (node M)).
   (* object with tagify(): exp = the nodes its tagify() contributes to the sibling
      list (a returned TagList's items, or the single returned node);
      self_html = Some s when it also has _repr_html_() = s *)
Arguments Text {M} s.
Arguments Html {M} s.
Arguments Repr {M} s.
Arguments Meta {M} m.
Arguments TagN {M} name ws at_ kids.
Arguments Custom {M} self_html exp.

Section Ind.
  Context {M : Type}.
  Variable P : node M -> Prop.
  Hypothesis HText : forall s, P (Text s).
  Hypothesis HHtml : forall s, P (Html s).
  Hypothesis HRepr : forall s, P (Repr s).
  Hypothesis HMeta : forall m, P (Meta m).
  Hypothesis HTag : forall name ws at_ kids, Forall P kids -> P (TagN name ws at_ kids).
  Hypothesis HCustom : forall sh exp, Forall P exp -> P (Custom sh exp).

  Fixpoint node_ind' (n : node M) : P n :=
    match n with
    | Text s => HText s
    | Html s => HHtml s
    | Repr s => HRepr s
    | Meta m => HMeta m
    | TagN name ws at_ kids =>
        HTag name ws at_ kids
          ((fix go (l : list (node M)) : Forall P l :=
              match l with
              | [] => Forall_nil P
              | x :: l' => Forall_cons x (node_ind' x) (go l')
              end) kids)
    | Custom sh exp =>
        HCustom sh exp
          ((fix go (l : list (node M)) : Forall P l :=
              match l with
              | [] => Forall_nil P
              | x :: l' => Forall_cons x (node_ind' x) (go l')
              end) exp)
    end.
End Ind.

Definition is_meta {M} (n : node M) : bool :=
  match n with Meta _ => true | _ => false end.
Definition is_tag {M} (n : node M) : bool :=
  match n with TagN _ _ _ _ => true | _ => false end.

Inductive err := NotTagified | NotATag | TypeError | KeyError | ValueError | RuntimeError | OutOfFuel.
Inductive res (T : Type) := Ok (x : T) | Err (e : err).
Arguments Ok {T} x.
Arguments Err {T} e.

Definition res_map {T U} (f : T -> U) (r : res T) : res U :=
  match r with Ok x => Ok (f x) | Err e => Err e end.
Definition res_bind {T U} (r : res T) (f : T -> res U) : res U :=
  match r with Ok x => f x | Err e => Err e end.

(* C08: the heap layer.  Object identity, allocation and assignment, as far as the purity
   and copy-independence statements of C08 need them.

   A heap is a list of objects; a location is an index; allocation appends at the end;
   `store` replaces the object at an existing index.  Everything mutable that the library
   owns lives in the heap:
     OTag    a Tag object: name, add_ws and the locations of its attrs / children objects
             (prev_displayhook is C17's subject and is None outside a with block)
     OAttrs  a TagAttrDict (an insertion-ordered dict of str / HTML values)
     OList   a TagList (collections.UserList): its .data items
     OMeta   a MetadataNode.  The payload is an opaque number: odd payloads stand for
             HTMLDependency objects, even payloads for other MetadataNode objects.  The
             INTERNALS of a dependency (its head child list, script / stylesheet / meta lists,
             source dict) are NOT modelled: copy.copy of a dependency shares them with the
             original, which is known finding F8; the model only says that the copy is a
             new object carrying the same payload.
     OCustom an object with tagify() (not a Tag), with _repr_html_() = s when
             self_html = Some s.  exp is the list of children it expands to; its tagify()
             returns fresh, fully tagified objects on every call (the contract written in the
             Tagifiable docstring and what the harness class does), modelled in HeapOps.v as
             TagList( *exp ).tagify().
   str, HTML and _repr_html_-only objects are immutable values (VText / VHtml / VRepr):
   sharing them is unobservable through the API, so they carry no identity here.

   abs_val is the abstraction function into the pure tree layer (Model/Tree.v), by explicit
   fuel: None on fuel exhaustion (a cyclic or too deep graph) or on a dangling / ill-typed
   reference.  Definitions only. *)
From HT Require Import Model.Str Model.Tree Model.Tagify.

Definition loc := nat.

Inductive val :=
| VText (s : str)          (* a plain str                        *)
| VHtml (s : str)          (* HTML(s)                            *)
| VRepr (s : str)          (* object with _repr_html_() = s only *)
| VRef (l : loc).          (* reference to a heap object         *)

Inductive obj :=
| OTag (name : str) (ws : bool) (attrs_loc kids_loc : loc)
| OAttrs (a : attrs)
| OList (items : list val)
| OMeta (payload : N)
| OCustom (self_html : option str) (exp : list val).

Definition heap := list obj.

Definition lookup (h : heap) (l : loc) : option obj := nth_error h l.

(* the two primitives *)
Definition alloc (h : heap) (o : obj) : heap * loc := (h ++ [o], length h).
Definition store (h : heap) (l : loc) (o : obj) : heap :=
  if Nat.ltb l (length h) then firstn l h ++ o :: skipn (S l) h else h.

(* isinstance(x, HTMLDependency) for a metadata node *)
Definition meta_is_dep (p : N) : bool := N.odd p.

Fixpoint omap {T U} (f : T -> option U) (l : list T) : option (list U) :=
  match l with
  | [] => Some []
  | x :: l' => match f x with
               | Some y => match omap f l' with Some ys => Some (y :: ys) | None => None end
               | None => None
               end
  end.

(* ---- abstraction: what a value denotes when identity is ignored ------------------- *)
Fixpoint abs_val (fuel : nat) (h : heap) (v : val) : option (node N) :=
  match fuel with
  | O => None
  | S f =>
    match v with
    | VText s => Some (Text s)
    | VHtml s => Some (Html s)
    | VRepr s => Some (Repr s)
    | VRef l =>
      match lookup h l with
      | Some (OTag name ws al kl) =>
        match lookup h al, lookup h kl with
        | Some (OAttrs a), Some (OList items) =>
          match omap (abs_val f h) items with
          | Some kids => Some (TagN name ws a kids)
          | None => None
          end
        | _, _ => None
        end
      | Some (OMeta p) => Some (Meta p)
      | Some (OCustom sh exp) =>
        (* the pure layer's Custom carries what tagify() CONTRIBUTES: the expansion of
           the object's children, each tagified *)
        match omap (abs_val f h) exp with
        | Some e => Some (Custom sh (flat_map subst e))
        | None => None
        end
      | _ => None       (* a bare attrs / list object is not a child *)
      end
    end
  end.

Definition abs_list (fuel : nat) (h : heap) (items : list val) : option (list (node N)) :=
  omap (abs_val fuel h) items.

(* abs of the Tag object at l *)
Definition abs (fuel : nat) (h : heap) (l : loc) : option (node N) := abs_val fuel h (VRef l).

(* a receiver is a Tag or a TagList *)
Inductive rootv := RT (t : node N) | RL (ts : list (node N)).
Definition abs_root (fuel : nat) (h : heap) (l : loc) : option rootv :=
  match lookup h l with
  | Some (OTag _ _ _ _) => option_map RT (abs fuel h l)
  | Some (OList items) => option_map RL (abs_list fuel h items)
  | _ => None
  end.

(* ---- reachability ------------------------------------------------------------------ *)
(* reach h v x: the heap location x is visited when the object graph below v is walked
   through tags (the tag object, its attribute map, its child list, its children) and
   through the children of objects *)
Inductive reach (h : heap) : val -> loc -> Prop :=
| reach_self l : reach h (VRef l) l
| reach_attrs l name ws al kl :
    lookup h l = Some (OTag name ws al kl) -> reach h (VRef l) al
| reach_kids l name ws al kl :
    lookup h l = Some (OTag name ws al kl) -> reach h (VRef l) kl
| reach_child l name ws al kl items c x :
    lookup h l = Some (OTag name ws al kl) -> lookup h kl = Some (OList items) ->
    In c items -> reach h c x -> reach h (VRef l) x
| reach_item l items c x :
    lookup h l = Some (OList items) -> In c items -> reach h c x -> reach h (VRef l) x
| reach_exp l sh exp c x :
    lookup h l = Some (OCustom sh exp) -> In c exp -> reach h c x -> reach h (VRef l) x.

(* ---- well-formedness ---------------------------------------------------------------- *)
Definition val_ok (n : nat) (v : val) : Prop :=
  match v with VRef l => (l < n)%nat | _ => True end.

Definition obj_ok (h : heap) (o : obj) : Prop :=
  match o with
  | OTag _ _ al kl =>
    (exists a, lookup h al = Some (OAttrs a)) /\ (exists items, lookup h kl = Some (OList items))
  | OList items => Forall (val_ok (length h)) items
  | OCustom _ exp => Forall (val_ok (length h)) exp
  | _ => True
  end.

(* every reference stored in the heap is in range, and the attrs / children fields of every
   tag object point to an attribute map / a child list *)
Definition wf (h : heap) : Prop := Forall (obj_ok h) h.

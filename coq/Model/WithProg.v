(* C17: programs built from `with tag:` blocks, sys.displayhook calls and raised exceptions,
   and their big-step semantics.  Transcribes, statement by statement,
     htmltools/_core.py  Tag.__enter__ / Tag.__exit__ (692-707), wrap_displayhook_handler
     (1015-1034), Tag.append -> TagList.append -> TagList.extend (723-728, 283-294),
     _tagchilds_to_tagnodes (1927-1944), _util.flatten (80-100)
   and the `with` statement of the Python reference (enter; body; exit on every path out of
   the body, not called when enter itself raised; __exit__ returns None, so exceptions
   propagate).  Definitions only. *)
From HT Require Import Model.Str Model.Tree.

(* ---- values that can be handed to sys.displayhook ------------------------------------ *)
Inductive dval :=
| DNone                       (* None                                                   *)
| DEllipsis                   (* ...                                                    *)
| DText (s : str)             (* a str                                                  *)
| DNum (repr : str)           (* int / float / bool; repr = Python's own str(x)         *)
| DHtml (s : str)             (* HTML(s): a UserString with _repr_html_, no tagify      *)
| DRepr (s : str)             (* object with _repr_html_() = s, no tagify               *)
| DTagRef (t : nat)           (* the t-th Tag object of the program (by identity)       *)
| DCustom (k : nat)           (* the k-th object with a tagify() method (not a Tag)     *)
| DMeta (k : nat)             (* the k-th MetadataNode / HTMLDependency object          *)
| DList (l : list dval)       (* list / tuple / TagList                                 *)
| DBad.                       (* anything else: set, dict, bytes, module, object()      *)

(* what a Tag's child list can hold (identity of Tag / custom / metadata objects kept) *)
Inductive child :=
| CText (s : str) | CHtml (s : str) | CRepr (s : str)
| CTag (t : nat) | CCustom (k : nat) | CMeta (k : nat).

(* ---- the global hook, as data -------------------------------------------------------- *)
(* sys.displayhook is None (only if somebody stored None there), the hook that was
   installed before the program started, or the handler_wrapper closure over tag t's
   bound method append.  prev_displayhook uses the same domain; HNone is Python's None,
   which Tag.__enter__ reads as `not entered`. *)
Inductive hook := HNone | HBase | HTag (t : nat).

Record state := mkState {
  hook_ : hook;                    (* sys.displayhook                                    *)
  prev : nat -> hook;              (* tag t's prev_displayhook                           *)
  children : nat -> list child;    (* tag t's children                                   *)
  log : list dval                  (* values received by the base hook, in order         *)
}.

Definition set_hook (h : hook) (s : state) : state :=
  mkState h (prev s) (children s) (log s).
Definition set_prev (t : nat) (h : hook) (s : state) : state :=
  mkState (hook_ s) (fun u => if Nat.eqb u t then h else prev s u) (children s) (log s).
Definition add_children (t : nat) (cs : list child) (s : state) : state :=
  mkState (hook_ s) (prev s)
          (fun u => if Nat.eqb u t then children s u ++ cs else children s u) (log s).
Definition add_log (v : dval) (s : state) : state :=
  mkState (hook_ s) (prev s) (children s) (log s ++ [v]).

Definition is_none (h : hook) : bool := match h with HNone => true | _ => false end.

(* ---- _util.flatten / _flatten_recurse ------------------------------------------------ *)
(* for item in x: list/tuple/TagList -> recurse; elif item is not None -> append *)
Fixpoint flatten_item (v : dval) : list dval :=
  match v with
  | DList l =>
    (fix go (l : list dval) : list dval :=
       match l with
       | [] => []
       | x :: r => flatten_item x ++ go r
       end) l
  | DNone => []
  | _ => [v]
  end.
Definition flatten (l : list dval) : list dval := flat_map flatten_item l.

(* ---- _tagchilds_to_tagnodes ---------------------------------------------------------- *)
(* one round of the loop body: int/float -> str(item); elif not is_tag_node(item) -> raise.
   is_tag_node = isinstance(x, (Tagifiable, MetadataNode, ReprHtml, str, HTML)). *)
Definition to_node (v : dval) : res child :=
  match v with
  | DNum r => Ok (CText r)
  | DText s => Ok (CText s)
  | DHtml s => Ok (CHtml s)
  | DRepr s => Ok (CRepr s)
  | DTagRef t => Ok (CTag t)
  | DCustom k => Ok (CCustom k)
  | DMeta k => Ok (CMeta k)
  | DNone | DEllipsis | DList _ | DBad => Err TypeError
  end.
Fixpoint nodes_loop (l : list dval) : res (list child) :=
  match l with
  | [] => Ok []
  | x :: r =>
    match to_node x with
    | Err e => Err e
    | Ok c => match nodes_loop r with Err e => Err e | Ok cs => Ok (c :: cs) end
    end
  end.
(* x is the one-element list built by TagList.append, never a str *)
Definition tagchilds_to_tagnodes (x : list dval) : res (list child) :=
  nodes_loop (flatten x).

(* Tag.append(v) = self.children.append(v) = self.children.extend([v]):
   the node list is computed first; on TypeError nothing has been appended. *)
Definition tag_append (t : nat) (v : dval) (s : state) : res state :=
  match tagchilds_to_tagnodes [v] with
  | Ok cs => Ok (add_children t cs s)
  | Err e => Err e
  end.

(* ---- wrap_displayhook_handler(self.append) ------------------------------------------- *)
Definition handler_wrapper (t : nat) (v : dval) (s : state) : res state :=
  match v with
  | DTagRef _ | DCustom _ => tag_append t v s      (* isinstance(value, (Tag, TagList, Tagifiable)) *)
  | DHtml m | DRepr m => tag_append t (DHtml m) s  (* ReprHtml: handler(HTML(value._repr_html_()))   *)
  | DNone | DEllipsis => Ok s                      (* value in (None, ...): nothing                  *)
  | _ => tag_append t v s                          (* handler(value)                                 *)
  end.
(* (A TagList value takes the first branch, a list or tuple the third; both end in
   handler(value) and both are a DList here.) *)

(* calling whatever is stored in sys.displayhook *)
Definition call_hook (h : hook) (v : dval) (s : state) : res state :=
  match h with
  | HNone => Err TypeError          (* None is not callable *)
  | HBase => Ok (add_log v s)       (* the pre-installed hook receives the raw value *)
  | HTag t => handler_wrapper t v s
  end.

(* ---- Tag.__enter__ / Tag.__exit__ ---------------------------------------------------- *)
Definition enter (t : nat) (s : state) : res state :=
  if is_none (prev s t)
  then Ok (set_hook (HTag t) (set_prev t (hook_ s) s))
  else Err RuntimeError.

(* sys.displayhook = self.prev_displayhook; sys.displayhook(self).
   Returns the state and the exception raised by __exit__ itself, if any (the assignment
   has already happened then).  prev_displayhook is NOT reset. *)
Definition exit_ (t : nat) (s : state) : state * option err :=
  let s1 := set_hook (prev s t) s in
  match call_hook (hook_ s1) (DTagRef t) s1 with
  | Ok s2 => (s2, None)
  | Err e => (s1, Some e)
  end.

(* ---- programs ------------------------------------------------------------------------ *)
Inductive stmt :=
| Display (v : dval)                 (* sys.displayhook(v)                      *)
| With (t : nat) (body : list stmt)  (* with T[t]: body                         *)
| Raise.                             (* user code raises its own exception      *)

Inductive outcome := Normal | Raised (e : err) | RaisedUser.

Fixpoint run_stmt (st : stmt) (s : state) : state * outcome :=
  match st with
  | Display v =>
    match call_hook (hook_ s) v s with
    | Ok s' => (s', Normal)
    | Err e => (s, Raised e)
    end
  | Raise => (s, RaisedUser)
  | With t body =>
    match enter t s with
    | Err e => (s, Raised e)                 (* __exit__ is not called *)
    | Ok s1 =>
      let (s2, o) :=
        (fix run (p : list stmt) (s : state) : state * outcome :=
           match p with
           | [] => (s, Normal)
           | x :: r =>
             let (s', o) := run_stmt x s in
             match o with Normal => run r s' | _ => (s', o) end
           end) body s1 in
      let (s3, r) := exit_ t s2 in
      match r with
      | Some e => (s3, Raised e)             (* raised by __exit__: replaces o *)
      | None => (s3, o)                      (* __exit__ returned None: o propagates *)
      end
    end
  end.

Fixpoint run (p : list stmt) (s : state) : state * outcome :=
  match p with
  | [] => (s, Normal)
  | x :: r =>
    let (s', o) := run_stmt x s in
    match o with Normal => run r s' | _ => (s', o) end
  end.

(* the state a program starts in: no tag entered yet *)
Definition init_state (h : hook) (kids : nat -> list child) : state :=
  mkState h (fun _ => HNone) kids [].

(* ---- sessions: top-level statements interleaved with taking a copy of a tag ------------ *)
(* copy.copy(T[src]) bound as the new tag T[dst] (Tag.__copy__, 683-690: every instance field
   is shallow-copied: the child list is a new list with the same items, prev_displayhook is
   the same function object or None).  T[src].tagify() is the same thing when no child needs
   expanding (Tag.tagify = copy + children.tagify()).  dst is an index not used before. *)
Inductive top := TStmt (st : stmt) | TCopy (src dst : nat).

Definition copy_tag (src dst : nat) (s : state) : state :=
  mkState (hook_ s)
          (fun u => if Nat.eqb u dst then prev s src else prev s u)
          (fun u => if Nat.eqb u dst then children s src else children s u)
          (log s).

Fixpoint run_top (l : list top) (s : state) : state * outcome :=
  match l with
  | [] => (s, Normal)
  | TStmt st :: r =>
    let (s', o) := run_stmt st s in
    match o with Normal => run_top r s' | _ => (s', o) end
  | TCopy src dst :: r => run_top r (copy_tag src dst s)
  end.

(* C18: head_content and its content-derived name (htmltools/_core.py 1835-1872,
   htmltools/_util.py 151-155).  Definitions only.

     def head_content( *args ):
         head = TagList( *args )
         head_str = head.get_html_string()
         name = 'headcontent_' + hash_deterministic(head_str)
         return HTMLDependency(name=name, version='0.0', head=head)

     def hash_deterministic(s):
         return hashlib.sha1(s.encode('utf-8')).hexdigest()

   The content hash is a Section variable H : str -> str (SHA-1 is not modelled; nothing
   is assumed about it here).  args is the item list of TagList( *args ), i.e. the
   arguments after the constructor's flattening (that flattening is C14's subject).
   get_html_string() is called with its defaults: indent 0, eol newline, add_ws True,
   _escape_strings True, and on the un-tagified list: an object that has tagify() but no
   _repr_html_ makes it raise RuntimeError, which head_content does not catch -- the
   model returns the error of list_html (Err NotTagified) unchanged. *)
From HT Require Import Model.Str Model.Tree Model.Render Model.Deps.

(* the code points of the literal headcontent_ *)
Definition hc_prefix : str := [104;101;97;100;99;111;110;116;101;110;116;95].

(* head.get_html_string() *)
Definition hc_render {M} (args : list (node M)) : res str :=
  list_html 0 [10] true true args.

(* what the constructed HTMLDependency holds: name, Version('0.0').release, head *)
Record hdep (M : Type) := mkhdep { h_name : str; h_ver : list N; h_head : list (node M) }.
Arguments mkhdep {M} h_name h_ver h_head.
Arguments h_name {M} h.
Arguments h_ver {M} h.
Arguments h_head {M} h.

Section Hash.
  Variable H : str -> str.                 (* hash_deterministic *)

  (* 'headcontent_' + hash_deterministic(head_str) *)
  Definition hc_name_of (head_str : str) : str := hc_prefix ++ H head_str.

  Definition hc_name {M} (args : list (node M)) : res str :=
    res_map hc_name_of (hc_render args).

  Definition head_content {M} (args : list (node M)) : res (hdep M) :=
    match hc_render args with
    | Err e => Err e
    | Ok head_str => Ok (mkhdep (hc_name_of head_str) [0; 0] args)
    end.

  (* the dependency as _resolve_dependencies sees it (Model/Deps.v): name, version and the
     identity id of the Python object *)
  Definition hc_dep (head_str : str) (id : N) : dep := mkdep (hc_name_of head_str) [0; 0] id.
End Hash.

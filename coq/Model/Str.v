(* Strings as Python sees them: finite sequences of Unicode code points. *)
From Coq Require Export NArith List Bool.
Export ListNotations.
Open Scope N_scope.

Definition char := N.
Definition str := list N.

Fixpoint str_eqb (a b : str) : bool :=
  match a, b with
  | [], [] => true
  | x :: a', y :: b' => N.eqb x y && str_eqb a' b'
  | _, _ => false
  end.

Definition mem_str (s : str) (l : list str) : bool := existsb (str_eqb s) l.

(* "  " * n *)
Fixpoint indent_str (n : nat) : str :=
  match n with O => [] | S k => 32 :: 32 :: indent_str k end.

(* sep.join(l) *)
Fixpoint join (sep : str) (l : list str) : str :=
  match l with
  | [] => []
  | [x] => x
  | x :: l' => x ++ sep ++ join sep l'
  end.

(* s.startswith(p); returns the rest *)
Fixpoint strip_prefix (p s : str) : option str :=
  match p, s with
  | [], _ => Some s
  | x :: p', y :: s' => if N.eqb x y then strip_prefix p' s' else None
  | _ :: _, [] => None
  end.

Definition starts_with (p s : str) : bool :=
  match strip_prefix p s with Some _ => true | None => false end.

(* s.replace(k, v) for a one-character key *)
Definition replace1 (k : N) (v : str) (s : str) : str :=
  flat_map (fun c => if N.eqb c k then v else [c]) s.

(* `needle in s` *)
Fixpoint contains (needle s : str) : bool :=
  match s with
  | [] => match needle with [] => true | _ => false end
  | _ :: s' => starts_with needle s || contains needle s'
  end.

(* s.replace(a, b) for non-empty a: left-to-right, non-overlapping.  Recursion on
   explicit fuel (length s + 1 suffices: each step consumes at least one character). *)
Fixpoint replace_all_fuel (fuel : nat) (a b s : str) : str :=
  match fuel with
  | O => s
  | S f =>
    match s with
    | [] => []
    | c :: s' =>
      match strip_prefix a s with
      | Some rest => match a with [] => s | _ => b ++ replace_all_fuel f a b rest end
      | None => c :: replace_all_fuel f a b s'
      end
    end
  end.
Definition replace_all (a b s : str) : str := replace_all_fuel (S (length s)) a b s.

(* s.replace(a, b, 1) *)
Fixpoint replace_first (a b s : str) : str :=
  match strip_prefix a s with
  | Some rest => b ++ rest
  | None => match s with [] => [] | c :: s' => c :: replace_first a b s' end
  end.

(* ASCII lower-casing (str.lower() on ASCII letters; html.parser lower-cases names) *)
Definition lower_char (c : N) : N := if (65 <=? c) && (c <=? 90) then c + 32 else c.
Definition lower (s : str) : str := map lower_char s.

(* decimal printer for naturals given as N: str(int) for non-negative ints *)
Fixpoint dec_digits (fuel : nat) (n : N) (acc : str) : str :=
  match fuel with
  | O => acc
  | S f => let d := 48 + N.modulo n 10 in
           let q := N.div n 10 in
           if N.eqb q 0 then d :: acc else dec_digits f q (d :: acc)
  end.
Definition dec_of_N (n : N) : str := dec_digits (S (N.to_nat (N.log2 n))) n [].

(* Entry point of the extracted C12 model: run_c12 : sx -> sx, dispatching on an opcode.
   Opcodes are documented in harness/props/C12.py. *)
From HT Require Import Model.Str Model.Sx Model.Tree Model.Paths Model.FS.

Definition c12_err (e : err) : sx :=
  A (match e with
     | NotTagified => 1 | NotATag => 2 | TypeError => 3 | KeyError => 4
     | ValueError => 5 | RuntimeError => 6 | OutOfFuel => 7 end).
Definition c12_res {T} (f : T -> sx) (r : res T) : sx :=
  match r with Ok x => L [A 0; f x] | Err e => L [A 1; c12_err e] end.

Definition source_of_sx (x : sx) : option source :=
  match x with
  | L [A 0] => Some SrcNone
  | L [A 1; h] => option_map SrcUrl (str_of_sx h)
  | L [A 2; pkg; sub] =>
    match opt_of_sx str_of_sx pkg, str_of_sx sub with
    | Some p, Some s => Some (SrcLocal p s)
    | _, _ => None
    end
  | _ => None
  end.

Definition pdep_of_sx (x : sx) : option pdep :=
  match x with
  | L [name; ver; src; scripts; styles; af] =>
    match str_of_sx name, str_of_sx ver, source_of_sx src,
          list_of_sx str_of_sx scripts, list_of_sx str_of_sx styles, bool_of_sx af with
    | Some n, Some v, Some s, Some sc, Some st, Some a => Some (mk_pdep n v s sc st a)
    | _, _, _, _, _, _ => None
    end
  | _ => None
  end.

Definition path_of_sx (x : sx) : option path := list_of_sx str_of_sx x.
Definition sx_path (p : path) : sx := L (map sx_str p).

Definition entry_of_sx (x : sx) : option (path * bytes) :=
  match x with
  | L [p; b] => match path_of_sx p, str_of_sx b with
                | Some p', Some b' => Some (p', b')
                | _, _ => None
                end
  | _ => None
  end.
Definition fs_of_sx (x : sx) : option fs := list_of_sx entry_of_sx x.
Definition sx_fs (f : fs) : sx := L (map (fun e => L [sx_path (fst e); sx_str (snd e)]) f).
Definition sx_outcome (o : res unit * fs) : sx :=
  L [c12_res (fun _ => L []) (fst o); sx_fs (snd o)].

Definition run_c12 (x : sx) : sx :=
  match x with
  (* 1: urllib.parse.quote(s) *)
  | L [A 1; s] =>
    match str_of_sx s with Some s' => c12_res sx_str (quote_py s') | None => sx_bad end
  (* 2: urllib.parse.unquote(s) *)
  | L [A 2; s] =>
    match str_of_sx s with Some s' => sx_str (unquote s') | None => sx_bad end
  (* 3: bytes.decode(utf-8, replace) *)
  | L [A 3; s] =>
    match str_of_sx s with Some s' => sx_str (utf8_decode s') | None => sx_bad end
  (* 4: str.encode(utf-8) of scalar values *)
  | L [A 4; s] =>
    match str_of_sx s with Some s' => sx_str (encode_utf8 s') | None => sx_bad end
  (* 5: posixpath.join(a, b) *)
  | L [A 5; a; b] =>
    match str_of_sx a, str_of_sx b with
    | Some a', Some b' => sx_str (pjoin a' b')
    | _, _ => sx_bad
    end
  (* 6: source_path_map(lib_prefix, include_version) -> (source, href) *)
  | L [A 6; d; lp; iv] =>
    match pdep_of_sx d, opt_of_sx str_of_sx lp, bool_of_sx iv with
    | Some d', Some lp', Some iv' =>
      let r := source_path_map d' lp' iv' in L [sx_str (fst r); sx_str (snd r)]
    | _, _, _ => sx_bad
    end
  (* 7: as_dict(lib_prefix, include_version) -> (stylesheet hrefs, script srcs) *)
  | L [A 7; d; lp; iv] =>
    match pdep_of_sx d, opt_of_sx str_of_sx lp, bool_of_sx iv with
    | Some d', Some lp', Some iv' =>
      c12_res (fun r => L [L (map sx_str (fst r)); L (map sx_str (snd r))])
              (as_dict_urls d' lp' iv')
    | _, _, _ => sx_bad
    end
  (* 8: copy_to(path, include_version) on an abstract filesystem *)
  | L [A 8; f; d; dest; iv] =>
    match fs_of_sx f, pdep_of_sx d, str_of_sx dest, bool_of_sx iv with
    | Some f', Some d', Some dest', Some iv' => sx_outcome (copy_to_dep f' d' dest' iv')
    | _, _, _, _ => sx_bad
    end
  (* 9: the copies made by save_html(file, libdir, include_version) *)
  | L [A 9; f; dir; libdir; iv; deps] =>
    match fs_of_sx f, str_of_sx dir, opt_of_sx str_of_sx libdir, bool_of_sx iv,
          list_of_sx pdep_of_sx deps with
    | Some f', Some dir', Some l', Some iv', Some deps' =>
      sx_outcome (save_html_copy f' dir' l' iv' deps')
    | _, _, _, _, _ => sx_bad
    end
  (* 10: specification side of C12_agree: (file the URL resolves to, file the copier writes) *)
  | L [A 10; d; dir; libdir; iv; file] =>
    match pdep_of_sx d, str_of_sx dir, opt_of_sx str_of_sx libdir, bool_of_sx iv,
          str_of_sx file with
    | Some d', Some dir', Some l', Some iv', Some file' =>
      L [sx_path (resolve_url dir' (url_of d' l' iv' file'));
         sx_path (path_of_str (target_file_str d' (destdir_of dir' l') iv' file'))]
    | _, _, _, _, _ => sx_bad
    end
  (* 11: path_of_str *)
  | L [A 11; s] =>
    match str_of_sx s with Some s' => sx_path (path_of_str s') | None => sx_bad end
  | _ => sx_bad
  end.

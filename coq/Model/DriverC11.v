(* Entry point of the extracted model for C11: run_c11 : sx -> sx.
   Opcodes (kept in sync by hand with harness/props/C11.py):
     1 content kw markups   HTMLDocument(content, **kw).render(...)
         content : node list (a dependency travels as (name (release) id), as for C10)
         kw      : keyword arguments as for C15 ((name value) ...)
         markups : ((id metas links scripts head) ...) -- the four parts of
                   d.as_html_tags(...) of every dependency object, node lists
         -> (res tree) (res ((ids) html)) (ids of doc_deps content) (number of top-level heads)
     2 args                 the text that head_content( *args ) hashes -> res str *)
From HT Require Import Model.Str Model.Sx Model.Tree Model.Codec Model.Render Model.Deps
     Model.Attrs Model.Document Spec.DocumentSpec Model.DriverC15 Model.DriverC10.

Definition markup_of_sx (x : sx) : option (N * markup) :=
  match x with
  | L [A id; L me; L li; L sc; L he] =>
    match map_opt dnode_of_sx me, map_opt dnode_of_sx li,
          map_opt dnode_of_sx sc, map_opt dnode_of_sx he with
    | Some me', Some li', Some sc', Some he' => Some (id, mk_markup me' li' sc' he')
    | _, _, _, _ => None
    end
  | _ => None
  end.

Fixpoint lookup_markup (id : N) (tbl : list (N * markup)) : markup :=
  match tbl with
  | [] => mk_markup [] [] [] []
  | (k, m) :: tbl' => if k =? id then m else lookup_markup id tbl'
  end.

Definition tags_from (tbl : list (N * markup)) (d : dep) : list (node dep) :=
  as_html_tags (lookup_markup (did d) tbl).

Definition sx_dnode : node dep -> sx := sx_node sx_dep.

Definition run_c11 (x : sx) : sx :=
  match x with
  | L [A 1; L content; kw; L markups] =>
    match map_opt dnode_of_sx content, pydict_of_sx kw, map_opt markup_of_sx markups with
    | Some c, Some kw', Some tbl =>
      let t := doc_tree (tags_from tbl) c kw' in
      L [sx_res sx_dnode t;
         sx_res (fun r => L [sx_ids (fst r); sx_str (snd r)]) (doc_render (tags_from tbl) c kw');
         sx_ids (doc_deps c);
         sx_nat (match t with Ok t' => count_named n_head (kids_of t') | Err _ => O end)]
    | _, _, _ => sx_bad
    end
  | L [A 2; L args] =>
    match map_opt dnode_of_sx args with
    | Some a => sx_res sx_str (head_content_src a)
    | None => sx_bad
    end
  | _ => sx_bad
  end.

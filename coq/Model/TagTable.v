(* C19: facts about the regenerated wrapper tables of htmltools/tags.py and svg.py. *)
From HT Require Import Model.Str Gen.Tables.

Definition row := (str * str * bool * bool)%type.
Definition row_fname (r : row) : str := fst (fst (fst r)).
Definition row_elem (r : row) : str := snd (fst (fst r)).
Definition row_default_ws (r : row) : bool := snd (fst r).
Definition row_conforming (r : row) : bool := snd r.

(* the documented default: inline (no whitespace) exactly for the project's inline names *)
Definition documented_default (elem : str) : bool := negb (mem_str elem inline_names).

Definition row_ok (r : row) : bool :=
  str_eqb (row_fname r) (row_elem r)
  && row_conforming r
  && Bool.eqb (row_default_ws r) (documented_default (row_elem r)).

Fixpoint nodup_str (l : list str) : bool :=
  match l with [] => true | x :: l' => negb (mem_str x l') && nodup_str l' end.

Definition tables_recognised : bool :=
  inline_names_recognised && html_tag_module_clean && svg_tag_module_clean
  && match unrecognised with [] => true | _ => false end.

(* the names imported by htmltools/__init__.py from .tags are rows of the html table and
   are not re-bound afterwards *)
Definition toplevel_ok : bool :=
  forallb (fun n => mem_str n (map row_fname html_tag_rows)) init_from_tags
  && forallb (fun n => negb (mem_str n init_rebinds)) init_from_tags
  && nodup_str init_from_tags.

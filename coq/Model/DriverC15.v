(* Entry point of the extracted model for C15: run_c15 : sx -> sx.
   Opcodes (kept in sync by hand with harness/props/C15.py):
     1  scenario: Tag(name, positional args, kwargs) then a sequence of update / setitem
        operations on tag.attrs; returns model construction, model trace, spec construction,
        spec trace
     2  name normalisation: model and spec
     3  consolidate_attrs: model result and the tag rebuilt from it *)
From HT Require Import Model.Str Model.Sx Model.Tree Model.Codec Model.Attrs Spec.AttrsSpec.

Definition attrarg_of_sx (x : sx) : option attrarg :=
  match x with
  | L [A 0] => Some VNone
  | L [A 1; b] => option_map VBool (bool_of_sx b)
  | L [A 2; r] => option_map VInt (str_of_sx r)
  | L [A 3; r] => option_map VFloat (str_of_sx r)
  | L [A 4; s] => option_map VStr (str_of_sx s)
  | L [A 5; s] => option_map VHtml (str_of_sx s)
  | L [A 6] => Some VBad
  | _ => None
  end.

Definition item_of_sx (x : sx) : option (str * attrarg) :=
  match x with
  | L [k; v] => match str_of_sx k, attrarg_of_sx v with
                | Some k', Some v' => Some (k', v')
                | _, _ => None
                end
  | _ => None
  end.
Definition pydict_of_sx : sx -> option pydict := list_of_sx item_of_sx.

Definition posarg_of_sx (x : sx) : option (posarg N) :=
  match x with
  | L [A 0; d] => option_map PDict (pydict_of_sx d)
  | L [A 1; A c] => Some (PChild c)
  | _ => None
  end.

Definition op_of_sx (x : sx) : option op :=
  match x with
  | L [A 0; ds; kw] => match list_of_sx pydict_of_sx ds, pydict_of_sx kw with
                       | Some ds', Some kw' => Some (OpUpdate ds' kw')
                       | _, _ => None
                       end
  | L [A 1; k; v] => match str_of_sx k, attrarg_of_sx v with
                     | Some k', Some v' => Some (OpSet k' v')
                     | _, _ => None
                     end
  | _ => None
  end.

Definition sx_tagres (r : res (attrs * list N)) : sx :=
  sx_res (fun p => L [sx_attrs (fst p); L (map A (snd p))]) r.
Definition sx_trace (t : list (attrs * option err)) : sx :=
  L (map (fun r => L [sx_attrs (fst r); sx_opt sx_err (snd r)]) t).
Definition state_of {T} (r : res (attrs * T)) : attrs :=
  match r with Ok (a, _) => a | Err _ => [] end.

Definition run_c15 (x : sx) : sx :=
  match x with
  | L [A 1; args; kw; ops] =>
    match list_of_sx posarg_of_sx args, pydict_of_sx kw, list_of_sx op_of_sx ops with
    | Some args', Some kw', Some ops' =>
      let m := tag_new args' kw' in
      let s := res_map (fun a => (a, kid_args args')) (attrs_of_call (dict_args args') kw') in
      L [sx_tagres m; sx_trace (run_ops (state_of m) ops');
         sx_tagres s; sx_trace (spec_run (state_of s) ops')]
    | _, _, _ => sx_bad
    end
  | L [A 2; n] =>
    match str_of_sx n with
    | Some n' => L [sx_str (norm_name n'); sx_str (spec_name n')]
    | None => sx_bad
    end
  | L [A 3; args; kw] =>
    match list_of_sx posarg_of_sx args, pydict_of_sx kw with
    | Some args', Some kw' =>
      let c := consolidate args' kw' in
      let rebuilt := match c with
                     | Ok (a, ch) => tag_new (PDict (dict_of_attrs a) :: map PChild ch) []
                     | Err e => Err e
                     end in
      L [sx_tagres c; sx_tagres rebuilt; sx_tagres (tag_new args' kw')]
    | _, _ => sx_bad
    end
  | _ => sx_bad
  end.

(* Entry point of the extracted model for C16: run_c16 : sx -> sx.
   1: history   L [A 1; attrs; L ops]  ->  L [observation per op]
        op:  L [A 0; aval; prepend]        add_class
             L [A 1; str]                  remove_class
             L [A 2; str]                  has_class
             L [A 3; opt aval; prepend]    add_style
        observation:  L [A 0; attrs; spec tokens]  state after the op and the token list the
                                                   specification predicts for the class attribute
                      L [A 1; err]                 exception (state unchanged)
                      L [A 2; bool; spec bool]     has_class result, spec_has on the spec tokens
   2: css       L [A 2; opt collapse; L [L [key; opt val]]]  ->  L [model res; spec res]
        val: L [A 0; str] (str(v) text) | L [A 1; L [opt str]] (list, None = non-str item)
   3: split_ws  4: strip  5: the whitespace code point list  6: norm_key / spec_key *)
From HT Require Import Model.Str Model.Sx Model.Tree Model.Codec Model.ClassStyle
     Spec.ClassStyleSpec.

Inductive hop :=
| HAdd (c : aval) (p : bool) | HRemove (c : str) | HHas (c : str) | HStyle (s : option aval) (p : bool).

Definition hop_of_sx (x : sx) : option hop :=
  match x with
  | L [A 0; c; p] => match aval_of_sx c, bool_of_sx p with
                     | Some c', Some p' => Some (HAdd c' p') | _, _ => None end
  | L [A 1; c] => option_map HRemove (str_of_sx c)
  | L [A 2; c] => option_map HHas (str_of_sx c)
  | L [A 3; s; p] => match opt_of_sx aval_of_sx s, bool_of_sx p with
                     | Some s', Some p' => Some (HStyle s' p') | _, _ => None end
  | _ => None
  end.

(* state, spec token list, observations so far (reversed) *)
Fixpoint history (st : attrs) (toks : list str) (ops : list hop) : list sx :=
  match ops with
  | [] => []
  | o :: ops' =>
    match o with
    | HAdd c p =>
      let st' := add_class st c p in
      let toks' := spec_add toks (aval_str c) p in
      L [A 0; sx_attrs st'; sx_list sx_str toks'] :: history st' toks' ops'
    | HRemove c =>
      match remove_class st c with
      | Ok st' => let toks' := spec_remove toks c in
                  L [A 0; sx_attrs st'; sx_list sx_str toks'] :: history st' toks' ops'
      | Err e => L [A 1; sx_err e] :: history st toks ops'
      end
    | HHas c => L [A 2; sx_bool (has_class st c); sx_bool (spec_has toks c)] :: history st toks ops'
    | HStyle s p =>
      match add_style st s p with
      | Ok st' => L [A 0; sx_attrs st'; sx_list sx_str toks] :: history st' toks ops'
      | Err e => L [A 1; sx_err e] :: history st toks ops'
      end
    end
  end.

Definition cssval_of_sx (x : sx) : option cssval :=
  match x with
  | L [A 0; s] => option_map CStr (str_of_sx s)
  | L [A 1; l] => option_map CList (list_of_sx (opt_of_sx str_of_sx) l)
  | _ => None
  end.
Definition kwarg_of_sx (x : sx) : option (str * option cssval) :=
  match x with
  | L [k; v] => match str_of_sx k, opt_of_sx cssval_of_sx v with
                | Some k', Some v' => Some (k', v') | _, _ => None end
  | _ => None
  end.

Definition run_c16 (x : sx) : sx :=
  match x with
  | L [A 1; at_; ops] =>
    match list_of_sx attr_of_sx at_, list_of_sx hop_of_sx ops with
    | Some st, Some ops' => L (history st (class_tokens st) ops')
    | _, _ => sx_bad
    end
  | L [A 2; c; kw] =>
    match opt_of_sx str_of_sx c, list_of_sx kwarg_of_sx kw with
    | Some c', Some kw' =>
      L [sx_res (sx_opt sx_str) (css c' kw');
         match c' with Some sep => sx_res (sx_opt sx_str) (spec_css sep kw') | None => L [] end]
    | _, _ => sx_bad
    end
  | L [A 3; s] => match str_of_sx s with Some s' => sx_list sx_str (split_ws s') | None => sx_bad end
  | L [A 4; s] => match str_of_sx s with Some s' => sx_str (strip s') | None => sx_bad end
  | L [A 5] => L (map A ws_list)
  | L [A 6; s] => match str_of_sx s with
                  | Some s' => L [sx_str (norm_key s'); sx_str (spec_key s')] | None => sx_bad end
  | _ => sx_bad
  end.

(* C04: model of Python's + / += / reflected + between str, HTML() and other objects
   (htmltools/_core.py HTML.__add__ / HTML.__radd__; HTML subclasses UserString, which is
   not a str, so  str + HTML  falls through str.__add__ to HTML.__radd__; UserString
   defines no __iadd__, so  x += y  is  x = x + y  for all operand kinds). *)
From HT Require Import Model.Str Model.Tree Model.Escape.

Inductive operand :=
| OStr (s : str)           (* a plain str *)
| OHtml (s : str)          (* HTML(s) *)
| OObj (s : str).          (* any other object, with str(obj) = s and no __add__/__radd__ *)

(* the value of an expression: a str, an HTML, another object, or TypeError *)
Inductive cval := CStr (s : str) | CHtml (s : str) | CObj (s : str).

Inductive cexpr := Leaf (o : operand) | Add (a b : cexpr).

Definition val_of (o : operand) : cval :=
  match o with OStr s => CStr s | OHtml s => CHtml s | OObj s => CObj s end.

(* str(x) *)
Definition str_of (v : cval) : str :=
  match v with CStr s => s | CHtml s => s | CObj s => s end.

(* a + b *)
Definition add (a b : cval) : option cval :=
  match a, b with
  | CStr x, CStr y => Some (CStr (x ++ y))
  | CHtml x, CHtml y => Some (CHtml (x ++ y))                         (* HTML.__add__, HTML case *)
  | CHtml x, other => Some (CHtml (x ++ html_escape false (str_of other)))   (* HTML.__add__      *)
  | other, CHtml y => Some (CHtml (html_escape false (str_of other) ++ y))   (* HTML.__radd__     *)
  | _, _ => None                                                     (* TypeError          *)
  end.

Fixpoint eval (e : cexpr) : option cval :=
  match e with
  | Leaf o => Some (val_of o)
  | Add a b =>
    match eval a, eval b with
    | Some x, Some y => add x y
    | _, _ => None
    end
  end.

Fixpoint leaves (e : cexpr) : list operand :=
  match e with Leaf o => [o] | Add a b => leaves a ++ leaves b end.

(* how a value renders as a child (str escaped, HTML verbatim; other objects are not
   valid children) and how each operand would render as a separate adjacent child, a
   non-HTML operand standing for its str() text *)
Definition child_str (v : cval) : str :=
  match v with CStr s => html_escape false s | CHtml s => s | CObj s => html_escape false s end.
Definition operand_str (o : operand) : str :=
  match o with OStr s => html_escape false s | OHtml s => s | OObj s => html_escape false s end.
Definition is_html_operand (o : operand) : bool := match o with OHtml _ => true | _ => false end.
Definition is_html_val (v : cval) : bool := match v with CHtml _ => true | _ => false end.

(* F9.  The accumulation step of TagList.get_html_string for a self-rendering child:
   html_ (a str) takes the value returned by child._repr_html_(), which is a str or -- natural
   for users of this library -- an HTML object.  Before commit c4a8f45 the step was
   html_ += r, that is add (CStr acc) r: for an HTML result Python dispatches to HTML.__radd__,
   which escapes the accumulated markup.  The repaired code first takes an HTML result as a
   string (as_string). *)
Definition as_plain (r : cval) : cval := match r with CHtml s => CStr s | other => other end.
Definition acc_step_unrepaired (acc : str) (r : cval) : option cval := add (CStr acc) r.
Definition acc_step (acc : str) (r : cval) : option cval := add (CStr acc) (as_plain r).

(* C08: the operations the property lists, written against the heap of Model/Heap.v with
   `alloc` exactly where the Python code creates an object and `store` exactly where it
   assigns into an existing one.  htmltools/_core.py:
     Tag.__copy__ 692-699, copy.copy on a TagList (collections.UserList.__copy__),
     TagList.tagify 323-346, Tag.tagify 844-851, Tag/TagList.get_html_string, render
     373-379 / 910-916, get_dependencies 463-485, HTMLDocument.render 1095-1112,
     _gen_html_tag_tree 1138-1179, _hoist_head_content 1184-1230.
   Every operation returns None on fuel exhaustion or on a dangling / ill-typed reference
   (theorems exclude that case), otherwise the new heap and a result.  Definitions only. *)
From HT Require Import Model.Str Model.Tree Model.Tagify Model.Render Model.Heap.

(* ------------------------------------------------------------------------------------ *)
(* copy.copy                                                                            *)
(* ------------------------------------------------------------------------------------ *)

(* Tag.__copy__:  cp = cls.__new__(cls);  new_dict = {key: copy(value) for ...};
   cp.__dict__.update(new_dict).
   name (str), add_ws (bool) and prev_displayhook (None) copy to themselves; copy(attrs) is
   a new TagAttrDict with the same keys and value objects; copy(children) is a new TagList
   whose .data is a new list holding the SAME elements.  The empty object made by __new__
   is filled once, right after; the model allocates it when it is filled. *)
Definition copy_tag (h : heap) (l : loc) : option (heap * loc) :=
  match lookup h l with
  | Some (OTag name ws al kl) =>
    match lookup h al, lookup h kl with
    | Some (OAttrs a), Some (OList items) =>
      let (h1, al') := alloc h (OAttrs a) in
      let (h2, kl') := alloc h1 (OList items) in
      Some (alloc h2 (OTag name ws al' kl'))
    | _, _ => None
    end
  | _ => None
  end.

(* copy.copy(TagList) *)
Definition copy_list (h : heap) (l : loc) : option (heap * loc) :=
  match lookup h l with
  | Some (OList items) => Some (alloc h (OList items))
  | _ => None
  end.

(* ------------------------------------------------------------------------------------ *)
(* tagify                                                                               *)
(* ------------------------------------------------------------------------------------ *)

(* cp[j:j+1] = repl   (cp[j] = v is the case repl = [v]) *)
Definition set_slice (j : nat) (repl items : list val) : list val :=
  firstn j items ++ repl ++ skipn (S j) items.

Section Loop.
  (* Tag.tagify and TagList( *items ).tagify() one level down *)
  Variable rt : heap -> loc -> option (heap * loc).
  Variable rl : heap -> list val -> option (heap * loc).

  (* for i in reversed(range(len(cp))):  tl_loop i h cp  processes indices i-1 .. 0 of
     the list object at cp; cp is re-read from the heap in every iteration and after every
     call, as the Python code does *)
  Fixpoint tl_loop (i : nat) (h : heap) (cp : loc) : option heap :=
    match i with
    | O => Some h
    | S j =>
      match lookup h cp with
      | Some (OList items) =>
        match nth_error items j with
        | Some (VRef c) =>
          match lookup h c with
          | Some (OTag _ _ _ _) =>
            (* isinstance(child, Tagifiable), a Tag:  cp[i] = child.tagify() *)
            match rt h c with
            | Some (h1, r) =>
              match lookup h1 cp with
              | Some (OList items1) =>
                tl_loop j (store h1 cp (OList (set_slice j [VRef r] items1))) cp
              | _ => None
              end
            | None => None
            end
          | Some (OCustom _ exp) =>
            (* isinstance(child, Tagifiable), an object: its tagify() hands back a TagList
               of fresh, tagified nodes;  cp[i:i+1] = _tagchilds_to_tagnodes(that)
               (an object returning a single node is the one-element case) *)
            match rl h exp with
            | Some (h1, r) =>
              match lookup h1 r, lookup h1 cp with
              | Some (OList res), Some (OList items1) =>
                tl_loop j (store h1 cp (OList (set_slice j res items1))) cp
              | _, _ => None
              end
            | None => None
            end
          | Some (OMeta p) =>
            (* elif isinstance(child, MetadataNode):  cp[i] = copy(child) *)
            let (h1, r) := alloc h (OMeta p) in
            match lookup h1 cp with
            | Some (OList items1) =>
              tl_loop j (store h1 cp (OList (set_slice j [VRef r] items1))) cp
            | _ => None
            end
          | _ => None
          end
        | Some _ => tl_loop j h cp        (* str, HTML, _repr_html_ object: left alone *)
        | None => None
        end
      | _ => None
      end
    end.
End Loop.

(* Tag.tagify:  cp = copy(self);  cp.children = cp.children.tagify();  return cp
   rl is TagList.tagify applied to the items of cp.children.  The assignment is a store
   into cp, the object just made by copy. *)
Definition tag_step (rl : heap -> list val -> option (heap * loc)) (h : heap) (l : loc)
  : option (heap * loc) :=
  match copy_tag h l with
  | Some (h1, cp) =>
    match lookup h1 cp with
    | Some (OTag name ws al kl) =>
      match lookup h1 kl with
      | Some (OList items) =>
        match rl h1 items with
        | Some (h2, kl') => Some (store h2 cp (OTag name ws al kl'), cp)
        | None => None
        end
      | _ => None
      end
    | _ => None
    end
  | None => None
  end.

(* TagList.tagify on a list whose items are `items`:  cp = copy(self);  the loop;  return cp *)
Fixpoint tagify_items (fuel : nat) (h : heap) (items : list val) : option (heap * loc) :=
  match fuel with
  | O => None
  | S f =>
    let (h1, cp) := alloc h (OList items) in
    match tl_loop (tag_step (tagify_items f)) (tagify_items f) (length items) h1 cp with
    | Some h2 => Some (h2, cp)
    | None => None
    end
  end.

Definition tag_tagify (fuel : nat) (h : heap) (l : loc) : option (heap * loc) :=
  tag_step (tagify_items fuel) h l.

Definition taglist_tagify (fuel : nat) (h : heap) (l : loc) : option (heap * loc) :=
  match lookup h l with
  | Some (OList items) => tagify_items fuel h items
  | _ => None
  end.

(* ------------------------------------------------------------------------------------ *)
(* the pure readers                                                                     *)
(* ------------------------------------------------------------------------------------ *)

(* get_dependencies(dedup=False): HTMLDependency children in document order, recursing into
   Tag children only *)
Fixpoint deps_of (t : node N) : list N :=
  match t with
  | Meta p => if meta_is_dep p then [p] else []
  | TagN _ _ _ kids => flat_map deps_of kids
  | _ => []
  end.

Definition root_deps (r : rootv) : list N :=
  match r with
  | RT (TagN _ _ _ kids) => flat_map deps_of kids
  | RT _ => []
  | RL ts => flat_map deps_of ts
  end.

(* x.get_html_string(indent, eol); a TagList has add_ws=True, _escape_strings=True *)
Definition root_html (indent : nat) (eol : str) (r : rootv) : res str :=
  match r with
  | RT t => tag_html indent eol t
  | RL ts => list_html indent eol true true ts
  end.

(* x.tagify() in the pure layer *)
Definition root_subst (r : rootv) : option rootv :=
  match r with
  | RT t => match subst t with [t'] => Some (RT t') | _ => None end
  | RL ts => Some (RL (flat_map subst ts))
  end.

Definition s_nl : str := [10].

(* str(x) = repr(x) = x._repr_html_() = x.render()[html] : all four call
   _render_tag_or_taglist / render, i.e. tagify then get_html_string() with the default
   arguments *)
Definition pure_render_html (r : rootv) : option (res str) :=
  option_map (root_html 0 s_nl) (root_subst r).
Definition model_str := pure_render_html.
Definition model_repr := pure_render_html.
Definition model_repr_html := pure_render_html.

(* ------------------------------------------------------------------------------------ *)
(* operations and their results                                                         *)
(* ------------------------------------------------------------------------------------ *)

Inductive result :=
| RLoc (l : loc)                         (* a new Tag / TagList object             *)
| RStr (s : res str)                     (* markup, or the exception               *)
| RDeps (d : list N)                     (* payloads of the dependencies returned  *)
| RRender (html : res str) (d : list N). (* {html: ..., dependencies: ...}         *)

(* string constants *)
Definition s_html : str := [104;116;109;108].
Definition s_body : str := [98;111;100;121].
Definition s_head : str := [104;101;97;100].
Definition s_meta : str := [109;101;116;97].
Definition s_charset : str := [99;104;97;114;115;101;116].
Definition s_utf8 : str := [117;116;102;45;56].
Definition s_script : str := [115;99;114;105;112;116].
Definition s_type : str := [116;121;112;101].
Definition s_htmldeps : str :=
  [97;112;112;108;105;99;97;116;105;111;110;47;104;116;109;108;45;100;101;112;101;110;100;101;110;99;105;101;115].
Definition s_doctype : str := [60;33;68;79;67;84;89;80;69;32;104;116;109;108;62;10].

(* Tag(name, *kids, **attrs): a new attribute map, a new child list, a new tag object *)
Definition new_tag (h : heap) (name : str) (ws : bool) (a : attrs) (items : list val)
  : heap * loc :=
  let (h1, al) := alloc h (OAttrs a) in
  let (h2, kl) := alloc h1 (OList items) in
  alloc h2 (OTag name ws al kl).

(* build fresh objects for a pure tree (the tags a dependency contributes to <head>) *)
Fixpoint alloc_node (h : heap) (t : node N) : heap * val :=
  match t with
  | Text s => (h, VText s)
  | Html s => (h, VHtml s)
  | Repr s => (h, VRepr s)
  | Meta p => let (h1, l) := alloc h (OMeta p) in (h1, VRef l)
  | TagN name ws a kids =>
    let (h1, vs) :=
        (fix go (h : heap) (ks : list (node N)) : heap * list val :=
           match ks with
           | [] => (h, [])
           | k :: ks' => let (h1, v) := alloc_node h k in
                         let (h2, vs) := go h1 ks' in (h2, v :: vs)
           end) h kids in
    let (h2, l) := new_tag h1 name ws a vs in (h2, VRef l)
  | Custom sh exp =>
    let (h1, vs) :=
        (fix go (h : heap) (ks : list (node N)) : heap * list val :=
           match ks with
           | [] => (h, [])
           | k :: ks' => let (h1, v) := alloc_node h k in
                         let (h2, vs) := go h1 ks' in (h2, v :: vs)
           end) h exp in
    let (h2, l) := alloc h1 (OCustom sh vs) in (h2, VRef l)
  end.

Fixpoint alloc_nodes (h : heap) (ts : list (node N)) : heap * list val :=
  match ts with
  | [] => (h, [])
  | t :: ts' => let (h1, v) := alloc_node h t in
                let (h2, vs) := alloc_nodes h1 ts' in (h2, v :: vs)
  end.

(* the children object of the tag at l *)
Definition kids_of (h : heap) (l : loc) : option (loc * list val) :=
  match lookup h l with
  | Some (OTag _ _ _ kl) =>
    match lookup h kl with
    | Some (OList items) => Some (kl, items)
    | _ => None
    end
  | _ => None
  end.

(* x.children.<method>: one store into the child list object of the tag at l *)
Definition kids_update (h : heap) (l : loc) (f : list val -> list val) : option heap :=
  match kids_of h l with
  | Some (kl, items) => Some (store h kl (OList (f items)))
  | None => None
  end.

(* for i, child in enumerate(res.children): if isinstance(child, Tag) and child.name == head *)
Fixpoint find_head (h : heap) (items : list val) (i : nat) : option nat :=
  match items with
  | [] => None
  | VRef c :: rest =>
    match lookup h c with
    | Some (OTag name _ _ _) => if str_eqb name s_head then Some i else find_head h rest (S i)
    | _ => find_head h rest (S i)
    end
  | _ :: rest => find_head h rest (S i)
  end.

Section Ops.
  (* What C08 does not look into (the subjects of C10, C11, C12, C15), indexed by the
     HTMLDocument arguments k (the keyword attributes, lib_prefix, include_version):
       upd k a       html.attrs.update( **kw ) applied to the attribute map a
       mk k          TagAttrDict( **kw ) of a new html tag
       resolve       _resolve_dependencies on payloads
       dep_script    the text of the html-dependencies script tag
       dep_tags k p  d.as_html_tags(lib_prefix, include_version) as trees: new objects on
                     every call *)
  Variable upd : nat -> attrs -> attrs.
  Variable mk : nat -> attrs.
  Variable resolve : list N -> list N.
  Variable dep_script : list N -> str.
  Variable dep_tags : nat -> N -> list (node N).

  (* x.get_dependencies() on the receiver at l *)
  Definition get_deps (fuel : nat) (h : heap) (l : loc) : option (list N) :=
    option_map (fun r => resolve (root_deps r)) (abs_root fuel h l).

  (* _hoist_head_content, first part:
       head_index = index of the first child of res that is a Tag named head
       if head_index is None:  res.insert(0, Tag(head));  head_index = 0 *)
  Definition ensure_head (h : heap) (res : loc) : option (heap * nat) :=
    match kids_of h res with
    | None => None
    | Some (_, items) =>
      match find_head h items 0 with
      | Some i => Some (h, i)
      | None =>
        let (h2, hd) := new_tag h s_head true [] [] in
        match kids_update h2 res (fun its => VRef hd :: its) with
        | Some h3 => Some (h3, O)
        | None => None
        end
      end
    end.

  (* res.children[head_index] = copy(res.children[head_index]);  head = that copy *)
  Definition copy_head (h : heap) (res : loc) (hi : nat) : option (heap * loc) :=
    match kids_of h res with
    | None => None
    | Some (_, items) =>
      match nth_error items hi with
      | Some (VRef c) =>
        match copy_tag h c with
        | None => None
        | Some (h1, head) =>
          match kids_update h1 res (set_slice hi [VRef head]) with
          | Some h2 => Some (h2, head)
          | None => None
          end
        end
      | _ => None
      end
    end.

  (* head.insert(0, Tag(meta, charset=utf-8))
     deps = x.get_dependencies()
     if len(deps) > 0:  head.append(Tag(script, <names and versions>, type=...))
     head.extend([d.as_html_tags(...) for d in deps]) *)
  Definition fill_head (fuel : nat) (k : nat) (h : heap) (head x : loc) : option heap :=
    let (h1, m) := new_tag h s_meta true [(s_charset, AStr s_utf8)] [] in
    match kids_update h1 head (fun its => VRef m :: its) with
    | None => None
    | Some h2 =>
      match get_deps fuel h2 x with
      | None => None
      | Some deps =>
        match (match deps with
               | [] => Some h2
               | _ :: _ =>
                 let (h3, s) := new_tag h2 s_script true [(s_type, AStr s_htmldeps)]
                                        [VText (dep_script deps)] in
                 kids_update h3 head (fun its => its ++ [VRef s])
               end) with
        | None => None
        | Some h4 =>
          let (h5, vs) := alloc_nodes h4 (flat_map (dep_tags k) deps) in
          kids_update h5 head (fun its => its ++ vs)
        end
      end
    end.

  (* HTMLDocument._hoist_head_content(x, lib_prefix, include_version):
     res = copy(x); every later assignment goes into res.children (the list made by that
     copy), into the copied head's children (the list made by the second copy), or into
     objects created here *)
  Definition hoist (fuel : nat) (k : nat) (h : heap) (x : loc) : option (heap * loc) :=
    match lookup h x with
    | Some (OTag name _ _ _) =>
      if negb (str_eqb name s_html) then None (* ValueError: not reached from render *) else
      match copy_tag h x with
      | None => None
      | Some (h1, res) =>
        match ensure_head h1 res with
        | None => None
        | Some (h2, hi) =>
          match copy_head h2 res hi with
          | None => None
          | Some (h3, head) =>
            match fill_head fuel k h3 head x with
            | None => None
            | Some h4 => Some (h4, res)
            end
          end
        end
      end
    | _ => None
    end.

  (* is the content a single Tag named `name`? *)
  Definition single_tag_named (h : heap) (items : list val) (name : str) : option loc :=
    match items with
    | [VRef c] =>
      match lookup h c with
      | Some (OTag n _ _ _) => if str_eqb n name then Some c else None
      | _ => None
      end
    | _ => None
    end.

  (* HTMLDocument._gen_html_tag_tree, the repaired code (fix 834fc6a): the lone <html> tag
     is tagified FIRST and the document's attributes go into the copy *)
  Definition gen_tree (fuel : nat) (k : nat) (h : heap) (content : loc) : option (heap * loc) :=
    match lookup h content with
    | Some (OList items) =>
      match single_tag_named h items s_html with
      | Some c =>
        (* html = html.tagify();  html.attrs.update( **self._html_attr_args ) *)
        match tag_tagify fuel h c with
        | None => None
        | Some (h1, html) =>
          match lookup h1 html with
          | Some (OTag _ _ al _) =>
            match lookup h1 al with
            | Some (OAttrs a) => hoist fuel k (store h1 al (OAttrs (upd k a))) html
            | _ => None
            end
          | _ => None
          end
        end
      | None =>
        (* body = content[0] if it is a lone <body> tag, else Tag(body, content) *)
        let (h1, body) :=
            match single_tag_named h items s_body with
            | Some c => (h, c)
            | None => new_tag h s_body true [] items
            end in
        (* body = body.tagify() *)
        match tag_tagify fuel h1 body with
        | None => None
        | Some (h2, body') =>
          (* html = Tag(html, Tag(head), body, _add_ws=True, **attrs) *)
          let (h3, hd) := new_tag h2 s_head true [] [] in
          let (h4, html) := new_tag h3 s_html true (mk k) [VRef hd; VRef body'] in
          hoist fuel k h4 html
        end
      end
    | _ => None
    end.

  (* x.render() on a Tag / TagList:  cp = self.tagify();  deps = cp.get_dependencies();
     html = cp.get_html_string() *)
  Definition render (fuel : nat) (h : heap) (l : loc) : option (heap * result) :=
    match (match lookup h l with
           | Some (OTag _ _ _ _) => tag_tagify fuel h l
           | Some (OList _) => taglist_tagify fuel h l
           | _ => None
           end) with
    | Some (h1, cp) =>
      match abs_root fuel h1 cp with
      | Some r => Some (h1, RRender (root_html 0 s_nl r) (resolve (root_deps r)))
      | None => None
      end
    | None => None
    end.

  (* HTMLDocument.render *)
  Definition doc_render (fuel : nat) (k : nat) (h : heap) (content : loc)
    : option (heap * result) :=
    match gen_tree fuel k h content with
    | None => None
    | Some (h1, html) =>
      match render fuel h1 html with
      | Some (h2, RRender s d) => Some (h2, RRender (res_map (fun x => s_doctype ++ x) s) d)
      | _ => None
      end
    end.

  Inductive op :=
  | OpTagify (l : loc)                          (* x.tagify()                        *)
  | OpRender (l : loc)                          (* x.render()                        *)
  | OpHtml (l : loc) (indent : nat) (eol : str) (* x.get_html_string(indent, eol)    *)
  | OpDeps (l : loc)                            (* x.get_dependencies()              *)
  | OpCopy (l : loc)                            (* copy.copy(x)                      *)
  | OpDoc (l : loc) (k : nat)                   (* HTMLDocument(x, **kw).render(...) *)
  | OpHoist (l : loc) (k : nat).                (* HTMLDocument._hoist_head_content(x, ...)
                                                   called on its own, x an <html> tag *)

  Definition op_target (o : op) : loc :=
    match o with
    | OpTagify l | OpRender l | OpHtml l _ _ | OpDeps l | OpCopy l | OpDoc l _
    | OpHoist l _ => l
    end.

  Definition run_op (fuel : nat) (h : heap) (o : op) : option (heap * result) :=
    match o with
    | OpTagify l =>
      match lookup h l with
      | Some (OTag _ _ _ _) =>
        match tag_tagify fuel h l with Some (h1, r) => Some (h1, RLoc r) | None => None end
      | Some (OList _) =>
        match taglist_tagify fuel h l with Some (h1, r) => Some (h1, RLoc r) | None => None end
      | _ => None
      end
    | OpRender l => render fuel h l
    | OpHtml l indent eol =>
      match abs_root fuel h l with
      | Some r => Some (h, RStr (root_html indent eol r))
      | None => None
      end
    | OpDeps l =>
      match get_deps fuel h l with Some d => Some (h, RDeps d) | None => None end
    | OpCopy l =>
      match lookup h l with
      | Some (OTag _ _ _ _) =>
        match copy_tag h l with Some (h1, r) => Some (h1, RLoc r) | None => None end
      | Some (OList _) =>
        match copy_list h l with Some (h1, r) => Some (h1, RLoc r) | None => None end
      | _ => None
      end
    | OpDoc l k =>
      (* HTMLDocument(x): self._content = TagList(x), a new list holding x (a Tag) or the
         items of x (a TagList) *)
      match lookup h l with
      | Some (OTag _ _ _ _) =>
        let (h1, content) := alloc h (OList [VRef l]) in doc_render fuel k h1 content
      | Some (OList items) =>
        let (h1, content) := alloc h (OList items) in doc_render fuel k h1 content
      | _ => None
      end
    | OpHoist l k =>
      match hoist fuel k h l with Some (h1, r) => Some (h1, RLoc r) | None => None end
    end.

  (* what a result shows to an observer who ignores identity: new objects by the trees
     they denote *)
  Inductive outcome :=
  | OutRoot (r : rootv)
  | OutStr (s : res str)
  | OutDeps (d : list N)
  | OutRender (html : res str) (d : list N).

  Definition observe (f : nat) (h : heap) (r : result) : option outcome :=
    match r with
    | RLoc l => option_map OutRoot (abs_root f h l)
    | RStr s => Some (OutStr s)
    | RDeps d => Some (OutDeps d)
    | RRender s d => Some (OutRender s d)
    end.

  (* the two operations that build a document *)
  Definition is_doc (o : op) : bool :=
    match o with OpDoc _ _ | OpHoist _ _ => true | _ => false end.

  (* ---- the document construction in the pure layer ---------------------------------- *)
  Fixpoint find_head_pure (kids : list (node N)) (i : nat) : option nat :=
    match kids with
    | [] => None
    | TagN name _ _ _ :: rest =>
      if str_eqb name s_head then Some i else find_head_pure rest (S i)
    | _ :: rest => find_head_pure rest (S i)
    end.

  Definition slice_nodes (j : nat) (repl items : list (node N)) : list (node N) :=
    firstn j items ++ repl ++ skipn (S j) items.

  Definition head_tag : node N := TagN s_head true [] [].
  Definition meta_tag : node N := TagN s_meta true [(s_charset, AStr s_utf8)] [].
  Definition script_tag (deps : list N) : node N :=
    TagN s_script true [(s_type, AStr s_htmldeps)] [Text (dep_script deps)].

  (* _hoist_head_content on a tree *)
  Definition hoist_pure (k : nat) (t : node N) : option (node N) :=
    match t with
    | TagN name ws a kids =>
      if negb (str_eqb name s_html) then None else
      let kh := match find_head_pure kids 0 with
                | Some i => (kids, i)
                | None => (head_tag :: kids, O)
                end in
      match nth_error (fst kh) (snd kh) with
      | Some (TagN hn hws ha hk) =>
        let deps := resolve (flat_map deps_of kids) in
        let hk' := meta_tag :: hk
                   ++ (match deps with [] => [] | _ :: _ => [script_tag deps] end)
                   ++ flat_map (dep_tags k) deps in
        Some (TagN name ws a (slice_nodes (snd kh) [TagN hn hws ha hk'] (fst kh)))
      | _ => None
      end
    | _ => None
    end.

  Definition single_named_pure (ts : list (node N)) (name : str) : option (node N) :=
    match ts with
    | [TagN n w a k] => if str_eqb n name then Some (TagN n w a k) else None
    | _ => None
    end.

  (* _gen_html_tag_tree on the trees of the document content *)
  Definition gen_tree_pure (k : nat) (ts : list (node N)) : option (node N) :=
    match single_named_pure ts s_html with
    | Some t =>
      match subst t with
      | [TagN n w a kids] => hoist_pure k (TagN n w (upd k a) kids)
      | _ => None
      end
    | None =>
      let body := match single_named_pure ts s_body with
                  | Some b => b
                  | None => TagN s_body true [] ts
                  end in
      match subst body with
      | [b'] => hoist_pure k (TagN s_html true (mk k) [head_tag; b'])
      | _ => None
      end
    end.

  (* HTMLDocument(x, ...).render() as a function of what x denotes *)
  Definition doc_pure (k : nat) (r : rootv) : option outcome :=
    match gen_tree_pure k (match r with RT t => [t] | RL ts => ts end) with
    | Some t =>
      option_map (fun r' => OutRender (res_map (fun x => s_doctype ++ x) (root_html 0 s_nl r'))
                                      (resolve (root_deps r')))
                 (root_subst (RT t))
    | None => None
    end.

  (* the pure-layer reading of an operation: its outcome as a function of the tree the
     receiver denotes *)
  Definition pure_op (o : op) (r : rootv) : option outcome :=
    match o with
    | OpTagify _ => option_map OutRoot (root_subst r)
    | OpRender _ =>
      option_map (fun r' => OutRender (root_html 0 s_nl r') (resolve (root_deps r')))
                 (root_subst r)
    | OpHtml _ i e => Some (OutStr (root_html i e r))
    | OpDeps _ => Some (OutDeps (resolve (root_deps r)))
    | OpCopy _ => Some (OutRoot r)
    | OpDoc _ k => doc_pure k r
    | OpHoist _ k =>
      match r with
      | RT t => option_map (fun t' => OutRoot (RT t')) (hoist_pure k t)
      | RL _ => None
      end
    end.

  (* a history: operations run one after the other on the growing heap *)
  Fixpoint run_ops (fuel : nat) (h : heap) (os : list op) : option (heap * list result) :=
    match os with
    | [] => Some (h, [])
    | o :: os' =>
      match run_op fuel h o with
      | Some (h1, r) =>
        match run_ops fuel h1 os' with
        | Some (h2, rs) => Some (h2, r :: rs)
        | None => None
        end
      | None => None
      end
    end.
End Ops.

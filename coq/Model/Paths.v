(* C12: URL side of a dependency.  Executable transcription of
     urllib.parse.quote / unquote (Python 3.12 Lib/urllib/parse.py),
     str.encode('utf-8') / bytes.decode('utf-8', 'replace'),
     posixpath.join for two arguments (= os.path.join on POSIX),
     HTMLDependency.source_path_map / as_dict (htmltools/_core.py 1635-1661, 1698-1740),
   and of the string computations of copy_to / save_html that name the copy target
   (_core.py 1742-1784, 1104-1131).  Definitions only; proofs are in Proofs/PathsProofs.v. *)
From HT Require Import Model.Str Model.Tree.

Definition bytes := list N.

Definition in_rng (lo hi b : N) : bool := (lo <=? b) && (b <=? hi).

(* ---------------------------------------------------------------------------------- *)
(* UTF-8                                                                              *)
(* ---------------------------------------------------------------------------------- *)
Definition is_surrogate (c : N) : bool := in_rng 55296 57343 c.
(* a Unicode scalar value: what str.encode('utf-8') accepts *)
Definition scalar (c : N) : bool := (c <? 1114112) && negb (is_surrogate c).

(* one code point -> its UTF-8 bytes *)
Definition utf8 (c : N) : bytes :=
  if c <? 128 then [c]
  else if c <? 2048 then [192 + c / 64; 128 + c mod 64]
  else if c <? 65536 then [224 + c / 4096; 128 + (c / 64) mod 64; 128 + c mod 64]
  else [240 + c / 262144; 128 + (c / 4096) mod 64; 128 + (c / 64) mod 64; 128 + c mod 64].

Definition encode_utf8 (s : str) : bytes := flat_map utf8 s.

Definition cont (b : N) : bool := in_rng 128 191 b.
(* range of the second byte after lead byte b0 (Unicode table 3-7; CPython stringlib
   utf8_decode): E0 A0..BF, ED 80..9F, F0 90..BF, F4 80..8F, otherwise 80..BF *)
Definition second_ok (b0 b1 : N) : bool :=
  in_rng (if b0 =? 224 then 160 else if b0 =? 240 then 144 else 128)
         (if b0 =? 237 then 159 else if b0 =? 244 then 143 else 191) b1.

(* bytes.decode('utf-8', 'replace'): an ill-formed or truncated sequence becomes one
   U+FFFD and consumes its longest well-formed prefix (at least one byte) *)
Fixpoint utf8_decode (bs : bytes) : str :=
  match bs with
  | [] => []
  | b0 :: r0 =>
    if b0 <? 128 then b0 :: utf8_decode r0
    else if in_rng 194 223 b0 then
      match r0 with
      | [] => [65533]
      | b1 :: r1 =>
        if cont b1 then ((b0 - 192) * 64 + (b1 - 128)) :: utf8_decode r1
        else 65533 :: utf8_decode r0
      end
    else if in_rng 224 239 b0 then
      match r0 with
      | [] => [65533]
      | b1 :: r1 =>
        if second_ok b0 b1 then
          match r1 with
          | [] => [65533]
          | b2 :: r2 =>
            if cont b2 then ((b0 - 224) * 4096 + (b1 - 128) * 64 + (b2 - 128)) :: utf8_decode r2
            else 65533 :: utf8_decode r1
          end
        else 65533 :: utf8_decode r0
      end
    else if in_rng 240 244 b0 then
      match r0 with
      | [] => [65533]
      | b1 :: r1 =>
        if second_ok b0 b1 then
          match r1 with
          | [] => [65533]
          | b2 :: r2 =>
            if cont b2 then
              match r2 with
              | [] => [65533]
              | b3 :: r3 =>
                if cont b3 then
                  ((b0 - 240) * 262144 + (b1 - 128) * 4096 + (b2 - 128) * 64 + (b3 - 128))
                    :: utf8_decode r3
                else 65533 :: utf8_decode r2
              end
            else 65533 :: utf8_decode r1
          end
        else 65533 :: utf8_decode r0
      end
    else 65533 :: utf8_decode r0
  end.

(* ---------------------------------------------------------------------------------- *)
(* urllib.parse.quote(s)  (safe = slash, encoding utf-8, errors strict)                *)
(* ---------------------------------------------------------------------------------- *)
Definition is_alnum (c : N) : bool := in_rng 48 57 c || in_rng 65 90 c || in_rng 97 122 c.
(* _ALWAYS_SAFE: letters, digits and  _ . - ~ *)
Definition always_safe (c : N) : bool :=
  is_alnum c || (c =? 95) || (c =? 46) || (c =? 45) || (c =? 126).
Definition safe (c : N) : bool := always_safe c || (c =? 47).

(* one upper-case hex digit *)
Definition hexd (n : N) : N := if n <? 10 then 48 + n else 55 + n.
(* '%{:02X}'.format(b) *)
Definition pct (b : N) : str := [37; hexd (b / 16); hexd (b mod 16)].
(* _Quoter.__missing__ *)
Definition quote_byte (b : N) : str := if safe b then [b] else pct b.
(* quote_from_bytes: ''.join(map(quoter, bs)); the all-safe fast path returns bs.decode(),
   which is the same string *)
Definition quote_bytes (bs : bytes) : str := flat_map quote_byte bs.
Definition quote (s : str) : str := quote_bytes (encode_utf8 s).
(* str.encode('utf-8', 'strict') raises UnicodeEncodeError (a ValueError) on surrogates *)
Definition quote_py (s : str) : res str :=
  if forallb scalar s then Ok (quote s) else Err ValueError.

(* ---------------------------------------------------------------------------------- *)
(* urllib.parse.unquote(s)  (encoding utf-8, errors replace)                            *)
(* ---------------------------------------------------------------------------------- *)
(* _hexdig = 0123456789ABCDEFabcdef *)
Definition hexval (c : N) : option N :=
  if in_rng 48 57 c then Some (c - 48)
  else if in_rng 65 70 c then Some (c - 55)
  else if in_rng 97 102 c then Some (c - 87)
  else None.

(* the string as unquote sees it: ASCII runs become bytes (a % followed by two hex digits is
   one byte, any other % stays a literal %), non-ASCII characters pass through and end the
   current run *)
Inductive tok := TB (b : N) | TC (c : N).

Fixpoint unquote_toks (s : str) : list tok :=
  match s with
  | [] => []
  | c :: r =>
    if c =? 37 then
      match r with
      | h1 :: h2 :: r2 =>
        match hexval h1, hexval h2 with
        | Some a, Some b => TB (a * 16 + b) :: unquote_toks r2
        | _, _ => TB 37 :: unquote_toks r
        end
      | _ => TB 37 :: unquote_toks r
      end
    else if c <? 128 then TB c :: unquote_toks r
    else TC c :: unquote_toks r
  end.

(* each maximal run of bytes is decoded on its own (pending: the run so far, reversed) *)
Fixpoint decode_toks (pending : bytes) (l : list tok) : str :=
  match l with
  | [] => utf8_decode (rev pending)
  | TB b :: l' => decode_toks (b :: pending) l'
  | TC c :: l' => utf8_decode (rev pending) ++ c :: decode_toks [] l'
  end.

Definition unquote (s : str) : str := decode_toks [] (unquote_toks s).

(* unquote_to_bytes on an all-ASCII string *)
Definition tok_byte (t : tok) : N := match t with TB b => b | TC c => c end.
Definition unquote_bytes (s : str) : bytes := map tok_byte (unquote_toks s).

(* ---------------------------------------------------------------------------------- *)
(* posixpath.join(a, b)                                                                *)
(* ---------------------------------------------------------------------------------- *)
Definition starts_with_slash (b : str) : bool := match b with 47 :: _ => true | _ => false end.
Definition ends_with_slash (a : str) : bool := last a 0 =? 47.
Definition is_empty (a : str) : bool := match a with [] => true | _ => false end.

Definition pjoin (a b : str) : str :=
  if starts_with_slash b then b
  else if is_empty a || ends_with_slash a then a ++ b
  else a ++ 47 :: b.

(* ---------------------------------------------------------------------------------- *)
(* dependencies (the fields C12 talks about)                                           *)
(* ---------------------------------------------------------------------------------- *)
(* source=None | dict with href h | dict with subdir s (pkgdir = None) | dict with package p
   and subdir s (pkgdir = Some (package_dir p): resolved by the import system, an input here) *)
Inductive source := SrcNone | SrcUrl (href : str) | SrcLocal (pkgdir : option str) (subdir : str).

Record pdep := mk_pdep {
  d_name : str;
  d_version : str;          (* str(self.version), as printed by packaging.version *)
  d_source : source;
  d_scripts : list str;     (* the src of every item of self.script *)
  d_styles : list str;      (* the href of every item of self.stylesheet *)
  d_all_files : bool
}.

(* `if lib_prefix:` / `if libdir:` -- None and the empty string are both falsy *)
Definition truthy (o : option str) : option str :=
  match o with Some (c :: s) => Some (c :: s) | _ => None end.

(* href = self.name; if include_version: href += hyphen + str(self.version);
   if lib_prefix: href = posixpath.join(lib_prefix, href) *)
Definition name_ver (name version : str) (include_version : bool) : str :=
  if include_version then name ++ 45 :: version else name.
Definition href_of (name version : str) (lib_prefix : option str) (include_version : bool) : str :=
  let href := name_ver name version include_version in
  match truthy lib_prefix with
  | Some p => pjoin p href
  | None => href
  end.

(* source_path_map(...): (source, href).  os.path.realpath(subdir) is an input: the harness
   passes resolved absolute directories. *)
Definition source_path_map (d : pdep) (lib_prefix : option str) (include_version : bool)
  : str * str :=
  match d_source d with
  | SrcNone => ([], [])
  | SrcUrl h => ([], h)
  | SrcLocal pkg sub =>
    (match pkg with None => sub | Some pd => pjoin pd sub end,
     href_of (d_name d) (d_version d) lib_prefix include_version)
  end.

(* as_dict: posixpath.join(source_href, urllib.parse.quote(path)).  Note that name,
   version and lib_prefix are NOT quoted by the code. *)
Definition url_of (d : pdep) (lib_prefix : option str) (include_version : bool) (file : str)
  : str :=
  pjoin (snd (source_path_map d lib_prefix include_version)) (quote file).

Fixpoint map_res {T U} (f : T -> res U) (l : list T) : res (list U) :=
  match l with
  | [] => Ok []
  | x :: l' => match f x with
               | Err e => Err e
               | Ok y => match map_res f l' with Err e => Err e | Ok ys => Ok (y :: ys) end
               end
  end.

Definition url_of_py (d : pdep) (lib_prefix : option str) (iv : bool) (file : str) : res str :=
  res_map (pjoin (snd (source_path_map d lib_prefix iv))) (quote_py file).

(* (stylesheet hrefs, script srcs) in the order as_dict computes them *)
Definition as_dict_urls (d : pdep) (lib_prefix : option str) (iv : bool)
  : res (list str * list str) :=
  match map_res (url_of_py d lib_prefix iv) (d_styles d) with
  | Err e => Err e
  | Ok st => match map_res (url_of_py d lib_prefix iv) (d_scripts d) with
             | Err e => Err e
             | Ok sc => Ok (st, sc)
             end
  end.

(* ---------------------------------------------------------------------------------- *)
(* from strings to filesystem paths                                                    *)
(* ---------------------------------------------------------------------------------- *)
(* s.split(d) for a one-character separator *)
Fixpoint split_on (d : N) (s : str) : list str :=
  match s with
  | [] => [[]]
  | c :: s' =>
    if c =? d then [] :: split_on d s'
    else match split_on d s' with
         | [] => [[c]]
         | x :: xs => (c :: x) :: xs
         end
  end.

Definition path := list str.

(* what the kernel makes of a path string: empty and single-dot components are
   skipped (dot-dot and symlinks are NOT modelled; the theorems exclude dot-dot components) *)
Definition keep_seg (s : str) : bool :=
  match s with [] => false | [46] => false | _ => true end.
Definition path_of_str (s : str) : path := filter keep_seg (split_on 47 s).

(* save_html: destdir = str(Path(file).resolve().parent); if libdir: join(destdir, libdir) *)
Definition destdir_of (file_dir : str) (libdir : option str) : str :=
  match truthy libdir with Some l => pjoin file_dir l | None => file_dir end.

(* copy_to: os.path.join(path, the href of source_path_map(lib_prefix=None, ...)) *)
Definition target_dir_str (d : pdep) (dest : str) (iv : bool) : str :=
  pjoin dest (snd (source_path_map d None iv)).
(* os.path.join(target_dir, f) *)
Definition target_file_str (d : pdep) (dest : str) (iv : bool) (f : str) : str :=
  pjoin (target_dir_str d dest iv) f.

(* the file a browser loads for a relative URL found in a document stored in directory
   dir: split on slash, percent-decode each segment *)
Definition resolve_url (dir : str) (url : str) : path :=
  path_of_str dir ++ map unquote (split_on 47 url).

(* C11 (dependency markup): model of
     HTMLDependency.__init__     (htmltools/_core.py 1592-1652: single item -> list, required
                                  keys, the rel default appended to stylesheet dicts, head)
     HTMLDependency.as_dict      (1718-1760)
     HTMLDependency.as_html_tags (1682-1692)
     Tag.__init__                (675-697: the keyword binding of Tag(name, **item))
   at the level of tags and attributes.  It closes the gap between C11 (where the markup of a
   dependency is the parameter tags_of) and C12 (where only the URLs are modelled):
   source_path_map / quote / pjoin are those of Model/Paths.v, the keyword arguments go
   through the attribute model of Model/Attrs.v, the four parts are assembled by
   Model/Document.v (as_html_tags over the regenerated argument order).

   An item dict (one entry of meta / stylesheet / script) is an association list in
   insertion order, values as in Model/Attrs.v (attrarg).  A Python dict has distinct keys;
   the functions below are total on every association list (lookup finds the first entry,
   assignment replaces the first entry), the theorems that need distinct keys say so.
   Not modelled: item values of type bytes (quote accepts them), non-str keys, items that
   are not dicts (C10: Deps.v), dict subclasses.  Definitions only. *)
From HT Require Import Model.Str Model.Tree Model.Render Model.Deps Model.Attrs Model.Paths
     Model.Document Spec.AttrsSpec Gen.Tables.

Definition ditem := pydict.

(* ---- literals ------------------------------------------------------------------------ *)
Definition n_link : str := [108;105;110;107].
Definition v_stylesheet : str := [115;116;121;108;101;115;104;101;101;116].
(* k_href k_src k_rel k_name k_content: Model/Deps.v; n_meta n_script kw_name kw_add_ws nl:
   Model/Document.v *)

(* ---- dict primitives on item dicts ---------------------------------------------------- *)
(* d[k] / d.get(k) *)
Fixpoint iget (k : str) (d : ditem) : option attrarg :=
  match d with
  | [] => None
  | (k', v) :: d' => if str_eqb k k' then Some v else iget k d'
  end.
(* k in d *)
Definition ihas (k : str) (d : ditem) : bool :=
  match iget k d with Some _ => true | None => false end.
(* d[k] = v: an existing key keeps its position, a new key is appended *)
Fixpoint iset (k : str) (v : attrarg) (d : ditem) : ditem :=
  match d with
  | [] => [(k, v)]
  | (k', v') :: d' => if str_eqb k k' then (k', v) :: d' else (k', v') :: iset k v d'
  end.
(* the dict without key k (what is left in **kwargs once a named parameter took k) *)
Definition idel (k : str) (d : ditem) : ditem :=
  filter (fun kv => negb (str_eqb k (fst kv))) d.

(* ---- the dependency object ------------------------------------------------------------ *)
Record ddep := mk_ddep {
  dd_name : str;
  dd_version : str;                       (* str(self.version), as for C12 *)
  dd_source : Paths.source;
  dd_all_files : bool;
  dd_meta : list ditem;
  dd_sheets : list ditem;                 (* self.stylesheet *)
  dd_scripts : list ditem;                (* self.script *)
  dd_head : option (list (node dep))      (* None, or the items of the TagList self.head *)
}.

(* the str values stored under key k, item by item (what C12 calls the files) *)
Definition str_vals (k : str) (l : list ditem) : list str :=
  flat_map (fun s => match iget k s with Some (VStr h) => [h] | _ => [] end) l.

(* the same dependency as C12 sees it *)
Definition to_pdep (d : ddep) : pdep :=
  mk_pdep (dd_name d) (dd_version d) (dd_source d)
          (str_vals k_src (dd_scripts d)) (str_vals k_href (dd_sheets d)) (dd_all_files d).

(* ---- HTMLDependency.__init__ (items and head) ------------------------------------------ *)
(* script= / stylesheet= / meta= : None | one dict | a list of dicts *)
Inductive items_arg := IANone | IAOne (d : ditem) | IAList (l : list ditem).
(* if x is None: x = []  elif isinstance(x, dict): x = [x] *)
Definition norm_items (a : items_arg) : list ditem :=
  match a with IANone => [] | IAOne d => [d] | IAList l => l end.

(* _validate_dict: for a in req_attr: if a not in d: raise KeyError *)
Fixpoint validate_item (req : list str) (d : ditem) : res unit :=
  match req with
  | [] => Ok tt
  | a :: req' => if ihas a d then validate_item req' d else Err KeyError
  end.
(* _validate_dicts *)
Fixpoint validate_items (req : list str) (l : list ditem) : res unit :=
  match l with
  | [] => Ok tt
  | d :: l' => match validate_item req d with
               | Err e => Err e
               | Ok _ => validate_items req l'
               end
  end.

(* for s in self.stylesheet: if rel not in s: s[rel] = stylesheet *)
Definition item_add_rel (s : ditem) : ditem :=
  if ihas k_rel s then s else iset k_rel (VStr v_stylesheet) s.

(* head= : None | a str (wrapped in HTML) | anything else, seen as the items TagList(head)
   ends up with (flattening is C14's subject) *)
Inductive head_arg := HNone | HStr (s : str) | HNodes (l : list (node dep)).
Definition head_of (h : head_arg) : option (list (node dep)) :=
  match h with
  | HNone => None
  | HStr s => Some [Html s]
  | HNodes l => Some l
  end.

Definition dep_new (name version : str) (source : Paths.source) (all_files : bool)
           (script stylesheet meta : items_arg) (head : head_arg) : res ddep :=
  let sc := norm_items script in
  match validate_items [k_src] sc with
  | Err e => Err e
  | Ok _ =>
    let st := norm_items stylesheet in
    match validate_items [k_href] st with
    | Err e => Err e
    | Ok _ =>
      let st' := map item_add_rel st in
      let me := norm_items meta in
      match validate_items [k_name; k_content] me with
      | Err e => Err e
      | Ok _ => Ok (mk_ddep name version source all_files me st' sc (head_of head))
      end
    end
  end.

(* ---- HTMLDependency.as_dict ------------------------------------------------------------ *)
(* urllib.parse.quote(v): a str is quoted (surrogates: UnicodeEncodeError); None, True, a
   number, HTML (a UserString, not a str) reach quote_from_bytes, which raises TypeError *)
Definition quote_arg (v : attrarg) : res str :=
  match v with VStr s => quote_py s | _ => Err TypeError end.

(* posixpath.join(source_href, urllib.parse.quote(s[key])) *)
Definition url_item (key base : str) (s : ditem) : res str :=
  match iget key s with
  | None => Err KeyError
  | Some v => res_map (pjoin base) (quote_arg v)
  end.

(* href = quote(s[href]); s.update of the dict (href: join(source_href, href), rel: stylesheet):
   dict.update assigns the keys in that order *)
Definition sheet_item (base : str) (s : ditem) : res ditem :=
  match url_item k_href base s with
  | Err e => Err e
  | Ok u => Ok (iset k_rel (VStr v_stylesheet) (iset k_href (VStr u) s))
  end.

(* src = quote(s[src]); s.update of the dict (src: join(source_href, src)) *)
Definition script_item (base : str) (s : ditem) : res ditem :=
  match url_item k_src base s with
  | Err e => Err e
  | Ok u => Ok (iset k_src (VStr u) s)
  end.

(* head = None if self.head is None else self.head.get_html_string() *)
Definition head_html (h : option (list (node dep))) : res (option str) :=
  match h with
  | None => Ok None
  | Some l => res_map Some (list_html O nl true true l)
  end.

(* the returned dict, field by field *)
Record ddict := mk_ddict {
  ad_name : str;
  ad_version : str;
  ad_scripts : list ditem;
  ad_sheets : list ditem;
  ad_meta : list ditem;
  ad_head : option str
}.

Definition source_href (d : ddep) (lib_prefix : option str) (iv : bool) : str :=
  snd (source_path_map (to_pdep d) lib_prefix iv).

Definition dep_as_dict (d : ddep) (lib_prefix : option str) (iv : bool) : res ddict :=
  let base := source_href d lib_prefix iv in
  match map_res (sheet_item base) (dd_sheets d) with
  | Err e => Err e
  | Ok st =>
    match map_res (script_item base) (dd_scripts d) with
    | Err e => Err e
    | Ok sc =>
      match head_html (dd_head d) with
      | Err e => Err e
      | Ok h => Ok (mk_ddict (dd_name d) (dd_version d) sc st (dd_meta d) h)
      end
    end
  end.

(* ---- Tag(name, **item) ------------------------------------------------------------------ *)
(* def __init__(self, _name, *args, _add_ws=True, **kwargs):
     a key _name collides with the positional parameter: TypeError raised by the call;
     a key _add_ws is bound to the keyword parameter (not an attribute) and must be a bool;
     everything else is kwargs: TagAttrDict( **kwargs ).  No positional argument: no children. *)
Definition tag_of_item (name : str) (it : ditem) : res (node dep) :=
  if ihas kw_name it then Err TypeError
  else
    match iget kw_add_ws it with
    | None => res_map (fun a => TagN name true a []) (attrs_new [] it)
    | Some (VBool b) => res_map (fun a => TagN name b a []) (attrs_new [] (idel kw_add_ws it))
    | Some _ => Err TypeError
    end.

(* ---- HTMLDependency.as_html_tags --------------------------------------------------------- *)
(* self.head as an argument of TagList: None is dropped, a TagList is spliced *)
Definition head_items (d : ddep) : list (node dep) :=
  match dd_head d with None => [] | Some l => l end.

Definition dep_html_tags (d : ddep) (lib_prefix : option str) (iv : bool)
  : res (list (node dep)) :=
  match dep_as_dict d lib_prefix iv with
  | Err e => Err e
  | Ok r =>
    match map_res (tag_of_item n_meta) (ad_meta r) with
    | Err e => Err e
    | Ok metas =>
      match map_res (tag_of_item n_link) (ad_sheets r) with
      | Err e => Err e
      | Ok links =>
        match map_res (tag_of_item n_script) (ad_scripts r) with
        | Err e => Err e
        | Ok scripts => Ok (as_html_tags (mk_markup metas links scripts (head_items d)))
        end
      end
    end
  end.

(* the parameter tags_of of the document model, for an environment env that gives every
   dependency object its description: a dependency whose as_html_tags raises makes the whole
   render raise, which the document model does not represent -- it contributes nothing here *)
Definition dep_tags_of (env : dep -> ddep) (lib_prefix : option str) (iv : bool) (x : dep)
  : list (node dep) :=
  match dep_html_tags (env x) lib_prefix iv with Ok l => l | Err _ => [] end.

(* ========================================================================================= *)
(* Specification side: what the statement says, without lookups and assignments              *)
(* ========================================================================================= *)

(* the entry of an output item that stands where entry kv stood: the URL under urlkey,
   stylesheet under rel when rel is forced, else the entry itself *)
Definition spec_entry (urlkey url : str) (force_rel : bool) (kv : str * attrarg)
  : str * attrarg :=
  if str_eqb urlkey (fst kv) then (fst kv, VStr url)
  else if force_rel && str_eqb k_rel (fst kv) then (fst kv, VStr v_stylesheet)
  else kv.

(* a stylesheet item with URL url: same keys at the same positions; rel appended when the
   item had none (not the case after __init__) *)
Definition spec_sheet (url : str) (s : ditem) : ditem :=
  map (spec_entry k_href url true) s
  ++ (if ihas k_rel s then [] else [(k_rel, VStr v_stylesheet)]).
Definition spec_script (url : str) (s : ditem) : ditem :=
  map (spec_entry k_src url false) s.

(* the whitespace flag and the keyword arguments of Tag(name, **it) *)
Definition item_ws (it : ditem) : bool :=
  match iget kw_add_ws it with Some (VBool b) => b | _ => true end.
Definition item_kwargs (it : ditem) : ditem := idel kw_add_ws it.

(* t is the tag Tag(name, **it): childless, attributes = the Attrs model on the keywords *)
Definition tag_for (name : str) (it : ditem) (t : node dep) : Prop :=
  exists a, attrs_new [] (item_kwargs it) = Ok a /\ t = TagN name (item_ws it) a [].

(* Tag(name, **it) said with the grouping specification of C15 (attrs_of_call: the kept
   pairs under their normalised names, grouped by name in order of first appearance) *)
Definition spec_tag (name : str) (it : ditem) : res (node dep) :=
  if ihas kw_name it then Err TypeError
  else
    match iget kw_add_ws it with
    | None | Some (VBool _) =>
      res_map (fun a => TagN name (item_ws it) a []) (attrs_of_call [] (item_kwargs it))
    | Some _ => Err TypeError
    end.

(* the URL of the file named under key: C12's url_of *)
Definition spec_url (d : ddep) (lib_prefix : option str) (iv : bool) (key : str) (s : ditem)
  : res str :=
  match iget key s with
  | None => Err KeyError
  | Some (VStr h) =>
    if forallb scalar h then Ok (url_of (to_pdep d) lib_prefix iv h) else Err ValueError
  | Some _ => Err TypeError
  end.

(* the whole markup of one dependency: one meta per meta item, one link per stylesheet item
   (URL replaced, rel = stylesheet), one script per script item (URL replaced), in item
   order, then the head payload; the first error in the order as_dict / Tag calls meet it *)
Definition spec_html_tags (d : ddep) (lib_prefix : option str) (iv : bool)
  : res (list (node dep)) :=
  match map_res (fun s => res_map (fun u => spec_sheet u s) (spec_url d lib_prefix iv k_href s))
                (dd_sheets d) with
  | Err e => Err e
  | Ok st =>
    match map_res (fun s => res_map (fun u => spec_script u s) (spec_url d lib_prefix iv k_src s))
                  (dd_scripts d) with
    | Err e => Err e
    | Ok sc =>
      match head_html (dd_head d) with
      | Err e => Err e
      | Ok _ =>
        match map_res (spec_tag n_meta) (dd_meta d) with
        | Err e => Err e
        | Ok metas =>
          match map_res (spec_tag n_link) st with
          | Err e => Err e
          | Ok links =>
            match map_res (spec_tag n_script) sc with
            | Err e => Err e
            | Ok scripts => Ok (metas ++ links ++ scripts ++ head_items d)
            end
          end
        end
      end
    end
  end.

(* a Python dict: distinct keys *)
Definition dict_ok (it : ditem) : Prop := NoDup (map fst it).

(* the typed-dict case: keys without underscore, values plain strings *)
Definition str_item (l : list (str * str)) : ditem := map (fun kv => (fst kv, VStr (snd kv))) l.
Definition plain_attrs (l : list (str * str)) : attrs := map (fun kv => (fst kv, AStr (snd kv))) l.
Definition typed (l : list (str * str)) : Prop :=
  NoDup (map fst l) /\ Forall (fun kv => ~ In 95 (fst kv)) l.
(* the item has key k with a value made of scalar code points (what quote accepts) *)
Definition has_file (k : str) (l : list (str * str)) : Prop :=
  exists h, In (k, h) l /\ forallb scalar h = true.
(* l[k] for a key known to be present *)
Fixpoint sget (k : str) (l : list (str * str)) : str :=
  match l with
  | [] => []
  | (k', v) :: l' => if str_eqb k k' then v else sget k l'
  end.
Definition shas (k : str) (l : list (str * str)) : bool := mem_str k (map fst l).

Definition typed_entry (urlkey url : str) (force_rel : bool) (kv : str * str) : str * str :=
  if str_eqb urlkey (fst kv) then (fst kv, url)
  else if force_rel && str_eqb k_rel (fst kv) then (fst kv, v_stylesheet)
  else kv.
Definition typed_sheet (base : str) (l : list (str * str)) : list (str * str) :=
  map (typed_entry k_href (pjoin base (quote (sget k_href l))) true) l
  ++ (if shas k_rel l then [] else [(k_rel, v_stylesheet)]).
Definition typed_script (base : str) (l : list (str * str)) : list (str * str) :=
  map (typed_entry k_src (pjoin base (quote (sget k_src l))) false) l.

(* ---- rendering ---------------------------------------------------------------------------- *)
(* the pieces of one generated (childless) tag at indentation i *)
Definition tag_pieces (i : nat) (t : node dep) : list piece :=
  match t with
  | TagN name ws a _ =>
    if mem_str name void_names then [PWs (indent_str i); PSelf name a ws]
    else [PWs (indent_str i); POpen name a ws; PClose name ws]
  | _ => []
  end.
(* the pieces of a list of whitespace-enabled tags: one line each *)
Fixpoint lines_pieces (eol : str) (first : bool) (pss : list (list piece)) : list piece :=
  match pss with
  | [] => []
  | ps :: pss' => (if first then [] else [PWs eol]) ++ ps ++ lines_pieces eol false pss'
  end.
(* a childless whitespace-enabled tag *)
Definition block_leaf (t : node dep) : bool :=
  match t with TagN _ true _ [] => true | _ => false end.

(* Entry point of the extracted model for C20: run_c20 : sx -> sx.

   values  (jval):  (0) None | (1 b) bool | (2 s) number, s = str(x) | (3 s) str | (4 s) jsx
                    | (5 (v ...)) list/tuple | (6 ((k v) ...)) dict | (7 node) | (8 s) other, s = str(x)
   nodes   (jnode): (0 s) str | (1 id s) metadata, s = str(x) | (2 name ((k v) ...) (kid ...)) Tag,
                    attrs as stored | (3 name (allowed ...) ((rawname v) ...) (kid ...)) JSXTag built by
                    jsx_new from its raw kwargs | (4 s node) tagifiable, s = str(x) | (5 s) opaque

   1: (1 node)            -> (0)  some JSXTag construction raises NotImplementedError
                             (1 keys tagify str spec_js spec_metas direct_ok fully)
                                keys   = prop names of the top component, in order
                                tagify = res (attrs html ((name version src) ...) (id ...))
                                str    = res of str(component)
                                spec_js = opt print_js 2 LF (to_js (expand c)); spec_metas = metas_ref c
   3: (3 s)               -> (py_quote s, js_quote s, opt js_unquote (js_quote s))
   4: (4 s)               -> opt js_unquote s
   5: (5 s)               -> res _serialize_style_attr(s)
   6: (6 indent eol node) -> (res render_node, opt print_js (to_js node)) *)
From HT Require Import Model.Str Model.Sx Model.Tree Model.Codec Model.Jsx Spec.JsAst.

Inductive dres (T : Type) := DBad | DNotImpl | DOk (x : T).
Arguments DBad {T}.
Arguments DNotImpl {T}.
Arguments DOk {T} x.

Section DMap.
  Context {T : Type}.
  Variable f : sx -> dres T.
  Fixpoint dmap (l : list sx) : dres (list T) :=
    match l with
    | [] => DOk []
    | x :: l' =>
      match f x with
      | DBad => DBad
      | DNotImpl => match dmap l' with DBad => DBad | _ => DNotImpl end
      | DOk y => match dmap l' with DBad => DBad | DNotImpl => DNotImpl | DOk ys => DOk (y :: ys) end
      end
    end.
End DMap.

Definition dstr (x : sx) : dres str :=
  match str_of_sx x with Some s => DOk s | None => DBad end.

Fixpoint jval_of_sx (x : sx) {struct x} : dres jval :=
  match x with
  | A _ => DBad
  | L l =>
    match l with
    | [A 0] => DOk JNone
    | [A 1; b] => match bool_of_sx b with Some b' => DOk (JBool b') | None => DBad end
    | [A 2; s] => match str_of_sx s with Some s' => DOk (JNum s') | None => DBad end
    | [A 3; s] => match str_of_sx s with Some s' => DOk (JStr s') | None => DBad end
    | [A 4; s] => match str_of_sx s with Some s' => DOk (JJsx s') | None => DBad end
    | [A 5; L items] =>
      match dmap (fun y => jval_of_sx y) items with
      | DOk vs => DOk (JList vs) | DNotImpl => DNotImpl | DBad => DBad end
    | [A 6; L items] =>
      match dmap (fun y => kv_of_sx y) items with
      | DOk kv => DOk (JDict kv) | DNotImpl => DNotImpl | DBad => DBad end
    | [A 7; n] =>
      match jnode_of_sx n with DOk n' => DOk (JNode n') | DNotImpl => DNotImpl | DBad => DBad end
    | [A 8; s] => match str_of_sx s with Some s' => DOk (JOther s') | None => DBad end
    | _ => DBad
    end
  end
with kv_of_sx (x : sx) {struct x} : dres (str * jval) :=
  match x with
  | L [k; v] =>
    match str_of_sx k, jval_of_sx v with
    | Some k', DOk v' => DOk (k', v')
    | Some _, DNotImpl => DNotImpl
    | _, _ => DBad
    end
  | _ => DBad
  end
with jnode_of_sx (x : sx) {struct x} : dres jnode :=
  match x with
  | A _ => DBad
  | L l =>
    match l with
    | [A 0; s] => match str_of_sx s with Some s' => DOk (JText s') | None => DBad end
    | [A 1; A i; s] => match str_of_sx s with Some s' => DOk (JMeta i s') | None => DBad end
    | [A 2; name; L at_; L kids] =>
      match str_of_sx name, dmap (fun y => kv_of_sx y) at_, dmap (fun y => jnode_of_sx y) kids with
      | Some nm, DOk a, DOk ks => DOk (JTag nm a ks)
      | None, _, _ | _, DBad, _ | _, _, DBad => DBad
      | _, _, _ => DNotImpl
      end
    | [A 3; name; allowed; L kw; L kids] =>
      match str_of_sx name, list_of_sx str_of_sx allowed,
            dmap (fun y => kv_of_sx y) kw, dmap (fun y => jnode_of_sx y) kids with
      | Some nm, Some al, DOk kw', DOk ks =>
        match jsx_new nm al kw' ks with Some c => DOk c | None => DNotImpl end
      | None, _, _, _ | _, None, _, _ | _, _, DBad, _ | _, _, _, DBad => DBad
      | _, _, _, _ => DNotImpl
      end
    | [A 4; s; e] =>
      match str_of_sx s, jnode_of_sx e with
      | Some s', DOk e' => DOk (JTagifiable s' e')
      | Some _, DNotImpl => DNotImpl
      | _, _ => DBad
      end
    | [A 5; s] => match str_of_sx s with Some s' => DOk (JOpaque s') | None => DBad end
    | _ => DBad
    end
  end.

Definition sx_dep (d : str * str * str) : sx :=
  L [sx_str (fst (fst d)); sx_str (snd (fst d)); sx_str (snd d)].
Definition sx_script (s : script) : sx :=
  L [sx_attrs (sc_attrs s); sx_str (sc_html s); sx_list sx_dep (sc_deps s);
     sx_list A (sc_metas s)].

Definition comp_keys (c : jnode) : list str :=
  match c with JComp _ ps _ => map fst ps | _ => [] end.

Definition run_c20 (x : sx) : sx :=
  match x with
  | L [A 1; n] =>
    match jnode_of_sx n with
    | DBad => sx_bad
    | DNotImpl => L [A 0]
    | DOk c =>
      L [A 1; sx_list sx_str (comp_keys c);
         sx_res sx_script (jsx_tagify c);
         sx_res sx_str (jsx_str c);
         sx_opt sx_str (option_map (print_js 2 [10]) (to_js (expand c)));
         sx_list A (metas_ref c);
         sx_bool (direct_ok c);
         sx_bool (fully_tagified (fst (walk c)))]
    end
  | L [A 3; s] =>
    match str_of_sx s with
    | Some s' => L [sx_str (py_quote s'); sx_str (js_quote s'); sx_opt sx_str (js_unquote (js_quote s'))]
    | None => sx_bad
    end
  | L [A 4; s] =>
    match str_of_sx s with
    | Some s' => sx_opt sx_str (js_unquote s')
    | None => sx_bad
    end
  | L [A 5; s] =>
    match str_of_sx s with
    | Some s' => sx_res sx_str (serialize_style serialize_val (JStr s'))
    | None => sx_bad
    end
  | L [A 6; i; eol; n] =>
    match nat_of_sx i, str_of_sx eol, jnode_of_sx n with
    | Some i', Some eol', DOk c =>
      L [sx_res sx_str (render_node i' eol' c); sx_opt sx_str (option_map (print_js i' eol') (to_js c))]
    | _, _, DNotImpl => L [A 0]
    | _, _, _ => sx_bad
    end
  | _ => sx_bad
  end.

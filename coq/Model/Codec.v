(* Wire codecs: sx <-> model values.  Only used by the correspondence driver. *)
From HT Require Import Model.Str Model.Sx Model.Tree Model.Render Model.Concat Spec.Tokenizer.

Definition aval_of_sx (x : sx) : option aval :=
  match x with
  | L [A 0; v] => option_map AStr (str_of_sx v)
  | L [A 1; v] => option_map AHtml (str_of_sx v)
  | _ => None
  end.
Definition attr_of_sx (x : sx) : option (str * aval) :=
  match x with
  | L [k; v] => match str_of_sx k, aval_of_sx v with
                | Some k', Some v' => Some (k', v')
                | _, _ => None
                end
  | _ => None
  end.
Definition sx_aval (v : aval) : sx :=
  match v with AStr s => L [A 0; sx_str s] | AHtml s => L [A 1; sx_str s] end.
Definition sx_attrs (a : attrs) : sx :=
  L (map (fun kv => L [sx_str (fst kv); sx_aval (snd kv)]) a).

Section NodeCodec.
  Context {M : Type}.
  Variable fm : sx -> option M.
  Variable gm : M -> sx.

  Fixpoint node_of_sx (x : sx) {struct x} : option (node M) :=
    match x with
    | A _ => None
    | L l =>
      match l with
      | [A 0; s] => option_map Text (str_of_sx s)
      | [A 1; s] => option_map Html (str_of_sx s)
      | [A 2; s] => option_map Repr (str_of_sx s)
      | [A 3; m] => option_map Meta (fm m)
      | [A 4; name; ws; at_; L kids] =>
        match str_of_sx name, bool_of_sx ws, list_of_sx attr_of_sx at_,
              (fix go (l : list sx) : option (list (node M)) :=
                 match l with
                 | [] => Some []
                 | k :: l' => match node_of_sx k, go l' with
                              | Some n, Some ns => Some (n :: ns)
                              | _, _ => None
                              end
                 end) kids with
        | Some name', Some ws', Some at', Some kids' => Some (TagN name' ws' at' kids')
        | _, _, _, _ => None
        end
      | [A 5; sh; L exp] =>
        match opt_of_sx str_of_sx sh,
              (fix go (l : list sx) : option (list (node M)) :=
                 match l with
                 | [] => Some []
                 | k :: l' => match node_of_sx k, go l' with
                              | Some n, Some ns => Some (n :: ns)
                              | _, _ => None
                              end
                 end) exp with
        | Some sh', Some exp' => Some (Custom sh' exp')
        | _, _ => None
        end
      | _ => None
      end
    end.

  Fixpoint sx_node (n : node M) : sx :=
    match n with
    | Text s => L [A 0; sx_str s]
    | Html s => L [A 1; sx_str s]
    | Repr s => L [A 2; sx_str s]
    | Meta m => L [A 3; gm m]
    | TagN name ws a kids =>
      L [A 4; sx_str name; sx_bool ws; sx_attrs a; L (map sx_node kids)]
    | Custom sh exp => L [A 5; sx_opt sx_str sh; L (map sx_node exp)]
    end.
End NodeCodec.

Definition sx_err (e : err) : sx :=
  A (match e with
     | NotTagified => 1 | NotATag => 2 | TypeError => 3 | KeyError => 4
     | ValueError => 5 | RuntimeError => 6 | OutOfFuel => 7 end).
Definition sx_res {T} (f : T -> sx) (r : res T) : sx :=
  match r with Ok x => L [A 0; f x] | Err e => L [A 1; sx_err e] end.

Definition sx_piece (p : piece) : sx :=
  match p with
  | PWs s => L [A 0; sx_str s]
  | POpen n a b => L [A 1; sx_str n; sx_attrs a; sx_bool b]
  | PSelf n a b => L [A 2; sx_str n; sx_attrs a; sx_bool b]
  | PClose n b => L [A 3; sx_str n; sx_bool b]
  | PTxt s => L [A 4; sx_str s]
  | PRaw s => L [A 5; sx_str s]
  end.

(* C04 concatenation expressions *)
Fixpoint cexpr_of_sx (x : sx) : option cexpr :=
  match x with
  | L [A 0; A k; s] =>
    match str_of_sx s with
    | Some s' => if k =? 0 then Some (Leaf (OStr s')) else if k =? 1 then Some (Leaf (OHtml s'))
                 else Some (Leaf (OObj s'))
    | None => None
    end
  | L [A 1; a; b] =>
    match cexpr_of_sx a, cexpr_of_sx b with
    | Some a', Some b' => Some (Add a' b')
    | _, _ => None
    end
  | _ => None
  end.
Definition sx_cval (v : cval) : sx :=
  match v with
  | CStr s => L [A 0; sx_str s] | CHtml s => L [A 1; sx_str s] | CObj s => L [A 2; sx_str s]
  end.

(* C01 parsed forests *)
Fixpoint sx_elem (e : elem) : sx :=
  match e with
  | EText s => L [A 0; sx_str s]
  | EElem n a kids =>
    L [A 1; sx_str n; L (map (fun kv => L [sx_str (fst kv); sx_str (snd kv)]) a); L (map sx_elem kids)]
  end.
Definition sx_token (t : token) : sx :=
  match t with
  | TStart n a sc => L [A 0; sx_str n; L (map (fun kv => L [sx_str (fst kv); sx_str (snd kv)]) a); sx_bool sc]
  | TEnd n => L [A 1; sx_str n]
  | TChars s => L [A 2; sx_str s]
  end.

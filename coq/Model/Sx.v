(* S-expressions: the wire format between the Python harness and the extracted model.
   Decoders and encoders are Gallina, so the OCaml driver only parses/prints this type. *)
From HT Require Import Model.Str.

Inductive sx := A (n : N) | L (l : list sx).

Definition sx_str (s : str) : sx := L (map A s).
Definition sx_bool (b : bool) : sx := A (if b then 1 else 0).
Definition sx_opt {T} (f : T -> sx) (o : option T) : sx :=
  match o with None => L [] | Some x => L [f x] end.
Definition sx_list {T} (f : T -> sx) (l : list T) : sx := L (map f l).
Definition sx_nat (n : nat) : sx := A (N.of_nat n).

Fixpoint str_of_sxs (l : list sx) : option str :=
  match l with
  | [] => Some []
  | A c :: l' => match str_of_sxs l' with Some s => Some (c :: s) | None => None end
  | _ => None
  end.
Definition str_of_sx (x : sx) : option str :=
  match x with L l => str_of_sxs l | _ => None end.
Definition bool_of_sx (x : sx) : option bool :=
  match x with A 0 => Some false | A 1 => Some true | _ => None end.
Definition nat_of_sx (x : sx) : option nat :=
  match x with A n => Some (N.to_nat n) | _ => None end.

Fixpoint map_opt {T U} (f : T -> option U) (l : list T) : option (list U) :=
  match l with
  | [] => Some []
  | x :: l' => match f x, map_opt f l' with
               | Some y, Some ys => Some (y :: ys)
               | _, _ => None
               end
  end.

Definition list_of_sx {T} (f : sx -> option T) (x : sx) : option (list T) :=
  match x with L l => map_opt f l | _ => None end.
Definition opt_of_sx {T} (f : sx -> option T) (x : sx) : option (option T) :=
  match x with
  | L [] => Some None
  | L [y] => match f y with Some v => Some (Some v) | None => None end
  | _ => None
  end.

(* error marker understood by the harness *)
Definition sx_bad : sx := L [A 999999; A 999999].

(* structural equality on sx (used by the extraction cross-check: the kernel evaluates the
   model on sampled cases with vm_compute and compares with what the OCaml driver printed) *)
Fixpoint sx_eqb (a b : sx) : bool :=
  match a, b with
  | A x, A y => N.eqb x y
  | L l1, L l2 =>
    (fix go (l1 l2 : list sx) : bool :=
       match l1, l2 with
       | [], [] => true
       | x :: r1, y :: r2 => sx_eqb x y && go r1 r2
       | _, _ => false
       end) l1 l2
  | _, _ => false
  end.

(* C14: executable model of the child-list operations of htmltools.
   Transcribes, statement by statement:
     htmltools/_util.py   flatten / _flatten_recurse                       (79-100)
     htmltools/_core.py   is_tag_node / is_tag_child                       (162-218)
                          TagList.__init__/extend/append/insert/__add__/__radd__ (280-321)
                          _tagchilds_to_tagnodes                           (1927-1944)
     collections.UserList __getitem__ (slice), __setitem__ (slice), __iadd__, __mul__,
                          __rmul__, __imul__, copy  -- inherited by TagList
   Definitions only; proofs are in Proofs/TagListOpsProofs.v. *)
From Coq Require Import ZArith.
From HT Require Import Model.Str Model.Tree.

(* ------------------------------------------------------------------------------ *)
(* Python values that can be passed as a child argument.                          *)
(* Numbers carry Python's own str(x).  Tag / MetadataNode / _repr_html_ / tagify  *)
(* objects are opaque identities.  PBad: an object that is none of the above and  *)
(* not a Sequence: object(), a dict, a set, a complex ...                         *)
(* ------------------------------------------------------------------------------ *)
Inductive pyval :=
| PNone
| PInt (repr : str)
| PFloat (repr : str)
| PBool (b : bool)
| PStr (s : str)
| PHtml (s : str)
| PNodeTag (id : N)
| PNodeMeta (id : N)
| PNodeRepr (id : N)
| PNodeCustom (id : N)
| PList (l : list pyval)
| PTuple (l : list pyval)
| PTagList (l : list pyval)
| PBad (id : N).

Section PyvalInd.
  Variable P : pyval -> Prop.
  Hypothesis HNone : P PNone.
  Hypothesis HInt : forall r, P (PInt r).
  Hypothesis HFloat : forall r, P (PFloat r).
  Hypothesis HBool : forall b, P (PBool b).
  Hypothesis HStr : forall s, P (PStr s).
  Hypothesis HHtml : forall s, P (PHtml s).
  Hypothesis HTag : forall i, P (PNodeTag i).
  Hypothesis HMeta : forall i, P (PNodeMeta i).
  Hypothesis HRepr : forall i, P (PNodeRepr i).
  Hypothesis HCustom : forall i, P (PNodeCustom i).
  Hypothesis HList : forall l, Forall P l -> P (PList l).
  Hypothesis HTuple : forall l, Forall P l -> P (PTuple l).
  Hypothesis HTagList : forall l, Forall P l -> P (PTagList l).
  Hypothesis HBad : forall i, P (PBad i).

  Fixpoint pyval_ind' (v : pyval) : P v :=
    let go := fix go (l : list pyval) : Forall P l :=
                match l with
                | [] => Forall_nil P
                | x :: l' => Forall_cons x (pyval_ind' x) (go l')
                end in
    match v with
    | PNone => HNone
    | PInt r => HInt r
    | PFloat r => HFloat r
    | PBool b => HBool b
    | PStr s => HStr s
    | PHtml s => HHtml s
    | PNodeTag i => HTag i
    | PNodeMeta i => HMeta i
    | PNodeRepr i => HRepr i
    | PNodeCustom i => HCustom i
    | PList l => HList l (go l)
    | PTuple l => HTuple l (go l)
    | PTagList l => HTagList l (go l)
    | PBad i => HBad i
    end.
End PyvalInd.

(* A normalised child as the property text describes it. *)
Inductive okind := KTag | KMeta | KRepr | KCustom.
Inductive node :=
| NText (s : str)
| NHtml (s : str)
| NObj (k : okind) (id : N).

(* the Python object a normalised child is *)
Definition pv_of_node (n : node) : pyval :=
  match n with
  | NText s => PStr s
  | NHtml s => PHtml s
  | NObj KTag i => PNodeTag i
  | NObj KMeta i => PNodeMeta i
  | NObj KRepr i => PNodeRepr i
  | NObj KCustom i => PNodeCustom i
  end.
Definition embed (l : list node) : list pyval := map pv_of_node l.

(* str(True) / str(False) *)
Definition bool_text (b : bool) : str :=
  if b then [84; 114; 117; 101] else [70; 97; 108; 115; 101].

(* ------------------------------------------------------------------------------ *)
(* Two facts about the code on which the repairs F4 / F5 act.  They are the only   *)
(* lines of this model that the repairs change.                                    *)
(* ------------------------------------------------------------------------------ *)

(* Does TagList define __iadd__ itself, delegating to extend and returning self?
   Unrepaired tree: no, += is collections.UserList.__iadd__.                        *)
Definition iadd_delegates_to_extend : bool := true.

(* Is int in the isinstance tuple of is_tag_child (bool is a subclass of int)?
   Unrepaired tree: no, the tuple is (TagList, float, Sequence).                    *)
Definition child_tuple_has_int : bool := true.

(* ------------------------------------------------------------------------------ *)
(* is_tag_node / is_tag_child                                                      *)
(* ------------------------------------------------------------------------------ *)

(* isinstance(x, (Tagifiable, MetadataNode, ReprHtml, str, HTML)).
   Tag and TagList have tagify(), so both are Tagifiable; HTML has _repr_html_. *)
Definition is_tag_node (x : pyval) : bool :=
  match x with
  | PNodeTag _ | PNodeCustom _ | PTagList _ => true   (* Tagifiable *)
  | PNodeMeta _ => true                               (* MetadataNode *)
  | PNodeRepr _ => true                               (* ReprHtml *)
  | PStr _ => true
  | PHtml _ => true
  | _ => false
  end.

Definition is_tag_child (x : pyval) : bool :=
  if is_tag_node x then true
  else match x with
       | PNone => true                                 (* x is None *)
       | PTagList _ => true                            (* isinstance(x, (TagList, *)
       | PFloat _ => true                              (*   float,                 *)
       | PList _ | PTuple _ => true                    (*   Sequence))             *)
       | PInt _ | PBool _ => child_tuple_has_int       (* F5 *)
       | _ => false
       end.

(* ------------------------------------------------------------------------------ *)
(* flatten (htmltools/_util.py)                                                    *)
(* ------------------------------------------------------------------------------ *)

(* One turn of the loop body of _flatten_recurse for `item`, threading `result`:
     if isinstance(item, (list, tuple, TagList)): _flatten_recurse(item, result)
     elif item is not None: result.append(item)                                    *)
Fixpoint flatten_recurse_item (item : pyval) (result : list pyval) : list pyval :=
  match item with
  | PList l | PTuple l | PTagList l =>
      (fix loop (x : list pyval) (result : list pyval) : list pyval :=
         match x with
         | [] => result
         | it :: x' => loop x' (flatten_recurse_item it result)
         end) l result
  | PNone => result
  | _ => result ++ [item]
  end.

(* for item in x: ... *)
Fixpoint flatten_recurse (x : list pyval) (result : list pyval) : list pyval :=
  match x with
  | [] => result
  | it :: x' => flatten_recurse x' (flatten_recurse_item it result)
  end.

Definition flatten (x : list pyval) : list pyval := flatten_recurse x [].

(* `for item in x` / `*x` / `list(x)` on one Python value: the items it yields, or
   TypeError when it is not iterable.  A str yields its characters as 1-character
   strs; an HTML (a UserString) yields one HTML per character. *)
Definition py_iter (x : pyval) : res (list pyval) :=
  match x with
  | PList l | PTuple l | PTagList l => Ok l
  | PStr s => Ok (map (fun c => PStr [c]) s)
  | PHtml s => Ok (map (fun c => PHtml [c]) s)
  | _ => Err TypeError
  end.

(* ------------------------------------------------------------------------------ *)
(* _tagchilds_to_tagnodes                                                          *)
(* ------------------------------------------------------------------------------ *)

(* for i, item in enumerate(result):
     if isinstance(item, (int, float)): result[i] = str(item)
     elif not is_tag_node(item): raise TypeError                                   *)
Fixpoint convert_items (result : list pyval) : res (list pyval) :=
  match result with
  | [] => Ok []
  | item :: rest =>
    match item with
    | PInt r | PFloat r =>
        match convert_items rest with Ok l => Ok (PStr r :: l) | Err e => Err e end
    | PBool b =>
        match convert_items rest with Ok l => Ok (PStr (bool_text b) :: l) | Err e => Err e end
    | _ =>
        if is_tag_node item
        then match convert_items rest with Ok l => Ok (item :: l) | Err e => Err e end
        else Err TypeError
    end
  end.

(* the function applied to something that is already known to be a non-str iterable
   with items `items` (the *args tuple, a list literal built by the caller) *)
Definition tagchilds_of_items (items : list pyval) : res (list pyval) :=
  convert_items (flatten items).

(* _tagchilds_to_tagnodes(x) for an arbitrary argument *)
Definition tagchilds_to_tagnodes (x : pyval) : res (list pyval) :=
  match x with
  | PStr _ => Ok [x]                                   (* if isinstance(x, str): return [x] *)
  | _ => match py_iter x with
         | Ok items => tagchilds_of_items items
         | Err e => Err e                              (* flatten: `for item in x` raises *)
         end
  end.

(* ------------------------------------------------------------------------------ *)
(* slices of a Python list                                                         *)
(* ------------------------------------------------------------------------------ *)

(* slice(start, stop, step).indices(length) *)
Definition slice_indices (length : Z) (start stop step : option Z) : res (Z * Z * Z) :=
  let step' := match step with None => 1%Z | Some s => s end in
  if (step' =? 0)%Z then Err ValueError
  else
    let neg := (step' <? 0)%Z in
    let lower := if neg then (-1)%Z else 0%Z in
    let upper := if neg then (length - 1)%Z else length in
    let adj (x : Z) : Z :=
        if (x <? 0)%Z then Z.max (x + length) lower else Z.min x upper in
    let start' := match start with
                  | None => if neg then upper else lower
                  | Some x => adj x
                  end in
    let stop' := match stop with
                 | None => if neg then lower else upper
                 | Some x => adj x
                 end in
    Ok (start', stop', step').

(* range(start, stop, step) as list positions *)
Fixpoint slice_positions (fuel : nat) (cur stop step : Z) : list nat :=
  match fuel with
  | O => []
  | S f =>
    if (if (0 <? step)%Z then (cur <? stop)%Z else (stop <? cur)%Z)
    then Z.to_nat cur :: slice_positions f (cur + step)%Z stop step
    else []
  end.

(* the items at the given positions (positions outside the list contribute nothing;
   slice_indices never produces any) *)
Definition take_positions {T} (data : list T) (ps : list nat) : list T :=
  flat_map (fun p => match nth_error data p with Some v => [v] | None => [] end) ps.

(* data[start:stop:step]  (generic in the element type: the list-slice primitive does
   not look at the elements) *)
Definition py_getslice {T} (data : list T) (start stop step : option Z) : res (list T) :=
  match slice_indices (Z.of_nat (length data)) start stop step with
  | Ok (a, b, s) => Ok (take_positions data (slice_positions (length data) a b s))
  | Err e => Err e
  end.

(* data[i:j] = items   (step None; CPython list_ass_slice after PySlice_AdjustIndices:
   when stop < start the empty slice at start is replaced) *)
Definition py_setslice (data : list pyval) (i j : Z) (items : list pyval) : list pyval :=
  match slice_indices (Z.of_nat (length data)) (Some i) (Some j) None with
  | Ok (a, b, _) =>
      let b' := if (b <? a)%Z then a else b in
      firstn (Z.to_nat a) data ++ items ++ skipn (Z.to_nat b') data
  | Err _ => data
  end.

(* data * n *)
Fixpoint list_repeat (n : nat) (data : list pyval) : list pyval :=
  match n with O => [] | S k => data ++ list_repeat k data end.

(* ------------------------------------------------------------------------------ *)
(* TagList operations on the state self.data : list of Python objects              *)
(* ------------------------------------------------------------------------------ *)
Definition state := list pyval.

(* TagList( *args):  super().__init__(_tagchilds_to_tagnodes(args)) *)
Definition taglist_new (args : list pyval) : res state := tagchilds_of_items args.

(* extend: super().extend(_tagchilds_to_tagnodes(other)) *)
Definition op_extend (st : state) (other : pyval) : res state :=
  match tagchilds_to_tagnodes other with
  | Ok nodes => Ok (st ++ nodes)
  | Err e => Err e
  end.

(* append(item, *args): self.extend([item, *args]) *)
Definition op_append (st : state) (item : pyval) (args : list pyval) : res state :=
  op_extend st (PList (item :: args)).

(* insert(i, item): self[i:i] = _tagchilds_to_tagnodes([item]) *)
Definition op_insert (st : state) (i : Z) (item : pyval) : res state :=
  match tagchilds_to_tagnodes (PList [item]) with
  | Ok nodes => Ok (py_setslice st i i nodes)
  | Err e => Err e
  end.

(* __add__: TagList(self, item) if isinstance(item, str) else TagList(self, *item) *)
Definition op_add (st : state) (item : pyval) : res state :=
  match item with
  | PStr _ => taglist_new [PTagList st; item]
  | _ => match py_iter item with
         | Ok its => taglist_new (PTagList st :: its)
         | Err e => Err e
         end
  end.

(* __radd__: TagList(item, self) if isinstance(item, str) else TagList( *item, self) *)
Definition op_radd (st : state) (item : pyval) : res state :=
  match item with
  | PStr _ => taglist_new [item; PTagList st]
  | _ => match py_iter item with
         | Ok its => taglist_new (its ++ [PTagList st])
         | Err e => Err e
         end
  end.

(* UserList.__iadd__:
     if isinstance(other, UserList): self.data += other.data
     elif isinstance(other, type(self.data)): self.data += other
     else: self.data += list(other)
     return self *)
Definition iadd_inherited (st : state) (other : pyval) : res state :=
  match other with
  | PTagList l => Ok (st ++ l)
  | PList l => Ok (st ++ l)
  | _ => match py_iter other with
         | Ok its => Ok (st ++ its)
         | Err e => Err e
         end
  end.

Definition op_iadd (st : state) (other : pyval) : res state :=
  if iadd_delegates_to_extend then op_extend st other else iadd_inherited st other.

(* UserList.__getitem__ with a slice: self.__class__(self.data[i]) *)
Definition op_getslice (st : state) (start stop step : option Z) : res state :=
  match py_getslice st start stop step with
  | Ok l => taglist_new [PList l]
  | Err e => Err e
  end.

(* UserList.__mul__ / __rmul__: self.__class__(self.data * n) *)
Definition op_mul (st : state) (n : Z) : res state :=
  taglist_new [PList (list_repeat (Z.to_nat n) st)].

(* UserList.__imul__: self.data *= n; return self *)
Definition op_imul (st : state) (n : Z) : res state :=
  Ok (list_repeat (Z.to_nat n) st).

(* UserList.copy: self.__class__(self) *)
Definition op_copy (st : state) : res state := taglist_new [PTagList st].

(* ------------------------------------------------------------------------------ *)
(* operation histories                                                             *)
(* ------------------------------------------------------------------------------ *)
Inductive op :=
| OConstruct (args : list pyval)            (* tl = TagList( *args)          *)
| OAppend (item : pyval) (args : list pyval)(* tl.append(item, *args)       *)
| OExtend (other : pyval)                   (* tl.extend(other)             *)
| OInsert (i : Z) (item : pyval)            (* tl.insert(i, item)           *)
| OAdd (item : pyval)                       (* tl = tl + item               *)
| ORadd (item : pyval)                      (* tl = item + tl               *)
| OIadd (other : pyval)                     (* tl += other                  *)
| OSlice (start stop step : option Z)       (* tl = tl[start:stop:step]     *)
| OMul (n : Z)                              (* tl = tl * n   or  n * tl     *)
| OImul (n : Z)                             (* tl *= n                      *)
| OCopy.                                    (* tl = tl.copy()               *)

(* Does the operation work on the receiver in place?  (Its last statement is the one
   mutation; everything that can raise has been evaluated before it.) *)
Definition in_place (o : op) : bool :=
  match o with
  | OAppend _ _ | OExtend _ | OInsert _ _ | OIadd _ | OImul _ => true
  | _ => false
  end.

(* the value the operation computes: the receiver's new data (in-place operations) or the
   data of the returned TagList *)
Definition op_value (o : op) (st : state) : res state :=
  match o with
  | OConstruct args => taglist_new args
  | OAppend item args => op_append st item args
  | OExtend other => op_extend st other
  | OInsert i item => op_insert st i item
  | OAdd item => op_add st item
  | ORadd item => op_radd st item
  | OIadd other => op_iadd st other
  | OSlice a b s => op_getslice st a b s
  | OMul n => op_mul st n
  | OImul n => op_imul st n
  | OCopy => op_copy st
  end.

(* exec_op o st = (data of the receiver object after the call,
                   data of the list the variable tl is bound to afterwards, or the exception) *)
Definition exec_op (o : op) (st : state) : state * res state :=
  match op_value o st with
  | Ok st' => (if in_place o then st' else st, Ok st')
  | Err e => (st, Err e)
  end.

(* One step of a history: an exception leaves tl bound to the receiver. *)
Definition step (st : state) (o : op) : state :=
  match exec_op o st with
  | (_, Ok st') => st'
  | (recv, Err _) => recv
  end.

Definition run_ops (ops : list op) (st : state) : state := fold_left step ops st.

(* what the property demands of every stored element: a str, an HTML, or a node object;
   never a number, None, a list, a tuple, a TagList or an unsupported object *)
Definition is_stored_node (x : pyval) : bool :=
  match x with
  | PStr _ | PHtml _ | PNodeTag _ | PNodeMeta _ | PNodeRepr _ | PNodeCustom _ => true
  | _ => false
  end.

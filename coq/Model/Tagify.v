(* C09: model of TagList.tagify / Tag.tagify (htmltools/_core.py 323-346, 844-851).

   TagList.tagify copies the list and walks the indices len-1 .. 0; a Tagifiable child is
   replaced by its tagify() result: a returned TagList is spliced with  cp[i:i+1] = items ,
   anything else is stored with  cp[i] = result ; a MetadataNode is replaced by a copy.
   In the pure tree layer (identity ignored) an object's tagify() contributes the node list
   `exp` of its Custom node (see Model/Tree.v), a Tag contributes itself with tagified
   children, everything else contributes itself. *)
From HT Require Import Model.Str Model.Tree.

Section Tagify.
  Context {M : Type}.

  (* the backwards index loop with slice assignment, for an arbitrary per-child expansion f:
     splice_loop f i cp processes indices i-1, i-2, .., 0 of cp *)
  Fixpoint splice_loop (f : node M -> list (node M)) (i : nat) (cp : list (node M))
    : list (node M) :=
    match i with
    | O => cp
    | S j =>
      match nth_error cp j with
      | None => cp
      | Some c => splice_loop f j (firstn j cp ++ f c ++ skipn (S j) cp)
      end
    end.

  (* what child.tagify() contributes; recursion into Tag children needs the list loop
     again, so the faithful model carries fuel (tree depth suffices) *)
  Fixpoint tagify_fuel (fuel : nat) (n : node M) : list (node M) :=
    match fuel with
    | O => [n]
    | S f =>
      match n with
      | TagN name ws a kids =>
        [TagN name ws a (splice_loop (tagify_fuel f) (length kids) kids)]
      | Custom _ exp => exp
      | other => [other]
      end
    end.

  Fixpoint depth (n : node M) : nat :=
    match n with
    | TagN _ _ _ kids => S (fold_right (fun k acc => Nat.max (depth k) acc) O kids)
    | _ => 1
    end.

  (* TagList.tagify / Tag.tagify with enough fuel *)
  Definition taglist_tagify (l : list (node M)) : list (node M) :=
    splice_loop (tagify_fuel (S (fold_right (fun k acc => Nat.max (depth k) acc) O l)))
                (length l) l.
  Definition tag_tagify (n : node M) : list (node M) := tagify_fuel (S (depth n)) n.

  (* ---- the declarative reading of the property: substitute expansions in place ---- *)
  Fixpoint subst (n : node M) : list (node M) :=
    match n with
    | TagN name ws a kids => [TagN name ws a (flat_map subst kids)]
    | Custom _ exp => exp
    | other => [other]
    end.

  (* an un-expanded object that is not self-rendering sits at a rendered position *)
  Fixpoint has_unexpanded (n : node M) : bool :=
    match n with
    | Custom None _ => true
    | TagN _ _ _ kids => existsb has_unexpanded kids
    | _ => false
    end.
End Tagify.

(* Entry point of the extracted model for C08: run_c08 : sx -> sx.

   1: history on a heap   L [A 1; A fuel; heap; L [op]; L [kwargs]; L [depinfo]]
        heap    = L [obj]                      (location = index)
        obj     = L [A 0; name; ws; A attrs_loc; A kids_loc]        Tag
                | L [A 1; attrs]                                    TagAttrDict
                | L [A 2; L [val]]                                  TagList
                | L [A 3; A payload]                                MetadataNode (odd payload: dependency)
                | L [A 4; opt self_html; L [val]]                   object with tagify()
        val     = L [A 0; s] str | L [A 1; s] HTML | L [A 2; s] _repr_html_ object | L [A 3; A loc]
        op      = L [A 0; A l] tagify | L [A 1; A l] render | L [A 2; A l; A indent; eol]
                | L [A 3; A l] get_dependencies | L [A 4; A l] copy.copy
                | L [A 5; A l; A k] HTMLDocument(x, **kwargs_k).render(<arguments k>)
                | L [A 6; A l; A k] HTMLDocument._hoist_head_content(x, <arguments k>)
        kwargs  = attrs: the keyword attributes of document variant k, in order
        depinfo = L [A payload; name; L [version numbers]; version text; L [L [node]]]
                  the last field: d.as_html_tags(<arguments k>) as trees, one entry per k
      ->  L [A 0; heap'; L [result]]   |   L [A 1]   (None: out of fuel / ill-formed heap)
        result  = L [A 0; A loc] | L [A 1; res str] | L [A 2; L [A payload]]
                | L [A 3; res str; L [A payload]]
   2: ==                  L [A 2; node; node]  ->  bool          (Spec/EqSpec.v eqb)
   3: the string forms    L [A 3; A is_list; L [node]]  ->  L [str; repr; _repr_html_]
                          each  opt (res str)  (pure layer; a Tag is the one-element case)
   What C08 does not model is supplied through its own models: the attribute update by
   Model/Attrs.v (C15), resolution by Model/Deps.v (C10); the dependency tags are data. *)
From HT Require Import Model.Str Model.Sx Model.Tree Model.Codec Model.Render Model.Tagify
  Model.Heap Model.HeapOps Spec.EqSpec.
From HT Require Model.Attrs Model.Deps.

Definition val_of_sx (x : sx) : option val :=
  match x with
  | L [A 0; s] => option_map VText (str_of_sx s)
  | L [A 1; s] => option_map VHtml (str_of_sx s)
  | L [A 2; s] => option_map VRepr (str_of_sx s)
  | L [A 3; A l] => Some (VRef (N.to_nat l))
  | _ => None
  end.
Definition sx_val (v : val) : sx :=
  match v with
  | VText s => L [A 0; sx_str s]
  | VHtml s => L [A 1; sx_str s]
  | VRepr s => L [A 2; sx_str s]
  | VRef l => L [A 3; sx_nat l]
  end.

Definition obj_of_sx (x : sx) : option obj :=
  match x with
  | L [A 0; name; ws; A al; A kl] =>
    match str_of_sx name, bool_of_sx ws with
    | Some n, Some w => Some (OTag n w (N.to_nat al) (N.to_nat kl))
    | _, _ => None
    end
  | L [A 1; a] => option_map OAttrs (list_of_sx attr_of_sx a)
  | L [A 2; vs] => option_map OList (list_of_sx val_of_sx vs)
  | L [A 3; A p] => Some (OMeta p)
  | L [A 4; sh; vs] =>
    match opt_of_sx str_of_sx sh, list_of_sx val_of_sx vs with
    | Some s, Some e => Some (OCustom s e)
    | _, _ => None
    end
  | _ => None
  end.
Definition sx_obj (o : obj) : sx :=
  match o with
  | OTag n w al kl => L [A 0; sx_str n; sx_bool w; sx_nat al; sx_nat kl]
  | OAttrs a => L [A 1; sx_attrs a]
  | OList vs => L [A 2; L (map sx_val vs)]
  | OMeta p => L [A 3; A p]
  | OCustom sh e => L [A 4; sx_opt sx_str sh; L (map sx_val e)]
  end.

Definition op_of_sx (x : sx) : option op :=
  match x with
  | L [A 0; A l] => Some (OpTagify (N.to_nat l))
  | L [A 1; A l] => Some (OpRender (N.to_nat l))
  | L [A 2; A l; A i; e] => option_map (OpHtml (N.to_nat l) (N.to_nat i)) (str_of_sx e)
  | L [A 3; A l] => Some (OpDeps (N.to_nat l))
  | L [A 4; A l] => Some (OpCopy (N.to_nat l))
  | L [A 5; A l; A k] => Some (OpDoc (N.to_nat l) (N.to_nat k))
  | L [A 6; A l; A k] => Some (OpHoist (N.to_nat l) (N.to_nat k))
  | _ => None
  end.

Definition sx_result (r : result) : sx :=
  match r with
  | RLoc l => L [A 0; sx_nat l]
  | RStr s => L [A 1; sx_res sx_str s]
  | RDeps d => L [A 2; L (map A d)]
  | RRender s d => L [A 3; sx_res sx_str s; L (map A d)]
  end.

(* ---- what is supplied from outside C08 ---------------------------------------------- *)
Record depinfo := mkinfo { di_payload : N; di_name : str; di_ver : list N; di_vtext : str;
                           di_tags : list (list (node N)) }.

Definition n_of_sx (x : sx) : option N := match x with A n => Some n | _ => None end.
Definition node_n_of_sx : sx -> option (node N) := node_of_sx n_of_sx.

Definition depinfo_of_sx (x : sx) : option depinfo :=
  match x with
  | L [A p; name; ver; vtext; tags] =>
    match str_of_sx name, list_of_sx n_of_sx ver, str_of_sx vtext,
          list_of_sx (list_of_sx node_n_of_sx) tags with
    | Some n, Some v, Some vt, Some t => Some (mkinfo p n v vt t)
    | _, _, _, _ => None
    end
  | _ => None
  end.

Fixpoint find_info (p : N) (tbl : list depinfo) : option depinfo :=
  match tbl with
  | [] => None
  | d :: tbl' => if N.eqb (di_payload d) p then Some d else find_info p tbl'
  end.

Section Params.
  Variable kws : list attrs.
  Variable tbl : list depinfo.

  Definition kw (k : nat) : Attrs.pydict := Attrs.dict_of_attrs (nth k kws []).

  (* html.attrs.update( **kwargs ) *)
  Definition d_upd (k : nat) (a : attrs) : attrs := fst (Attrs.attrs_update a [] (kw k)).
  (* TagAttrDict( **kwargs ) *)
  Definition d_mk (k : nat) : attrs :=
    match Attrs.attrs_new [] (kw k) with Ok a => a | Err _ => [] end.

  (* _resolve_dependencies, through the model of C10 *)
  Definition d_resolve (ps : list N) : list N :=
    map Deps.did
        (Deps.resolve
           (map (fun p => match find_info p tbl with
                          | Some d => Deps.mkdep (di_name d) (di_ver d) p
                          | None => Deps.mkdep [] [] p
                          end) ps)).

  (* semicolon-joined  name[version]  *)
  Definition d_script (ps : list N) : str :=
    join [59] (map (fun p => match find_info p tbl with
                             | Some d => di_name d ++ [91] ++ di_vtext d ++ [93]
                             | None => []
                             end) ps).

  Definition d_tags (k : nat) (p : N) : list (node N) :=
    match find_info p tbl with
    | Some d => nth k (di_tags d) []
    | None => []
    end.
End Params.

Definition root_of (is_list : bool) (ts : list (node N)) : option rootv :=
  if is_list then Some (RL ts)
  else match ts with [t] => Some (RT t) | _ => None end.

Definition run_c08 (x : sx) : sx :=
  match x with
  | L [A 1; A fuel; hp; ops; kws; tbl] =>
    match list_of_sx obj_of_sx hp, list_of_sx op_of_sx ops,
          list_of_sx (list_of_sx attr_of_sx) kws, list_of_sx depinfo_of_sx tbl with
    | Some h, Some os, Some kw, Some tb =>
      match run_ops (d_upd kw) (d_mk kw) (d_resolve tb) (d_script tb) (d_tags tb)
                    (N.to_nat fuel) h os with
      | Some (h', rs) => L [A 0; L (map sx_obj h'); L (map sx_result rs)]
      | None => L [A 1]
      end
    | _, _, _, _ => sx_bad
    end
  | L [A 2; a; b] =>
    match node_n_of_sx a, node_n_of_sx b with
    | Some a', Some b' => sx_bool (eqb a' b')
    | _, _ => sx_bad
    end
  | L [A 3; il; ts] =>
    match bool_of_sx il, list_of_sx node_n_of_sx ts with
    | Some il', Some ts' =>
      match root_of il' ts' with
      | Some r =>
        L [sx_opt (sx_res sx_str) (model_str r); sx_opt (sx_res sx_str) (model_repr r);
           sx_opt (sx_res sx_str) (model_repr_html r)]
      | None => sx_bad
      end
    | _, _ => sx_bad
    end
  | _ => sx_bad
  end.

(* Entry point of the extracted model of a dependency's markup: run_deptags : sx -> sx.
   Opcodes (kept in sync by hand with harness/props/deptags.py):
     1 dep lib_prefix include_version
         dep = (name version source all_files metas sheets scripts head)
               source as for C12, items as C15 keyword dicts ((key value) ...),
               head = () for None | ((node ...)) for the items of the TagList
         -> (res as_dict) (res as_html_tags) (res spec_html_tags) (res rendering of the TagList)
     2 name version source all_files script stylesheet meta head    HTMLDependency(...)
         items argument = (0) None | (1 dict) one dict | (2 (dict ...)) a list
         head argument  = (0) None | (1 str) | (2 (node ...))
         -> res (metas sheets scripts head)
     3 base item     item = ((key str) ...): the typed closed forms
         -> (typed_sheet base item) (typed_script base item) *)
From HT Require Import Model.Str Model.Sx Model.Tree Model.Codec Model.Render Model.Deps
     Model.Attrs Model.Paths Model.Document Model.DepTags
     Model.DriverC15 Model.DriverC10 Model.DriverC12 Model.DriverC11.

Definition sx_attrarg (v : attrarg) : sx :=
  match v with
  | VNone => L [A 0]
  | VBool b => L [A 1; sx_bool b]
  | VInt r => L [A 2; sx_str r]
  | VFloat r => L [A 3; sx_str r]
  | VStr s => L [A 4; sx_str s]
  | VHtml s => L [A 5; sx_str s]
  | VBad => L [A 6]
  end.
Definition sx_ditem (d : ditem) : sx := L (map (fun kv => L [sx_str (fst kv); sx_attrarg (snd kv)]) d).
Definition sx_ditems (l : list ditem) : sx := L (map sx_ditem l).
Definition sx_nodes (l : list (node dep)) : sx := L (map sx_dnode l).

Definition ditems_of_sx : sx -> option (list ditem) := list_of_sx pydict_of_sx.
Definition nodes_of_sx : sx -> option (list (node dep)) := list_of_sx dnode_of_sx.

Definition ddep_of_sx (x : sx) : option ddep :=
  match x with
  | L [name; ver; src; af; me; st; sc; he] =>
    match str_of_sx name, str_of_sx ver, source_of_sx src, bool_of_sx af with
    | Some n, Some v, Some s, Some a =>
      match ditems_of_sx me, ditems_of_sx st, ditems_of_sx sc, opt_of_sx nodes_of_sx he with
      | Some me', Some st', Some sc', Some he' => Some (mk_ddep n v s a me' st' sc' he')
      | _, _, _, _ => None
      end
    | _, _, _, _ => None
    end
  | _ => None
  end.

Definition items_arg_of_sx (x : sx) : option items_arg :=
  match x with
  | L [A 0] => Some IANone
  | L [A 1; d] => option_map IAOne (pydict_of_sx d)
  | L [A 2; l] => option_map IAList (ditems_of_sx l)
  | _ => None
  end.
Definition head_arg_of_sx (x : sx) : option head_arg :=
  match x with
  | L [A 0] => Some HNone
  | L [A 1; s] => option_map HStr (str_of_sx s)
  | L [A 2; l] => option_map HNodes (nodes_of_sx l)
  | _ => None
  end.

Definition sx_ddict (r : ddict) : sx :=
  L [sx_str (ad_name r); sx_str (ad_version r); sx_ditems (ad_scripts r);
     sx_ditems (ad_sheets r); sx_ditems (ad_meta r); sx_opt sx_str (ad_head r)].

Definition pair_of_sx (x : sx) : option (str * str) :=
  match x with
  | L [k; v] => match str_of_sx k, str_of_sx v with
                | Some k', Some v' => Some (k', v')
                | _, _ => None
                end
  | _ => None
  end.
Definition sx_pairs (l : list (str * str)) : sx :=
  L (map (fun kv => L [sx_str (fst kv); sx_str (snd kv)]) l).

Definition run_deptags (x : sx) : sx :=
  match x with
  | L [A 1; d; lp; iv] =>
    match ddep_of_sx d, opt_of_sx str_of_sx lp, bool_of_sx iv with
    | Some d', Some lp', Some iv' =>
      let tags := dep_html_tags d' lp' iv' in
      L [sx_res sx_ddict (dep_as_dict d' lp' iv');
         sx_res sx_nodes tags;
         sx_res sx_nodes (spec_html_tags d' lp' iv');
         sx_res sx_str (match tags with
                        | Ok l => list_html O nl true true l
                        | Err e => Err e
                        end)]
    | _, _, _ => sx_bad
    end
  | L [A 2; name; ver; src; af; sc; st; me; he] =>
    match str_of_sx name, str_of_sx ver, source_of_sx src, bool_of_sx af with
    | Some n, Some v, Some s, Some a =>
      match items_arg_of_sx sc, items_arg_of_sx st, items_arg_of_sx me, head_arg_of_sx he with
      | Some sc', Some st', Some me', Some he' =>
        sx_res (fun d => L [sx_ditems (dd_meta d); sx_ditems (dd_sheets d);
                            sx_ditems (dd_scripts d); sx_opt sx_nodes (dd_head d)])
               (dep_new n v s a sc' st' me' he')
      | _, _, _, _ => sx_bad
      end
    | _, _, _, _ => sx_bad
    end
  | L [A 3; base; l] =>
    match str_of_sx base, list_of_sx pair_of_sx l with
    | Some b, Some l' => L [sx_pairs (typed_sheet b l'); sx_pairs (typed_script b l')]
    | _, _ => sx_bad
    end
  | _ => sx_bad
  end.

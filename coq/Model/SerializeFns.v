(* C13  Serialised dependencies: the string-level functions, with the literals of the code as
   parameters (no dependency on Gen.Tables, so that the lemmas about them are not recompiled when
   the tables are regenerated).  Model/Serialize.v instantiates them with the regenerated
   literals.  Definitions only. *)
From HT Require Import Model.Str.


(* ---- json.dumps(...).replace(FROM, TO) ------------------------------------------------- *)
Definition neutralise_with (f t : str) (s : str) : str := replace_all f t s.
(* ---- json.dumps of one str, ensure_ascii=True (json.encoder.ESCAPE_ASCII / ESCAPE_DCT) --- *)
Definition hexchar (d : N) : N := if d <? 10 then 48 + d else 87 + d.
Definition hex4 (n : N) : str :=
  [hexchar (n / 4096 mod 16); hexchar (n / 256 mod 16); hexchar (n / 16 mod 16); hexchar (n mod 16)].
(* backslash u XXXX, lower-case hex *)
Definition u_escape (n : N) : str := 92 :: 117 :: hex4 n.

Definition json_enc_char (c : N) : str :=
  if c =? 34 then [92; 34]
  else if c =? 92 then [92; 92]
  else if c =? 10 then [92; 110]
  else if c =? 13 then [92; 114]
  else if c =? 9 then [92; 116]
  else if c =? 8 then [92; 98]
  else if c =? 12 then [92; 102]
  else if (32 <=? c) && (c <=? 126) then [c]
  else if c <? 65536 then u_escape c
  else let v := c - 65536 in
       u_escape (55296 + (v / 1024) mod 1024) ++ u_escape (56320 + v mod 1024).

Definition json_str_enc (s : str) : str := 34 :: flat_map json_enc_char s ++ [34].

(* ---- json.loads of one string literal (the C scanstring, strict=True) -------------------- *)
Definition hexval (c : N) : option N :=
  if (48 <=? c) && (c <=? 57) then Some (c - 48)
  else if (97 <=? c) && (c <=? 102) then Some (c - 87)
  else if (65 <=? c) && (c <=? 70) then Some (c - 55)
  else None.
Definition hex4_val (a b c d : N) : option N :=
  match hexval a, hexval b, hexval c, hexval d with
  | Some x, Some y, Some z, Some w => Some (((x * 16 + y) * 16 + z) * 16 + w)
  | _, _, _, _ => None
  end.
Definition is_high (u : N) : bool := (55296 <=? u) && (u <=? 56319).
Definition is_low (u : N) : bool := (56320 <=? u) && (u <=? 57343).
Definition join_surrogates (hi lo : N) : N := 65536 + (hi - 55296) * 1024 + (lo - 56320).
Definition simple_escape (e : N) : option N :=
  if e =? 34 then Some 34 else if e =? 92 then Some 92 else if e =? 47 then Some 47
  else if e =? 98 then Some 8 else if e =? 102 then Some 12 else if e =? 110 then Some 10
  else if e =? 114 then Some 13 else if e =? 116 then Some 9 else None.

Definition cons_res (c : N) (r : option (str * str)) : option (str * str) :=
  match r with Some (d, rest) => Some (c :: d, rest) | None => None end.

(* the characters after the opening quote: decoded text and what follows the closing quote;
   None is JSONDecodeError *)
Fixpoint dec_body (s : str) : option (str * str) :=
  match s with
  | [] => None                                         (* unterminated string *)
  | c :: s1 =>
    if c =? 34 then Some ([], s1)
    else if c =? 92 then
      match s1 with
      | [] => None
      | e :: s2 =>
        if e =? 117 then
          match s2 with
          | a :: b :: c2 :: d :: s3 =>
            match hex4_val a b c2 d with
            | None => None
            | Some u =>
              if is_high u then
                match s3 with
                | b1 :: u1 :: a' :: b' :: c' :: d' :: s4 =>
                  if (b1 =? 92) && (u1 =? 117) then
                    match hex4_val a' b' c' d' with
                    | None => None
                    | Some u2 =>
                      if is_low u2 then cons_res (join_surrogates u u2) (dec_body s4)
                      else cons_res u (dec_body s3)      (* the second escape is read again *)
                    end
                  else cons_res u (dec_body s3)
                | _ => cons_res u (dec_body s3)
                end
              else cons_res u (dec_body s3)
            end
          | _ => None
          end
        else
          match simple_escape e with
          | Some ch => cons_res ch (dec_body s2)
          | None => None                                 (* Invalid \escape *)
          end
      end
    else if c <? 32 then None                            (* Invalid control character *)
    else cons_res c (dec_body s1)
  end.

(* json.loads(lit) for lit beginning with a double quote; anything after the closing quote
   is Extra data (surrounding JSON whitespace is not modelled: the literal is the whole text) *)
Definition json_str_dec (lit : str) : option str :=
  match lit with
  | 34 :: b => match dec_body b with Some (d, []) => Some d | _ => None end
  | _ => None
  end.

(* json.decoder.scanstring(text, 1) for a text beginning with a double quote: the decoded
   literal and the text after its closing quote (what every enclosing JSON scanner calls at a key
   or a string value); None is JSONDecodeError *)
Definition read_string (z : str) : option (str * str) :=
  match z with 34 :: b => dec_body b | _ => None end.

(* ---- one flat JSON object whose values are strings (an item of script / stylesheet / meta, the
        source dictionary): json.dumps with the default separators, and the scanner of
        json.decoder.JSONObject restricted to exactly those separators ------------------------ *)
Fixpoint enc_members (l : list (str * str)) : str :=
  match l with
  | [] => []
  | (k, v) :: l' =>
    json_str_enc k ++ [58; 32] ++ json_str_enc v ++
    match l' with [] => [] | _ :: _ => [44; 32] ++ enc_members l' end
  end.
Definition enc_flat_obj (l : list (str * str)) : str := 123 :: enc_members l ++ [125].

Definition strip2 (a b : N) (z : str) : option str :=
  match z with
  | x :: y :: z' => if (x =? a) && (y =? b) then Some z' else None
  | _ => None
  end.

(* at the opening quote of a key *)
Fixpoint dec_members (fuel : nat) (z : str) : option (list (str * str) * str) :=
  match fuel with
  | O => None
  | S f =>
    match read_string z with
    | None => None
    | Some (k, z1) =>
      match strip2 58 32 z1 with
      | None => None
      | Some z2 =>
        match read_string z2 with
        | None => None
        | Some (v, z3) =>
          match z3 with
          | 125 :: z4 => Some ([(k, v)], z4)
          | 44 :: 32 :: z4 =>
            match dec_members f z4 with
            | Some (l, z5) => Some ((k, v) :: l, z5)
            | None => None
            end
          | _ => None
          end
        end
      end
    end
  end.

(* the members in order (a Python dict keeps the last of equal keys; json.dumps of a dict never
   writes equal keys) and the text after the closing brace *)
Definition dec_flat_obj (z : str) : option (list (str * str) * str) :=
  match z with
  | 123 :: 125 :: z' => Some ([], z')
  | 123 :: z' => dec_members (length z') z'
  | _ => None
  end.

(* ---- a list of such objects (the script / stylesheet / meta fields): json.dumps, and the scanner of
        json.decoder.JSONArray restricted to the separators json.dumps writes -------------------- *)
Fixpoint enc_objs (l : list (list (str * str))) : str :=
  match l with
  | [] => []
  | o :: l' => enc_flat_obj o ++ match l' with [] => [] | _ :: _ => [44; 32] ++ enc_objs l' end
  end.
Definition enc_obj_list (l : list (list (str * str))) : str := 91 :: enc_objs l ++ [93].

Fixpoint dec_objs (fuel : nat) (z : str) : option (list (list (str * str)) * str) :=
  match fuel with
  | O => None
  | S f =>
    match dec_flat_obj z with
    | None => None
    | Some (o, z1) =>
      match z1 with
      | 93 :: z2 => Some ([o], z2)
      | 44 :: 32 :: z2 =>
        match dec_objs f z2 with
        | Some (l, z3) => Some (o :: l, z3)
        | None => None
        end
      | _ => None
      end
    end
  end.
Definition dec_obj_list (z : str) : option (list (list (str * str)) * str) :=
  match z with
  | 91 :: 93 :: z' => Some ([], z')
  | 91 :: z' => dec_objs (length z') z'
  | _ => None
  end.

(* ---- regex OPENER, lazy any-character group, CLOSER : re.findall + re.sub with the empty string --- *)
(* first occurrence of needle: text before it, text after it *)
Fixpoint split_first (needle s : str) : option (str * str) :=
  match strip_prefix needle s with
  | Some rest => Some ([], rest)
  | None =>
    match s with
    | [] => None
    | c :: s' => match split_first needle s' with
                 | Some (a, b) => Some (c :: a, b)
                 | None => None
                 end
    end
  end.

(* left to right, non-overlapping; the lazy group ends at the first CLOSER after the OPENER;
   an OPENER with no later CLOSER matches nowhere, and then neither does any later OPENER.
   Returns the text with all matches deleted and the captured groups in order. *)
Fixpoint scan_fuel (fuel : nat) (op cl : str) (s : str) : str * list str :=
  match fuel with
  | O => (s, [])
  | S f =>
    match split_first op s with
    | None => (s, [])
    | Some (pre, after) =>
      match split_first cl after with
      | None => (s, [])
      | Some (payload, rest) =>
        let (r, ps) := scan_fuel f op cl rest in (pre ++ r, payload :: ps)
      end
    end
  end.
Definition scan (op cl s : str) : str * list str := scan_fuel (S (length s)) op cl s.

(* the seen_deps loop: keep a payload text the first time it is seen *)
Fixpoint dedup_from (seen : list str) (l : list str) : list str :=
  match l with
  | [] => []
  | x :: l' => if mem_str x seen then dedup_from seen l' else x :: dedup_from (x :: seen) l'
  end.
Definition dedup (l : list str) : list str := dedup_from [] l.

(* _static_extract_serialized_html_deps, up to json.loads + the HTMLDependency constructor call of each
   kept payload *)
Definition extract_with (op cl html : str) : str * list str :=
  let (r, ps) := scan op cl html in (r, dedup ps).
(* ---- HTMLTextDocument.render: self._html.replace(pattern, markup, 1) --------------------- *)
Definition textdoc_render (pattern markup html : str) : str := replace_first pattern markup html.

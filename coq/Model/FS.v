(* C12: copier side of a dependency.  An abstract filesystem and HTMLDependency.copy_to
   (htmltools/_core.py 1742-1784) in the order of the code: collect, verify, clear, copy;
   and the copy loop of HTMLDocument.save_html (1104-1131).  Definitions only.

   The filesystem is a finite map from paths (lists of components from the root) to file
   contents; a directory exists when some file lies strictly below it (empty directories,
   symbolic links, permissions, Path.resolve() and the exact behaviour of shutil.copytree
   are runtime behaviour NOT modelled here; they are covered only by the differential run
   on real temporary directories). *)
From HT Require Import Model.Str Model.Tree Model.Paths.

Definition fs := list (path * bytes).

Fixpoint path_eqb (a b : path) : bool :=
  match a, b with
  | [], [] => true
  | x :: a', y :: b' => str_eqb x y && path_eqb a' b'
  | _, _ => false
  end.

(* p relative to directory d, when p is d or lies below d *)
Fixpoint strip_dir (d p : path) : option path :=
  match d, p with
  | [], _ => Some p
  | x :: d', y :: p' => if str_eqb x y then strip_dir d' p' else None
  | _ :: _, [] => None
  end.
Definition under (d p : path) : bool :=
  match strip_dir d p with Some _ => true | None => false end.
Definition strictly_under (d p : path) : bool :=
  match strip_dir d p with Some (_ :: _) => true | _ => false end.

(* first binding wins *)
Fixpoint lookup (f : fs) (p : path) : option bytes :=
  match f with
  | [] => None
  | (q, b) :: f' => if path_eqb q p then Some b else lookup f' p
  end.

Definition is_file (f : fs) (p : path) : bool :=
  match lookup f p with Some _ => true | None => false end.
Definition is_dir (f : fs) (p : path) : bool :=
  existsb (fun e => strictly_under p (fst e)) f.
(* os.path.exists *)
Definition exists_ (f : fs) (p : path) : bool := is_file f p || is_dir f p.

(* shutil.rmtree(d) *)
Definition rmtree (f : fs) (d : path) : fs :=
  filter (fun e => negb (under d (fst e))) f.
(* create or overwrite one file *)
Definition write (f : fs) (p : path) (b : bytes) : fs :=
  (p, b) :: filter (fun e => negb (path_eqb p (fst e))) f.

(* shutil.copytree(src, dst): dst must not exist (FileExistsError, an OSError, shown as
   Err ValueError); every file below src is written below dst *)
Definition copy_tree (f : fs) (src dst : path) : res unit * fs :=
  if exists_ f dst then (Err ValueError, f)
  else (Ok tt,
        fold_right (fun e acc =>
                      match strip_dir src (fst e) with
                      | Some r => write acc (dst ++ r) (snd e)
                      | None => acc
                      end) f f).

(* body of the copy loop for one entry x of src_files:
     if os.path.isfile(src_file): shutil.copy2(src_file, target_file)
     elif os.path.isdir(src_file): shutil.copytree(src_file, target_file)
   (os.makedirs(os.path.dirname(target_file)) creates only directories: no effect here) *)
Definition copy_one (f : fs) (src tgt x : path) : res unit * fs :=
  match lookup f (src ++ x) with
  | Some b => (Ok tt, write f (tgt ++ x) b)
  | None => if is_dir f (src ++ x) then copy_tree f (src ++ x) (tgt ++ x) else (Ok tt, f)
  end.

Fixpoint copy_all (f : fs) (src tgt : path) (l : list path) : res unit * fs :=
  match l with
  | [] => (Ok tt, f)
  | x :: l' =>
    match copy_one f src tgt x with
    | (Ok _, f1) => copy_all f1 src tgt l'
    | (Err e, f1) => (Err e, f1)
    end
  end.

(* path_src.glob(star): the names of the top-level entries of src (files and directories;
   pathlib's glob also yields dot-files), here in order of first occurrence *)
Fixpoint dedup (l : list str) : list str :=
  match l with
  | [] => []
  | x :: l' => x :: filter (fun y => negb (str_eqb x y)) (dedup l')
  end.
Definition top_names (f : fs) (src : path) : list str :=
  flat_map (fun e => match strip_dir src (fst e) with
                     | Some (x :: _) => [x]
                     | _ => []
                     end) f.
Definition top_entries (f : fs) (src : path) : list path :=
  map (fun x => [x]) (dedup (top_names f src)).

Definition src_files (f : fs) (src : path) (all_files : bool) (listed : list path) : list path :=
  if all_files then top_entries f src else listed.

(* copy_to after source_path_map: src = the source directory, tgt = the target directory,
   listed = script srcs then stylesheet hrefs.
   - a listed entry that does not exist: raise Exception before anything is touched
     (shown as Err RuntimeError);
   - the target directory path names a regular file: shutil.rmtree raises
     NotADirectoryError (an OSError, shown as Err ValueError), nothing touched;
   - otherwise clear the target directory and copy. *)
Definition copy_to (f : fs) (src : path) (all_files : bool) (listed : list path) (tgt : path)
  : res unit * fs :=
  let files := src_files f src all_files listed in
  if negb (forallb (fun x => exists_ f (src ++ x)) files) then (Err RuntimeError, f)
  else if is_file f tgt then (Err ValueError, f)
  else
    let f1 := if exists_ f tgt then rmtree f tgt else f in
    copy_all f1 src tgt files.

(* HTMLDependency.copy_to(path, include_version) on strings *)
Definition copy_to_dep (f : fs) (d : pdep) (dest : str) (iv : bool) : res unit * fs :=
  match fst (source_path_map d None iv) with
  | [] => (Ok tt, f)
  | source =>
    copy_to f (path_of_str source) (d_all_files d)
            (map path_of_str (d_scripts d ++ d_styles d))
            (path_of_str (target_dir_str d dest iv))
  end.

(* for dep in rendered[dependencies]: dep.copy_to(destdir, include_version=...) *)
Fixpoint copy_deps (f : fs) (deps : list pdep) (dest : str) (iv : bool) : res unit * fs :=
  match deps with
  | [] => (Ok tt, f)
  | d :: deps' =>
    match copy_to_dep f d dest iv with
    | (Ok _, f1) => copy_deps f1 deps' dest iv
    | (Err e, f1) => (Err e, f1)
    end
  end.

(* the filesystem effect of save_html(file, libdir, include_version) before the document
   itself is written; file_dir = str(Path(file).resolve().parent) *)
Definition save_html_copy (f : fs) (file_dir : str) (libdir : option str) (iv : bool)
           (deps : list pdep) : res unit * fs :=
  copy_deps f deps (destdir_of file_dir libdir) iv.

(* ---------------------------------------------------------------------------------- *)
(* specification vocabulary                                                            *)
(* ---------------------------------------------------------------------------------- *)
(* r (relative to the source / target directory) is an entry of l or lies below one *)
Definition covered (l : list path) (r : path) : bool := existsb (fun x => under x r) l.

(* neither directory contains the other *)
Definition disjoint (a b : path) : bool := negb (under a b) && negb (under b a).

(* no file is also a directory *)
Definition prefix_free (f : fs) : Prop :=
  forall p q, is_file f p = true -> strictly_under p q = true -> is_file f q = false.

(* decidable form of prefix_free, for concrete filesystems *)
Definition prefix_free_b (f : fs) : bool :=
  forallb (fun e => forallb (fun e' => negb (strictly_under (fst e) (fst e'))) f) f.

(* Model of htmltools/_jsx.py (pure layer: object identity is not represented; purity is
   checked on the implementation by object-graph snapshots in harness/props/C20.py).

     JSXTagAttrDict._normalize_attr_name / _update      (lines 41-69)   jsx_props
     JSXTag.__init__                                    (86-105)        jsx_new
     JSXTag.tagify + tagify_tagifiable_and_get_metadata (123-186)       jsx_tagify, walk
     _walk_attrs_and_children                           (198-213)       walk
     _render_react_js                                   (219-262)       render_node
     _serialize_attr / _serialize_style_attr            (267-299)       serialize_val, serialize_style
     _lib_dependency                                    (383-389)       lib_dependency

   Definitions only; statement by statement after the code. *)
From HT Require Import Model.Str Model.Tree Model.Attrs Model.Render Gen.Tables.

(* ---- values ----------------------------------------------------------------------- *)
(* jval: what a prop (or an HTML tag attribute) can hold.  Numbers carry Python's own
   str(x) (supplied by the harness; number formatting is not modelled).  JOther is any other
   object (HTML(...), an object without tagify(), ...) of which only str(x) matters.
   jnode: what a child list can hold after TagList normalisation.
     JText      a str (a jsx() expression given as a CHILD is a str too)
     JMeta      a MetadataNode / HTMLDependency: identity id, text str(x)
     JTag       an HTML Tag: name, attrs.items(), children
     JComp      a JSXTag: name, attrs.items() (names already normalised), children
     JTagifiable an object with tagify() that is neither Tag nor JSXTag: str(x), and the
                value exp its tagify() returns
     JOpaque    anything else that can sit in a child list or come out of a tagify():
                HTML(...), an object with _repr_html_, a TagList; only str(x) matters. *)
Inductive jval :=
| JNone
| JBool (b : bool)
| JNum (repr : str)
| JStr (s : str)
| JJsx (s : str)
| JList (l : list jval)
| JDict (kv : list (str * jval))
| JNode (n : jnode)
| JOther (str_of : str)
with jnode :=
| JText (s : str)
| JMeta (id : N) (str_of : str)
| JTag (name : str) (attrs : list (str * jval)) (kids : list jnode)
| JComp (name : str) (props : list (str * jval)) (kids : list jnode)
| JTagifiable (str_of : str) (exp : jnode)
| JOpaque (str_of : str).

(* ---- literals ----------------------------------------------------------------------- *)
Definition s_create : str := [82; 101; 97; 99; 116; 46; 99; 114; 101; 97; 116; 101; 69; 108; 101; 109; 101; 110; 116; 40].
Definition s_null : str := [110; 117; 108; 108].
Definition s_true : str := [116; 114; 117; 101].
Definition s_false : str := [102; 97; 108; 115; 101].
Definition s_style : str := [115; 116; 121; 108; 101].
Definition s_comma_sp : str := [44; 32].
Definition s_qcolon_sp : str := [34; 58; 32].
Definition s_empty_obj : str := [123; 125].
Definition l1 : str := [40; 102; 117; 110; 99; 116; 105; 111; 110; 40; 41; 32; 123].
Definition l2 : str := [32; 32; 118; 97; 114; 32; 99; 111; 110; 116; 97; 105; 110; 101; 114; 32; 61; 32; 110; 101; 119; 32; 68; 111; 99; 117; 109; 101; 110; 116; 70; 114; 97; 103; 109; 101; 110; 116; 40; 41; 59].
Definition l3 : str := [32; 32; 82; 101; 97; 99; 116; 68; 79; 77; 46; 114; 101; 110; 100; 101; 114; 40].
Definition l5 : str := [32; 32; 44; 32; 99; 111; 110; 116; 97; 105; 110; 101; 114; 41; 59].
Definition l6 : str := [32; 32; 118; 97; 114; 32; 116; 104; 105; 115; 83; 99; 114; 105; 112; 116; 32; 61; 32; 100; 111; 99; 117; 109; 101; 110; 116; 46; 113; 117; 101; 114; 121; 83; 101; 108; 101; 99; 116; 111; 114; 40; 39; 115; 99; 114; 105; 112; 116; 91; 100; 97; 116; 97; 45; 110; 101; 101; 100; 115; 45; 114; 101; 110; 100; 101; 114; 93; 39; 41; 59].
Definition l7a : str := [32; 32; 105; 102; 32; 40; 33; 116; 104; 105; 115; 83; 99; 114; 105; 112; 116; 41; 32; 116; 104; 114; 111; 119; 32; 110; 101; 119; 32; 69; 114; 114; 111; 114; 40; 39; 70; 97; 105; 108; 101; 100; 32; 116; 111; 32; 114; 101; 110; 100; 101; 114; 32; 74; 83; 88; 84; 97; 103; 40; 34].
Definition l7b : str := [34; 41; 39; 41; 59].
Definition l8 : str := [32; 32; 116; 104; 105; 115; 83; 99; 114; 105; 112; 116; 46; 97; 102; 116; 101; 114; 40; 99; 111; 110; 116; 97; 105; 110; 101; 114; 41; 59].
Definition l9 : str := [32; 32; 116; 104; 105; 115; 83; 99; 114; 105; 112; 116; 46; 114; 101; 109; 111; 118; 101; 65; 116; 116; 114; 105; 98; 117; 116; 101; 40; 39; 100; 97; 116; 97; 45; 110; 101; 101; 100; 115; 45; 114; 101; 110; 100; 101; 114; 39; 41; 59].
Definition l10 : str := [125; 41; 40; 41; 59].
Definition s_script : str := [115; 99; 114; 105; 112; 116].
Definition s_type : str := [116; 121; 112; 101].
Definition s_text_javascript : str := [116; 101; 120; 116; 47; 106; 97; 118; 97; 115; 99; 114; 105; 112; 116].
Definition s_data_needs_render_raw : str := [100; 97; 116; 97; 95; 110; 101; 101; 100; 115; 95; 114; 101; 110; 100; 101; 114].
Definition s_data_needs_render : str := [100; 97; 116; 97; 45; 110; 101; 101; 100; 115; 45; 114; 101; 110; 100; 101; 114].
Definition s_react : str := [114; 101; 97; 99; 116].
Definition s_react_dom : str := [114; 101; 97; 99; 116; 45; 100; 111; 109].

(* ---- generic helpers ---------------------------------------------------------------- *)
Definition is_nil {A} (l : list A) : bool := match l with [] => true | _ => false end.

(* [f(y) for y in l] / a for loop calling f: left to right, the first exception propagates *)
Section MapM.
  Context {A B : Type}.
  Variable f : A -> res B.
  Fixpoint mapM (l : list A) : res (list B) :=
    match l with
    | [] => Ok []
    | x :: l' =>
      match f x with
      | Err e => Err e
      | Ok y => match mapM l' with Err e => Err e | Ok ys => Ok (y :: ys) end
      end
    end.
End MapM.

(* insertion-ordered dict with str keys: d[k] = v  (an existing key keeps its position) *)
Fixpoint jset {V} (k : str) (v : V) (m : list (str * V)) : list (str * V) :=
  match m with
  | [] => [(k, v)]
  | (k', v') :: m' => if str_eqb k k' then (k', v) :: m' else (k', v') :: jset k v m'
  end.
Fixpoint jget {V} (k : str) (m : list (str * V)) : option V :=
  match m with
  | [] => None
  | (k', v) :: m' => if str_eqb k k' then Some v else jget k m'
  end.

(* s.split(c) for a one-character separator: always at least one piece *)
Fixpoint split_on (c : N) (s : str) : list str :=
  match s with
  | [] => [[]]
  | x :: s' =>
    match split_on c s' with
    | p :: ps => if N.eqb x c then [] :: p :: ps else (x :: p) :: ps
    | [] => [[x]]
    end
  end.

(* dquote + x.replace(dquote, backslash dquote) + dquote *)
Definition py_quote (s : str) : str := [34] ++ replace1 34 [92; 34] s ++ [34].

(* ---- JSXTagAttrDict ----------------------------------------------------------------- *)
(* _normalize_attr_name is the same function as TagAttrDict's: Attrs.norm_name.
   JSXTagAttrDict( **kwargs ): _update builds  attrs[normalize(key)] = val  in order (dict
   semantics: a later duplicate overwrites the value and keeps the first position), then
   dict.update(self, **attrs) into the empty self. *)
Definition jsx_props (kwargs : list (str * jval)) : list (str * jval) :=
  fold_left (fun d kv => jset (norm_name (fst kv)) (snd kv) d) kwargs [].

(* ---- JSXTag.__init__ ---------------------------------------------------------------- *)
(* pieces = _name.split(dot); pieces[-1] *)
Definition last_piece (name : str) : str := last (split_on 46 name) [].
(* pieces[-1][:1] != pieces[-1][:1].upper()  -- modelled for ASCII first characters: only
   a..z differ from their upper-case form (stated domain restriction: the first character of
   the last piece is ASCII or absent) *)
Definition first_changes_under_upper (p : str) : bool :=
  match p with
  | [] => false
  | c :: _ => (97 <=? c) && (c <=? 122)
  end.

(* None = NotImplementedError.  allowed = [] stands for allowedProps None or empty
   ( `if allowedProps:` ); the check reads the RAW kwargs names. *)
Definition jsx_new (name : str) (allowed : list str) (kwargs : list (str * jval))
           (kids : list jnode) : option jnode :=
  if first_changes_under_upper (last_piece name) then None
  else if negb (is_nil allowed) && existsb (fun kv => negb (mem_str (fst kv) allowed)) kwargs
  then None
  else Some (JComp name (jsx_props kwargs) kids).

(* ---- the walk ----------------------------------------------------------------------- *)
(* tagify_tagifiable_and_get_metadata(x), three statements:
     if Tagifiable and not Tag/JSXTag: x = x.tagify()
     x = copy.copy(x)            (always: also the result of tagify(), which the tagifiable
                                  object may keep and hand out again; in this pure layer a
                                  copy is the same value, so the statement leaves no trace
                                  here -- its effect is checked by object-graph snapshots)
     if isinstance(x, MetadataNode): metadata_nodes.append(x)
   _walk_attrs_and_children(x, fn):
     x = fn(x)
     Tag:     for i, child: x.children[i] = walk(child)            (attrs are NOT walked)
     JSXTag:  for key, value in attrs.items(): x.attrs[key] = walk(value)
              for i, child: x.children[i] = walk(child)
     other Tagifiable: pass;  anything else: nothing
   Returns the walked copy and the ids appended to metadata_nodes, in order.  A prop value
   that is a list / dict / scalar is copied and not descended into.  x.attrs[key] = ...
   stores under normalize(key): for the keys a JSXTagAttrDict holds (normalised, distinct)
   that is the same key, so the loop is a map over the items (Proofs: walk_store_is_map). *)
Definition meta_of (x : jnode) : list N :=
  match x with JMeta i _ => [i] | _ => [] end.

Fixpoint walk (n : jnode) : jnode * list N :=
  let x := match n with JTagifiable _ e => e | _ => n end in
  match x with
  | JTag nm at_ kids =>
    let rk := map walk kids in
    (JTag nm at_ (map fst rk), flat_map snd rk)
  | JComp nm ps kids =>
    let rp := map (fun kv : str * jval =>
                     let (k, v) := kv in
                     match v with
                     | JNode n' => let r := walk n' in ((k, JNode (fst r)), snd r)
                     | _ => ((k, v), [])
                     end) ps in
    let rk := map walk kids in
    (JComp nm (map fst rp) (map fst rk), flat_map snd rp ++ flat_map snd rk)
  | _ => (x, meta_of x)
  end.

(* ---- _serialize_style_attr: CSS text -> dict ------------------------------------------ *)
(* [tuple(y.split(colon)) for y in x.split(semicolon) if re.search(colon, y)]; dict(...):
   every tuple must have exactly two items, else ValueError; later keys overwrite *)
Fixpoint css_pairs (ys : list str) (acc : list (str * str)) : res (list (str * str)) :=
  match ys with
  | [] => Ok acc
  | y :: ys' =>
    if existsb (N.eqb 58) y then
      match split_on 58 y with
      | [k; v] => css_pairs ys' (jset k v acc)
      | _ => Err ValueError
      end
    else css_pairs ys' acc
  end.
Definition css_parse (s : str) : res (list (str * str)) := css_pairs (split_on 59 s) [].

(* lbrace + comma-space.join(dquote y dquote colon space + value) + rbrace *)
Definition obj_str (items : list (str * str)) : str :=
  [123] ++ join s_comma_sp (map (fun kv => [34] ++ fst kv ++ s_qcolon_sp ++ snd kv) items) ++ [125].

Definition serialize_style (ser : jval -> res str) (v : jval) : res str :=
  match v with
  | JNone => Ok s_empty_obj
  | JStr s | JJsx s | JNode (JText s) =>                   (* isinstance(x, str) *)
    match css_parse s with
    | Err e => Err e
    | Ok d => Ok (obj_str (map (fun kv => (fst kv, py_quote (snd kv))) d))
    end
  | JDict _ => ser v
  | _ => Err TypeError
  end.

(* ---- _render_react_js / _serialize_attr ---------------------------------------------- *)
(* the attrs loop with its is_first_attr flag; items = (k, already serialised v) *)
Fixpoint props_loop (items : list (str * str)) (first : bool) (res : str) : str :=
  match items with
  | [] => res
  | (k, v) :: rest =>
    let res := if first then res else res ++ s_comma_sp in
    props_loop rest false (res ++ [34] ++ k ++ s_qcolon_sp ++ v)
  end.

(* for child in children: child_str = ...; if child_str != empty: res += comma + eol + child_str *)
Fixpoint kids_loop (eol : str) (cs : list str) (res : str) : str :=
  match cs with
  | [] => res
  | c :: cs' => kids_loop eol cs' (match c with [] => res | _ => res ++ [44] ++ eol ++ c end)
  end.

Definition assemble (indent : nat) (eol nm : str) (items : list (str * str)) (cs : list str) : str :=
  let indent_s := indent_str indent in
  let res := indent_s ++ s_create in
  if is_nil items && is_nil cs then res ++ nm ++ [41]
  else
    let res := res ++ eol ++ indent_s ++ [32; 32] ++ nm ++ s_comma_sp in
    let res := props_loop items true (res ++ [123]) ++ [125] in
    if is_nil cs then res ++ [41]
    else kids_loop eol cs res ++ eol ++ indent_s ++ [41].

(* if k == style: v = _serialize_style_attr(v) else: v = _serialize_attr(v) *)
Definition ser_prop (ser : jval -> res str) (kv : str * jval) : res (str * str) :=
  let (k, v) := kv in
  match (if str_eqb k s_style then serialize_style ser v else ser v) with
  | Err e => Err e
  | Ok s => Ok (k, s)
  end.

Fixpoint render_node (indent : nat) (eol : str) (n : jnode) {struct n} : res str :=
  match n with
  | JMeta _ _ => Ok []
  | JText s => Ok (indent_str indent ++ py_quote s)
  | JComp name at_ kids =>
    match mapM (ser_prop serialize_val) at_ with
    | Err e => Err e
    | Ok items =>
      match mapM (fun c => render_node (S indent) eol c) kids with
      | Err e => Err e
      | Ok cs => Ok (assemble indent eol name items cs)
      end
    end
  | JTag name at_ kids =>
    match mapM (ser_prop serialize_val) at_ with
    | Err e => Err e
    | Ok items =>
      match mapM (fun c => render_node (S indent) eol c) kids with
      | Err e => Err e
      | Ok cs => Ok (assemble indent eol ([39] ++ name ++ [39]) items cs)
      end
    end
  | JTagifiable _ _ | JOpaque _ => Err TypeError
  end
with serialize_val (v : jval) {struct v} : res str :=
  match v with
  | JNone => Ok s_null
  | JNode n =>
    match n with
    | JTag _ _ _ | JComp _ _ _ => render_node 0 [10] n
    | JText s => Ok (py_quote s)
    | JMeta _ so | JTagifiable so _ | JOpaque so => Ok (py_quote so)
    end
  | JList l =>
    match mapM serialize_val l with
    | Err e => Err e
    | Ok xs => Ok ([91] ++ join s_comma_sp xs ++ [93])
    end
  | JDict kv =>
    match mapM (fun p : str * jval =>
                  let (k, x) := p in
                  match serialize_val x with Err e => Err e | Ok s => Ok (k, s) end) kv with
    | Err e => Err e
    | Ok items => Ok (obj_str items)
    end
  | JBool b => Ok (if b then s_true else s_false)
  | JJsx s | JNum s => Ok s
  | JStr s | JOther s => Ok (py_quote s)
  end.

(* ---- JSXTag.tagify ------------------------------------------------------------------- *)
Definition lib_dependency (pkg file : str) : res (str * str * str) :=
  match jget pkg lib_versions with           (* versions[pkg] *)
  | Some v => Ok (pkg, v, file)
  | None => Err KeyError
  end.

(* the ten-line wrapper, joined with LF *)
Definition wrapper (name component : str) : str :=
  join [10] [l1; l2; l3; component; l5; l6; l7a ++ name ++ l7b; l8; l9; l10].

(* what the returned script Tag holds: attrs, the text of its single HTML child, the
   dependencies (name, version, script src) and the ids of the collected metadata nodes that
   follow, in order *)
Record script := mk_script {
  sc_attrs : attrs;
  sc_html : str;
  sc_deps : list (str * str * str);
  sc_metas : list N }.

Definition script_attr_args : pydict :=
  [(s_type, VStr s_text_javascript); (s_data_needs_render_raw, VBool true)].

Definition jsx_tagify (c : jnode) : res script :=
  match c with
  | JComp name _ _ =>
    let cp := walk c in
    match render_node 2 [10] (fst cp) with
    | Err e => Err e
    | Ok component =>
      let js := wrapper name component in
      match mapM (fun d : str * str * bool => lib_dependency (fst (fst d)) (snd (fst d))) jsx_lib_deps with
      | Err e => Err e
      | Ok deps =>
        match attrs_new [script_attr_args] [] with         (* Tag(script, {...}, ...) *)
        | Err e => Err e
        | Ok a => Ok (mk_script a ([10] ++ js ++ [10]) deps (snd cp))
        end
      end
    end
  | _ => Err TypeError
  end.

(* str(component) = str(self.tagify()): the script Tag rendered by Tag.get_html_string
   (Model.Render; metadata children print nothing) *)
Definition script_node (s : script) : node N :=
  TagN s_script true (sc_attrs s)
       (Html (sc_html s) :: map (fun _ => Meta 0) (sc_deps s) ++ map (fun i => Meta i) (sc_metas s)).
Definition jsx_str (c : jnode) : res str :=
  match jsx_tagify c with
  | Err e => Err e
  | Ok s => tag_html 0 [10] (script_node s)
  end.

(* C11: model of HTMLDocument (htmltools/_core.py)
     HTMLDocument._gen_html_tag_tree   1138-1169
     HTMLDocument._hoist_head_content  1174-1230
     HTMLDocument.render               1085-1102      Tag.render  910-916
     HTMLDependency.as_html_tags       1663-1673      head_content 1825-1862
   in the pure tree layer: node dep, dependencies are Meta nodes.  Definitions only,
   statement by statement after the code.

   The document's content is the item list of doc._content (what TagList( *args ) and
   append left there: flattening is C14's subject).  The markup a dependency contributes,
   d.as_html_tags(lib_prefix=, include_version=), is the parameter tags_of (its URLs are
   C12's subject); as_html_tags below assembles it from its four parts in the argument
   order that the translator read off the code (Gen.Tables.as_html_tags_order). *)
From HT Require Import Model.Str Model.Tree Model.Render Model.Tagify Model.Deps Model.Attrs
     Gen.Tables.

(* ---- literals of the code ------------------------------------------------------------ *)
Definition n_html : str := [104;116;109;108].
Definition n_head : str := [104;101;97;100].
Definition n_body : str := [98;111;100;121].
Definition n_meta : str := [109;101;116;97].
Definition n_script : str := [115;99;114;105;112;116].
Definition k_charset : str := [99;104;97;114;115;101;116].
Definition v_utf8 : str := [117;116;102;45;56].
Definition k_type : str := [116;121;112;101].
(* application/html-dependencies *)
Definition v_deps_type : str :=
  [97;112;112;108;105;99;97;116;105;111;110;47;104;116;109;108;45;100;101;112;101;110;100;101;110;99;105;101;115].
(* the doctype line with its newline *)
Definition doctype : str := [60;33;68;79;67;84;89;80;69;32;104;116;109;108;62;10].
Definition nl : str := [10].
(* the two keyword parameters of Tag.__init__ that the call Tag(html, ..., _add_ws=True, **kw)
   already binds: _add_ws and _name *)
Definition kw_add_ws : str := [95;97;100;100;95;119;115].
Definition kw_name : str := [95;110;97;109;101].
(* headcontent_ *)
Definition headcontent_prefix : str := [104;101;97;100;99;111;110;116;101;110;116;95].

(* ---- HTMLDependency.as_html_tags ------------------------------------------------------ *)
(* metas   = [Tag(meta, **m) for m in d[meta]]
   links   = [Tag(link, **s) for s in d[stylesheet]]
   scripts = [Tag(script, **s) for s in d[script]]
   self.head: the items of the TagList, nothing when it is None (TagList drops None and
   splices TagLists) *)
Record markup := mk_markup {
  mu_metas : list (node dep);
  mu_links : list (node dep);
  mu_scripts : list (node dep);
  mu_head : list (node dep)
}.

Definition key_metas : str := [109;101;116;97;115].
Definition key_links : str := [108;105;110;107;115].
Definition key_scripts : str := [115;99;114;105;112;116;115].
Definition key_self_head : str := [115;101;108;102;46;104;101;97;100].

(* the value of one argument expression of  return TagList( *metas, *links, *scripts, self.head ) *)
Definition part (m : markup) (key : str) : list (node dep) :=
  if str_eqb key key_metas then mu_metas m
  else if str_eqb key key_links then mu_links m
  else if str_eqb key key_scripts then mu_scripts m
  else if str_eqb key key_self_head then mu_head m
  else [].

Definition as_html_tags (m : markup) : list (node dep) := flat_map (part m) as_html_tags_order.

(* ---- fixed tags ----------------------------------------------------------------------- *)
(* Tag(head): block tag, no attributes, no children *)
Definition head_empty : node dep := TagN n_head true [] [].
(* Tag(meta, charset=utf-8) *)
Definition meta_charset : node dep := TagN n_meta true [(k_charset, AStr v_utf8)] [].

(* str(d.version) for a dotted release: the numbers in decimal joined by dots *)
Definition ver_text (v : list N) : str := join [46] (map dec_of_N v).
(* d.name + [ + str(d.version) + ] *)
Definition dep_entry (d : dep) : str := dname d ++ [91] ++ ver_text (dver d) ++ [93].
(* the text of the listing script: the entries joined by a semicolon *)
Definition listing_text (deps : list dep) : str := join [59] (map dep_entry deps).

(* if len(deps) > 0: head.append(Tag(script, text, type=application/html-dependencies)) *)
Definition listing (deps : list dep) : list (node dep) :=
  match deps with
  | [] => []
  | _ :: _ => [TagN n_script true [(k_type, AStr v_deps_type)] [Text (listing_text deps)]]
  end.

(* isinstance(child, Tag) and child.name == nm *)
Definition is_named (nm : str) (n : node dep) : bool :=
  match n with TagN name _ _ _ => str_eqb name nm | _ => false end.

(* for i, child in enumerate(res.children):
       if isinstance(child, Tag) and child.name == head: head_index = i; break *)
Fixpoint head_index (l : list (node dep)) : option nat :=
  match l with
  | [] => None
  | c :: l' => if is_named n_head c then Some O else option_map S (head_index l')
  end.

Section Document.
  (* d.as_html_tags(lib_prefix=lib_prefix, include_version=include_version) *)
  Variable tags_of : dep -> list (node dep).

  (* HTMLDocument._hoist_head_content(x, lib_prefix, include_version) *)
  Definition hoist (x : node dep) : res (node dep) :=
    match x with
    | TagN name ws a kids =>
      if negb (str_eqb name n_html) then Err ValueError      (* x.name != html *)
      else
        (* res = copy(x); search; if head_index is None: res.insert(0, Tag(head)) *)
        let '(kids1, hi) :=
            match head_index kids with
            | Some i => (kids, i)
            | None => (head_empty :: kids, O)
            end in
        (* res.children[head_index] = copy(res.children[head_index]); head = that copy *)
        match nth_error kids1 hi with
        | Some (TagN hn hws ha hkids) =>
          (* head.insert(0, Tag(meta, charset=utf-8)) *)
          let hk1 := meta_charset :: hkids in
          (* deps = x.get_dependencies()  -- x, not res: the tree before any insertion *)
          let deps := get_dependencies true kids in
          (* if len(deps) > 0: head.append(Tag(script, ...)) *)
          let hk2 := hk1 ++ listing deps in
          (* head.extend([d.as_html_tags(...) for d in deps]) *)
          let hk3 := hk2 ++ flat_map tags_of deps in
          Ok (TagN name ws a (firstn hi kids1 ++ TagN hn hws ha hk3 :: skipn (S hi) kids1))
        | _ => Err RuntimeError     (* not reachable: the index found is that of a Tag *)
        end
    | _ => Err NotATag
    end.

  (* len(content) == 1 and isinstance(content[0], Tag) and content[0].name == nm *)
  Definition sole_tag (nm : str) (content : list (node dep)) : option (node dep) :=
    match content with
    | [TagN name ws a kids] => if str_eqb name nm then Some (TagN name ws a kids) else None
    | _ => None
    end.

  (* a keyword that Tag(html, Tag(head), body, _add_ws=True, **kw) binds twice: TypeError
     raised by the call itself *)
  Definition reserved_kw (kw : pydict) : bool :=
    mem_str kw_add_ws (map fst kw) || mem_str kw_name (map fst kw).

  (* HTMLDocument._gen_html_tag_tree *)
  Definition doc_tree (content : list (node dep)) (kw : pydict) : res (node dep) :=
    match sole_tag n_html content with
    | Some h =>
      (* html = html.tagify() *)
      match tag_tagify h with
      | [TagN name ws a kids] =>
        (* html.attrs.update( **self._html_attr_args ) *)
        match attrs_update a [] kw with
        | (_, Some e) => Err e
        | (a', None) => hoist (TagN name ws a' kids)
        end
      | _ => Err RuntimeError       (* not reachable: a Tag tagifies to one Tag *)
      end
    | None =>
      let body :=
          match sole_tag n_body content with
          | Some b => b
          | None => TagN n_body true [] content        (* Tag(body, content) *)
          end in
      (* body = body.tagify() *)
      match tag_tagify body with
      | [body'] =>
        (* html = Tag(html, Tag(head), body, _add_ws=True, **self._html_attr_args) *)
        if reserved_kw kw then Err TypeError
        else match attrs_new [] kw with
             | Err e => Err e
             | Ok a => hoist (TagN n_html true a [head_empty; body'])
             end
      | _ => Err RuntimeError       (* not reachable *)
      end
    end.

  (* HTMLDocument.render: html_ = _gen_html_tag_tree(...); rendered = html_.render()
     (Tag.render: cp = self.tagify(); deps = cp.get_dependencies(); cp.get_html_string());
     rendered[html] = doctype + rendered[html].  Result: (dependencies, html). *)
  Definition doc_render (content : list (node dep)) (kw : pydict) : res (list dep * str) :=
    match doc_tree content kw with
    | Err e => Err e
    | Ok t =>
      match tag_tagify t with
      | [cp] =>
        match tag_get_dependencies true cp with
        | Err e => Err e
        | Ok deps =>
          match tag_html O nl cp with
          | Err e => Err e
          | Ok s => Ok (deps, doctype ++ s)
          end
        end
      | _ => Err RuntimeError
      end
    end.
End Document.

(* head_content( *args ): head = TagList( *args ); head_str = head.get_html_string();
   name = headcontent_ + hash_deterministic(head_str); HTMLDependency(name, 0.0, head=head).
   The hash H (sha1 hex digest) is uninterpreted here: C18's subject. *)
Definition head_content_src (args : list (node dep)) : res str := list_html O nl true true args.
Definition head_content_dep (H : str -> str) (args : list (node dep)) (id : N)
  : res (dep * markup) :=
  match head_content_src args with
  | Err e => Err e
  | Ok s => Ok (mkdep (headcontent_prefix ++ H s) [0; 0] id, mk_markup [] [] [] args)
  end.

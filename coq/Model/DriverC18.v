(* Entry point of the extracted model for C18: run_c18 : sx -> sx.
   Opcodes (kept in sync with harness/props/C18.py):
     1 (nodes)   head_content( *nodes ), with the content hash instantiated by the identity
                 (the extracted model cannot compute SHA-1; the harness applies hashlib.sha1
                 to the returned content string and compares with the implementation's name)
                 -> (res content) (res (name (release) number-of-head-items))
                 where name = hc_prefix ++ content
     2 (nodes)   TagList( *nodes ).render(): tagify, then markup and resolved dependencies
                 -> (res html) (ids)
     3 (deps)    _resolve_dependencies(deps) -> (ids)
   A dependency travels as (name (release) id); results are lists of ids. *)
From HT Require Import Model.Str Model.Sx Model.Tree Model.Render Model.Codec Model.Deps
     Model.Tagify Model.HeadContent.

Definition n18_of_sx (x : sx) : option N := match x with A n => Some n | _ => None end.

Definition dep18_of_sx (x : sx) : option dep :=
  match x with
  | L [name; ver; A id] =>
    match str_of_sx name, list_of_sx n18_of_sx ver with
    | Some n, Some v => Some (mkdep n v id)
    | _, _ => None
    end
  | _ => None
  end.
Definition sx_dep18 (d : dep) : sx := L [sx_str (dname d); L (map A (dver d)); A (did d)].
Definition dnode18_of_sx := node_of_sx dep18_of_sx.
Definition sx_ids18 (l : list dep) : sx := L (map (fun d => A (did d)) l).

Definition sx_hdep (h : hdep dep) : sx :=
  L [sx_str (h_name h); L (map A (h_ver h)); sx_nat (length (h_head h))].

Definition run_c18 (x : sx) : sx :=
  match x with
  | L [A 1; L l] =>
    match map_opt dnode18_of_sx l with
    | Some args => L [sx_res sx_str (hc_render args);
                      sx_res sx_hdep (head_content (fun s => s) args)]
    | None => sx_bad
    end
  | L [A 2; L l] =>
    match map_opt dnode18_of_sx l with
    | Some l' =>
      let t := taglist_tagify l' in
      L [sx_res sx_str (list_html 0 [10] true true t); sx_ids18 (get_dependencies true t)]
    | None => sx_bad
    end
  | L [A 3; L l] =>
    match map_opt dep18_of_sx l with
    | Some l' => sx_ids18 (resolve l')
    | None => sx_bad
    end
  | _ => sx_bad
  end.

(* Entry point of the extracted model for C10: run_c10 : sx -> sx.
   Opcodes (kept in sync with harness/props/C10.py):
     1 dedup (nodes)   TagList.get_dependencies(dedup=)  -> (model ids) (spec ids)
     2 dedup node      Tag.get_dependencies(dedup)        -> res (ids)
     3 s1 s2           compare Version(s1), Version(s2)   -> () if not dotted digits,
                                                             else (c (release1) (release2))
     4 args            HTMLDependency(...) validation      -> (res obj) (spec error)
     5 (deps)          _resolve_dependencies               -> (model ids) (spec ids)
   A dependency travels as (name (release) id); results are lists of ids. *)
From HT Require Import Model.Str Model.Sx Model.Tree Model.Codec Model.Deps Spec.ResolveSpec.

Definition n_of_sx (x : sx) : option N := match x with A n => Some n | _ => None end.

Definition dep_of_sx (x : sx) : option dep :=
  match x with
  | L [name; ver; A id] =>
    match str_of_sx name, list_of_sx n_of_sx ver with
    | Some n, Some v => Some (mkdep n v id)
    | _, _ => None
    end
  | _ => None
  end.
Definition sx_dep (d : dep) : sx := L [sx_str (dname d); L (map A (dver d)); A (did d)].
Definition dnode_of_sx := node_of_sx dep_of_sx.
Definition sx_ids (l : list dep) : sx := L (map (fun d => A (did d)) l).

Definition keys_of_sx (x : sx) : option (list str) := list_of_sx str_of_sx x.
Definition sx_keys (k : list str) : sx := L (map sx_str k).

Definition item_of_sx (x : sx) : option item :=
  match x with
  | A _ => Some INonDict
  | L _ => option_map IDict (keys_of_sx x)
  end.
Definition src_of_sx (x : sx) : option src_arg :=
  match x with
  | A 0 => Some SrcNone
  | A 1 => Some SrcNonDict
  | L [k] => option_map SrcDict (keys_of_sx k)
  | _ => None
  end.
Definition arg_of_sx (x : sx) : option arg :=
  match x with
  | A 0 => Some ANone
  | A 1 => Some ANonIter
  | L [A 2; k] => option_map ADict (keys_of_sx k)
  | L [A 3; l] => option_map AIter (list_of_sx item_of_sx l)
  | _ => None
  end.
Definition args_of_sx (x : sx) : option dep_args :=
  match x with
  | L [name; ver; src; sc; st; me] =>
    match str_of_sx name, list_of_sx n_of_sx ver, src_of_sx src,
          arg_of_sx sc, arg_of_sx st, arg_of_sx me with
    | Some n, Some v, Some s, Some a1, Some a2, Some a3 => Some (mkargs n v s a1 a2 a3)
    | _, _, _, _, _, _ => None
    end
  | _ => None
  end.
Definition sx_obj (o : dep_obj) : sx :=
  L [sx_str (o_name o); L (map A (o_ver o)); sx_opt sx_keys (o_source o);
     L (map sx_keys (o_script o)); L (map sx_keys (o_stylesheet o)); L (map sx_keys (o_meta o))].

Definition sx_cmp (c : comparison) : sx :=
  A (match c with Lt => 0 | Eq => 1 | Gt => 2 end).

Definition run_c10 (x : sx) : sx :=
  match x with
  | L [A 1; dedup; L l] =>
    match bool_of_sx dedup, map_opt dnode_of_sx l with
    | Some b, Some l' => L [sx_ids (get_dependencies b l'); sx_ids (spec_get_dependencies b l')]
    | _, _ => sx_bad
    end
  | L [A 2; dedup; n] =>
    match bool_of_sx dedup, dnode_of_sx n with
    | Some b, Some n' => sx_res sx_ids (tag_get_dependencies b n')
    | _, _ => sx_bad
    end
  | L [A 3; s1; s2] =>
    match str_of_sx s1, str_of_sx s2 with
    | Some a, Some b =>
      match parse_ver a, parse_ver b with
      | Some va, Some vb => L [sx_cmp (ver_cmp va vb); L (map A va); L (map A vb);
                               sx_bool (ver_gtb va vb)]
      | _, _ => L []
      end
    | _, _ => sx_bad
    end
  | L [A 4; a] =>
    match args_of_sx a with
    | Some a' => L [sx_res sx_obj (mk_dep a'); sx_opt sx_err (spec_error a')]
    | None => sx_bad
    end
  | L [A 5; L l] =>
    match map_opt dep_of_sx l with
    | Some l' => L [sx_ids (resolve l'); sx_ids (spec_resolve l')]
    | None => sx_bad
    end
  | _ => sx_bad
  end.

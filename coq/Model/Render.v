(* Model of Tag.get_html_string / TagList.get_html_string (htmltools/_core.py).
   The output is produced as a list of pieces in exactly the order in which the Python
   code appends to its accumulator; the rendered string is their concatenation. *)
From HT Require Import Model.Str Model.Tree Model.Escape Gen.Tables.

Inductive piece :=
| PWs (s : str)                                  (* layout whitespace: an eol or an indentation *)
| POpen (name : str) (a : attrs) (blk : bool)     (* <name k="v" ...>                            *)
| PSelf (name : str) (a : attrs) (blk : bool)     (* <name k="v" .../>                           *)
| PClose (name : str) (blk : bool)                (* </name>                                     *)
| PTxt (s : str)                                 (* plain text s, written html_escape(s)        *)
| PRaw (s : str).                                (* s written as is                             *)

(* the attribute writer of Tag.get_html_string *)
Definition attr_str (kv : str * aval) : str :=
  [32] ++ fst kv ++ [61; 34]
  ++ match snd kv with AStr s => html_escape true s | AHtml s => s end
  ++ [34].
Definition attrs_str (a : attrs) : str := flat_map attr_str a.

Definition piece_str (p : piece) : str :=
  match p with
  | PWs s => s
  | POpen name a _ => [60] ++ name ++ attrs_str a ++ [62]
  | PSelf name a _ => [60] ++ name ++ attrs_str a ++ [47; 62]
  | PClose name _ => [60; 47] ++ name ++ [62]
  | PTxt s => html_escape false s
  | PRaw s => s
  end.
Definition pieces_str (ps : list piece) : str := flat_map piece_str ps.

Section Loop.
  Context {M : Type}.
  (* the renderer used for Tag children *)
  Variable rtag : nat -> str -> node M -> res (list piece).

  (* the `for child in self` loop of TagList.get_html_string; `first` = first_child,
     `prev` = prev_was_add_ws, `esc` = _escape_strings *)
  Fixpoint loop (indent : nat) (eol : str) (esc : bool) (first prev : bool)
           (l : list (node M)) {struct l} : res (list piece) :=
    match l with
    | [] => Ok []
    | c :: l' =>
      match c with
      | Meta _ => loop indent eol esc first prev l'
      | TagN _ cws _ _ =>
        let poc := prev || cws in
        let sep := if first then [] else if poc then [PWs eol] else [] in
        match (if poc then rtag indent eol c else rtag 0 [] c) with
        | Err e => Err e
        | Ok ps =>
          match loop indent eol esc false cws l' with
          | Err e => Err e
          | Ok rest => Ok (sep ++ ps ++ rest)
          end
        end
      | Custom None _ => Err NotTagified
      | Html s | Repr s | Custom (Some s) _ =>
        let sep := if first then [] else if prev then [PWs eol] else [] in
        let ind := if prev then [PWs (indent_str indent)] else [] in
        match loop indent eol esc false false l' with
        | Err e => Err e
        | Ok rest => Ok (sep ++ ind ++ [PRaw s] ++ rest)
        end
      | Text s =>
        let sep := if first then [] else if prev then [PWs eol] else [] in
        let ind := if prev then [PWs (indent_str indent)] else [] in
        match loop indent eol esc false false l' with
        | Err e => Err e
        | Ok rest => Ok (sep ++ ind ++ [if esc then PTxt s else PRaw s] ++ rest)
        end
      end
    end.
End Loop.

(* `len(children) == 1 and isinstance(children[0], (str, HTML))` and what is then written *)
Definition single_text {M} (noesc : bool) (children : list (node M)) : option piece :=
  match children with
  | [Text s] => Some (if noesc then PRaw s else PTxt s)
  | [Html s] => Some (PRaw s)
  | _ => None
  end.

Fixpoint render_tag {M} (indent : nat) (eol : str) (n : node M) {struct n}
  : res (list piece) :=
  match n with
  | TagN name ws a kids =>
    let ind := PWs (indent_str indent) in
    let children := filter (fun c => negb (is_meta c)) kids in
    let noesc := mem_str name no_escape_names in
    match children with
    | [] =>
      if mem_str name void_names then Ok [ind; PSelf name a ws]
      else Ok [ind; POpen name a ws; PClose name ws]
    | _ :: _ =>
      match single_text noesc children with
      | Some p => Ok [ind; POpen name a ws; p; PClose name ws]
      | None =>
        match loop render_tag (S indent) eol (negb noesc) true ws kids with
        | Err e => Err e
        | Ok body =>
          Ok ([ind; POpen name a ws]
                ++ (if ws then [PWs eol] else [])
                ++ body
                ++ (if ws then [PWs eol; PWs (indent_str indent)] else [])
                ++ [PClose name ws])
        end
      end
    end
  | _ => Err NotATag
  end.

(* TagList.get_html_string(indent, eol, add_ws=, _escape_strings=) *)
Definition render_list {M} (indent : nat) (eol : str) (add_ws esc : bool)
           (l : list (node M)) : res (list piece) :=
  loop render_tag indent eol esc true add_ws l.

Definition tag_html {M} (indent : nat) (eol : str) (n : node M) : res str :=
  res_map pieces_str (render_tag indent eol n).
Definition list_html {M} (indent : nat) (eol : str) (add_ws esc : bool)
           (l : list (node M)) : res str :=
  res_map pieces_str (render_list indent eol add_ws esc l).

(* C13  Serialised dependencies: string-level model of
     HTMLDependency.serialize_to_script_json   (json.dumps(...).replace(FROM, TO) inside a script tag)
     HTMLTextDocument._static_extract_serialized_html_deps   (re.findall / re.sub / dedup by text)
     HTMLTextDocument.render                                  (str.replace(pattern, markup, 1))
   and of the two standard-library string-literal routines involved (json.dumps with
   ensure_ascii=True, json.loads), at the level of one string literal.
   Definitions only.  The functions themselves are in Model/SerializeFns.v, parametrised by the
   literals; here they are instantiated with FROM, TO, OPENER, CLOSER from Gen.Tables, which is
   regenerated from /repo on every run. *)
From HT Require Import Model.Str Gen.Tables.
From HT Require Export Model.SerializeFns.

(* ---- json.dumps(...).replace(FROM, TO) with the literals of the code ------------------- *)
Definition neutralise (s : str) : str := neutralise_with neutralise_from neutralise_to s.

(* ---- the serialised element as the script Tag with the payload as its only child
        renders it: opening tag, raw payload, closing tag ---------------------------------- *)
Definition script_elem (payload : str) : str := extract_opener ++ payload ++ extract_closer.
Definition serialise_json (dumps_output : str) : str := script_elem (neutralise dumps_output).

(* ---- _static_extract_serialized_html_deps with the regex of the code, up to json.loads and
        the HTMLDependency constructor call of each kept payload ------------------------- *)
Definition extract (html : str) : str * list str := extract_with extract_opener extract_closer html.


(* C19: the Tag constructor seen from a generated wrapper function
   (htmltools/_core.py 657-681: name stored; _add_ws must be a bool, checked BEFORE the
   attributes are built; then attributes and children as in Model/Attrs.v tag_new).
   A wrapper whose def has the exact pass-through shape recorded by the translator
   (Gen.Tables rows with conforming = true) IS this constructor applied to its element-name
   literal, with its own default for _add_ws. *)
From HT Require Import Model.Str Model.Tree Model.Attrs Gen.Tables Model.TagTable.

Inductive wsarg := WBool (b : bool) | WOther.     (* the _add_ws argument: a bool, or not *)

Definition tag_ctor {C} (name : str) (args : list (posarg C)) (add_ws : wsarg) (kwargs : pydict)
  : res (str * bool * attrs * list C) :=
  match add_ws with
  | WOther => Err TypeError
  | WBool b =>
    match tag_new args kwargs with
    | Err e => Err e
    | Ok (a, kids) => Ok (name, b, a, kids)
    end
  end.

(* def f( *args, _add_ws=<default>, **kwargs): return Tag(<elem>, *args, _add_ws=_add_ws, **kwargs) *)
Definition wrapper {C} (r : row) (args : list (posarg C)) (add_ws : option wsarg) (kwargs : pydict)
  : res (str * bool * attrs * list C) :=
  tag_ctor (row_elem r) args
           (match add_ws with None => WBool (row_default_ws r) | Some w => w end) kwargs.

(* Model of htmltools._util.html_escape over the regenerated tables. *)
From HT Require Import Model.Str Gen.Tables.

(* `re.search("|".join(table), text)`: for single-character, regex-inert keys this is
   "some character of text is a key". *)
Definition has_key (table : list (N * str)) (s : str) : bool :=
  existsb (fun c => existsb (fun kv => N.eqb c (fst kv)) table) s.

(* for key, value in table.items(): text = text.replace(key, value) *)
Definition apply_table (table : list (N * str)) (s : str) : str :=
  fold_left (fun acc kv => replace1 (fst kv) (snd kv) acc) table s.

Definition html_escape_with (table : list (N * str)) (s : str) : str :=
  if has_key table s then apply_table table s else s.

Definition html_escape (attr : bool) (s : str) : str :=
  html_escape_with (if attr then attr_table else text_table) s.

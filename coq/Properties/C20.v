(* C20  JSX components convert purely and surface all dependencies.
   Statements only; proofs live in Proofs/JsxProofs.v.  Every theorem is closed by `exact`
   (or a short glue proof) and followed by Print Assumptions.

   Model (Model/Jsx.v): component trees  jnode / jval  (JComp = JSXTag, JTag = HTML Tag,
   JText = str, JMeta = MetadataNode, JTagifiable = object with tagify(), JOpaque = HTML()
   or other foreign object);  walk = _walk_attrs_and_children with
   tagify_tagifiable_and_get_metadata (returns the walked copy and the collected metadata
   ids);  render_node = _render_react_js;  serialize_val = _serialize_attr;  jsx_tagify =
   JSXTag.tagify;  jsx_new = JSXTag.__init__.
   Specification (Spec/JsAst.v): the JavaScript AST js, its printer print_js, the map to_js,
   the literal reader js_unquote, the declarative expansion expand and the pre-order
   metadata list metas_ref.
   This is the pure layer: object identity is not represented.  That the conversion leaves
   the component object graph unchanged is checked on the implementation by object-graph
   snapshots (harness/props/C20.py); here it reads: the walked copy is the expansion of the
   original, and the rendering is a function of that copy.
   direct_ok c: no tagifiable object expands directly to another bare tagifiable object
   (the Tagifiable protocol: tagify() returns a tag, a str, a metadata node, ...). *)
From HT Require Import Model.Str Model.Tree Model.Attrs Model.Render Model.Jsx Spec.JsAst
     Proofs.JsxProofs Gen.Tables.

(* ---- the walk ---------------------------------------------------------------------------- *)

(* The copy the walk produces is the original with every tagifiable object at a walked
   position replaced by its expansion (recursively), nothing else changed ... *)
Theorem C20_walk_pure_layer :
  forall c, direct_ok c = true -> fst (walk c) = expand c.
Proof. exact walk_copy. Qed.
Print Assumptions C20_walk_pure_layer.

(* ... which has no tagifiable object left, and is the original itself when there was
   nothing to expand. *)
Theorem C20_expand_fully :
  forall c, fully_tagified (expand c) = true /\ (fully_tagified c = true -> expand c = c).
Proof. intros c. split; [apply expand_fully|apply expand_id]. Qed.
Print Assumptions C20_expand_fully.

(* The collected list is the pre-order list of metadata nodes over children, nested tags and
   components, props whose value is directly a tag / component / metadata node / tagifiable
   object, and the expansions of tagifiable descendants; the walked copy holds the same
   metadata.  (Values nested inside list / dict props and HTML-tag attributes are not
   walked: metas_ref does not list them, and neither does the statement of C20.) *)
Theorem C20_metadata_complete :
  forall c, direct_ok c = true ->
  snd (walk c) = metas_ref c /\ metas_ref (fst (walk c)) = metas_ref c.
Proof.
  intros c H. split; [apply walk_metas; exact H|].
  rewrite (walk_copy c H). apply metas_expand.
Qed.
Print Assumptions C20_metadata_complete.

(* Modelling remark made a theorem: the walk stores each value back with x.attrs[key] = ...,
   which normalises key again; for the keys a JSXTagAttrDict holds this loop is the map the
   model uses. *)
Theorem C20_walk_store_is_map :
  forall f kwargs,
  let ps := jsx_props kwargs in
  fold_left (fun d kv => jset (norm_name (fst kv)) (f (snd kv)) d) ps ps =
  map (fun kv => (fst kv, f (snd kv))) ps.
Proof.
  intros f kwargs ps. apply walk_store_is_map; [apply jsx_props_NoDup|apply jsx_props_normalised].
Qed.
Print Assumptions C20_walk_store_is_map.

(* ---- the generated expression ------------------------------------------------------------ *)

(* _render_react_js is print_js after to_js, as strings, at every indentation and line
   break; where the tree has no JavaScript reading the renderer raises. *)
Theorem C20_js_mirror :
  forall n i eol,
  match to_js n with
  | Some j => render_node i eol n = Ok (print_js i eol j)
  | None => exists e, render_node i eol n = Err e
  end.
Proof. exact (proj2 mirror_all). Qed.
Print Assumptions C20_js_mirror.

(* the same for _serialize_attr on every prop value (scalars, lists / tuples, dicts, jsx,
   tags, foreign objects) *)
Theorem C20_js_mirror_values :
  forall v,
  match val_to_js v with
  | Some j => serialize_val v = Ok (print_js 0 [10] j)
  | None => exists e, serialize_val v = Err e
  end.
Proof. exact (proj1 mirror_all). Qed.
Print Assumptions C20_js_mirror_values.

(* what to_js makes of one component: React.createElement(name, props, kids) with each stored
   prop once, under its name, in order, and each child once, in order (a metadata child is
   the placeholder JsSkip, which prints nothing) *)
Theorem C20_js_mirror_shape :
  forall name props kids j,
  to_js (JComp name props kids) = Some j ->
  exists ps ks, j = JsCreate name ps ks /\
    map fst ps = map fst props /\
    Forall2 (fun kv p => prop_to_js val_to_js kv = Some p) props ps /\
    Forall2 (fun c k => to_js c = Some k) kids ks.
Proof. exact to_js_comp_shape. Qed.
Print Assumptions C20_js_mirror_shape.

(* strings free of backslashes and line breaks are written as literals denoting them *)
Theorem C20_js_string :
  forall s, forallb plain_char s = true -> js_unquote (js_quote s) = Some s.
Proof. exact js_string_roundtrip. Qed.
Print Assumptions C20_js_string.

(* CSS text given as style: declarations name:value joined by semicolons are read as the
   object of those declarations, in order (nothing is trimmed) *)
Theorem C20_style_css :
  forall ds,
  Forall (fun kv => ~ In 58 (fst kv) /\ ~ In 59 (fst kv) /\ ~ In 58 (snd kv) /\ ~ In 59 (snd kv)) ds ->
  NoDup (map fst ds) ->
  css_parse (join [59] (map css_decl ds)) = Ok ds.
Proof. exact css_parse_decls. Qed.
Print Assumptions C20_style_css.

(* ---- the script tag ----------------------------------------------------------------------- *)

(* tagify() returns: attrs type=text/javascript and data-needs-render (empty), one HTML child
   LF + wrapper + LF around the rendered copy, then react, react-dom, then the collected
   metadata, in that order *)
Theorem C20_script_shape :
  forall name props kids s,
  jsx_tagify (JComp name props kids) = Ok s ->
  sc_attrs s = [(s_type, AStr s_text_javascript); (s_data_needs_render, AStr [])] /\
  (exists comp, render_node 2 [10] (fst (walk (JComp name props kids))) = Ok comp /\
                sc_html s = [10] ++ wrapper name comp ++ [10]) /\
  react_deps_ok (sc_deps s) /\
  sc_metas s = snd (walk (JComp name props kids)).
Proof. exact tagify_shape. Qed.
Print Assumptions C20_script_shape.

(* it fails exactly when rendering the walked copy fails *)
Theorem C20_script_fails_iff :
  forall name props kids e,
  jsx_tagify (JComp name props kids) = Err e <->
  render_node 2 [10] (fst (walk (JComp name props kids))) = Err e.
Proof. exact tagify_err. Qed.
Print Assumptions C20_script_fails_iff.

(* end to end: for a component whose expansion has a JavaScript reading j, tagify() succeeds,
   the script text is the wrapper around print_js j, and the script carries exactly the
   pre-order metadata list of the component *)
Theorem C20_tagify_mirror :
  forall name props kids j,
  direct_ok (JComp name props kids) = true ->
  to_js (expand (JComp name props kids)) = Some j ->
  exists s, jsx_tagify (JComp name props kids) = Ok s /\
    sc_attrs s = script_attrs /\
    sc_html s = [10] ++ wrapper name (print_js 2 [10] j) ++ [10] /\
    react_deps_ok (sc_deps s) /\
    sc_metas s = metas_ref (JComp name props kids).
Proof. exact tagify_mirror. Qed.
Print Assumptions C20_tagify_mirror.

(* str(component) is one script element: open tag, the HTML child verbatim, close tag (the
   dependency and metadata children print nothing) *)
Theorem C20_str_one_script :
  forall s,
  tag_html 0 [10] (script_node s) =
  Ok (piece_str (POpen s_script (sc_attrs s) true) ++ sc_html s ++ piece_str (PClose s_script true)).
Proof. exact script_str. Qed.
Print Assumptions C20_str_one_script.

(* react then react-dom, script files present in htmltools/lib, versions pinned in
   _versions.py: over the tables regenerated from /repo *)
Theorem C20_react_files :
  map (fun d => fst (fst d)) jsx_lib_deps = [s_react; s_react_dom] /\
  forallb (fun d : str * str * bool => snd d) jsx_lib_deps = true /\
  forallb (fun d : str * str * bool =>
             match jget (fst (fst d)) lib_versions with
             | Some v => negb (is_nil v)
             | None => false
             end) jsx_lib_deps = true /\
  exists deps, lib_deps_res = Ok deps /\ react_deps_ok deps.
Proof.
  split; [vm_compute; reflexivity|]. split; [vm_compute; reflexivity|].
  split; [vm_compute; reflexivity|exact lib_deps_ok].
Qed.
Print Assumptions C20_react_files.

(* ---- construction -------------------------------------------------------------------------- *)

(* JSXTag(...) raises NotImplementedError iff the name starts (after its last dot) with a
   lower-case letter, or a RAW kwarg name is not in a non-empty allow-list; an empty / absent
   allow-list allows everything *)
Theorem C20_allowlist :
  forall name allowed kwargs kids,
  jsx_new name allowed kwargs kids = None <->
  first_changes_under_upper (last_piece name) = true \/
  (allowed <> [] /\ exists k, In k (map fst kwargs) /\ ~ In k allowed).
Proof. exact jsx_new_none. Qed.
Print Assumptions C20_allowlist.

(* each prop once under its normalised name: the stored names are the normalised raw names,
   distinct, in order of first occurrence; the value is the last one given for that name *)
Theorem C20_props_once :
  forall name allowed kwargs kids c,
  jsx_new name allowed kwargs kids = Some c ->
  c = JComp name (jsx_props kwargs) kids /\
  NoDup (map fst (jsx_props kwargs)) /\
  map fst (jsx_props kwargs) = first_occ (map norm_name (map fst kwargs)) /\
  (forall k, In k (map fst (jsx_props kwargs)) <-> exists raw, In raw (map fst kwargs) /\ norm_name raw = k) /\
  (forall k, jget k (jsx_props kwargs) = last_given k kwargs).
Proof.
  intros name allowed kwargs kids c H. split; [exact (jsx_new_some _ _ _ _ _ H)|].
  split; [apply jsx_props_NoDup|]. split; [apply jsx_props_keys|].
  split; [intros k; apply jsx_props_In|intros k; apply jsx_props_get].
Qed.
Print Assumptions C20_props_once.

(* ---- non-vacuity ---------------------------------------------------------------------------- *)
(* Foo(T(), div(T2(), dep1), p_q_=div(dep2), l=[dep3], s=a dquote b) with T().tagify() = dep0 and
   T2().tagify() = span(dep4, Bar()) *)
Definition ex_foo : str := [70; 111; 111].
Definition ex_div : str := [100; 105; 118].
Definition ex_tree : option jnode :=
  jsx_new ex_foo []
    [([112; 95; 113; 95], JNode (JTag ex_div [] [JMeta 2 []]));
     ([108], JList [JNode (JMeta 3 [])]);
     ([115], JStr [97; 34; 98])]
    [JTagifiable [84] (JMeta 0 []);
     JTag ex_div [] [JTagifiable [85] (JTag [115; 112; 97; 110] [] [JMeta 4 []; JComp [66; 97; 114] [] []]);
                     JMeta 1 []]].

Definition comp_keys_ex (c : jnode) : list str :=
  match c with JComp _ ps _ => map fst ps | _ => [] end.

Example C20_example_tree :
  match ex_tree with
  | Some c =>
    direct_ok c = true /\ fully_tagified c = false /\
    metas_ref c = [2; 0; 4; 1] /\
    (exists j, to_js (expand c) = Some j) /\
    (exists s, jsx_tagify c = Ok s /\ sc_metas s = [2; 0; 4; 1]) /\
    comp_keys_ex c = [[112; 45; 113]; [108]; [115]]
  | None => False
  end.
Proof.
  vm_compute. repeat split; try reflexivity; eexists; try split; reflexivity.
Qed.

(* a string with quotes round-trips; one ending in a backslash does not (the restriction of
   C20_js_string is needed: the code escapes only the double quote) *)
Example C20_example_string :
  forallb plain_char [97; 34; 98; 39; 8232] = true /\
  js_unquote (js_quote [97; 34; 98; 39; 8232]) = Some [97; 34; 98; 39; 8232] /\
  js_unquote (js_quote [97; 92]) = None /\
  js_unquote (js_quote [92; 110]) = Some [10].
Proof. vm_compute. repeat split; reflexivity. Qed.

(* the allow-list reads raw names: a_b is accepted by [a_b] and rejected by [a-b]; a
   lower-case name is rejected; no allow-list accepts everything *)
Example C20_example_allowlist :
  jsx_new ex_foo [[97; 95; 98]] [([97; 95; 98], JNone)] [] <> None /\
  jsx_new ex_foo [[97; 45; 98]] [([97; 95; 98], JNone)] [] = None /\
  jsx_new [97; 46; 102] [] [] [] = None /\
  jsx_new ex_foo [] [([97; 95; 98], JNone)] [] <> None.
Proof. vm_compute. repeat split; discriminate. Qed.

(* color:red; a:b  *)
Example C20_example_css :
  css_parse (join [59] (map css_decl [([99; 111; 108; 111; 114], [114; 101; 100]); ([32; 97], [98])])) =
  Ok [([99; 111; 108; 111; 114], [114; 101; 100]); ([32; 97], [98])] /\
  css_parse [97; 58; 98; 58; 99] = Err ValueError.
Proof. vm_compute. split; reflexivity. Qed.
